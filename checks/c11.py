"""C11 - one total order governs comparison, sorting, grouping and key order.

spec        : OrderMC.tla - Cmp is reflexive, antisymmetric, transitive, Cmp(a,b) = -Cmp(b,a) and the six operators are its
              projections over ALL ordered triples of a 200-value universe (quick: 90); the order-based natives obey their laws
              (stable ordered permutation, unique, group_by partition, first/last extreme, bsearch) on all arrays of length <= 3.
conformance : all ordered pairs of the universe through gojq.Compare in 7 pairs of Go number representations (pointwise = Cmp);
              the six operators and every consumer (sort, sort_by, group_by, unique, unique_by, min, max, min_by, max_by, bsearch,
              array subtraction, index/indices, keys, object iteration, key order of tojson) on arrays of universe values
              (many ties, up to 24 elements) validated by TLC against Builtins.tla through JqSem.
"""
import random

import evalfam
import jqgen
import vcheck as vc

PROP = "C11"
REPS = ["native", "big", "json.Number", "float64"]

CONSUMERS = [
    ".xs | sort", ".xs | sort_by(.)", ".ts | sort_by(.[0])", ".ts | sort_by(.[0]) | map(.[1])", ".ts | group_by(.[0])", ".ts | group_by(.[0]) | map(map(.[1]))",
    ".xs | unique", ".ts | unique_by(.[0])", ".ts | unique_by(.[0]) | map(.[1])", ".xs | min", ".xs | max", ".ts | min_by(.[0])", ".ts | max_by(.[0])",
    ".x as $x | .xs | sort | bsearch($x)", ".x as $x | .xs | unique | bsearch($x)", ".x as $x | .xs | bsearch($x)" if False else ".xs | sort | . as $s | [$s[] as $e | $s | bsearch($e)]",
    ".ys as $ys | .xs - $ys", ".x as $x | .xs | index($x)", ".x as $x | .xs | rindex($x)", ".x as $x | .xs | indices($x)", ".ys as $ys | .xs | indices($ys[:2])",
    ".o | keys", ".o | [.[]]", ".o | tojson", ".o | to_entries | map(.key)", ".o | keys_unsorted" if False else ".o | [paths]", ".xs | sort | . == (. | sort)", ".xs | unique == (sort | [foreach .[] as $e ({p: null, f: true}; {p: $e, f: (.f or .p != $e), o: $e}; select(.f) | .o)])" if False else ".xs | (unique | length) <= length",
    ".xs | [.[0] < .[1], .[0] <= .[1], .[0] > .[1], .[0] >= .[1], .[0] == .[1], .[0] != .[1]]", ".xs | [limit(3; .[])] | sort", ".xs | [.[] | [.]] | sort | map(.[0])",
    ".xs | map({a: .}) | sort | map(.a)", ".xs | map({a: .}) | unique | map(.a)", ".xs | [min, max] == [sort[0], sort[-1]]", ".ts | [min_by(.[0]), max_by(.[0])] == [sort_by(.[0])[0], sort_by(.[0])[-1]]" if False else ".ts | min_by(.[0]) == sort_by(.[0])[0]",
    ".xs | sort | reverse | sort", ".xs | tojson", "[.xs[] as $a | .ys[] as $b | $a < $b]", ".xs | group_by(.) | map(length)", ".xs | unique | length", ".xs | [.[] | type] | unique",
]


def run(tier, seed, replay):
    rep = vc.Report(PROP, tier, seed)
    rep.assumptions += ["the universe is NaN-free with floating-point magnitudes below 2^53 (the property's domain)", "numbers are ONE mathematical value in the model; representations vary on the Go side only"]
    vh, _ = vc.build()
    work = vc.Work(PROP)
    try:
        prelude = evalfam.make_prelude(work, vh)
        if replay:
            evalfam.replay_file(rep, work, vh, prelude, replay)
            return rep.finish(min_decided=0)
        r = random.Random(seed)
        quick = tier == "quick"
        uni = jqgen.order_universe(90 if quick else 200)
        sub = [jqgen.V(x) for x in jqgen.SUB_UNIVERSE]
        vc.write_ndjson(work.path("u.ndjson"), uni)
        vc.write_ndjson(work.path("su.ndjson"), sub)
        env = {"VERIF_UNIVERSE": work.path("u.ndjson"), "VERIF_SUBUNIVERSE": work.path("su.ndjson")}
        # 1. the laws on the specification
        res = vc.tlc(work.dir, "OrderMC.tla", "OrderMC.cfg", env=env, workers=vc.NCPU, timeout=3000, xmx="6g")
        rep.add_tlc(res)
        if not res.ok():
            raise vc.ToolError("OrderMC does not hold on the specification:\n" + vc.tlc_error_text(res))
        rep.cov["universe"] = len(uni)
        rep.cov["triples_checked_on_spec"] = len(uni) ** 3
        rep.cov["exhaustive"] = True
        # 2. pointwise conformance of gojq.Compare on all ordered pairs x representations
        vc.sh([vh, "cmp", "-in", work.path("u.ndjson"), "-out", work.path("cmp.ndjson")], timeout=900)
        e2 = dict(env, VERIF_TRACE=work.path("cmp.ndjson"), VERIF_OUT=work.path("cmp.verdict"))
        res = vc.tlc(work.dir, "ValidateOrder.tla", "ValidateOrder.cfg", env=e2, timeout=1800)
        rep.add_tlc(res)
        if not res.ok():
            raise vc.ToolError("ValidateOrder failed:\n" + vc.tlc_error_text(res))
        for v in vc.read_ndjson(work.path("cmp.verdict")):
            n = len(uni) ** 2
            rep.count("evaluations", n)
            if v["bad"]:
                for (i, j, got, want) in v["bad"][:3]:
                    if i == 0:
                        rep.violation("gojq.Compare panicked on the universe (representations %s)" % v["reps"], {"family": "cmp", "case": {"reps": v["reps"]}})
                        continue
                    a, b = uni[i - 1], uni[j - 1]
                    rep.violation("gojq.Compare(%s as %s, %s as %s) = %d, the order says %d" % (evalfam.show(a), REPS[v["reps"][0]], evalfam.show(b), REPS[v["reps"][1]], got, want),
                                  {"family": "cmp", "case": {"a": a, "b": b, "reps": v["reps"]}, "actual": got, "expected": want})
            else:
                rep.count("traces_validated_against_impl", n)
                rep.nontrivial(["cmp-matrix", v["reps"]])
        # 3. consumers
        cases = []
        pool = uni[:70]
        for _ in range(350 if quick else 6000):
            n = r.choice([0, 1, 2, 3, 5, 8, 13, 16, 20, 24])
            few = r.sample(pool, r.choice([2, 3, 5, 8]))          # many ties
            xs = [r.choice(few) for _ in range(n)]
            ts = [{"t": "arr", "a": [x, jqgen.V(i)]} for i, x in enumerate(xs)]
            ys = [r.choice(few + r.sample(pool, 2)) for _ in range(r.randrange(4))]
            keys = r.sample(["a", "b", "aa", "B", "", "é", "10", "9", "ab", "z", "~"], r.randrange(6))
            o = {"t": "obj", "o": sorted([[[ord(c) for c in k], r.choice(few)] for k in keys])}
            inp = {"t": "obj", "o": [[[111], o], [[116, 115], {"t": "arr", "a": ts}], [[120], r.choice(few)], [[120, 115], {"t": "arr", "a": xs}], [[121, 115], {"t": "arr", "a": ys}]]}
            for q in r.sample(CONSUMERS, 6 if quick else 10):
                cases.append({"id": len(cases), "src": q, "inputs": [inp]})
        counters = evalfam.check_cases(rep, work, vh, prelude, cases, timeout=1500, per_shard_min=30)
        rep.cov["consumer_verdicts"] = counters
        rep.cov["rule"] = ("pairs: all ordered pairs of the universe x 7 representation pairs through gojq.Compare; consumers: arrays (0..24 elements, many ties, tagged for stability) "
                           "through every order-based builtin; non-trivial = consumer case whose spec result is non-empty, or a whole matrix")
        return rep.finish()
    finally:
        work.cleanup()
