"""C11 - one total order governs comparison, sorting, grouping and key order.

spec        : OrderMC.tla - Cmp is reflexive, antisymmetric, transitive, Cmp(a,b) = -Cmp(b,a) and the six operators are its
              projections over ALL ordered triples of a 200-value universe (quick: 90); the order-based natives obey their laws
              (stable ordered permutation, unique, group_by partition, first/last extreme, bsearch) on all arrays of length <= 3.
conformance : all ordered pairs of the universe through gojq.Compare in 7 pairs of Go number representations (pointwise = Cmp);
              the six operators and every consumer (sort, sort_by, group_by, unique, unique_by, min, max, min_by, max_by, bsearch,
              array subtraction, index/indices, keys, object iteration, key order of tojson) on arrays of universe values
              (many ties, up to 24 elements) validated by TLC against Builtins.tla through JqSem.
"""
import json
import random

import evalfam
import jqgen
import vcheck as vc

PROP = "C11"
REPS = ["native", "big", "json.Number", "float64", "?", "?", "?", "?", "?", "native (sharing memory with the other operand where one is a prefix of / equal to the other)", "the same, nested one level down"]

CONSUMERS = [
    ".xs | sort", ".xs | sort_by(.)", ".ts | sort_by(.[0])", ".ts | sort_by(.[0]) | map(.[1])", ".ts | group_by(.[0])", ".ts | group_by(.[0]) | map(map(.[1]))",
    ".xs | unique", ".ts | unique_by(.[0])", ".ts | unique_by(.[0]) | map(.[1])", ".xs | min", ".xs | max", ".ts | min_by(.[0])", ".ts | max_by(.[0])",
    ".x as $x | .xs | sort | bsearch($x)", ".x as $x | .xs | unique | bsearch($x)", ".x as $x | .xs | bsearch($x)" if False else ".xs | sort | . as $s | [$s[] as $e | $s | bsearch($e)]",
    ".ys as $ys | .xs - $ys", ".x as $x | .xs | index($x)", ".x as $x | .xs | rindex($x)", ".x as $x | .xs | indices($x)", ".ys as $ys | .xs | indices($ys[:2])",
    ".o | keys", ".o | [.[]]", ".o | tojson", ".o | to_entries | map(.key)", ".o | keys_unsorted" if False else ".o | [paths]", ".xs | sort | . == (. | sort)", ".xs | unique == (sort | [foreach .[] as $e ({p: null, f: true}; {p: $e, f: (.f or .p != $e), o: $e}; select(.f) | .o)])" if False else ".xs | (unique | length) <= length",
    ".xs | [.[0] < .[1], .[0] <= .[1], .[0] > .[1], .[0] >= .[1], .[0] == .[1], .[0] != .[1]]", ".xs | [limit(3; .[])] | sort", ".xs | [.[] | [.]] | sort | map(.[0])",
    ".xs | map({a: .}) | sort | map(.a)", ".xs | map({a: .}) | unique | map(.a)", ".xs | [min, max] == [sort[0], sort[-1]]", ".ts | [min_by(.[0]), max_by(.[0])] == [sort_by(.[0])[0], sort_by(.[0])[-1]]" if False else ".ts | min_by(.[0]) == sort_by(.[0])[0]",
    # keys that are LISTS of outputs (f may yield nothing, one or several values per element): [] < [x] < [x, y], never unwrapped
    ".xs | sort_by(.[]?)", ".xs | group_by(.[]?)", ".xs | unique_by(.[]?)", ".xs | min_by(.[]?)", ".xs | max_by(.[]?)", ".ts | sort_by(.[0][]?) | map(.[1])", ".ts | sort_by(.[0] | numbers, strings) | map(.[1])",
    ".ts | sort_by(.[0] // empty) | map(.[1])", ".ts | sort_by(.[0], .[1]) | map(.[1])", ".ts | group_by(.[0] | arrays | .[]) | map(map(.[1]))", ".ts | sort_by(.[0] | select(type == \"number\" or type == \"array\")) | map(.[1])",
    ".ts | unique_by(.[0][]?) | map(.[1])", ".ts | [min_by(.[0][]?), max_by(.[0][]?)] | map(.[1]?)", ".xs | map([.]) | sort_by(.[]) == (map(.[0]) | sort | map([.]))", ".xs | sort_by(empty) == .", ".xs | sort_by(., .) == sort",
    # array subtraction against long right operands (more than any small-size fast path would skip)
    ".ys as $ys | .xs - ($ys + $ys + $ys + $ys + $ys + $ys + [range(100; 112)])", ".xs - (.xs[:1] + [range(100; 120)])", ".xs - (.xs | reverse | .[:2] + [range(20)] + .[2:])",
    ".xs | sort | reverse | sort", ".xs | tojson", "[.xs[] as $a | .ys[] as $b | $a < $b]", ".xs | group_by(.) | map(length)", ".xs | unique | length", ".xs | [.[] | type] | unique",
]


def run(tier, seed, replay):
    rep = vc.Report(PROP, tier, seed)
    rep.assumptions += ["the universe is NaN-free with floating-point magnitudes below 2^53 (the property's domain)", "numbers are ONE mathematical value in the model; representations vary on the Go side only"]
    vh, _ = vc.build()
    work = vc.Work(PROP)
    try:
        prelude = evalfam.make_prelude(work, vh)
        if replay:
            evalfam.replay_file(rep, work, vh, prelude, replay)
            return rep.finish(min_decided=0)
        r = random.Random(seed)
        quick = tier == "quick"
        uni = jqgen.order_universe(90 if quick else 200)
        sub = [jqgen.V(x) for x in jqgen.SUB_UNIVERSE]
        vc.write_ndjson(work.path("u.ndjson"), uni)
        vc.write_ndjson(work.path("su.ndjson"), sub)
        env = {"VERIF_UNIVERSE": work.path("u.ndjson"), "VERIF_SUBUNIVERSE": work.path("su.ndjson")}
        # 1. the laws on the specification
        res = vc.tlc(work.dir, "OrderMC.tla", "OrderMC.cfg", env=env, workers=vc.NCPU, timeout=3000, xmx="6g")
        rep.add_tlc(res)
        if not res.ok():
            raise vc.ToolError("OrderMC does not hold on the specification:\n" + vc.tlc_error_text(res))
        rep.cov["universe"] = len(uni)
        rep.cov["triples_checked_on_spec"] = len(uni) ** 3
        rep.cov["exhaustive"] = True
        # 2. pointwise conformance of gojq.Compare on all ordered pairs x representations
        vc.sh([vh, "cmp", "-in", work.path("u.ndjson"), "-out", work.path("cmp.ndjson")], timeout=900)
        e2 = dict(env, VERIF_TRACE=work.path("cmp.ndjson"), VERIF_OUT=work.path("cmp.verdict"))
        res = vc.tlc(work.dir, "ValidateOrder.tla", "ValidateOrder.cfg", env=e2, timeout=1800)
        rep.add_tlc(res)
        if not res.ok():
            raise vc.ToolError("ValidateOrder failed:\n" + vc.tlc_error_text(res))
        for v in vc.read_ndjson(work.path("cmp.verdict")):
            n = len(uni) ** 2
            rep.count("evaluations", n)
            if v["bad"]:
                for (i, j, got, want) in v["bad"][:3]:
                    if i == 0:
                        rep.violation("gojq.Compare panicked on the universe (representations %s)" % v["reps"], {"family": "cmp", "case": {"reps": v["reps"]}})
                        continue
                    a, b = uni[i - 1], uni[j - 1]
                    rep.violation("gojq.Compare(%s as %s, %s as %s) = %d, the order says %d" % (evalfam.show(a), REPS[v["reps"][0]], evalfam.show(b), REPS[v["reps"][1]], got, want),
                                  {"family": "cmp", "case": {"a": a, "b": b, "reps": v["reps"]}, "actual": got, "expected": want})
            else:
                rep.count("traces_validated_against_impl", n)
                rep.nontrivial(["cmp-matrix", v["reps"]])
        # 3. consumers
        cases = []
        pool = uni[:70]
        for _ in range(350 if quick else 15000):
            n = r.choice([0, 1, 2, 3, 5, 8, 13, 16, 20, 24])
            few = r.sample(pool, r.choice([2, 3, 5, 8]))          # many ties
            xs = [r.choice(few) for _ in range(n)]
            ts = [{"t": "arr", "a": [x, jqgen.V(i)]} for i, x in enumerate(xs)]
            ys = [r.choice(few + r.sample(pool, 2)) for _ in range(r.randrange(4))]
            keys = r.sample(["a", "b", "aa", "B", "", "é", "10", "9", "ab", "z", "~"], r.randrange(6))
            o = {"t": "obj", "o": sorted([[[ord(c) for c in k], r.choice(few)] for k in keys])}
            inp = {"t": "obj", "o": [[[111], o], [[116, 115], {"t": "arr", "a": ts}], [[120], r.choice(few)], [[120, 115], {"t": "arr", "a": xs}], [[121, 115], {"t": "arr", "a": ys}]]}
            for q in r.sample(CONSUMERS, 9 if quick else 14):
                # the same value universe carried natively, as *big.Int and as json.Number (the carriers the decoders and --argjson hand over): the
                # consumers of the order compare through gojq.Compare whatever carries the numbers
                cases.append({"id": len(cases), "src": q, "inputs": [inp], "rep": r.choice([0, 0, 1, 2, 2])})
        # integers that differ only beyond the precision of a double (neighbours of 2^53, 2^63, 10^22): every consumer, every carrier
        near = [2 ** 53 - 1, 2 ** 53, 2 ** 53 + 1, 2 ** 53 + 2, 2 ** 53 + 3, 2 ** 63 - 1, 2 ** 63, 2 ** 63 + 1, 10 ** 22, 10 ** 22 + 1, 10 ** 22 + 2, -(2 ** 53) - 1, -(2 ** 53) - 2, -(10 ** 22) - 1]
        for _ in range(40 if quick else 1500):
            xs = r.sample(near, r.choice([3, 5, 8]))
            for x in r.sample(near, 3):
                ts = [{"t": "arr", "a": [jqgen.V(v), jqgen.V(i)]} for i, v in enumerate(xs)]
                inp = jqgen.V({"o": {}, "x": x, "xs": xs, "ys": r.sample(near, 2)})
                inp["o"] = [kv if kv[0] != [116, 115] else kv for kv in inp["o"]] + [[[116, 115], {"t": "arr", "a": ts}]]
                inp["o"].sort(key=lambda kv: kv[0])
                for q in (".x as $x | .xs | sort | bsearch($x)", ".x as $x | .xs | index($x)", ".x as $x | .xs | indices($x)", ".xs | sort", ".xs | unique", ".xs | [min, max]", ".ys as $ys | .xs - $ys", ".xs | group_by(.) | map(length)",
                          ".ts | sort_by(.[0]) | map(.[1])", ".x as $x | .xs | map(. < $x, . == $x)", ".xs | sort | . as $s | [$s[] as $e | $s | bsearch($e)]"):
                    cases.append({"id": len(cases), "src": q, "inputs": [inp], "rep": r.choice([0, 1, 2, 2])})
        counters = evalfam.check_cases(rep, work, vh, prelude, cases, timeout=1500, per_shard_min=30)
        rep.cov["consumer_verdicts"] = counters
        # 4. which of several EQUAL elements: the elements are number literals of equal value and different spelling (1, 1.0, 1e0, 10e-1 ...),
        #    read with their spelling kept; the consumer of the order runs on them on the real code; its outputs are mapped back to element
        #    indices; the specification evaluates the index form of the same law (to_entries ... .key) on the plain values.
        SPELL = {0: ["0", "0.0", "0e0", "0.00"], 1: ["1", "1.0", "1.00", "1e0", "10e-1", "0.1e1"], 2: ["2", "2.0", "2e0", "20e-1", "0.2e1"], -1: ["-1", "-1.0", "-1e0", "-10e-1"], 1.5: ["1.5", "1.50", "15e-1", "0.15e1"], 10: ["10", "10.0", "1e1", "1.0e1"]}
        LAWS = [("sort", "to_entries | sort_by(.value) | map(.key)", "list"), ("sort_by(.)", "to_entries | sort_by(.value) | map(.key)", "list"), ("sort_by(-.)", "to_entries | sort_by(-.value) | map(.key)", "list"),
                ("min", "to_entries | min_by(.value) | .key", "one"), ("max", "to_entries | max_by(.value) | .key", "one"), ("min_by(.)", "to_entries | min_by(.value) | .key", "one"), ("max_by(.)", "to_entries | max_by(.value) | .key", "one"),
                ("min_by(-.)", "to_entries | min_by(-.value) | .key", "one"), ("max_by(-.)", "to_entries | max_by(-.value) | .key", "one"), ("group_by(.)", "to_entries | group_by(.value) | map(map(.key))", "groups"),
                ("group_by(-.)", "to_entries | group_by(-.value) | map(map(.key))", "groups"), ("[.[] | select(. == 1)]", "to_entries | map(select(.value == 1) | .key)", "list"), ("(sort | first), (sort | last)", "to_entries | sort_by(.value) | (first, last) | .key", "ones"),
                (". - [1]", "to_entries | map(select(.value != 1) | .key)", "list"), (". - [1, range(100; 120)]", "to_entries | map(select(.value != 1) | .key)", "list"),
                (". - [0, 1.5, 10, range(100; 120)]", "to_entries | map(select(.value != 0 and .value != 1.5 and .value != 10) | .key)", "list"), (". - [range(100; 130), 2, -1]", "to_entries | map(select(.value != 2 and .value != -1) | .key)", "list"),
                (". - [range(-1; 17)]", "to_entries | map(select(.value == 1.5) | .key)", "list"), ("sort_by(., .)", "to_entries | sort_by(.value) | map(.key)", "list"), ("sort_by(select(. != 1))", "to_entries | sort_by(.value | select(. != 1)) | map(.key)", "list"),
                ("group_by(select(. > 0))", "to_entries | group_by(.value | select(. > 0)) | map(map(.key))", "groups"),
                ("[limit(3; sort[])]", "to_entries | sort_by(.value) | map(.key) | .[:3]", "list"), ("reverse | max", "to_entries | reverse | max_by(.value) | .key", "one"), ("reverse | min", "to_entries | reverse | min_by(.value) | .key", "one")]
        tcases, scases = [], []
        for _ in range(120 if quick else 10000):
            vals = [r.choice(list(SPELL)) for _ in range(r.choice([2, 3, 4, 5, 6, 8]))]
            used, lits = set(), []
            for v in vals:
                cand = [x for x in SPELL[v] if x not in used]
                if not cand:
                    break
                lits.append(r.choice(cand))
                used.add(lits[-1])
            if len(lits) != len(vals):
                continue
            for q, law, shape in r.sample(LAWS, 7 if quick else 12):
                tcases.append({"id": len(tcases), "src": q, "text": "[" + ",".join(lits) + "]", "lits": lits, "shape": shape})
                scases.append({"id": len(scases), "src": law, "inputs": [jqgen.V(vals)]})
        vc.write_ndjson(work.path("ties.cases"), tcases)
        vc.sh([vh, "ties", "-in", work.path("ties.cases"), "-out", work.path("ties.out")], timeout=900)
        tres = {x["id"]: x for x in vc.read_ndjson(work.path("ties.out"))}
        srecs = evalfam.replay(work, vh, scases, tag="tiespec")
        recs2, meta = [], []
        for tc, srec in zip(tcases, srecs):
            x = tres.get(tc["id"], {})
            rep.count("evaluations")
            if x.get("panic"):
                rep.violation("panic: %s in %r on %s" % (x["panic"], tc["src"], tc["text"]), {"family": "ties", "case": tc, "actual": x})
                continue
            if "runs" not in srec or "out" not in x or x.get("err"):
                rep.count("out_of_model")
                continue
            ix = {l: i for i, l in enumerate(tc["lits"])}
            try:
                outs = [json.loads(o, parse_float=str, parse_int=str) for o in x["out"]]

                def back(o):
                    if isinstance(o, list):
                        return [back(e) for e in o]
                    return ix[o]
                # the literal spellings are read back as strings (parse_float/parse_int = str): each names one element
                mapped = [back(o) for o in outs]
            except Exception:
                rep.violation("%r on %s returned something that is not made of the input's elements: %s" % (tc["src"], tc["text"], x["out"]), {"family": "ties", "case": tc, "actual": x})
                continue
            srec = dict(srec)
            run0 = {k: v for k, v in srec["runs"][0].items() if k not in ("err", "panic", "long")}
            srec["runs"] = [dict(run0, out=[jqgen.V(m) for m in mapped])]
            recs2.append(srec)
            meta.append((tc, x, mapped))
        verdicts, stats = vc.validate_sharded(work, recs2, "ValidateEval.tla", "ValidateEval.cfg", {"VERIF_PRELUDE": prelude}, tag="ties", timeout=900, per_shard_min=40)
        rep.add_tlc(stats)
        for (tc, x, mapped), v in zip(meta, verdicts):
            if "tlc" in v or v["runs"][0]["v"] in ("oom", "long"):
                rep.count("out_of_model")
            elif v["runs"][0]["v"] == "agree":
                rep.count("traces_validated_against_impl")
                rep.nontrivial(["ties", tc["src"], tc["text"]])
            else:
                exp = [jqgen.unV(e) for e in v["runs"][0]["exp"]["o"]]
                rep.violation("%r on %s returns %s, i.e. the elements number %s (0-based); the order laws (first / last extreme, stable permutation, groups in input order) say %s" % (
                    tc["src"], tc["text"], x["out"], mapped, exp), {"family": "ties", "case": tc, "actual": x["out"], "expected": exp})
        rep.cov["rule"] = ("pairs: all ordered pairs of the universe x 7 representation pairs through gojq.Compare; consumers: arrays (0..24 elements, many ties, tagged for stability) "
                           "through every order-based builtin; non-trivial = consumer case whose spec result is non-empty, or a whole matrix")
        return rep.finish()
    finally:
        work.cleanup()
