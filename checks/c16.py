"""C16 - input modes and argument flags mean what their in-language equivalents mean.

design level  : TLC model-checks StreamMC.tla (cli/stream.go over every small stream, cut after every
                byte), InputsMC.tla (iterator stack + run loop + input/inputs over every small layout of
                sources x modes x queries) and ArgsMC.tla (parseFlags over every short argv).
model -> code : StreamGen.tla enumerates the StreamMC universe; every stream is run through the REAL
                build/gojq with --stream, whole and cut after every byte (plus tostream / fromstream forms).
code -> model : seeded random invocations of the real binary (multi-document streams with arbitrary
                white space / key order / escapes, truncated or with one byte changed, split over files
                and standard input, x -n -s -R --stream combinations x queries using input/inputs x
                --arg/--argjson/--slurpfile/--rawfile/--args/--jsonargs/-f) are validated by
                ValidateC16.tla, which computes what the command must print from the bytes alone.
"""
import concurrent.futures as cf
import json
import os
import random

import vcheck as vc

PROP = "C16"
FID_LENIENT = "F-C16-argjson-lenient"


# ---------------------------------------------------------------------------
# values and queries

def V(x):
    if x is None:
        return {"t": "null"}
    if x is True or x is False:
        return {"t": "bool", "b": x}
    if isinstance(x, int):
        return {"t": "num", "n": x}
    if isinstance(x, str):
        return {"t": "str", "s": [ord(c) for c in x]}
    if isinstance(x, list):
        return {"t": "arr", "a": [V(e) for e in x]}
    raise ValueError(x)


def unV(v):
    t = v.get("t")
    if t == "null":
        return None
    if t == "bool":
        return v["b"]
    if t == "num":
        return v["n"]
    if t == "big":
        n = int("".join(map(str, v["d"])))
        return -n if v["neg"] else n
    if t == "frac":
        return v["n"] / v["d"]
    if t == "str":
        return "".join(chr(c) for c in v["s"])
    if t == "arr":
        return [unV(e) for e in v["a"]]
    if t == "obj":
        return {"".join(chr(c) for c in k): unV(e) for k, e in v["o"]}
    return "<%s>" % json.dumps(v)


def lit_text(x):
    """compact JSON of a literal, exactly as Text.tla JsonText spells it (ASCII letters, small ints only)"""
    return json.dumps(x, separators=(",", ":"))


DOT = {"op": "dot"}
INPUT = {"op": "input"}
INPUTS = {"op": "inputs"}
EMPTY = {"op": "empty"}


def lit(x):
    return {"op": "lit", "c": V(x), "_py": x}


def comma(l, r):
    return {"op": "comma", "l": l, "r": r}


def collect(b):
    return {"op": "collect", "b": b}


def first(b):
    return {"op": "first", "b": b}


def drain(b):
    return {"op": "drain", "b": b}


def limit(n, b):
    return {"op": "limit", "n": n, "b": b}


def tryc(b, h="h"):
    return {"op": "try", "b": b, "h": V(h), "_py": h}


def var(n):
    return {"op": "var", "n": n}


def render(e, words):
    """the jq text of a query; ValidateC16.tla Render must produce the same bytes"""
    op = e["op"]
    if op == "dot":
        return "."
    if op in ("input", "inputs", "empty", "tostream"):
        return op
    if op == "lit":
        return lit_text(e["_py"])
    if op == "var":
        return "$ARGS" if e["n"] == "ARGS" else "$" + words[e["n"]].decode()
    if op == "comma":
        return "(" + render(e["l"], words) + "," + render(e["r"], words) + ")"
    if op == "collect":
        return "[" + render(e["b"], words) + "]"
    if op == "try":
        return "(try " + render(e["b"], words) + " catch " + lit_text(e["_py"]) + ")"
    if op == "first":
        return "first(" + render(e["b"], words) + ")"
    if op == "limit":
        return "limit(%d;%s)" % (e["n"], render(e["b"], words))
    if op == "drain":
        return "(" + render(e["b"], words) + "|empty)"
    if op == "fromstream":
        return "fromstream(" + render(e["b"], words) + ")"
    raise ValueError(op)


def strip(e):
    """the AST as the trace carries it (without the python-side helper fields)"""
    if isinstance(e, dict):
        return {k: strip(v) for k, v in e.items() if not k.startswith("_")}
    return e


def rand_query(r, depth, atoms=None):
    atoms = atoms or [DOT, DOT, INPUT, INPUTS, INPUT, INPUTS, EMPTY, lit(7), lit("k")]
    if depth <= 0 or r.random() < 0.25:
        return r.choice(atoms)
    k = r.randrange(8)
    if k <= 2:
        return comma(rand_query(r, depth - 1, atoms), rand_query(r, depth - 1, atoms))
    if k == 3:
        return collect(rand_query(r, depth - 1, atoms))
    if k == 4:
        return first(rand_query(r, depth - 1, atoms))
    if k == 5:
        return tryc(rand_query(r, depth - 1, atoms), r.choice(["h", "E"]))
    if k == 6:
        return limit(r.choice([0, 1, 1, 2, 2, 3]), rand_query(r, depth - 1, atoms))
    return drain(rand_query(r, depth - 1, atoms))


# ---------------------------------------------------------------------------
# JSON text

WS = [b"", b"", b" ", b"\n", b"\t", b"\r\n", b"  ", b" \n "]
SEPS = [b" ", b"\n", b"\n", b"\t", b"\r\n", b"  \n", b"", b"\n\n"]
CHARS = ["a", "b", "c", "x", "y", "z", " ", "0", "-", "_", "é", "日", "\U0001F600", "\n", "\t", '"', "\\", "/", "A"]
NUMS = ["0", "1", "2", "7", "-1", "-0", "10", "42", "123", "-305", "1073741823", "1073741824", "4294967296",
        "-9007199254740993", "123456789012345678901234567890", "1.5", "-2.25", "0.5", "3.0", "1e2", "1E+2", "25e-1", "0.125"]


def rand_string(r):
    return "".join(r.choice(CHARS[:10] if r.random() < 0.7 else CHARS) for _ in range(r.choice([0, 1, 1, 2, 3, 5])))


def enc_string(r, s):
    out = ['"']
    for ch in s:
        o = ord(ch)
        if ch == '"':
            out.append('\\"')
        elif ch == "\\":
            out.append("\\\\")
        elif ch == "\n":
            out.append("\\n")
        elif ch == "\t":
            out.append(r.choice(["\\t", "\\u0009"]))
        elif ch == "/":
            out.append(r.choice(["/", "\\/"]))
        elif o < 0x10000 and r.random() < 0.15:
            out.append("\\u%04x" % o if r.random() < 0.5 else "\\u%04X" % o)
        else:
            out.append(ch)
    out.append('"')
    return "".join(out).encode("utf-8")


def rand_doc(r, depth, loose):
    """-> bytes of one random JSON document"""
    ws = (lambda: r.choice(WS)) if loose else (lambda: b"")
    k = r.random()
    if depth <= 0 or k < 0.45:
        j = r.randrange(10)
        if j < 4:
            return r.choice(NUMS[:14] if r.random() < 0.8 else NUMS).encode()
        if j < 7:
            return enc_string(r, rand_string(r))
        return r.choice([b"null", b"true", b"false", b"[]", b"{}"])
    n = r.choice([0, 1, 1, 2, 2, 3])
    if k < 0.72:
        parts = [rand_doc(r, depth - 1, loose) for _ in range(n)]
        return b"[" + ws() + (ws() + b"," + ws()).join(parts) + ws() + b"]"
    keys = []
    while len(keys) < n:
        s = rand_string(r) if r.random() < 0.3 else r.choice(["a", "b", "c", "k", "id", "zz", "B"])
        if s not in keys:
            keys.append(s)
    parts = [enc_string(r, s) + ws() + b":" + ws() + rand_doc(r, depth - 1, loose) for s in keys]
    return b"{" + ws() + (ws() + b"," + ws()).join(parts) + ws() + b"}"


def rand_stream(r, ndocs=None, depth=3):
    n = r.choice([0, 1, 1, 2, 2, 3, 4]) if ndocs is None else ndocs
    loose = r.random() < 0.6
    out = r.choice([b"", b"", b" ", b"\n"])
    for i in range(n):
        out += rand_doc(r, r.randrange(depth + 1), loose)
        out += r.choice(SEPS) if i < n - 1 else r.choice([b"", b"\n", b"\n", b" ", b"\r\n"])
    return out


MUT = b'[]{},:"0 12-xe.\\\n tn'


def malform(r, text):
    """a truncation or a one-byte change of the text"""
    if not text:
        return r.choice([b"}", b"[", b'"', b"x"])
    k = r.randrange(4)
    i = r.randrange(len(text))
    if k == 0:
        return text[:i]
    if k == 1:
        return text[:i] + text[i + 1:]
    if k == 2:
        return text[:i] + bytes([r.choice(MUT)]) + text[i:]
    return text[:i] + bytes([r.choice(MUT)]) + text[i + 1:]


def rand_rawtext(r):
    lines = [r.choice(["a", "b c", "", "1", '{"a":1}', "x\ty", "é日", "  lead", "trail  ", "[1,2"]) for _ in range(r.choice([0, 1, 2, 3, 4]))]
    nl = r.choice(["\n", "\n", "\r\n"])
    t = nl.join(lines)
    if lines and r.random() < 0.6:
        t += nl
    if r.random() < 0.15:
        t += r.choice(["\n", "\r", "\r\n\r\n", " "])
    return t.encode("utf-8")


# ---------------------------------------------------------------------------
# one invocation

class Case:
    def __init__(self, fam):
        self.fam = fam
        self.argv = []        # abstract tokens
        self.words = {}       # word id -> bytes
        self.ids = {}         # bytes -> word id
        self.fs = {}          # word id -> bytes (file content)
        self.progs = {}       # word id -> AST
        self.stdin = b""
        self.note = ""
        self.expand = {}      # placeholder bytes -> the long text it stands for in the REAL run (see long_line)

    def long_line(self, r):
        """A line around the sizes of the readers' buffers (bufio default 4096, 16 KiB windows).  The specification sees a short
        placeholder without line terminators; the real command gets the expansion, and every occurrence of the expansion in what the
        command printed is mapped back before validation.  Splitting into lines commutes with this substitution, so the model's
        verdict carries over - and a reader that cuts or drops the long line leaves text that no longer maps back."""
        k = len(self.expand) + 1
        ph = ("LONGLINE%dQ" % k).encode()
        unit = r.choice(["x", "ab", "\u00e9"]).encode("utf-8")
        tail = b"%d." % k
        size = r.choice([4093, 4094, 4095, 4096, 4097, 5000, 8191, 8192, 9000, 16383, 16384, 16385, 40000])          # total bytes of the line, around the buffer sizes
        self.expand[ph] = unit * ((size - len(tail)) // len(unit)) + tail
        return ph

    def _real(self, b):
        for ph, full in self.expand.items():
            b = b.replace(ph, full)
        return b

    def _abstract_value(self, v):
        if isinstance(v, dict):
            if v.get("t") == "str" and len(v.get("s", [])) > 1000:
                try:
                    b = "".join(chr(c) for c in v["s"]).encode("utf-8")
                    for ph, full in self.expand.items():
                        b = b.replace(full, ph)
                    return {"t": "str", "s": [ord(c) for c in b.decode("utf-8")]}
                except Exception:
                    return v
            return {k: self._abstract_value(x) for k, x in v.items()}
        if isinstance(v, list):
            return [self._abstract_value(x) for x in v]
        return v

    def wid(self, text):
        if isinstance(text, str):
            text = text.encode("utf-8")
        if text not in self.ids:
            i = "w%d" % (len(self.ids) + 1)
            self.ids[text] = i
            self.words[i] = text
        return self.ids[text]

    def word(self, text):
        self.argv.append({"k": "word", "w": self.wid(text)})
        return self

    def long(self, name):
        self.argv.append({"k": "long", "name": name})
        return self

    def short(self, letters):
        self.argv.append({"k": "short", "letters": list(letters)})
        return self

    def ddash(self):
        self.argv.append({"k": "ddash"})
        return self

    def file(self, name, content):
        """register a file (content None: it does not exist); returns its word id"""
        i = self.wid(name)
        if content is not None:
            self.fs[i] = content
        return i

    def query(self, ast):
        text = render(ast, self.words)
        i = self.wid(text)
        self.progs[i] = ast
        self.argv.append({"k": "word", "w": i})
        return self

    def queryfile(self, name, ast):
        i = self.file(name, render(ast, self.words).encode())
        self.progs[i] = ast
        self.argv.append({"k": "word", "w": i})
        return self

    def args(self):
        out = []
        for t in self.argv:
            if t["k"] == "long":
                out.append(b"--" + t["name"].encode())
            elif t["k"] == "short":
                out.append(b"-" + "".join(t["letters"]).encode())
            elif t["k"] == "ddash":
                out.append(b"--")
            else:
                out.append(self.words[t["w"]])
        return out

    def exec_record(self, cid):
        return {"id": cid, "args": [list(a) for a in self.args()],
                "files": {self.words[i].decode(): list(self._real(c)) for i, c in self.fs.items()}, "stdin": list(self._real(self.stdin))}

    def trace_record(self, cid, res):
        d = lambda m, f: dict({"_": []}, **{k: f(v) for k, v in m.items()})
        return {"id": cid, "fam": self.fam, "argv": self.argv, "words": d(self.words, list), "fs": d(self.fs, list),
                "progs": dict({"_": {"op": "dot"}}, **{k: strip(v) for k, v in self.progs.items()}), "stdin": list(self.stdin),
                "out": self._abstract_value(res["out"]) if self.expand else res["out"], "outbad": res["outbad"], "nerr": res["nerr"], "exit": res["exit"], "crash": res["crash"]}

    def to_json(self):
        return {"fam": self.fam, "argv": self.argv, "words": {k: list(v) for k, v in self.words.items()}, "ids": None,
                "fs": {k: list(v) for k, v in self.fs.items()}, "progs": self.progs, "stdin": list(self.stdin), "note": self.note,
                "expand": {k.decode(): list(v) for k, v in self.expand.items()}}

    @staticmethod
    def from_json(j):
        c = Case(j["fam"])
        c.argv = j["argv"]
        c.words = {k: bytes(v) for k, v in j["words"].items()}
        c.ids = {v: k for k, v in c.words.items()}
        c.fs = {k: bytes(v) for k, v in j["fs"].items()}
        c.progs = j["progs"]
        c.stdin = bytes(j["stdin"])
        c.note = j.get("note", "")
        c.expand = {k.encode(): bytes(v) for k, v in (j.get("expand") or {}).items()}
        return c

    def shell(self):
        def q(b):
            s = b.decode("utf-8", "replace")
            return "'" + s.replace("'", "'\\''") + "'"
        return "gojq " + " ".join(q(a) for a in self.args())


MODE_FLAGS = {"n": "null-input", "s": "slurp", "R": "raw-input"}


def add_modes(r, c, modes):
    """put the mode flags on the command line in a random spelling (-n, -ns, --null-input, --stream)"""
    ms = [m for m in modes if m != "stream"]
    r.shuffle(ms)
    if len(ms) > 1 and r.random() < 0.5:
        c.short(ms)
    else:
        for m in ms:
            if r.random() < 0.6:
                c.short([m])
            else:
                c.long(MODE_FLAGS[m])
    if "stream" in modes:
        c.long("stream")


def layout(r, c, texts, allow_missing=True):
    """distribute texts over standard input and files; returns the file-argument word texts in order"""
    names = []
    k = r.randrange(6)
    if k == 0 or not texts:
        c.stdin = b"".join(texts)
        return []
    used_stdin = False
    for i, t in enumerate(texts):
        if not used_stdin and r.random() < 0.25:
            c.stdin = t
            used_stdin = True
            names.append("-")
        else:
            nm = "f%d.json" % (i + 1)
            c.file(nm, t)
            names.append(nm)
        if allow_missing and r.random() < 0.06:
            names.append("missing%d.json" % i)
    if not used_stdin:
        c.stdin = r.choice([b"", b"99\n"])     # must not be read
    return names


def place(r, c, modes, qast, files, fromfile=False):
    """modes, query and files in a random but valid order"""
    if r.random() < 0.5:
        add_modes(r, c, modes)
        later = []
    else:
        later = modes
    c.short(["c"]) if r.random() < 0.8 else c.long("compact-output")
    if fromfile:
        c.short(["f"]) if r.random() < 0.5 else c.long("from-file")
        c.queryfile("prog.jq", qast)
    else:
        c.query(qast)
    for f in files:
        c.word(f)
    if later:
        add_modes(r, c, later)


def split_texts(r, text_list):
    return text_list


def case_io(r, quick):
    """random streams x layout x modes x query"""
    c = Case("io")
    nsrc = r.choice([1, 1, 2, 2, 3])
    texts = []
    for _ in range(nsrc):
        t = rand_stream(r)
        if r.random() < 0.3:
            t = malform(r, t)
        texts.append(t)
    modes = [m for m in ("n", "s") if r.random() < 0.3]
    if r.random() < 0.2:
        modes.append("stream")
    if r.random() < 0.06:
        modes.append("R")
    files = layout(r, c, texts)
    q = rand_query(r, r.choice([0, 1, 2, 2, 3]))
    place(r, c, modes, q, files, fromfile=r.random() < 0.1)
    return c


def case_law(r):
    """the pairs the property names: -s . / -n [inputs];  --stream . / tostream / fromstream(inputs)"""
    out = []
    nsrc = r.choice([1, 1, 2, 3])
    texts = [rand_stream(r) for _ in range(nsrc)]
    if r.random() < 0.35:
        i = r.randrange(nsrc)
        texts[i] = malform(r, texts[i])
    seed = r.random()
    variants = [(["s"], DOT), (["n"], collect(INPUTS)), ([], DOT), (["n"], INPUTS),
                (["stream"], DOT), ([], {"op": "tostream"}), (["n", "stream"], {"op": "fromstream", "b": INPUTS}),
                (["n", "stream"], collect(INPUTS)), (["s", "stream"], DOT)]
    for modes, q in variants:
        rr = random.Random(seed)        # the same layout for every member of the family
        c = Case("law")
        files = layout(rr, c, texts, allow_missing=False)
        place(r, c, modes, q, files)
        out.append(c)
    return out


def case_raw(r):
    c = Case("raw")
    texts = [rand_rawtext(r) for _ in range(r.choice([1, 1, 2, 3]))]
    modes = ["R"] + [m for m in ("s", "n") if r.random() < 0.4]
    longline = r.random() < 0.25
    if longline:
        # queries that move lines around without looking inside them (the placeholder abstraction is exact for these)
        k = r.randrange(len(texts))
        parts = texts[k].split(b"\n")
        parts.insert(r.randrange(len(parts) + 1), c.long_line(r) + (b"\r" if r.random() < 0.2 else b""))
        if r.random() < 0.3:
            parts.insert(r.randrange(len(parts) + 1), c.long_line(r))
        texts[k] = b"\n".join(parts)
    files = layout(r, c, texts)
    q = r.choice([DOT, DOT, collect(INPUTS), INPUTS, comma(DOT, INPUT)] + ([] if longline else [rand_query(r, 2)]))
    place(r, c, modes, q, files)
    return c


NAMES = ["x", "y", "z", "foo", "bar", "a1", "v_2"]
ARGVALS = ["", "1", "a b", "null", '{"a":1}', "é日", "it's", '"q"', "-5", "--", "x y  z"]
JSONVALS = ["1", "null", "true", '"s"', "[1,2]", '{"a":{"b":[]}}', " 2 ", "-7", "123456789012345678901234567890", "1.5", '"\\u00e9"', "[]", "{}"]
BADJSON = ["{", "[1,", "tru", "'a'", "}", '"x']


def case_args(r):
    c = Case("args")
    segs = []      # closures that append tokens
    bound = []
    nb = r.choice([0, 1, 2, 2, 3, 4])
    for i in range(nb):
        name = r.choice(NAMES[:4] if r.random() < 0.7 else NAMES)
        kind = r.choice(["arg", "arg", "argjson", "argjson", "slurpfile", "rawfile"])
        if kind == "arg":
            val = r.choice(ARGVALS)
        elif kind == "argjson":
            val = r.choice(BADJSON) if r.random() < 0.06 else r.choice(JSONVALS)
        elif kind == "slurpfile":
            val = "s%d.json" % i
            t = rand_stream(r, depth=2)
            if r.random() < 0.12:
                t = malform(r, t)
            c.file(val, None if r.random() < 0.06 else t)
        else:
            val = "r%d.txt" % i
            c.file(val, None if r.random() < 0.06 else rand_rawtext(r))
        bound.append(name)
        segs.append(("bind", kind, name, val))
    # positional segments
    pos = []
    for _ in range(r.choice([0, 0, 1, 1, 2, 3])):
        mode = r.choice(["args", "jsonargs"])
        vals = [r.choice([v for v in ARGVALS if not v.startswith("-")] if mode == "args" else (BADJSON if r.random() < 0.04 else JSONVALS))
                for _ in range(r.choice([0, 1, 2, 3]))]
        pos.append((mode, vals))
    refs = [var("ARGS")] + [var(c.wid(n)) for n in dict.fromkeys(bound)]
    if r.random() < 0.05:
        refs.append(var(c.wid(r.choice(NAMES))))       # possibly unbound: compile error
    q = refs[0]
    for x in refs[1:]:
        q = comma(q, x)
    q = collect(q) if r.random() < 0.7 else q
    modes = ["n"] if r.random() < 0.8 else []
    if not modes:
        c.stdin = rand_stream(r, ndocs=r.choice([1, 2]), depth=1)
    # the flags that select how the MAIN input is read must not change how --slurpfile / --rawfile / --argjson values are read
    extra = r.choice([[], [], [], ["s"], ["R"], ["R", "s"], ["stream"], ["stream", "s"]])
    modes += [m for m in extra if m != "stream"]
    want_stream = "stream" in extra
    # order: bindings may come before or after the query; positional segments only make sense after it
    r.shuffle(segs)
    before = [s for s in segs if r.random() < 0.6]
    after = [s for s in segs if s not in before]

    def emit(s):
        _, kind, name, val = s
        c.long(kind).word(name).word(val)
    add_modes(r, c, modes)
    if want_stream:
        c.long("stream")
    c.short(["c"])
    for s in before:
        emit(s)
    fromfile = r.random() < 0.15
    if pos and r.random() < 0.3:
        # a positional flag BEFORE the query: the first non-option is still the query
        c.long(pos[0][0])
        if fromfile:
            c.short(["f"]).queryfile("prog.jq", q)
        else:
            c.query(q)
        for v in pos[0][1]:
            c.word(v)
        rest = pos[1:]
    else:
        if fromfile:
            c.short(["f"]).queryfile("prog.jq", q)
        else:
            c.query(q)
        rest = pos
    for mode, vals in rest:
        c.long(mode)
        for v in vals:
            c.word(v)
        if after and r.random() < 0.5:
            emit(after.pop())
    for s in after:
        emit(s)
    if rest and r.random() < 0.15:
        c.ddash().word(r.choice(["tail", "1"]))
    if r.random() < 0.03:
        c.long("arg").word("lonely")        # expected 2 arguments: flag error
    return c


def case_lenient(r):
    """--argjson / --jsonargs with a text that is not exactly one JSON value (known finding F-C16-argjson-lenient)"""
    c = Case("lenient")
    t = r.choice(["1 2", "", " ", "[1] x", "null null", '{"a":1}}', "1,2"])
    c.short(["n"]).short(["c"])
    if r.random() < 0.5:
        c.long("argjson").word("x").word(t).query(collect(comma(var(c.wid("x")), var("ARGS"))))
    else:
        c.query(var("ARGS")).long("jsonargs").word("7").word(t)
    return c


def stream_cases(texts, r, cuts_all, sample=None):
    """the StreamMC universe on the real binary: --stream on the whole text and cut after every byte"""
    out = []
    if sample is not None and len(texts) > sample:
        texts = r.sample(texts, sample)
    for t in texts:
        t = bytes(t)
        ks = range(len(t) + 1) if cuts_all else sorted(set([len(t)] + [r.randrange(len(t) + 1) for _ in range(2)]))
        for k in ks:
            c = Case("mcstream")
            c.stdin = t[:k]
            c.long("stream").short(["c"]).query(DOT)
            out.append(c)
        c = Case("mcstream")
        c.stdin = t
        c.short(["n"]).long("stream").short(["c"]).query({"op": "fromstream", "b": INPUTS})
        out.append(c)
        c = Case("mcstream")
        c.stdin = t
        c.short(["c"]).query({"op": "tostream"})
        out.append(c)
    return out


def random_stream_cuts(r, n):
    """random larger documents, --stream, cut after EVERY byte"""
    out = []
    for _ in range(n):
        t = rand_stream(r, ndocs=r.choice([1, 1, 2]), depth=3)
        if len(t) > 70:
            continue
        for k in range(len(t) + 1):
            c = Case("cutstream")
            if r.random() < 0.5:
                c.stdin = t[:k]
                c.long("stream").short(["c"]).query(DOT)
            else:
                c.file("d.json", t[:k])
                c.short(["n"]).long("stream").short(["c"]).query(r.choice([INPUTS, {"op": "fromstream", "b": INPUTS}])).word("d.json")
            out.append(c)
    return out


# ---------------------------------------------------------------------------
# execution, validation, classification

def execute(work, vh, gojq, cases, tag):
    cpath, rpath = work.path(tag + ".cases.ndjson"), work.path(tag + ".res.ndjson")
    vc.write_ndjson(cpath, [c.exec_record(i) for i, c in enumerate(cases)])
    tmp = work.path(tag + ".tmp", "x")
    vc.sh([vh, "c16run", "-in", cpath, "-out", rpath, "-gojq", gojq, "-tmp", os.path.dirname(tmp), "-j", str(vc.NCPU)], timeout=3600)
    res = vc.read_ndjson(rpath)
    for p in (cpath, rpath):
        if not os.environ.get("VERIF_KEEP"):
            os.remove(p)
    return res


def check_cases(rep, work, vh, gojq, cases, tag, counters):
    def bump(k, n=1):
        counters[k] = counters.get(k, 0) + n

    res = execute(work, vh, gojq, cases, tag)
    recs, idx = [], []
    for i, (c, x) in enumerate(zip(cases, res)):
        rep.count("evaluations")
        if "tool" in x or x.get("timeout"):
            bump("tool_or_timeout")
            continue
        recs.append(c.trace_record(i, x))
        idx.append(i)
    verdicts, stats = vc.validate_sharded(work, recs, "ValidateC16.tla", "ValidateC16.cfg", {}, tag=tag,
                                          timeout=1200, per_shard_min=80)
    rep.add_tlc(stats)
    mism = []
    for i, v in zip(idx, verdicts):
        c, x = cases[i], res[i]
        if "tlc" in v:
            bump("tlc_" + v["tlc"])
            rep.count("out_of_model")
            continue
        bump(c.fam + ":" + v["v"])
        if v["v"] == "agree":
            rep.count("traces_validated_against_impl")
            if v["n"] > 0 or v["nerr"] > 0:
                rep.nontrivial([c.shell(), list(c.stdin), sorted((k, list(b)) for k, b in c.fs.items())])
            if counters.get("sampled:" + c.fam, 0) < 2 and (v["n"] > 0 or v["nerr"] > 0) and len(x["stdout"]) > 8:
                bump("sampled:" + c.fam)
                rep.sample({"cmd": c.shell(), "stdin": c.stdin.decode("utf-8", "replace")[:80],
                            "files": {c.words[k].decode(): b.decode("utf-8", "replace")[:60] for k, b in c.fs.items()},
                            "stdout": x["stdout"][:160], "errors": x["nerr"], "exit": x["exit"]}, limit=12)
        elif v["v"] == "oom":
            rep.count("out_of_model")
            bump("oom:" + v.get("why", "?"))
        elif v["v"] == "lenient":
            # genuine deviation from the requirement, of exactly the class of F-C16-argjson-lenient (see c16.md)
            what = "`%s`: --argjson/--jsonargs text that is not ONE JSON value is accepted (stdout %r, exit %s)" % (c.shell(), x["stdout"][:80], x["exit"])
            if any(k["id"] == FID_LENIENT for k in rep.known):
                rep.known_finding(FID_LENIENT, what)
            else:
                # the defect was repaired (known_findings.json: fixed): if it ever returns it is a violation like any other
                mism.append((i, v))
        else:
            mism.append((i, v))
    if mism:
        again = execute(work, vh, gojq, [cases[i] for i, _ in mism], tag + "r")
        for (i, v), y in zip(mism, again):
            c, x = cases[i], res[i]
            same = all(x.get(k) == y.get(k) for k in ("out", "nerr", "exit", "outbad", "crash"))
            files = {c.words[k].decode(): b.decode("utf-8", "replace") for k, b in c.fs.items()}
            case = c.to_json()
            if not same:
                rep.violation("non-deterministic behaviour of `%s`" % c.shell(), {"case": case, "actual": [x, y]})
                continue
            e = v.get("exp", {})
            what = ("`%s` stdin=%r files=%r: real exit=%s errors=%s stdout=%r%s; specification exit=%s errors=%s outputs=%s" % (
                c.shell(), c.stdin.decode("utf-8", "replace"), files, x["exit"], x["nerr"], x["stdout"][:300],
                " CRASH " + x["stderr"][:200] if x["crash"] else "", e.get("exit"), e.get("nerr"),
                json.dumps([unV(o) for o in e.get("out", [])], ensure_ascii=False)[:400]))
            rep.violation(what, {"case": case, "actual": {k: x.get(k) for k in ("out", "nerr", "exit", "outbad", "crash", "stdout", "stderr")},
                                 "expected": e})
    return counters


def run_mc(rep, work, jobs):
    """design-level model checking; a violated invariant here is a specification problem (exit 2), never a verdict"""
    out = {}

    def one(job):
        name, module, cfg, workers, tmo = job
        return name, vc.tlc(work.dir, module, cfg, workers=workers, timeout=tmo, xmx="6g", extra=["-noGenerateSpecTE"])

    if not jobs:
        return out
    with cf.ThreadPoolExecutor(max_workers=len(jobs)) as ex:
        for name, res in ex.map(one, jobs):
            out[name] = res
    return out


def run(tier, seed, replay):
    rep = vc.Report(PROP, tier, seed)
    rep.assumptions += ["TLC evaluates the specification correctly",
                        "encoding/json's scanner is modelled from its source (JsonScan.tla, Stream.tla part 1), not verified",
                        "stdout is compared as a stream of JSON values (the encoder is C12's subject), stderr as the number of `gojq: ` reports",
                        "standard input named twice is empty the second time (inputs are far below the decoder's read-ahead)"]
    if os.environ.get("C16_GOJQ"):        # development / mutation demonstrations: prebuilt private binaries
        vh, gojq = os.environ.get("C16_VH", os.path.join(vc.BUILD, "vh")), os.environ["C16_GOJQ"]
    else:
        vh, gojq = vc.build()
    work = vc.Work(PROP)
    try:
        counters = {}
        if replay:
            j = json.load(open(replay))
            c = Case.from_json(j["case"])
            check_cases(rep, work, vh, gojq, [c], "replay", counters)
            vc.log("replay:", counters)
            return rep.finish(min_decided=0)
        quick = tier == "quick"
        r = random.Random(seed)
        # 1. design-level model checking, in the background
        jobs = [("StreamMC", "StreamMC.tla", "StreamMC.cfg" if quick else "StreamMC_t.cfg", 5 if quick else 8, 300 if quick else 2700),
                ("InputsMC", "InputsMC.tla", "InputsMC.cfg" if quick else "InputsMC_t.cfg", 4 if quick else 5, 300 if quick else 2700),
                ("ArgsMC", "ArgsMC.tla", "ArgsMC.cfg" if quick else "ArgsMC_t.cfg", 2 if quick else 3, 300 if quick else 2700)]
        if os.environ.get("C16_SKIPMC"):      # development only: conformance part alone
            jobs = []
        pool = cf.ThreadPoolExecutor(max_workers=1)
        mc_future = pool.submit(run_mc, rep, work, jobs)
        # 2. the StreamMC universe, enumerated by TLC, on the real binary
        gout = work.path("streams.ndjson")
        gres = vc.tlc(work.dir, "StreamGen.tla", "StreamGen.cfg" if quick else "StreamGen_t.cfg", env={"VERIF_OUT": gout},
                      timeout=600, extra=["-noGenerateSpecTE"])
        if not gres.ok() or not os.path.exists(gout):
            raise vc.ToolError("StreamGen failed:\n" + vc.tlc_error_text(gres))
        rep.add_tlc(gres)
        streams = [g["t"] for g in vc.read_ndjson(gout)]
        rep.cov["tlc_enumerated_streams"] = len(streams)
        cases = stream_cases(streams, r, cuts_all=True)
        rep.cov["exhaustive"] = True
        # 3. seeded random invocations
        n_io, n_law, n_raw, n_args, n_cut = (900, 60, 200, 450, 12) if quick else (16000, 1200, 3000, 9000, 250)
        for _ in range(n_io):
            cases.append(case_io(r, quick))
        for _ in range(n_law):
            cases += case_law(r)
        for _ in range(n_raw):
            cases.append(case_raw(r))
        for _ in range(n_args):
            cases.append(case_args(r))
        cases += random_stream_cuts(r, n_cut)
        for _ in range(6 if quick else 40):
            cases.append(case_lenient(r))
        rep.cov["invocations_by_family"] = {}
        for c in cases:
            rep.cov["invocations_by_family"][c.fam] = rep.cov["invocations_by_family"].get(c.fam, 0) + 1
        check_cases(rep, work, vh, gojq, cases, "t", counters)
        rep.cov["verdicts"] = counters
        # 4. collect the model-checking results
        mc = mc_future.result()
        rep.cov["model_checking"] = {}
        for name, res in mc.items():
            rep.cov["model_checking"][name] = {"distinct_states": res.distinct, "states_generated": res.generated, "wall_s": round(res.wall, 1),
                                               "complete": res.ok() and not res.timeout}
            if res.timeout:
                rep.notes.append("%s did not finish within its budget (explored %d states, no invariant violated)" % (name, res.distinct))
                rep.cov["exhaustive"] = False
            elif not res.ok():
                raise vc.ToolError("model checking of %s failed (specification problem, not a verdict):\n%s" % (name, vc.tlc_error_text(res)))
            rep.add_tlc(res)
        rep.cov["rule"] = ("one evaluation = one invocation of build/gojq; validated = stdout values, number of error reports and exit status equal "
                           "what ValidateC16.tla computes from the command line and the bytes; non-trivial = at least one output or error, "
                           "distinct by (command line, stdin, files)")
        return rep.finish()
    finally:
        work.cleanup()
