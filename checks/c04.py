"""C04 - compiler optimisations never change what a query outputs.

Every rewrite site of compiler.go is guarded by an (add-only, build-tag) switch.  For each program the REAL
compiler is run with: all rewrites on, each single rewrite off (13), all off, and seeded random subsets; the REAL
interpreter's complete Next() sequences (values and errors, in order) must be identical across configurations.
TLC then executes each configuration's bytecode on VM.tla against the recorded step trace, checks that no
action precondition fails, that the static verifier CodeWF accepts the code, and that the emitted sequence
refines JqSem.Eval of the AST: per-program, per-configuration translation validation.
"""
import json
import random

import evalfam
import jqgen
import vcheck as vc
import vmfam

PROP = "C04"
NOPT = 13
ALL_OFF = (1 << NOPT) - 1
NAMES = ["const-object", "const-array", "unary-literal", "const-index", "const-setpath", "inline-identity", "inline-one-instr",
         "if-const-branches", "bind-expbegin", "if-expbegin", "index-expbegin", "tailrec", "codeops"]


def norm_seq(seq):
    """Observable content of a Next() sequence: values exactly, errors by value (message text of native errors is not compared)."""
    out = []
    for x in seq:
        if "v" in x:
            out.append(["v", x["v"]])
        else:
            e = x["e"]
            out.append(["e", e.get("k"), e.get("v"), e.get("c")])
            break      # what an iterator does after an error is where it happens to resume (README: "may emit multiple errors"): not compared
    return out


def mask_names(m):
    return [NAMES[i] for i in range(NOPT) if m >> i & 1] or ["all-on"]


OBSERVERS = ["{a: (%s)}", "{a: 1, b: (%s), c: 2}", "[{k: (%s)}]", "{(\"k\"): (%s), z: .}", "[1, {a: (%s)}, 2]", "{a: {b: (%s)}}", "(%s) as $q | {a: $q, b: 1}", "{a: [(%s)]}"]


def run(tier, seed, replay):
    rep = vc.Report(PROP, tier, seed)
    rep.assumptions += ["the switches of verif_hooks.go disable exactly the rewrite they name (they are add-only guards at the rewrite sites)",
                        "message text of native errors is not part of the comparison (it already differs between `.a = 1` and its unoptimised form)"]
    vh, _ = vc.build()
    work = vc.Work(PROP)
    try:
        prelude = evalfam.make_prelude(work, vh)
        r = random.Random(seed)
        uni = jqgen.input_universe()
        quick = tier == "quick"
        if replay:
            rec = json.load(open(replay))
            cases = [{"id": 0, "src": rec["case"]["src"], "inputs": [rec["case"]["input"]], "masks": [ALL_OFF, 0, rec["case"].get("mask", 0)]}]
        else:
            cases = []
            for i in range(900 if quick else 24000):
                if i % 5 == 4:
                    cases.append({"id": i, "src": jqgen.join_program(r), "inputs": r.sample(uni, 3 if quick else 5), "masks": [ALL_OFF, 0] + [1 << b for b in range(NOPT)]})
                    continue
                src = jqgen.c04_program(r) if r.randrange(5) else "2 as $x | def g(p): [p, p]; def h($a): $a, .; label $l | " + jqgen.program(r, 3)
                src = jqgen.strip_context(src, r)
                if r.randrange(4) == 0:
                    # contexts in which whatever lies UNDER the result on the data stack is used: a leftover value becomes visible
                    src = r.choice(OBSERVERS) % src
                masks = [ALL_OFF, 0] + [1 << b for b in range(NOPT)] + [r.randrange(1, ALL_OFF) for _ in range(2 if quick else 6)]
                cases.append({"id": i, "src": src, "inputs": r.sample(uni, 3 if quick else 5), "masks": masks})
            look = jqgen.lookalike_programs()
            for src in (r.sample(look, 300) if quick else look):
                cases.append({"id": len(cases), "src": src, "inputs": r.sample(uni, 2), "masks": [ALL_OFF, 0] + [1 << b for b in range(NOPT)]})
            # tail calls while forks of an EARLIER callee frame (one that owns variables) are still pending: backtracking into that frame finds its
            # variables as it left them, with the optimisation on as with it off
            tails = ["def g: . as $y | ($y+1, $y+100); def f: . as $x | if $x < 3 then g | f else $x end; 0 | f", "def g: . as $y | ($y+1, $y+2); def f: . as $x | if $x < 4 then g | f else [$x] end; [limit(20; 0 | f)]",
                     "def g($k): . as $y | ($y+$k, $y+10*$k); def f: . as $x | if $x < 3 then g(1) | f else $x end; 0 | f", "def f: . as $x | if $x < 3 then (. as $y | ($y+1, $y+100)) | f else $x end; 0 | f",
                     "def g: . as [$a] | ([$a+1], [$a+100]); def f: . as [$x] | if $x < 3 then g | f else $x end; [0] | f", "def g: . as $y | (1, 2) as $z | $y + $z; def f: . as $x | if $x < 5 then g | f else $x end; [0 | f]",
                     "def g: . as $y | first(($y+1, $y+100)), $y+7; def f: . as $x | if $x < 20 then g | f else $x end; [0 | f]", "def g: . as $y | reduce (1, 2) as $i ($y; . + $i), $y + 1; def f: . as $x | if $x < 6 then g | f else $x end; [0 | f]",
                     "def g: . as $y | label $l | ($y+1, break $l), $y+5; def f: . as $x | if $x < 9 then g | f else $x end; [0 | f]", "def g(h): . as $y | (h, $y+3); def f: . as $x | if $x < 7 then g($x+1) | f else $x end; [0 | f]",
                     "def g: . as {a: $y} | ({a: ($y+1)}, {a: ($y+4)}); def f: . as {a: $x} | if $x < 8 then g | f else $x end; [{a: 0} | f]", "def g: . as $y | try ($y+1, error) catch ($y+2); def f: . as $x | if $x < 4 then g | f else $x end; [0 | f]",
                     "def g: . as $y | ($y+1, $y+2) | . as $z | ($z, $z+$y); def f: . as $x | if $x < 6 then g | f else $x end; [limit(40; 0 | f)]", "def f: . as $x | if $x < 3 then (def g: . as $y | ($y+1, $y+100); g) | f else $x end; 0 | f",
                     "def g: . as $y | ($y+1, $y+100); def f($n): . as $x | if $x < $n then g | f($n) else $x end; 0 | f(3)", "def g: . as $y | ($y+1, $y+100); def f: . as $x | if $x < 3 then g | f else $x, -$x end; 0 | f"]
            for src in tails:
                cases.append({"id": len(cases), "src": src, "inputs": [jqgen.V(None)], "masks": [ALL_OFF, 0] + [1 << b for b in range(NOPT)]})
            cf_ = jqgen.constfold_programs()
            mixed = [jqgen.V(x) for x in ([1], "s", {"a": 1}, [{"a": 1}, [2], 3], None, {"a": {"b": 2}}, {"a": [1, 2, 3]}, [[1, [2]], {"a": None}], 7, {"a": None}, [None])]
            for src in (r.sample(cf_, 700) if quick else cf_):
                cases.append({"id": len(cases), "src": src, "inputs": r.sample(mixed, 3 if quick else 6), "masks": [ALL_OFF, 0] + [1 << b for b in range(NOPT)]})
            bp = jqgen.bindpath_programs()
            arrs = [jqgen.V(x) for x in ([1, 2, {"a": "b", "b": 3}], {"a": [1, 2], "b": {"a": 1}}, [[1, 2], [3]], {"a": {"b": 1}}, [0, 1], None)]
            for src in (r.sample(bp, 250) if quick else bp):
                cases.append({"id": len(cases), "src": src, "inputs": r.sample(arrs, 2), "masks": [ALL_OFF, 0, 1 << 8] + [r.randrange(1, ALL_OFF)]})
            for c in evalfam.regression_cases():
                cases.append({"id": len(cases), "src": c["src"], "inputs": c["inputs"], "masks": [ALL_OFF, 0] + [1 << b for b in range(NOPT)]})
            cor = evalfam.corpus_cases(work, vh)
            for c in (r.sample(cor, 150) if quick else cor):
                cases.append({"id": len(cases), "src": c["src"], "inputs": c["inputs"][:3],
                              "masks": [ALL_OFF, 0] + [1 << b for b in range(NOPT)]})
        cnt = {"programs": 0, "config_runs": 0, "agree": 0, "long": 0, "compile_error": 0}
        vmcases = []

        def compare(cases, results, for_vm=True):
            for case, res in zip(cases, results):
                if "configs" not in res:
                    continue
                cnt["programs"] += 1
                cfgs = res["configs"]
                base = next((c for c in cfgs if c["mask"] == ALL_OFF and (not res.get("partial") or c is not cfgs[-1])), None)
                if base is None:
                    continue
                for c in cfgs:
                    if "panic" in c:
                        rep.violation("compiler panic with rewrites %s off: %r: %s" % (mask_names(c["mask"]), case["src"], c["panic"]),
                                      {"family": "optcmp", "case": {"src": case["src"], "input": case["inputs"][0], "mask": c["mask"]}, "actual": c})
                        continue
                    if ("cerr" in c) != ("cerr" in base):
                        rep.violation("compile error depends on the optimisation configuration %s: %r: %s vs %s" % (mask_names(c["mask"]), case["src"], c.get("cerr"), base.get("cerr")),
                                      {"family": "optcmp", "case": {"src": case["src"], "input": case["inputs"][0], "mask": c["mask"]}, "actual": c, "expected": base})
                        continue
                    if "cerr" in c:
                        cnt["compile_error"] += 1
                        continue
                    for j, (run_c, run_b) in enumerate(zip(c.get("runs", []), base["runs"])):
                        rep.count("evaluations")
                        cnt["config_runs"] += 1
                        if "panic" in run_c:
                            rep.violation("panic with rewrites %s off: %r on %s: %s" % (mask_names(c["mask"]), case["src"], jqgen.unV(case["inputs"][j]), run_c["panic"]),
                                          {"family": "optcmp", "case": {"src": case["src"], "input": case["inputs"][j], "mask": c["mask"]}, "actual": run_c})
                            continue
                        if run_c.get("hang") and not run_b.get("long"):
                            rep.violation("the interpreter hangs (no return, no reaction to cancellation) with configuration %s but not with all rewrites off: %r on %s" % (
                                mask_names(c["mask"]), case["src"], jqgen.unV(case["inputs"][j])),
                                {"family": "optcmp", "case": {"src": case["src"], "input": case["inputs"][j], "mask": c["mask"]}, "actual": {"hang": True}, "expected": run_b["seq"]})
                            continue
                        if run_c.get("polls_out") and not run_b.get("long") and run_b.get("polls", 10 ** 9) < 10000:
                            # the all-off code finishes in < 10 000 instructions, this configuration is still running after 200 000
                            rep.violation("termination depends on the optimisation configuration: %r on %s: %s is still running after 200000 instructions, all-off ends after %d" % (
                                case["src"], jqgen.unV(case["inputs"][j]), mask_names(c["mask"]), run_b["polls"]),
                                {"family": "optcmp", "case": {"src": case["src"], "input": case["inputs"][j], "mask": c["mask"]},
                                 "actual": {"polls_out": True}, "expected": run_b["seq"]})
                            continue
                        if run_c.get("long") or run_b.get("long") or "panic" in run_b:
                            cnt["long"] += 1
                            rep.count("out_of_model")
                            continue
                        if norm_seq(run_c["seq"]) != norm_seq(run_b["seq"]):
                            rep.violation("outputs differ between optimisation configurations: %r on %s: %s gives %s, all-off gives %s" % (
                                case["src"], jqgen.unV(case["inputs"][j]), mask_names(c["mask"]),
                                [jqgen.unV(x["v"]) if "v" in x else x["e"] for x in run_c["seq"]][:8],
                                [jqgen.unV(x["v"]) if "v" in x else x["e"] for x in run_b["seq"]][:8]),
                                {"family": "optcmp", "case": {"src": case["src"], "input": case["inputs"][j], "mask": c["mask"]},
                                 "actual": run_c["seq"], "expected": run_b["seq"]})
                        else:
                            cnt["agree"] += 1
                            rep.count("traces_validated_against_impl")
                            if run_c["seq"]:
                                rep.nontrivial([case["src"], case["inputs"][j], c["mask"]])
                # translation validation on the specification for a sample of configurations
                if for_vm and "cerr" not in base and (replay or r.randrange(3 if quick else 2) == 0):
                    for m in [0, ALL_OFF, r.choice(case["masks"][2:])]:
                        vmcases.append({"id": len(vmcases), "src": case["src"], "input": r.choice(case["inputs"]), "mask": m})

        compare(cases, vc.run_restartable([vh, "optcmp"], cases, work, "oc"))
        rep.cov["optcmp"] = cnt
        wfbad = []

        def on_verdict(rec, v):
            if v.get("wf"):
                wfbad.append((rec, v))
            if v["v"] == "panic":
                rep.count("vm_precondition_failures")
            if v["v"] == "ok" and v.get("ref") == "mismatch" or v["v"] in ("ref-mismatch", "out-mismatch"):
                vc.log("VM/JqSem disagreement (spec level) on %r mask=%s: %s" % (rec["src"], rec.get("mask"), v["v"]))

        _, _, vmc = vmfam.check(rep, work, vh, prelude, vmcases, family="vm", tag="c04vm", on_verdict=on_verdict)
        rep.cov["vm"] = vmc
        for rec, v in wfbad[:5]:
            vc.log("CodeWF rejects the bytecode of %r (mask %s): %s" % (rec["src"], rec.get("mask"), v["wf"]))
        rep.cov["codewf_rejections"] = len(wfbad)
        if wfbad and not replay:
            # a static rejection is not an observable by itself: search a witness on the REAL code by putting the rejected program into
            # the observing contexts under every configuration; only a real difference is reported (by compare)
            seen, wcases = set(), []
            for rec, v in wfbad:
                if rec["src"] in seen or len(seen) >= 60:
                    continue
                seen.add(rec["src"])
                for o in OBSERVERS:
                    wcases.append({"id": len(wcases), "src": o % rec["src"], "inputs": [rec["input"]] + r.sample(uni, 2), "masks": [ALL_OFF, 0] + [1 << b for b in range(NOPT)]})
            before = len(rep.violations) if hasattr(rep, "violations") else 0
            compare(wcases, vc.run_restartable([vh, "optcmp"], wcases, work, "ocw"), for_vm=False)
            rep.cov["codewf_witness_programs"] = len(wcases)
        rep.cov["rule"] = ("programs biased to the rewrite preconditions (jqgen.c04_program), random core programs, corpus; each under all-on, 13 single-off, all-off and "
                           "random subsets x inputs; non-trivial = a configuration run that emitted something; distinct by (source, input, mask)")
        rep.sample({"configs_per_program": 15 + (2 if quick else 6), "switches": NAMES})
        return rep.finish()
    finally:
        work.cleanup()
