"""C20 - iteration and tail recursion run in bounded interpreter space.

Spec: VM.tla's footprint FP(s) = (#forks, logical and physical size of the data / scope / path stacks, register
offset).  On the REAL bytecode of each iteration form TLC steps the machine along the recorded trace for ~40 turns
and checks that FP at successive visits of the loop head (same pc, same backtrack flag) is CONSTANT after a warm-up of
3 visits; non-tail variants are negative controls that must GROW on the model (guards against a vacuous invariant).
Real code: the same programs at n and 8n turns (n = 1000 quick / 20000 thorough): the retained state after the n-th and
8n-th output (VerifFootprint), or the peak over the whole run (step tracer) for loops that do not emit, must not grow.
"""
import json
import random

import evalfam
import jqgen
import vcheck as vc
import vmfam

PROP = "C20"

# (source with $N = number of turns, mode, expectation)
EMIT = [
    "range($N * 10)", "range(0; $N * 10; 1)", "range(infinite)", "repeat(1)", "0 | recurse(. + 1)", "0 | recurse(. + 1; . < $N * 10)", "0 | while(. < $N * 10; . + 1)",
    "limit($N * 10; repeat(1))", "limit($N * 10; range(infinite))", "foreach range(infinite) as $x (0; . + 1)", "foreach range($N * 10) as $x (0; . + $x; [$x, .])",
    "inputs", "repeat(input)", "def f: ., (. + 1 | f); 0 | f", "def f: if . < $N * 10 then ., (. + 1 | f) else empty end; 0 | f", "range(infinite) | select(. % 2 == 0)",
    "range(infinite) | [., 1] | .[0]", "range(infinite) as $x | $x + 1", "label $out | range(infinite) | ., (select(. > $N * 9) | break $out)", "path(range(infinite) | empty, .) , range(infinite)" if False else "range(infinite) | tostring",
    "[1,2,3] | repeat(.[])" if False else "repeat(1, 2)", "first(range(infinite) | select(. > 5)), range(infinite)", "skip(5; range(infinite))", "range(infinite) | try error catch .",
    "range(infinite) | [.] | .[]", "range(infinite) | {a: .} | .[]", "range(infinite) | [null, .] | .[] | values", "repeat([1] | .[])",
    "range(infinite) | (. as [$a] ?// $a | $a)", "range(infinite) | if . % 3 == 0 then . elif . % 3 == 1 then -. else 0 end", "0 | repeat(. + 1; . + 1)" if False else "0 | recurse(. + 1) | select(. % 7 == 0)",
]
TURNS = [
    "reduce range($N) as $x (0; . + 1)", "reduce range($N) as $x (0; . + $x) | . * 0", "last(range($N))", "0 | until(. >= $N; . + 1)", "first(range($N) | select(. == $N - 1))",
    "nth($N - 1; range(infinite))", "[limit($N; repeat(1))] | length", "isempty(range($N) | select(. < 0))", "reduce range($N) as $x (null; $x) ", "last(limit($N; repeat(1)))",
    "foreach range($N) as $x (0; . + 1; select(. == $N))", "any(range($N); . < 0)", "all(range($N); . >= 0)", "last(0 | while(. < $N; . + 1))", "last(0 | recurse(. + 1; . < $N))",
    "reduce inputs as $x (0; . + 1) | empty" if False else "last(limit($N; inputs))",
    # tail recursion of a parameterless definition (modelling decision M8)
    "def f: if . < $N then . + 1 | f else . end; 0 | f",
    "def f: if . < $N then . + 1 | f end; 0 | f",
    "def f: if . >= $N then . elif . % 2 == 0 then . + 1 | f else . + 1 | f end; 0 | f",
    "def f: (select(. >= $N)) // (. + 1 | f); 0 | f",
    "def f: if . < $N then empty, (. + 1 | f) else . end; 0 | f",
    "def f: . as $x | if $x < $N then $x + 1 | f else $x end; 0 | f",
    "def f: . as [$a] ?// $a | if $a < $N then $a + 1 | f else $a end; 0 | f",
    "def g: def f: if . < $N then . + 1 | f else . end; f; 0 | g",
    "def f: if . < $N then . + 1 | f else . end; range(0; 2) | f | select(. < 0)",
    "def f: . as $x | if . < $N then $x + 1 | f else $x end; first(range(0; 2) | f)",
    "def f: (if . < $N then empty else . end) // (. + 1 | f); range(0; 2) | f | select(. < 0)",
    "def f: . as $x | if . < $N then $x + 1 | f else $x end; [0, 1][] | f | select(. < 0)",
    "1 as $one | def f: if . < $N then . + $one | f else . end; 0 | f",
    # the recursion passes through the LAST element of an iteration: nothing of the finished iteration stays behind
    "def f: if .[0] >= $N then .[0] else [.[0] + 1] | .[] | [.] | f end; [0] | f",
    "def f: . as $x | if $x >= $N then $x else {a: ($x + 1)} | .[] | f end; 0 | f",
    "def f: if . >= $N then . else [. + 1][] | f end; 0 | f",
    "def f: if . >= $N then . else [0, . + 1] | .[1:][] | f end; 0 | f",
    "def f: if . >= $N then . else [null, . + 1] | (.[] | values) | f end; 0 | f",
    "def f: if . >= $N then . else {a: null, b: (. + 1)} | (.[] | values) | f end; 0 | f",
]
# must grow (non-tail positions): negative controls, never reported
GROW = [
    "def f: if . < $N then (. + 1 | f) | . + 0 else . end; 0 | f",
    "def f: if . < $N then [. + 1 | f] | .[0] else . end; 0 | f",
    "def f: if . < $N then try (. + 1 | f) catch . else . end; 0 | f",
    "def f: if . < $N then label $l | (. + 1 | f) else . end; 0 | f",
    "def f: if . < $N then (. + 1 | f) | not else . end; 0 | f",
    "def f($a): if . < $N then . + 1 | f($a) else . end; 0 | f(1)",
    "def f: if . >= $N then . else [. + 1] | .[]? | f end; 0 | f",      # `?` is a try: its handler stays until the body is exhausted
]
COMPONENTS = ["forks", "stack_log", "stack_phys", "scope_log", "scope_phys", "path_log", "path_phys", "values", "offset"]


def grew(a, b):
    """components of footprint b that exceed a"""
    low = {k.lower(): v for k, v in a.items()}
    out = {}
    for k, v in b.items():
        kk = k.lower()
        if kk in low and isinstance(v, int) and v > low[kk]:
            out[k] = (low[kk], v)
    return out


def run(tier, seed, replay):
    rep = vc.Report(PROP, tier, seed)
    rep.assumptions += ["interpreter state = forks, the three persistent stacks (logical and physical size), register file and offset (hook VerifFootprint / step tracer)",
                        "tail position as in modelling decision M8 of DESIGN.md"]
    vh, _ = vc.build()
    work = vc.Work(PROP)
    try:
        prelude = evalfam.make_prelude(work, vh)
        r = random.Random(seed)
        quick = tier == "quick"
        n = 1000 if quick else 20000
        null = jqgen.V(None)
        progs = [(s, "emit", "flat") for s in EMIT] + [(s, "turns", "flat") for s in TURNS] + [(s, "turns", "grow") for s in GROW]
        if replay:
            c = json.load(open(replay))["case"]
            progs = [(c["src"], c["mode"], "flat")]
        # --- model: FP at the loop head is constant (VM.tla on the real bytecode, ~40 turns)
        small = [{"id": i, "src": s.replace("$N", "40"), "input": null, "noast": True} for i, (s, mode, exp) in enumerate(progs) if "input" not in s]
        recs = vmfam.record(work, vh, small, tag="c20s", maxsteps=6000, maxnext=45)
        vmrecs = []
        for rec in recs:
            if "steps" not in rec or not rec["steps"]:
                continue
            src, mode, exp = progs[rec["id"]]
            if mode == "emit":
                head = {"pc": len(rec["code"]) - 1, "bt": False}
            else:
                cnt = {}
                for s in rec["steps"]:
                    cnt[(s["pc"], s["bt"])] = cnt.get((s["pc"], s["bt"]), 0) + 1
                (pc, bt), _ = max(cnt.items(), key=lambda kv: (kv[1], -kv[0][0]))
                head = {"pc": pc, "bt": bt}
            rec["head"] = head
            vmrecs.append(rec)
        vs, res = vmfam.validate(work, vmrecs, prelude, tag="c20v", maxsteps=6000)
        rep.add_tlc(res)
        if not res.ok():
            vc.log("ValidateVM:\n" + vc.tlc_error_text(res)[:1500])
        model = {}
        for rec in vmrecs:
            v = vs.get(rec["id"])
            if v is None or v["v"] not in ("ok", "cut"):
                rep.count("out_of_model")
                if v is not None and v["v"] in ("drift", "drift-len"):
                    rep.count("spec_drift")
                    vc.log("SPEC-DRIFT %r: %s" % (rec["src"], {k: x for k, x in v.items() if k not in ("out",)}))
                continue
            model[rec["id"]] = v
            rep.count("evaluations")
        ctl_ok = 0
        for i, (src, mode, exp) in enumerate(progs):
            v = model.get(i)
            if v is None or v["visits"] < 8:
                continue
            if exp == "grow":
                if not v["fpflat"]:
                    ctl_ok += 1
                else:
                    vc.log("negative control is flat on the model: %r" % src)
            elif not v["fpflat"]:
                # the model (running the real bytecode) retains state per turn: confirmed or refuted below on the real code
                vc.log("model: footprint grows at the loop head of %r: %s -> %s" % (src, v["fpfirst"], v["fplast"]))
                rep.count("model_growth")
        rep.cov["negative_controls_growing_on_model"] = ctl_ok
        if not replay and ctl_ok < 4:
            raise vc.ToolError("negative controls: the footprint invariant looks vacuous (%d of %d controls grow on the model)" % (ctl_ok, len(GROW)))
        # --- real code: footprint at n vs 8n
        cases = [{"id": i, "src": s, "input": null, "n": n if exp != "grow" else min(n, 2000), "mode": mode} for i, (s, mode, exp) in enumerate(progs)]
        results = vc.run_restartable([vh, "footprint"], cases, work, "c20r", timeout=3000)
        real_ctl = 0
        for (src, mode, exp), res_ in zip(progs, results):
            rep.count("evaluations")
            case = {"family": "footprint", "case": {"src": src, "mode": mode, "n": n}}
            if exp == "grow" and (res_.get("hang") or "panic" in res_):
                # a negative control (non-tail recursion, legitimately unbounded) that is too slow or too deep at this n: not a verdict
                rep.count("out_of_model")
                continue
            if res_.get("hang") or "panic" in res_:
                rep.violation("%s while consuming %r" % ("hang" if res_.get("hang") else "panic: " + res_["panic"], src), dict(case, actual=res_))
                continue
            a, b = (res_.get("fp_n"), res_.get("fp_8n")) if mode == "emit" else (res_.get("peak_n"), res_.get("peak_8n"))
            if a is None or b is None:
                rep.count("out_of_model")
                vc.log("no footprint for %r: %s" % (src, {k: v for k, v in res_.items() if k in ("perr", "cerr", "err", "ended")}))
                continue
            g = grew(a, b)
            if exp == "grow":
                real_ctl += 1 if g else 0
                continue
            if g:
                rep.violation("interpreter state grows with the number of turns: %r: after %d turns %s, after %d turns %s" % (src, n, a, 8 * n, b),
                              dict(case, actual={"n": a, "8n": b, "grown": g}))
            else:
                rep.count("traces_validated_against_impl")
                rep.nontrivial([src, mode])
                rep.sample({"program": src, "mode": mode, "n": n, "footprint_n": a, "footprint_8n": b})
        rep.cov["negative_controls_growing_on_real_code"] = real_ctl
        rep.cov["programs"] = len(progs)
        rep.cov["rule"] = ("every iteration form of the property and the tail-recursive definition shapes of M8; model: FP constant at the loop head over ~40 turns on VM.tla; "
                           "real: footprint after n vs 8n outputs / peak over runs of n vs 8n turns; non-trivial = a program whose real footprint was measured at both points")
        return rep.finish()
    finally:
        work.cleanup()
