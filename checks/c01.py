"""C01 - query evaluation follows jq's backtracking-generator semantics.

model -> code : GenCore.tla enumerates every program of depth <= 1 of the core grammar
                (exhaustive) and seeded samples of depth 2; lib/jqgen.py adds random programs
                up to ~60 nodes; the queries of cli/test.yaml that fall in the grammar.
code -> model : each (program, input) is run by the real gojq (public API) and TLC evaluates
                JqSem.tla on the AST the real parser produced; verdict per run.
"""
import random

import evalfam
import jqgen
import vcheck as vc

PROP = "C01"


def stale_alt_vars(rec, run, rv):
    return False


PREDICATES = {}


def machine(rep, work, vh, prelude, r, quick, cases):
    """PStack.tla model-checked against immutable lists (+ its negative control), bound to stack.go by replayed
    operation sequences; VM.tla stepped along the recorded traces of the real interpreter with refinement to JqSem."""
    import vmfam
    res = vc.tlc(work.dir, "PStackMC.tla", "PStackMC.cfg" if quick else "PStackMC_deep.cfg", workers=vc.NCPU, timeout=1500)
    rep.add_tlc(res)
    if not res.ok():
        raise vc.ToolError("PStackMC failed:\n" + vc.tlc_error_text(res))
    rep.cov["pstack_mc_states"] = res.distinct
    neg = vc.tlc(work.dir, "PStackMC.tla", "PStackMC_bug.cfg", workers=4, timeout=300)
    if "SavedIntact is violated" not in neg.out:
        raise vc.ToolError("negative control: PStackMC with BugIgnoreLimit must violate SavedIntact")
    ops = [{"id": i, "kind": r.choice(["stack", "scope"]),
            "ops": [{"op": r.choice(["push", "push", "pop", "save", "restore"]), "arg": r.randrange(5)} for _ in range(r.randrange(5, 80))]}
           for i in range(400 if quick else 5000)]
    vc.write_ndjson(work.path("ps.cases"), ops)
    vc.sh([vh, "pstack", "-in", work.path("ps.cases"), "-out", work.path("ps.trace")])
    res = vc.tlc(work.dir, "ValidatePStack.tla", "ValidatePStack.cfg", env={"VERIF_TRACE": work.path("ps.trace"), "VERIF_OUT": work.path("ps.verdict")}, timeout=900)
    rep.add_tlc(res)
    if not res.ok():
        raise vc.ToolError("ValidatePStack failed:\n" + vc.tlc_error_text(res))
    bad = [v for v in vc.read_ndjson(work.path("ps.verdict")) if v["bad"] != 0]
    rep.count("evaluations", len(ops))
    rep.count("traces_validated_against_impl", len(ops) - len(bad))
    rep.cov["pstack_sequences"] = len(ops)
    for v in bad[:3]:
        case = next(o for o in ops if o["id"] == v["id"])
        rep.violation("the real persistent stack diverges from PStack.tla at operation %d of %s" % (v["bad"], case["ops"][:v["bad"]]),
                      {"family": "pstack", "case": case, "actual": {"first_bad_op": v["bad"]}})
    sample = r.sample(cases, min(len(cases), 400 if quick else 12000))
    vmcases = [{"id": i, "src": c["src"], "input": r.choice(c["inputs"])} for i, c in enumerate(sample)]

    def on_verdict(rec, v):
        if v["v"] == "ok" and v.get("ref") == "mismatch" or v["v"] in ("ref-mismatch", "out-mismatch"):
            vc.log("VM.tla / JqSem.tla / real disagree on %r (%s): spec-level disagreement, the real-vs-JqSem verdict above decides" % (rec["src"], v["v"]))
            rep.count("spec_drift")

    _, _, vmc = vmfam.check(rep, work, vh, prelude, vmcases, family="vm", tag="c01vm", on_verdict=on_verdict)
    rep.cov["vm"] = vmc


def run(tier, seed, replay):
    rep = vc.Report(PROP, tier, seed)
    rep.assumptions += ["TLC evaluates JqSem.tla correctly", "the AST is the real parser's (C09 covers the parser)",
                        "numbers are compared as mathematical values (harness normalises Go representations)"]
    vh, _ = vc.build()
    work = vc.Work(PROP)
    try:
        prelude = evalfam.make_prelude(work, vh)
        if replay:
            evalfam.replay_file(rep, work, vh, prelude, replay, PREDICATES)
            return rep.finish(min_decided=0)
        r = random.Random(seed)
        uni = jqgen.input_universe()
        quick = tier == "quick"
        # 1. TLC-enumerated programs
        gen, res = evalfam.tlc_generate(work, "GenCore.tla", seed, {"VERIF_N2": "400" if quick else "20000"})
        rep.add_tlc(res)
        d1 = [g for g in gen if g["d"] == 1]
        d2 = [g for g in gen if g["d"] == 2]
        rep.cov["tlc_enumerated_depth1_programs"] = len(d1)
        if quick:
            # all programs whose meaning depends on state surviving an abandoned alternative, a sample of the rest
            keep = [g for g in d1 if "?//" in g["src"] or "label $m" in g["src"]]
            rest = [g for g in d1 if g not in keep]
            d1 = keep + r.sample(rest, max(0, 2500 - len(keep)))
        cases = []
        nin = 2 if quick else 6
        for g in d1 + d2:
            cases.append({"src": g["src"], "inputs": r.sample(uni, nin)})
        rep.cov["exhaustive"] = not quick
        # 2. seeded random programs of the full core grammar
        for _ in range(700 if quick else 40000):
            cases.append({"src": jqgen.program(r, r.choice([2, 3, 3, 4])), "inputs": r.sample(uni, 2 if quick else 3)})
        # 2b. lexical scoping (definitions / variables / labels made inside one sub-query are invisible in its siblings) and join points
        for src in jqgen.scope_programs():          # complete: ~650 programs
            cases.append({"src": src, "inputs": r.sample(uni, 1 if quick else 2)})
        for _ in range(100 if quick else 20000):
            cases.append({"src": jqgen.scope_program(r), "inputs": r.sample(uni, 1 if quick else 2)})
        for _ in range(150 if quick else 10000):
            cases.append({"src": jqgen.join_program(r), "inputs": r.sample(uni, 1 if quick else 2)})
        for _ in range(200 if quick else 8000):
            cases.append({"src": jqgen.rebind_program(r), "inputs": r.sample(uni, 1 if quick else 2)})
        spare = [jqgen.V(x) for x in ([1, 2, 3], [1, 2, 3, 4, 5], [[1], [2], [3]], {"a": [1, 2, 3]}, ["a", "b", "c", "d", "e", "f"], [1, 2, 3, 4, 5, 6, 7], [1], [])]
        for _ in range(250 if quick else 10000):
            cases.append({"src": jqgen.alias_program(r), "inputs": r.sample(spare, 2)})
        # 2c. the witnesses of repaired findings
        cases += [{"src": c["src"], "inputs": c["inputs"]} for c in evalfam.regression_cases()]
        # a value compared with ITSELF (one Go object on both sides): equality and order are decided by the values, element by element
        # (nan is smaller than and different from every number, itself included), never by the identity of the operands
        selfv = ["[nan]", "{a: nan}", "[[nan]]", "[1, nan]", "[nan, nan]", "[infinite - infinite]", "{a: [nan], b: 1}", "[1, [2, {a: nan}]]", "nan", "[.]", "[., nan]", "{a: .}", "[]", "{}", "[1, [2]]", "."]
        selff = ["%s | . == .", "%s | . != .", "%s | . < .", "%s | . <= .", "%s | . > .", "%s | . >= .", "%s as $x | $x == $x, $x < $x", "%s as $x | [$x] == [$x], [$x] < [$x]", "%s as $x | {k: $x} == {k: $x}", "%s | (. - .)?, ([.] - [.])",
                 "%s | [.] | index(.[0])", "%s | [.] | inside(.), contains(.)", "%s | [., .] | .[0] == .[1], .[0] < .[1]", "%s | . as [$a] ?// $a | $a == $a", "%s | [limit(2; repeat(.))] | .[0] == .[1]", "[%s] | .[0] == .[0], . == .",
                 "%s | if . == . then \"same\" else \"different\" end", "%s | select(. == .)", "[%s | ., .] | (.[0] == .[1]), (.[0] >= .[1])", "%s | to_entries? | . == ."]
        for v in selfv:
            for f in (selff if not quick else r.sample(selff, 7)):
                cases.append({"src": f % v, "inputs": r.sample(uni, 1) + [jqgen.V(None)]})
        # 3. corpus
        cor = evalfam.corpus_cases(work, vh)
        rep.cov["corpus_queries"] = len(cor)
        cases += [{"src": c["src"], "inputs": c["inputs"]} for c in cor]
        for i, c in enumerate(cases):
            c["id"] = i
        counters = evalfam.check_cases(rep, work, vh, prelude, cases, PREDICATES, timeout=900 if quick else 3000)
        rep.cov["verdicts"] = counters
        # 4. the machine underneath: persistent stacks and the interpreter
        machine(rep, work, vh, prelude, r, quick, cases)
        rep.cov["rule"] = ("programs: every depth<=1 AST of GenCore.tla (thorough: all, quick: 2500 sampled), seeded depth-2 samples, "
                           "random programs of lib/jqgen.py, cli/test.yaml queries; x inputs from a 30-value universe; "
                           "non-trivial = spec result has an output or an error; distinct by (source, input)")
        return rep.finish()
    finally:
        work.cleanup()
