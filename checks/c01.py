"""C01 - query evaluation follows jq's backtracking-generator semantics.

model -> code : GenCore.tla enumerates every program of depth <= 1 of the core grammar
                (exhaustive) and seeded samples of depth 2; lib/jqgen.py adds random programs
                up to ~60 nodes; the queries of cli/test.yaml that fall in the grammar.
code -> model : each (program, input) is run by the real gojq (public API) and TLC evaluates
                JqSem.tla on the AST the real parser produced; verdict per run.
"""
import random

import evalfam
import jqgen
import vcheck as vc

PROP = "C01"


def stale_alt_vars(rec, run, rv):
    return False


PREDICATES = {}


def run(tier, seed, replay):
    rep = vc.Report(PROP, tier, seed)
    rep.assumptions += ["TLC evaluates JqSem.tla correctly", "the AST is the real parser's (C09 covers the parser)",
                        "numbers are compared as mathematical values (harness normalises Go representations)"]
    vh, _ = vc.build()
    work = vc.Work(PROP)
    try:
        prelude = evalfam.make_prelude(work, vh)
        if replay:
            evalfam.replay_file(rep, work, vh, prelude, replay, PREDICATES)
            return rep.finish(min_decided=0)
        r = random.Random(seed)
        uni = jqgen.input_universe()
        quick = tier == "quick"
        # 1. TLC-enumerated programs
        gen, res = evalfam.tlc_generate(work, "GenCore.tla", seed, {"VERIF_N2": "400" if quick else "6000"})
        rep.add_tlc(res)
        d1 = [g for g in gen if g["d"] == 1]
        d2 = [g for g in gen if g["d"] == 2]
        rep.cov["tlc_enumerated_depth1_programs"] = len(d1)
        if quick:
            d1 = r.sample(d1, 2500)
        cases = []
        nin = 2 if quick else 6
        for g in d1 + d2:
            cases.append({"src": g["src"], "inputs": r.sample(uni, nin)})
        rep.cov["exhaustive"] = not quick
        # 2. seeded random programs of the full core grammar
        for _ in range(700 if quick else 12000):
            cases.append({"src": jqgen.program(r, r.choice([2, 3, 3, 4])), "inputs": r.sample(uni, 2 if quick else 3)})
        # 3. corpus
        cor = evalfam.corpus_cases(work, vh)
        rep.cov["corpus_queries"] = len(cor)
        cases += [{"src": c["src"], "inputs": c["inputs"]} for c in cor]
        for i, c in enumerate(cases):
            c["id"] = i
        counters = evalfam.check_cases(rep, work, vh, prelude, cases, PREDICATES, timeout=900 if quick else 3000)
        rep.cov["verdicts"] = counters
        rep.cov["rule"] = ("programs: every depth<=1 AST of GenCore.tla (thorough: all, quick: 2500 sampled), seeded depth-2 samples, "
                           "random programs of lib/jqgen.py, cli/test.yaml queries; x inputs from a 30-value universe; "
                           "non-trivial = spec result has an output or an error; distinct by (source, input)")
        return rep.finish()
    finally:
        work.cleanup()
