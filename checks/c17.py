"""C17 - reported error positions point at the offending byte.

design level  : ErrPosMC.tla (window machine of non-seekable input + getContents of seekable input,
                scaled constants, every read chunking / stream / fault position), ErrPosLemma.tla
                (ReportAt on run-length encoded texts = getLineByOffset on the expanded contents).
                The code-level model is FIXRA = TRUE (D9 repaired in /repo, commit 8c982d6), FIXCR = TRUE (D13
                repaired, commit f5ac789): TLC must prove the property for it, and must find D9 / D13 on the
                PRE-repair switches (FIXRA = FALSE resp. FIXCR = FALSE: negative controls of the model only).
model -> code : ErrPosGen.tla enumerates query texts (every sequence of <= 3 / 5 symbols of {a, e-acute, hiragana,
                e+combining, LF, CR, CRLF}; every alignment of multi-byte runes with the two excerpt cuts);
                faults with an offending byte known by construction (every corruption position of
                multi-line documents / queries x sizes x preceding documents x transport x terminators
                x ASCII / multi-byte / double-width neighbourhood x long lines) are run through the
                REAL binary build/gojq (vh c17run: files, redirected stdin, pipes with a controlled
                write schedule) and through gojq.Parse.
code -> model : the report parsed from stderr is validated by TLC (ErrPosTrace.tla, real constants)
                against TrueReport / the window model / Correct.
"""
import concurrent.futures as cf
import json
import os
import random
import re

import vcheck as vc

PROP = "C17"
# D9 (discarded read-ahead) is fixed in /repo: a D9-class record is a plain mismatch -> VIOLATION now.
F_D13 = "F-D13-lone-cr-line-count"
F_TOK = "F-D14-stringstart-stale-token"
F_STREAM = "F-D15-stream-token-offset"
F_YAML = "F-D16-yaml-character-index"

# ---------------------------------------------------------------------------
# run-length encoded texts


class Text:
    """A byte string as a list of (unit, repetitions)."""

    def __init__(self, segs=()):
        self.segs = []
        for u, n in segs:
            self.add(u, n)

    def add(self, u, n=1):
        if isinstance(u, str):
            u = u.encode()
        if len(u) == 0 or n <= 0:
            return self
        if n == 1 and len(u) > 3000:          # keep explicit units short (TLC walks them recursively)
            for i in range(0, len(u), 3000):
                self.add(u[i:i + 3000])
            return self
        if n == 1 and self.segs and self.segs[-1][1] == 1 and len(self.segs[-1][0]) + len(u) <= 3000:
            self.segs[-1] = (self.segs[-1][0] + u, 1)
        else:
            self.segs.append((bytes(u), n))
        return self

    def extend(self, other):
        for u, n in other.segs:
            self.add(u, n)
        return self

    def __len__(self):
        return sum(len(u) * n for u, n in self.segs)

    def cut(self, a, b):
        """text[a:b] as a Text"""
        out = Text()
        pos = 0
        for u, n in self.segs:
            m = len(u)
            L = m * n
            lo, hi = max(a, pos), min(b, pos + L)
            if lo < hi:
                lo -= pos
                hi -= pos
                r0, o0 = divmod(lo, m)
                r1, o1 = divmod(hi, m)
                if r0 == r1:
                    out.add(u[o0:o1])
                else:
                    if o0:
                        out.add(u[o0:])
                        r0 += 1
                    out.add(u, r1 - r0)
                    out.add(u[:o1])
            pos += L
        return out

    def splice(self, pos, ins, dele=0):
        t = self.cut(0, pos)
        t.add(ins)
        t.extend(self.cut(pos + dele, len(self)))
        return t

    def bytes(self):
        return b"".join(u * n for u, n in self.segs)

    def json(self):
        return [{"u": list(u), "n": n} for u, n in self.segs]


# ---------------------------------------------------------------------------
# generators

TERMS = {"LF": "\n", "CRLF": "\r\n", "CR": "\r"}
WORDS = ["a", "bc", "key", "x y", "é", "éé", "あ", "あい", "😀", "é", "日本", "ｆｕ", "0", "-", "longer word"]


def gen_value(r, depth):
    k = r.random()
    if depth <= 0 or k < 0.3:
        c = r.random()
        if c < 0.3:
            return r.choice([0, 1, 12, -3, 4.5, 123456])
        if c < 0.4:
            return r.choice([True, False, None])
        return "".join(r.choice(WORDS) for _ in range(r.randint(0, 4)))
    if k < 0.65:
        return [gen_value(r, depth - 1) for _ in range(r.randint(0, 3))]
    return {r.choice(WORDS) + str(i): gen_value(r, depth - 1) for i in range(r.randint(1, 3))}


def gen_doc(r, term, long_line=False):
    """A well-formed multi-line document (object or array), without the final terminator."""
    v = gen_value(r, 2)
    if not isinstance(v, (dict, list)) or not v:
        v = {"a": v, "b": [1, "あ"]}
    if long_line:
        s = "".join(r.choice(WORDS) for _ in range(r.randint(25, 70)))
        if isinstance(v, dict):
            v["long"] = s
            v["z"] = 1
        else:
            v.insert(r.randint(0, len(v)), s)
    txt = json.dumps(v, ensure_ascii=False, indent=r.choice([1, 2]))
    if long_line and r.random() < 0.4:
        txt = "[\n" + json.dumps(v, ensure_ascii=False) + ",\n1\n]"
    return txt.replace("\n", term)


def char_starts(b):
    return [i for i in range(len(b) + 1) if i == len(b) or (b[i] & 0xC0) != 0x80]


def in_string_map(b):
    """pos -> True if an insertion at pos lands inside a JSON string literal"""
    ins, esc, res = False, False, []
    for c in b:
        res.append(ins)
        if ins:
            if esc:
                esc = False
            elif c == 0x5C:
                esc = True
            elif c == 0x22:
                ins = False
        elif c == 0x22:
            ins = True
    res.append(ins)
    return res


def filler(r, style, size, term):
    """Valid documents of about `size` bytes: (Text, number of documents)."""
    t = Text()
    tb = term.encode()
    if size <= 0:
        return t
    if style == "bigstring":
        t.add(b'"').add(b"a", max(1, size - 2 - len(tb))).add(b'"' + tb)
    elif style == "smalldocs":
        u = r.choice([b"[12]", b"7", b'"s"', b'{"a":1}']) + tb
        t.add(u, max(1, size // len(u)))
    elif style == "multiline":
        u = b"{" + tb + b' "k": [1,' + tb + b"  2]" + tb + b"}" + tb
        t.add(u, max(1, size // len(u)))
    elif style == "longline":
        t.add(b"[").add(b"1, ", max(1, (size - 3 - len(tb)) // 3)).add(b"1]" + tb)
    elif style == "widestring":
        t.add(b'"').add("あ".encode(), max(1, (size - 2 - len(tb)) // 3)).add(b'"' + tb)
    elif style == "mixed":
        n = max(1, size // 3)
        t.add(b'"').add(b"a", n).add(b'"' + tb)
        u = b"[1," + tb + b"2]" + tb
        t.add(u, max(1, (size - n) // len(u)))
    return t


SIZES = [0, 0, 0, 30, 300, 3000, 8000, 12200, 12300, 16000, 16370, 16384, 16400, 17000, 20000, 24000, 32760, 33000, 40000, 50000, 66000, 82000]
STYLES = ["bigstring", "smalldocs", "multiline", "longline", "widestring", "mixed"]
TRAILERS = ["", "T", "T2T3T", "TTT5T6T", "T[1,T2]T"]


def schedule(r, total, p):
    """write boundaries of a pipe"""
    k = r.random()
    if k < 0.35 or total < 4:
        return []
    if k < 0.55:
        step = r.choice([100, 511, 512, 513, 1000, 1536, 4096, 8192, 16383, 16384, 16385, 20000, 30000])
        step = max(step, total // 60 + 1)
        return list(range(step, total, step))
    if k < 0.8:
        return sorted(set(r.randint(1, total - 1) for _ in range(r.randint(1, 6))))
    c = [x for x in (p - r.randint(0, 3), p + 1 + r.randint(0, 70)) if 0 < x < total]
    return sorted(set(c + [r.randint(1, total - 1) for _ in range(r.randint(0, 3))]))


def json_fault_cases(r, n_docs, per_doc_scen, big):
    """faults in multi-line JSON documents; the offending byte is known by construction"""
    cases = []
    for di in range(n_docs):
        tname = r.choice(list(TERMS))
        term = TERMS[tname]
        doc = gen_doc(r, term, long_line=(di % 3 == 1)).encode()
        starts = char_starts(doc)
        instr = in_string_map(doc)
        faults = []
        for x in starts:
            faults.append(("ctl", x))
            if not instr[x]:
                faults.append((r.choice(["wide", "wide", "mb", "emoji"]), x))
            elif r.random() < 0.3:
                faults.append(("nl", x))
            if 0 < x < len(doc):
                faults.append(("trunc", x))
        if not big and len(faults) > per_doc_scen:
            faults = r.sample(faults, per_doc_scen)
        for kind, x in faults:
            size = r.choice(SIZES)
            style = r.choice(STYLES)
            pre = filler(r, style, size, term)
            off = len(pre)
            t = Text().extend(pre)
            trailer = r.choice(TRAILERS).replace("T", term)
            if kind == "trunc":
                t.add(doc[:x])
                err = {"k": "eof"}
            else:
                ins = {"ctl": b"\x01", "wide": "あ".encode(), "mb": "é".encode(), "emoji": "😀".encode(),
                       "nl": r.choice([b"\n", b"\r"])}[kind]
                t.add(doc[:x] + ins + doc[x:])
                t.add(trailer if trailer else "")
                err = {"k": "syntax", "p": off + x}
            tr = r.choice(["file", "redirect", "pipe", "pipe", "pipe", "multi", "multistdin"])
            c = {"kind": "json", "text": t, "err": err, "fault": kind, "term": tname, "style": style, "size": size}
            set_transport(r, c, tr, term)
            cases.append(c)
    return cases


def set_transport(r, c, tr, term="\n"):
    total = len(c["text"])
    p = c["err"].get("p", total)
    c["args"] = ["-c", "."]
    c["transport"] = "pipe"
    c["tr"] = "pipe"
    c["name"] = "<stdin>"
    if tr == "file":
        c.update(transport="file", tr="file", name=r.choice(["in.json", "data:3.json", "ｆ.json"]))
        c["args"] += ["@FILE@"]
    elif tr == "redirect":
        c.update(transport="redirect", tr="file")
    elif tr == "pipe":
        c["cb"] = schedule(r, total, p)
    elif tr == "multi":
        c.update(transport="file", tr="file", name="last.json")
        c["before"] = [Text().add("[1," + term + "2]" + term, r.choice([1, 3, 3000])), Text().add("{}" + term)]
        c["args"] += ["@BEFORE@", "@FILE@"]
    elif tr == "multistdin":
        c["cb"] = schedule(r, total, p)
        c["before"] = [Text().add('"x"' + term + "[1," + term + "2]" + term, r.choice([1, 2, 2500]))]
        c["args"] += ["@BEFORE@", "-"]
    c.setdefault("cb", [])


def bigdoc_cases(r, n):
    """one faulty document of up to 5 buffer lengths; the fault at sampled positions"""
    cases = []
    for _ in range(n):
        tname = r.choice(list(TERMS))
        term = TERMS[tname].encode()
        unit = r.choice([b"  1234567,", b'  "abc", ', '  "あいう",'.encode(), b"  [1, 2, 3], [4, 5, 6], [7, 8, 9], [10, 11, 12], [13, 14, 15], [16, 17, 18], [19, 20],"]) + term
        reps = r.choice([3, 40, 400, 1500, 1700, 3000, 8000]) * 10 // len(unit) + 1
        j = r.randrange(reps)
        o = r.choice([0, 2, len(unit) - len(term) - 1, len(unit) - len(term)])
        kind = r.choice(["ctl", "ctl", "trunc", "wide"])
        if kind == "wide" and unit[2:3] == b'"':
            o = r.choice([0, 2])
        pre = filler(r, r.choice(STYLES), r.choice([0, 0, 0, 100, 5000, 16384, 20000]), term.decode())
        t = Text().extend(pre).add(b"[" + term).add(unit, j)
        p = len(t) + o
        if kind == "trunc":
            t.add(unit[:o] if o else b"")
            err = {"k": "eof"}
            if len(t) == len(pre):
                continue
        else:
            ins = b"\x01" if kind == "ctl" else "あ".encode()
            t.add(unit[:o] + ins + unit[o:]).add(unit, reps - j - 1).add(b"  0" + term + b"]" + term)
            err = {"k": "syntax", "p": p}
        c = {"kind": "json", "text": t, "err": err, "fault": "big-" + kind, "term": tname, "style": "bigdoc", "size": len(t)}
        set_transport(r, c, r.choice(["file", "redirect", "pipe", "pipe"]), term.decode())
        cases.append(c)
    return cases


def witness_cases():
    """the D9 (repaired: regression) / D13 witnesses and their neighbours (fixed list)"""
    out = []
    for trail in ["", "\n\n\n5\n6\n"]:
        for tr in ["pipe", "file", "redirect"]:
            t = Text().add(b'"').add(b"a", 40000).add('"\n2\n3\n{"a":x}\n' + trail)
            c = {"kind": "json", "text": t, "err": {"k": "syntax", "p": 40002 + 5 + 5}, "fault": "witness-d9", "term": "LF", "style": "bigstring", "size": 40002}
            c.update(args=["-c", "."], cb=[])
            if tr == "pipe":
                c.update(transport="pipe", tr="pipe", name="<stdin>")
            elif tr == "file":
                c.update(transport="file", tr="file", name="d9.json")
                c["args"] += ["@FILE@"]
            else:
                c.update(transport="redirect", tr="file", name="<stdin>")
            out.append(c)
    for term in ["\r", "\n", "\r\n"]:
        for tr in ["pipe", "file"]:
            t = Text().add("[12]" + term, 5000).add('{"a":x}' + term)
            c = {"kind": "json", "text": t, "err": {"k": "syntax", "p": 5000 * (4 + len(term)) + 5}, "fault": "witness-d13", "term": term, "style": "smalldocs", "size": len(t)}
            c.update(args=["-c", "."], cb=[])
            if tr == "pipe":
                c.update(transport="pipe", tr="pipe", name="<stdin>")
            else:
                c.update(transport="file", tr="file", name="cr.json")
                c["args"] += ["@FILE@"]
            out.append(c)
    t = Text().add(b'"').add(b"a", 40000).add('"\n2\n3\n{"a":')
    out.append({"kind": "json", "text": t, "err": {"k": "eof"}, "fault": "witness-d9-eof", "term": "LF", "style": "bigstring", "size": 40002,
                "args": ["-c", "."], "cb": [], "transport": "pipe", "tr": "pipe", "name": "<stdin>"})
    return out


def other_json_routes(r, n):
    """--slurpfile, --argjson, --jsonargs, JSON module data: the same report function"""
    cases = []
    for _ in range(n):
        term = r.choice(list(TERMS.values()))
        doc = gen_doc(r, term).encode()
        route = r.choice(["slurpfile", "argjson", "jsonargs", "modjson"])
        x = r.choice(char_starts(doc)[:-1] if route in ("argjson", "jsonargs") else char_starts(doc))
        t = Text().add(doc[:x] + b"\x01" + doc[x:])
        err = {"k": "syntax", "p": x}
        if route in ("slurpfile", "modjson") and r.random() < 0.6:
            # a file of SEVERAL values: the fault is in a later one (positions are absolute in the file, whatever the decoder has consumed), more values may follow
            pre = Text()
            for _ in range(r.randint(1, 4)):
                pre.add(gen_doc(r, term).encode() + term.encode(), r.choice([1, 1, 2, 7, 300, 2000]))
            post = (term + gen_doc(r, term) + term).encode() if r.random() < 0.5 else b""
            kind = r.choice(["ctl", "ctl", "trunc"])
            if kind == "trunc" and 0 < x < len(doc) and not post:
                t, err = Text().extend(pre).add(doc[:x]), {"k": "eof"}
            else:
                t, err = Text().extend(pre).add(doc[:x] + b"\x01" + doc[x:] + post), {"k": "syntax", "p": len(pre) + x}
        c = {"kind": "json", "text": t, "err": err, "fault": "route-" + route, "term": term, "style": "route", "size": 0, "cb": []}
        if route == "slurpfile":
            c.update(transport="file", tr="file", name="s.json", args=["-n", "--slurpfile", "a", "@FILE@", "$a"])
        elif route == "argjson":
            c.update(transport="none", tr="file", name="$a", args=["-n", "--argjson", "a", "@TEXT@", "$a"])
        elif route == "jsonargs":
            c.update(transport="none", tr="file", name="--jsonargs", args=["-n", "$ARGS", "--jsonargs", "1", "@TEXT@"])
        else:
            c.update(transport="file", tr="whole", name="d.json", args=["-n", "-L", ".", 'import "d" as $d; $d'])
        cases.append(c)
    return cases


def stream_cases(r, n):
    """--stream on small seekable inputs: the same faults, positions from the token API (environment)"""
    cases = []
    for _ in range(n):
        term = r.choice(list(TERMS.values()))
        doc = gen_doc(r, term).encode()
        starts = char_starts(doc)
        instr = in_string_map(doc)
        x = r.choice(starts)
        kind = r.choice(["ctl", "wide", "trunc"])
        if kind == "wide" and instr[x]:
            kind = "ctl"
        if kind == "trunc":
            if not 0 < x < len(doc):
                continue
            t, err = Text().add(doc[:x]), {"k": "eof"}
        else:
            t, err = Text().add(doc[:x] + (b"\x01" if kind == "ctl" else "あ".encode()) + doc[x:] + term.encode()), {"k": "syntax", "p": x}
        c = {"kind": "jsonstream", "text": t, "err": err, "fault": "stream-" + kind, "term": term, "style": "stream", "size": 0, "cb": []}
        if r.random() < 0.5:
            c.update(transport="file", tr="file", name="s.json", args=["--stream", "-c", ".", "@FILE@"])
        else:
            c.update(transport="redirect", tr="file", name="<stdin>", args=["--stream", "-c", "."])
        cases.append(c)
    return cases


# ---- YAML: the index is go-yaml's; the arithmetic from the index to the report is gojq's

def yaml_cases(r, n):
    cases = []
    for _ in range(n):
        term = r.choice(["\n", "\n", "\r\n"])
        lines = []
        for i in range(r.randint(1, 6)):
            w = "".join(r.choice(WORDS[:12]) for _ in range(r.randint(1, 3))).replace(" ", "_").replace("-", "m")
            lines.append("k%d: %s" % (i, r.choice(["1", "[1, 2]", '"' + w + '"', w or "v"])))
        bad = r.choice(["bad: [1, 2", "x: }", "y: \"abc", "  - z: ]", "あ: [é, }", "k: {a: 1, ]"])
        pos = r.randint(0, len(lines))
        lines.insert(pos, bad)
        # byte order marks: at the start of the stream (the one character go-yaml does not count), at the start of later documents and
        # inside scalars (counted like any other character)
        with_pre = r.random() < 0.4       # (drawn here: a mark at the start of a LINE inside the repeated prefix lines would split them into a document of their own)
        if r.random() < 0.4:
            head = []
            for j in range(0 if with_pre else r.randint(0, 3)):
                head += [("\ufeff" if r.random() < 0.7 else "") + "d%d: %s" % (j, r.choice(["1", '"a\ufeffb"', "[\ufeff1]" if False else "[1]"])), "---"]
            if r.random() < 0.6 and not with_pre:
                head = ["\ufeff" + head[0]] + head[1:] if head else head
                if not head:
                    lines[0] = "\ufeff" + lines[0]
            if head and r.random() < 0.5:
                lines[0] = "\ufeff" + lines[0]
            if r.random() < 0.5:
                k = r.randrange(0, pos + 1)
                lines.insert(k, 'w%d: "\ufeffé\ufeff"' % k)
                pos += 1
            lines = head + lines
            pos += len(head)
        known_at = None
        if bad in ("x: }", "あ: [é, }"):
            known_at = len(term.join(lines[:pos] + [""]).encode()) + len(bad.encode()) - 1
        pre = Text()
        if with_pre:
            pre.add("p: [1, 2]" + term, r.choice([10, 1500, 2500, 5000]))
        txt = term.join(lines) + r.choice(["", term])
        c = {"kind": "yaml", "text": Text().extend(pre).add(txt), "fault": "yaml", "term": term, "style": "yaml", "size": len(pre), "cb": []}
        if known_at is not None:
            c["err"] = {"k": "syntax", "p": len(pre) + known_at}
        if r.random() < 0.5:
            c.update(transport="file", tr="whole", name="in.yaml", args=["--yaml-input", "-c", ".", "@FILE@"])
        else:
            c.update(transport="pipe", tr="whole", name="<stdin>", args=["--yaml-input", "-c", "."])
            c["cb"] = schedule(r, len(c["text"]), len(pre))
        cases.append(c)
    return cases


# ---- queries: token kinds at fault, by construction

# tokens that cannot follow a complete term
AFTER_TERM = ["1", "1.5e3", '"s"', '"あ"', "$x", "$__loc__", "@base64", "foo", "foo::bar", "$m::v", "..", "if", "def", "reduce",
              "foreach", "try", "label", "import", "include", "null", "true", "false", "{", "☆", "★", "あ", "&", "\\", "^", "~", "`",
              "1a", "1.2.3", "0x1", "1e", "1e+", ".5a", ".1e+", ".2.3", ('"a\\qb"', 2), ('"\\u12x4"', 1), "'"]
# tokens that cannot follow an operator that wants a term
AFTER_OP = [")", "]", "}", "then", "elif", "else", "end", "as", "catch", "and", "or", "|=", "=", "+=", "-=", "*=", "/=", "%=", "//=",
            "==", "!=", "<", "<=", ">", ">=", "?//", "//", ",", "|", ";", ":", "*", "/", "%", "?", "☆", "😀", "&", "1a", "1.e5x", ".5a", ".7.", ('"a\\qb"', 2)]
STRING_START = ['"abc\\(1)"', '"\\(.)"', '"あ\\(1)x"']
PREFIX_TERM = [".a", ".a | .b", "[.a, 1]", '"あいう" | .c', "{a: 1}", ".[0]", "(.a)", "1 as $x | $x", '"é\\(1)z"', "def f: 1; f", "# c\n.a"]
PREFIX_OP = [".a |", ".a,", "1 +", "[1,", "{a:", "(", "if .a then", ".a as $x |", "reduce .[] as $x (0;", ".a //", ".a ==", "def f:", "try", '"x" |']
SUFFIX = ["", " | .c", " .d", "\n| .e", " # tail あ"]
WS = [" ", "\n", "\r\n", "\r", "  \n  ", "\t", " # comment é\n", "\n\n"]


def query_cases(r, n, lib_only=False):
    cases = []
    for _ in range(n):
        cls = r.choice(["term", "term", "op", "op", "stringstart", "eof", "unterminated"])
        lead = ""
        for _ in range(r.randint(0, 3)):
            lead += r.choice(['def g%d: "%s";' % (r.randint(0, 9), r.choice(WORDS)), "# " + r.choice(WORDS) * r.randint(1, 30), ""]) + r.choice(["\n", "\r\n", "\r", "\n"])
        if r.random() < 0.2:
            lead += '"' + "".join(r.choice(WORDS) for _ in range(r.randint(20, 40))) + '" as $long | '
        if cls in ("term", "stringstart"):
            pre = lead + r.choice(PREFIX_TERM) + r.choice(WS)
            bad = r.choice(AFTER_TERM if cls == "term" else STRING_START)
        elif cls == "op":
            pre = lead + r.choice(PREFIX_OP) + r.choice(WS)
            bad = r.choice(AFTER_OP)
        elif cls == "eof":
            pre = lead + r.choice(PREFIX_OP)
            bad = ""
        else:
            pre = lead + r.choice(PREFIX_OP) + r.choice(WS)
            bad = '"abc ' + r.choice(WORDS)
        delta = 0
        if isinstance(bad, tuple):
            bad, delta = bad
        if "\t" in pre:
            pre = pre.replace("\t", " ")      # tabs: outside the width table (runewidth counts 0 cells)
        if cls == "eof":
            src = pre + r.choice(["", "", "\n", " "])
            err = {"k": "eof"}
        elif cls == "unterminated":
            src = pre + bad + r.choice(["", " | .x", "\n.y"])
            err = {"k": "eof"}
        else:
            src = pre + bad + r.choice(SUFFIX)
            err = {"k": "syntax", "p": len(pre.encode()) + delta}
        c = {"kind": "lib" if lib_only else "query", "text": Text().add(src), "err": err, "fault": "q-" + cls, "cls": cls, "tok": bad, "cb": [], "term": "", "style": "query", "size": 0}
        if not lib_only:
            route = r.choice(["arg", "qfile", "qfile", "module"])
            if route == "arg" and (src != src.strip() or src.startswith("-")):
                route = "qfile"
            if route == "module" and ("import" in src or "include" in src):
                route = "qfile"
            if route == "arg":
                c.update(transport="none", tr="whole", name="<arg>", args=["-n", "@TEXT@"])
            elif route == "qfile":
                c.update(transport="file", tr="whole", name="q.jq", args=["-n", "-f", "@FILE@"])
            else:
                c.update(transport="file", tr="whole", name="m.jq", args=["-n", "-L", ".", 'import "m" as m; 1'])
        cases.append(c)
    return cases


def tlc_generated_cases(rep, work, r, seed, quick):
    """query texts enumerated by TLC (ErrPosGen.tla): exhaustive small line structures and cut alignments"""
    out = work.path("gen.ndjson")
    res = vc.tlc(work.dir, "ErrPosGen.tla", "ErrPosGen.cfg", env={"VERIF_OUT": out, "VERIF_MAXLEN": "3" if quick else "5", "VERIF_CUT": "1"},
                 timeout=900, extra=["-seed", str(seed), "-noGenerateSpecTE"])
    if not res.ok() or not os.path.exists(out):
        raise vc.ToolError("generator ErrPosGen failed:\n" + vc.tlc_error_text(res))
    rep.add_tlc(res)
    gen = vc.read_ndjson(out)
    lines = [g for g in gen if g["fam"] == "lines"]
    cut = [g for g in gen if g["fam"] == "cut"]
    rep.cov["tlc_enumerated_texts"] = {"lines": len(lines), "cut": len(cut)}
    if quick:
        cut = r.sample(cut, 500)
    cases = []
    for g in lines + cut:
        cases.append({"kind": "query", "text": Text().add(bytes(g["b"])), "err": {"k": "syntax", "p": g["p"]}, "fault": "gen-" + g["fam"], "cls": "term",
                      "cb": [], "term": "", "style": "tlc", "size": 0, "transport": "file", "tr": "whole", "name": "q.jq", "args": ["-n", "-f", "@FILE@"]})
    return cases


# ---------------------------------------------------------------------------
# design-level model checking

def cfg_variant(work, base, subst, name):
    txt = open(os.path.join(vc.SPEC, base)).read()
    for a, b in subst.items():
        txt, k = re.subn(r"\b%s = \S+" % a, "%s = %s" % (a, b), txt)
        if k != 1:
            raise vc.ToolError("cfg %s: constant %s not found" % (base, a))
    p = work.path(name)
    open(p, "w").write(txt)
    return p


def model_check(rep, work, quick, seed):
    """Runs the TLC jobs of the design level in parallel; returns a dict of results."""
    jobs = {}
    md = "1" if quick else "2"
    nsh = 8 if quick else 16
    rep_max = "2" if quick else "3"
    extra = ["-noGenerateSpecTE"]
    w = 2 if quick else 6

    def run(name, module, cfg, env=None, workers=w, timeout=1500):
        return name, vc.tlc(work.dir, module, cfg, env=env, workers=workers, timeout=timeout, extra=extra, xmx="4g")

    with cf.ThreadPoolExecutor(max_workers=8 if quick else 6) as ex:
        futs = []
        futs.append(ex.submit(run, "code", "ErrPosMC.tla", cfg_variant(work, "ErrPosMC_code.cfg", {"MAXDOCS": md}, "code.cfg")))
        futs.append(ex.submit(run, "fixed", "ErrPosMC.tla", cfg_variant(work, "ErrPosMC_fixed.cfg", {"MAXDOCS": md}, "fixed.cfg")))
        futs.append(ex.submit(run, "refine", "ErrPosMC.tla", cfg_variant(work, "ErrPosMC_refine.cfg", {"MAXDOCS": "1"}, "refine.cfg")))
        futs.append(ex.submit(run, "d9", "ErrPosMC.tla", cfg_variant(work, "ErrPosMC_d9.cfg", {"MAXDOCS": md}, "d9.cfg"), None, 1))
        futs.append(ex.submit(run, "d13", "ErrPosMC.tla", cfg_variant(work, "ErrPosMC_d13.cfg", {"MAXDOCS": md}, "d13.cfg"), None, 1))
        lem = cfg_variant(work, "ErrPosLemma.cfg", {"MAXREP": rep_max}, "lemma.cfg")
        for k in range(nsh):
            futs.append(ex.submit(run, "lemma%d" % k, "ErrPosLemma.tla", lem, {"VERIF_SHARD": str(k), "VERIF_NSHARD": str(nsh)}, 1))
        for f in futs:
            name, res = f.result()
            jobs[name] = res
    return jobs


def judge_mc(rep, jobs):
    """Holds-jobs must complete without error; the d13 job must find the violation on the code-level model
    (open finding), the d9 job on the pre-repair switch FIXRA = FALSE (negative control: the model can still
    tell the repaired code from the former one).  Anything else is tool trouble / spec drift (exit 2)."""
    mc = {}
    for name, res in sorted(jobs.items()):
        rep.add_tlc(res)
        mc[name] = {"distinct": res.distinct, "generated": res.generated, "wall_s": round(res.wall, 1)}
        if name in ("d9", "d13"):
            inv = "PipeCorrect" if name == "d9" else "FileCorrect"
            found = ("Invariant %s is violated" % inv) in res.out
            mc[name]["violation_found"] = found
            if not found:
                raise vc.ToolError("TLC did not find the expected violation of %s on the code-level model:\n%s" % (inv, vc.tlc_error_text(res)))
        elif not res.ok() or "No error has been found" not in res.out:
            raise vc.ToolError("design-level model checking job %s failed:\n%s" % (name, vc.tlc_error_text(res)))
    rep.cov["model_checking"] = mc
    return mc


def d9_counterexample(res):
    """stream and read sizes of TLC's counterexample (last state of the trace)"""
    out = res.out
    i = out.rfind("/\\ S = ")
    m = re.search(r"/\\ S = \[pre \|-> <<([^>]*)>>, ed \|-> \[b \|-> <<([^>]*)>>, x \|-> (\d+)\], tr \|-> <<([^>]*)>>\]", out[i:] if i >= 0 else "")
    h = re.findall(r"/\\ hist = <<([^>]*)>>", out)
    if not m or not h:
        return None

    def ints(s):
        return [int(x) for x in s.split(",") if x.strip()]
    return {"pre": ints(m.group(1)), "ed": ints(m.group(2)), "x": int(m.group(3)), "tr": ints(m.group(4)), "hist": ints(h[-1])}


def concretise(cex, K):
    """TLC's counterexample with the real constants: the same stream with every digit replaced by K
    digits, the reads taken as the write schedule (positions mapped)."""
    t = Text()
    pos_map = [0]

    def put(bs):
        for b in bs:
            if b == 49:
                t.add(b"1", K)
            else:
                t.add(bytes([b]))
            pos_map.append(len(t))
    put(cex["pre"])
    base = len(pos_map) - 1
    put(cex["ed"])
    put(cex["tr"])
    if cex["x"] == 0:
        return None
    p = pos_map[base + cex["x"] - 1]
    cb, acc = [], 0
    for n in cex["hist"]:
        acc += n
        if n > 0 and acc < len(pos_map) - 1:
            cb.append(pos_map[acc])
    return {"kind": "json", "text": t, "err": {"k": "syntax", "p": p}, "fault": "tlc-counterexample", "term": "", "style": "tlc", "size": len(t),
            "args": ["-c", "."], "cb": cb, "transport": "pipe", "tr": "pipe", "name": "<stdin>"}


# ---------------------------------------------------------------------------
# replay + validation

def replay(work, vh, gojq, cases, tag):
    cpath, tpath = work.path(tag + ".cases.ndjson"), work.path(tag + ".trace.ndjson")
    vc.write_ndjson(cpath, [{"id": c["id"], "kind": c["kind"], "text": c["text"].json(), "transport": c.get("transport", "none"),
                             "cb": c.get("cb", []), "before": [b.json() for b in c.get("before", [])],
                             "args": c.get("args", []), "name": c.get("name", "")} for c in cases])
    vc.sh([vh, "c17run", "-in", cpath, "-out", tpath, "-gojq", gojq, "-tmp", work.path(tag + ".tmp", "x"), "-j", str(vc.NCPU)], timeout=3000)
    return vc.read_ndjson(tpath)


def trace_record(c, rec):
    o = dict(rec.get("obs") or {"fmt": "none"})
    o.setdefault("name", "")
    o.setdefault("line", 0)
    o.setdefault("ex", [])
    o.setdefault("col", 0)
    env = dict(rec.get("env") or {})
    env.setdefault("err", {"k": "none"})
    env.setdefault("vals", [])
    t = {"id": c["id"], "kind": c["kind"], "tr": c.get("tr", "whole"), "text": c["text"].json(), "cb": c.get("cb", []),
         "name": c.get("name", ""), "env": env,
         "obs": {"fmt": o["fmt"], "name": o["name"], "line": o["line"], "ex": o["ex"], "col": o["col"]}}
    if c["kind"] == "yaml" and isinstance(o.get("msg"), str):
        t["obs"]["msg"] = o["msg"]        # go-yaml's message: compared with the message of the logged environment call (same error?)
    if "err" in c:
        t["err"] = c["err"]
    if "cls" in c:
        t["cls"] = c["cls"]
    return t


def describe(c, rec, v):
    o = rec.get("obs") or {}
    ex = bytes(o.get("ex", [])).decode("utf8", "replace")
    return ("%s fault=%s transport=%s size=%d cb=%s err=%s: reported line=%s col=%s quoted=%r; specification: %s" % (
        c["kind"], c.get("fault"), c.get("transport"), len(c["text"]), c.get("cb", [])[:8], c.get("err"), o.get("line"), o.get("col"), ex[:80],
        json.dumps(v.get("info", v.get("why", "")), ensure_ascii=False)[:600]))


def replay_record(c, rec, v):
    return {"family": "errpos", "case": {k: (c[k].json() if k == "text" else [b.json() for b in c[k]] if k == "before" else c[k])
                                         for k in c if k != "id"},
            "actual": {"rc": rec.get("rc"), "stderr": rec.get("stderr"), "obs": rec.get("obs"), "env": rec.get("env")},
            "verdict": v}


def case_from_replay(d):
    c = dict(d["case"])
    c["text"] = Text([(bytes(s["u"]), s["n"]) for s in c["text"]])
    if "before" in c:
        c["before"] = [Text([(bytes(s["u"]), s["n"]) for s in b]) for b in c["before"]]
    return c


KNOWN = {"known_d13": F_D13, "known_tok": F_TOK, "known_yaml": F_YAML, "known_stream": F_STREAM}


def check_cases(rep, work, vh, gojq, cases, tag="t", timeout=900):
    for i, c in enumerate(cases):
        c["id"] = i
    recs = replay(work, vh, gojq, cases, tag)
    counters = {}

    def bump(k):
        counters[k] = counters.get(k, 0) + 1
    todo, trs = [], []
    for c, rec in zip(cases, recs):
        rep.count("evaluations")
        if rec.get("tool") or rec.get("timeout"):
            bump("tool")
            continue
        if (rec.get("env") or {}).get("panic"):
            rep.violation("gojq.Parse panics on %r" % c["text"].bytes()[:200], replay_record(c, rec, {"v": "panic"}))
            bump("panic")
            continue
        todo.append((c, rec))
        trs.append(trace_record(c, rec))
    cfg = "ErrPosTrace.cfg"
    verdicts, stats = vc.validate_sharded(work, trs, "ErrPosTrace.tla", cfg, {}, tag=tag, timeout=timeout, per_shard_min=30)
    rep.add_tlc(stats)
    open_ids = {k["id"] for k in rep.known}
    bad = []
    for (c, rec), v in zip(todo, verdicts):
        if "tlc" in v:
            bump("tlc_" + v["tlc"])
            rep.count("out_of_model")
            continue
        kind = v["v"]
        bump(kind)
        fam = "%s/%s/%s" % (c["kind"], c.get("tr"), kind)
        counters[fam] = counters.get(fam, 0) + 1
        if kind in ("agree", "agree_window", "correct_not_impl"):
            rep.count("traces_validated_against_impl")
            rep.nontrivial([c["kind"], c.get("fault"), c.get("tr"), c.get("term"), v.get("line"), v.get("col"), v.get("exlen"), len(c["text"])])
            if kind == "agree" and (c["id"] % 97 == 0):
                o = rec.get("obs") or {}
                rep.sample({"kind": c["kind"], "fault": c.get("fault"), "transport": c.get("transport"), "bytes": len(c["text"]), "err": c.get("err"),
                            "line": o.get("line"), "col": o.get("col"), "quoted": bytes(o.get("ex", [])).decode("utf8", "replace")[:70]})
        elif kind in KNOWN:
            bad.append((c, rec, v))
        elif kind in ("oom", "env_disagree"):
            rep.count("out_of_model")
        elif kind == "spec_error":
            raise vc.ToolError("specification inconsistent on a record (TrueReport not Correct): " + describe(c, rec, v))
        else:
            bad.append((c, rec, v))
    # disagreements and known classes: execute a second time (determinism), then classify
    if bad:
        again = replay(work, vh, gojq, [dict(c, id=i) for i, (c, _, _) in enumerate(bad)], tag + "r")
        for (c, rec, v), rec2 in zip(bad, again):
            if rec2.get("obs") != rec.get("obs") or rec2.get("rc") != rec.get("rc"):
                bump("not_reproduced")
                rep.count("out_of_model")
                vc.log("not reproduced on the second execution (undecided): " + describe(c, rec, v))
                continue
            fid = KNOWN.get(v["v"])
            if fid:
                # a genuine, listed defect class: reported only when the entry is open in known_findings.json
                if fid in open_ids:
                    rep.known_finding(fid, describe(c, rec, v)[:300])
                    continue
                bump("returned_" + v["v"])      # the class of a REPAIRED finding: it has come back -> violation
            rep.violation(describe(c, rec, v), replay_record(c, rec, v))
    return counters


def run(tier, seed, replay_path):
    rep = vc.Report(PROP, tier, seed)
    rep.assumptions += [
        "TLC evaluates the specification correctly",
        "the offending byte is the one corrupted by construction, cross-checked with the position encoding/json, go-yaml resp. gojq.Parse report for the same bytes (disagreement = undecided)",
        "go-runewidth is modelled by a width table of the test alphabet (ASCII, Latin-1, combining marks, kana, CJK, fullwidth, emoticons); other runes and tabs are out of model",
        "pipe reads are made deterministic by writing a chunk only when the pipe is empty (FIONREAD); the decoder buffer of encoding/json is modelled (slide, grow 2*cap+512, one Read per refill)",
    ]
    vh, gojq = vc.build()
    vh = os.environ.get("C17_VH") or vh        # development only: a privately built harness
    work = vc.Work(PROP)
    try:
        if replay_path:
            c = case_from_replay(json.load(open(replay_path)))
            counters = check_cases(rep, work, vh, gojq, [c], tag="replay")
            vc.log("replay:", counters)
            return rep.finish(min_decided=0)
        quick = tier == "quick"
        r = random.Random(seed)
        with cf.ThreadPoolExecutor(max_workers=1) as ex:
            mcf = ex.submit(model_check, rep, work, quick, seed)
            cases = witness_cases()
            cases += tlc_generated_cases(rep, work, r, seed, quick)
            cases += json_fault_cases(r, 6 if quick else 70, 260 if quick else 100000, big=not quick)
            cases += bigdoc_cases(r, 250 if quick else 4000)
            cases += other_json_routes(r, 120 if quick else 1500)
            cases += stream_cases(r, 150 if quick else 2500)
            cases += yaml_cases(r, 200 if quick else 3000)
            cases += query_cases(r, 700 if quick else 8000)
            cases += query_cases(r, 1500 if quick else 30000, lib_only=True)
            counters = {}
            B = 12000
            for bi in range(0, len(cases), B):
                cb = check_cases(rep, work, vh, gojq, cases[bi:bi + B], tag="t%d" % (bi // B), timeout=900 if quick else 3000)
                for k, v in cb.items():
                    counters[k] = counters.get(k, 0) + v
            jobs = mcf.result()
        judge_mc(rep, jobs)
        # TLC's counterexample for the property on the pre-repair model, at the real constants: regression case
        cex = d9_counterexample(jobs["d9"])
        if cex:
            ccs = [c for c in (concretise(cex, K) for K in (4100, 9000, 17000, 40000)) if c]
            rep.cov["tlc_counterexample"] = cex
            if ccs:
                c2 = check_cases(rep, work, vh, gojq, ccs, tag="cex")
                rep.cov["tlc_counterexample_on_real_binary"] = c2
                # D9 is repaired: the former witness must now be reported correctly (regression)
                rep.cov["tlc_counterexample_regression_agrees"] = sum(c2.get(k, 0) for k in ("agree", "agree_window")) == len(ccs)
        rep.cov["verdicts"] = counters
        rep.cov["cases"] = len(cases)
        rep.cov["exhaustive"] = True
        rep.cov["rule"] = ("design level: every stream of <= MAXDOCS documents x 6 faulty tails x 4 trailers x every read chunking (ErrPosMC, scaled constants), "
                           "every window/offset of every 2-segment run-length text over {a, LF, CR, e-acute, hiragana} (ErrPosLemma); "
                           "conformance: every character position of generated multi-line documents x fault kind (control byte, multi-byte, double-width, "
                           "newline in string, truncation) x preceding documents 0..82000 bytes x file/redirect/pipe(schedule)/multi-file x LF/CRLF/CR; "
                           "queries: token kinds after a term / after an operator / string start / EOF / unterminated string through arg, -f, module and gojq.Parse; "
                           "non-trivial = distinct (kind, fault, transport, terminator, line, caret, excerpt length, size)")
        return rep.finish()
    finally:
        work.cleanup()
