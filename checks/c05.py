"""C05 - runs are isolated: inputs, variables, embedded constants and emitted values are never modified; re-runs are identical.

Runs.tla is the trace specification of a HISTORY of runs of one compiled query (run on the same input object twice, on a
fresh equal copy, on another input, on the same object again) with the invariants InputUnchanged, VarsUnchanged,
ConstantsUnchanged (hook VerifConstants), EmittedStable (every emitted value re-inspected after every later step and after
the iterator finished) and RerunSame (identical outputs and serialisation).  The harness builds inputs with ALIASED
substructure (one Go object reachable under several keys, arrays with spare capacity, overlapping sub-slices of one backing
array) so that a missing copy anywhere becomes an observable change; programs come from the update/delete/add/sort/slice
grammar, random programs and the corpus.  Heap.tla's invariant I2 (C02 check) is the design-level counterpart.
"""
import json
import random

import evalfam
import jqgen
import vcheck as vc

PROP = "C05"
MODES = ["plain", "spare", "shared", "slices"]


STREAM_PROGS = [
    # (command line, query of the command, the same function of the document for the library / the specification)
    (["--stream", "-n", "-c"], "[inputs]", "[tostream]"),
    (["--stream", "--slurp", "-c"], ".", "[tostream]"),
    (["--stream", "-c"], ". as $d | [$d, (try input catch \"none\"), $d]", "[tostream] as $e | range(0; $e | length; 2) as $i | [$e[$i], (if $i + 1 < ($e | length) then $e[$i + 1] else \"none\" end), $e[$i]]"),
    (["--stream", "-n", "-c"], "reduce inputs as $e ([]; . + [$e]) | ., length", "[tostream] | ., length"),
    (["--stream", "-n", "-c"], "[inputs] | fromstream(.[])", "."),
    (["--stream", "-n", "-c"], "[inputs | .[0]]", "[tostream | .[0]]"),
    (["--stream", "-n", "-c"], "input as $a | [inputs] | [$a] + .", "[tostream]"),
    (["--stream", "-c"], "[., (try input catch \"none\")] | .[0]", "[tostream] as $e | range(0; $e | length; 2) as $i | $e[$i]"),
    (["--stream", "-n", "-c"], "[limit(3; inputs)] as $h | [inputs] as $t | $h, $t", "[tostream] | .[:3], .[3:]"),
    (["--stream", "-n", "-c"], "[inputs | select(length == 1)]", "[tostream | select(length == 1)]"),
    (["--stream", "-c"], "[., (try input_filename catch null)] | .[0]", "tostream"),
]


def stream_block(rep, work, vh, gojq, r, quick, only=None):
    """The events of --stream handed to a query are inputs and emitted values like any other: an event keeps its value while later events
    are read (`input`, `inputs`, --slurp).  Every command is compared, by TLC against JqSem.tla, with the same function of the document
    (tostream) - the command's output takes the place of the recorded library output in the trace record."""
    import subprocess
    prelude = evalfam.make_prelude(work, vh)
    # (the documents are written with sorted keys: --stream reports members in document order, tostream in key order)
    docs = [[[1], [2]], [[1, [2, 3]], {"a": [4, {"b": []}]}], {"a": [1, 2], "b": {"c": [[3]], "d": {}}}, [[[[1]]], [[2]], [3]], [], {}, 5, [1, 2, 3], {"a": {"b": {"c": 1}}, "d": [[], [[]]]}, [[], [1], [1, 2], [1, 2, 3]],
            [{"k": [1, [2, [3, [4]]]]}, [[5]]], "s", [None, [False, [True]]]] + ([] if quick else [jqgen.rand_value(r, 4) for _ in range(300)])
    if only:
        docs, progs = [only["doc"]], [tuple(only["prog"])]
    else:
        progs = STREAM_PROGS
    scases, meta = [], []
    for d in docs:
        for args, q, lq in progs:
            p = subprocess.run([gojq] + list(args) + [q], input=json.dumps(d, sort_keys=True), capture_output=True, text=True, timeout=60)
            try:
                outs = [jqgen.V(json.loads(line)) for line in p.stdout.splitlines()] if p.returncode == 0 else None
            except Exception:
                outs = None
            scases.append({"id": len(scases), "src": lq, "inputs": [jqgen.V(d)]})
            meta.append((d, args, q, lq, outs, p))
    srecs = evalfam.replay(work, vh, scases, tag="streamlib")
    recs2, kept = [], []
    for srec, m in zip(srecs, meta):
        d, args, q, lq, outs, p = m
        rep.count("evaluations")
        if outs is None:
            rep.violation("gojq %s %r on %s: exit status %d, stderr %r" % (" ".join(args), q, json.dumps(d), p.returncode, p.stderr[:300]),
                          {"family": "stream", "case": {"doc": d, "prog": [args, q, lq]}, "actual": {"status": p.returncode, "stdout": p.stdout[:2000], "stderr": p.stderr[:600]}})
            continue
        if "runs" not in srec or srec["runs"][0].get("err") or srec["runs"][0].get("long"):
            rep.count("out_of_model")
            continue
        run0 = {k: v for k, v in srec["runs"][0].items() if k not in ("err", "panic", "long")}
        recs2.append(dict(srec, runs=[dict(run0, out=outs)]))
        kept.append(m)
    verdicts, stats = vc.validate_sharded(work, recs2, "ValidateEval.tla", "ValidateEval.cfg", {"VERIF_PRELUDE": prelude}, tag="stream", timeout=900, per_shard_min=40)
    rep.add_tlc(stats)
    n = 0
    for (d, args, q, lq, outs, p), v in zip(kept, verdicts):
        if "tlc" in v or v["runs"][0]["v"] in ("oom", "long"):
            rep.count("out_of_model")
        elif v["runs"][0]["v"] == "agree":
            n += 1
            rep.count("traces_validated_against_impl")
            rep.nontrivial(["stream", q, d])
        else:
            exp = [jqgen.unV(e) for e in v["runs"][0]["exp"]["o"]]
            rep.violation("gojq %s %r on %s prints %s; the events of the document (%s) are %s" % (" ".join(args), q, json.dumps(d), p.stdout[:400].replace("\n", " "), lq, json.dumps(exp)[:400]),
                          {"family": "stream", "case": {"doc": d, "prog": [args, q, lq]}, "actual": p.stdout[:4000], "expected": exp})
    rep.cov["stream_commands_agreeing"] = n


def run(tier, seed, replay):
    rep = vc.Report(PROP, tier, seed)
    rep.assumptions += ["values are compared through digests of their canonical encoding (structure and numbers as mathematical values)",
                        "queries using now / input / local time are not generated"]
    vh, gojq = vc.build()
    work = vc.Work(PROP)
    try:
        r = random.Random(seed)
        quick = tier == "quick"
        uni = [jqgen.V(x) for x in ([1, 2, 3, 4], [[1, 2], [3, 4]], {"a": {"b": 1}, "c": [1, 2]}, {"a": [1, 2, 3], "b": {"x": {"b": 1}}}, [{"a": 1}, {"a": 2, "b": 0}], [3, 1, 2], "ab", 5, None,
                                     {"a": 1, "b": 2}, [[0, 1], {"a": [2]}, 3], [], {}, [0, [1, [2, [3]]]])]
        if replay:
            c = json.load(open(replay))["case"]
            cases = [dict(c, id=0)] if "src" in c else []
        else:
            cases = []
            # mutable scalars (*big.Int is the only one), objects merged into leading empty objects, state kept in the compiled code (regexp cache)
            BIG = -(2 ** 72)
            bigin = [jqgen.V(x) for x in ({"balance": BIG, "history": [BIG, 2 ** 70]}, [BIG], [BIG, -(2 ** 65), 5], BIG, {"a": {"b": BIG}}, [[BIG], {"k": BIG}])]
            bigprogs = [".balance | abs", ".[]? | (., abs)", "%d | ., abs" % BIG, "abs?", "map(abs)?", "[.[]? | abs?, -(.)?, length?, (. + 1)?, (. * -1)?, (. - 1)?, (. %% 7)?, (. / 2)?, tostring, (floor)?]",
                        "(.. | numbers) |= abs", ". as $d | [($d | abs?), $d]", "[.. | numbers | abs] | ., add", "$v0 | abs?, .", "[$v0, $v1] | map(abs?)", "(%d - 1) as $d | [($d | abs), $d, ($d | -.)]" % BIG,
                        "[.[]?] | sort, min, max, unique, (map(abs?) | add?)", ".. |= (numbers | abs)", "[paths(numbers)] as $p | getpath($p[0]) | abs, .", "tojson, (.. | numbers | abs | tojson)", "[limit(3; repeat(.. | numbers | abs))]"]
            addin = [jqgen.V(x) for x in ([{}, {"a": 1}, {"b": 2}, {"c": 3}], [[], [1], [2]], [{}, {}, {"a": [1]}, {"a": [2]}], {"x": {}, "y": {"a": 1}, "z": {"b": 2}}, [None, {}, {"a": 1}, {"b": 2}], ["", "a", "b"])]
            addprogs = ["add", "add, .[1]?", "[.[]] | add", "add | length", "map(length), add", "[{}, .[]?] | add", "[{}, {a: 1}, {b: 2}] | (.[1] | length), (add | length)", "reduce .[]? as $o ({}; . + $o)", "add, add",
                        "[{}, $v0, $v1] | add", ".[1:] | add", "[limit(2; .[]?)] | add", "to_entries? | map(.value) | add", "add?, (.[0] + .[1] + .[2])?", "[.[]? | objects] | add | keys?"]
            reY = [{"t": "abbb", "f": "gx"}, {"t": "Bb", "f": "xi"}, {"t": "b", "f": "n"}, {"t": "ab", "f": "gs"}]
            reX = [{"t": "abbb", "f": "g"}, {"t": "Bb", "f": "gi"}, {"t": "b", "f": None}, {"t": "ab", "f": "g"}]
            reprogs = ['[.[] | .t as $t | .f as $f | try ($t | test("b+"; $f)) catch "err"]', '[.[] | . as {$t, $f} | try [$t | match("b+"; $f).string] catch "err"]', '[.[] | . as {$t, $f} | try ($t | sub("b"; "x"; $f)) catch "err"]',
                       '[.[] | . as {$t, $f} | try [$t | scan("B"; $f)] catch "err"]', '[.[] | . as {$t, $f} | try ($t | [splits("b"; $f)]) catch "err"]', '[.[] | .t as $t | try ($t | test("(")) catch "bad"]',
                       '[.[] | . as {$t, $f} | try ($t | capture("(?<x>b+)"; $f)) catch "err"]', '[.[] | .t | test("b"), test("B"; "i"), test("b"; "g")]']
            special = [(p, i, o) for p in bigprogs for i in bigin for o in [r.choice(bigin)]] + [(p, i, o) for p in addprogs for i in addin for o in [r.choice(addin)]]
            special += [(p, jqgen.V(a), jqgen.V(b)) for p in reprogs for a, b in ((reY, reX), (reX, reY), (reY, reY))]
            # (pattern, flags) pairs that a sloppy cache key would confuse: the same text split differently, flags added by the jq definitions (gsub adds "g")
            coll = [(["xa", "ai", None], ["A", "a", "i"]), (["A", "a", "i"], ["xa", "ai", None]), (["xag", "ag", None], ["aXa", "a", "g"]), (["b", "b", "gi"], ["big", "bgi", None]), (["ab", "a", ""], ["ab", "", "a"]),
                    (["hello log", "log", None], ["hello lo", "lo", "g"]), (["x", "", "x"], ["x", "x", None]), (["aib", "a", "i"], ["aib", "ai", None]), (["m", "m", None], ["M", "", "m"])]
            cprogs = ['. as [$s, $re, $flags] | $s | try test($re; $flags) catch "err"', '. as [$s, $re, $flags] | $s | try [match($re; $flags).string] catch "err"', '. as [$s, $re, $flags] | $s | try gsub($re; "-") catch "err"',
                      '. as [$s, $re, $flags] | $s | try [scan($re)] catch "err"', '. as [$s, $re, $flags] | $s | try sub($re; "-"; $flags) catch "err"', '. as [$s, $re, $flags] | $s | try [splits($re; $flags)] catch "err"']
            special += [(p, jqgen.V(a), jqgen.V(b)) for p in cprogs for a, b in coll]
            # outputs that enumerate Go maps (nothing may depend on map iteration order), every array native applied to arrays that belong to the input
            enum = ["builtins", "[builtins[] | select(test(\"^(IN|add|range|limit|first|ltrimstr|env|input)/\"))]", "builtins[:60]", "[builtins[] | split(\"/\")[0]] | .[:80]", "$ENV | keys", "env | keys", "[paths]", "keys", "to_entries",
                    "[.[]?]", "tojson", "[.. | objects | keys[]]", "with_entries(.)", "[tostream] | length", "input_line_number", "[limit(5; .[]?)]", "add?", "[splits(\"a\")]?", "@json", "[getpath(paths)] | length", "map_values(.)?"]
            kinds = jqgen.V({"nums": [1, 2.5, True, "x", None], "ints": [3, 1, 2], "strs": ["b", "a", "c"], "arrs": [[1], [2, 3], []], "objs": [{"a": 1}, {"a": 2, "b": 0}], "mix": [1, "1", [1], {"a": 1}, None, 2 ** 70], "one": [5], "none": []})
            natives = ["join(\",\")", "add", "sort", "sort_by(.)", "group_by(.)", "unique", "unique_by(.)", "min", "max", "min_by(.)", "max_by(.)", "reverse", "flatten", "transpose", "implode", "tojson", "tostring", "@csv", "@tsv", "@sh", "@json",
                       "@html", "@text", "length", "keys", "to_entries", "map(.)", "first", "last", "index(1)", "indices(1)", "inside(.)", "contains(.)", ". - [1]", ". + [1]", ".[1:]", "del(.[0])", "with_entries(.)", "[paths]", "any", "all", "flatten(1)",
                       "walk(.)", "[tostream]", "map(tostring)", "map(tojson)", "map(ascii_downcase?)", "map(abs?)", "map(-(.)?)", "map(length?)", "map(ltrimstr(\"a\")?)", "bsearch(1)", "combinations?", "[limit(2; .[])]", "has(0)", "map(type)",
                       "(map(type) | join(\" \")), join(\"-\")", "add, join(\",\")", "[.[] | numbers] | add", "map(. as $x | [$x])", "to_entries | from_entries?", "[.[] | tojson] | join(\",\")", "map(@base64?)", "map(@uri?)", "map(floor?)", "map(sqrt?)"]
            special += [(e, r.choice(uni), r.choice(uni)) for e in enum]
            # empty arrays have no identity: the result may not depend on how the caller allocated them (finding F-D24: make([]any, 0, 3) vs []any{})
            emptyin = [jqgen.V(x) for x in ([], {"a": [], "b": []}, [[]], [[], []], {"a": {"b": []}, "c": [[]]})]
            emptyprogs = ["[.[]][].a = 1", "[.[]][0] = 1", "path([.[]][0])", "(.a as $x | .b | $x[0] = 1)?", "path(keys[0])?", "path(.[1:][0])?", "((.[0:0] | .[0]) = 1)?", "path(flatten | .[0])?", "path(sort | .[])?",
                          "path(map(.) | .[])?", "path(.. | arrays | .[0])", "del([.[]?][0])", "try path(to_entries | .[0]) catch \"invalid\"", "[..] | map(try path(.[0]) catch \"invalid\")",
                          "try ([][0] = 1) catch \"invalid\"", "try path([] | .[]) catch \"invalid\"", ".[]? |= ([] | .[0] = 1)", "try (reduce .[]? as [$y] (.; ([] | .[0] = 1))) catch \"invalid\""]
            special += [(p, i, r.choice(uni)) for p in emptyprogs for i in emptyin]
            always = [{"src": p, "input": i, "other": r.choice(uni), "mode": m, "vars": []} for p in emptyprogs[:4] for i in emptyin[:2] for m in MODES]
            special += [(".%s | try (%s) catch \"err\"" % (k, n), kinds, r.choice(uni)) for n in natives for k in r.sample(["nums", "ints", "strs", "arrs", "objs", "mix", "one", "none"], 2 if quick else 8)]
            if quick:
                special = r.sample(special, min(len(special), 420))
            for p, i, o in special:
                cases.append({"id": len(cases), "src": p, "input": i, "other": o, "mode": r.choice(MODES), "vars": [r.choice(bigin + addin), r.choice(bigin + addin)] if "$v" in p else []})
            cases += [dict(c, id=len(cases) + k) for k, c in enumerate(always)]
            cor = evalfam.corpus_cases(work, vh)
            for i in range(1200 if quick else 150000):
                src = jqgen.c05_program(r) if r.randrange(6) else r.choice(cor)["src"]
                cases.append({"id": len(cases), "src": src, "input": r.choice(uni), "other": r.choice(uni), "mode": r.choice(MODES),
                              "vars": [r.choice(uni), r.choice(uni)] if "$v" in src else []})
        recs = vc.run_restartable([vh, "isolate"], cases, work, "iso")
        good = []
        for c, rec in zip(cases, recs):
            rep.count("evaluations")
            if rec.get("hang") or "panic" in rec or "fatal" in rec:
                rep.violation("%s in %r (input mode %s)" % ("hang" if rec.get("hang") else "fatal: " + rec["fatal"] if "fatal" in rec else "panic: " + rec["panic"], c["src"], c["mode"]),
                              {"family": "isolate", "case": c, "actual": rec.get("panic") or rec.get("fatal")})
            elif rec.get("budget"):
                rep.count("out_of_model")      # a run was ended by a budget of the harness (polls, wall clock, process heap): the history says nothing about the library
                rep.cov["histories_ended_by_harness_budget"] = rep.cov.get("histories_ended_by_harness_budget", 0) + 1
            elif "events" in rec:
                rec["cut"] = any(e.get("e") == "error" for e in rec["events"]) or sum(1 for e in rec["events"] if e.get("e") == "emit" and e.get("run") == 1) >= 40
                good.append(rec)
            else:
                rep.count("out_of_model")
        # TLC validates the histories (sharded)
        n = len(good)
        shards = max(1, min(vc.NCPU, n // 150))
        import concurrent.futures as cf

        def shard(k):
            part = good[k * n // shards:(k + 1) * n // shards]
            t, o = work.path("runs%d.trace" % k), work.path("runs%d.verdict" % k)
            vc.write_ndjson(t, part)
            res = vc.tlc(work.dir, "Runs.tla", "Runs.cfg", env={"VERIF_TRACE": t, "VERIF_OUT": o}, timeout=1500, xss="512m")
            if not res.ok():
                raise vc.ToolError("Runs.tla failed:\n" + vc.tlc_error_text(res))
            return res, vc.read_ndjson(o)

        verdicts = {}
        with cf.ThreadPoolExecutor(max_workers=shards) as ex:
            for res, vs in ex.map(shard, range(shards)):
                rep.add_tlc(res)
                for v in vs:
                    verdicts[v["id"]] = v
        byid = {c["id"]: c for c in cases}
        for rec in good:
            v = verdicts.get(rec["id"])
            c = byid[rec["id"]]
            if v is None:
                rep.count("out_of_model")
            elif v["ok"]:
                rep.count("traces_validated_against_impl")
                nem = sum(1 for e in rec["events"] if e.get("e") == "emit")
                if nem:
                    rep.nontrivial([c["src"], c["input"], c["mode"]])
                rep.sample({"query": c["src"], "input_mode": c["mode"], "events": len(rec["events"]), "emitted_values": nem})
            else:
                ev = rec["events"][v["at"] - 1]
                rep.violation("%s violated at event %d (%s, run %s) of the history of %r on %s (input mode %s)" % (
                    v["inv"], v["at"], ev.get("e"), ev.get("run"), c["src"], evalfam.show(c["input"]), c["mode"]),
                    {"family": "isolate", "case": c, "actual": {"invariant": v["inv"], "event": ev, "init": rec["events"][0]}})
        if not replay or json.load(open(replay)).get("family") == "stream":
            stream_block(rep, work, vh, gojq, r, quick, json.load(open(replay))["case"] if replay else None)
        rep.cov["rule"] = ("programs of the update/delete/add/sort/slice grammar (jqgen.c05_program), random and corpus programs x inputs built in 4 aliasing modes x histories of 5 runs; "
                           "non-trivial = a history in which something was emitted; distinct by (source, input, mode)")
        return rep.finish()
    finally:
        work.cleanup()
