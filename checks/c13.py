"""C13 - documented inverse pairs are exact inverses.

spec        : the laws are queries; JqSem.tla evaluates them over the value universe (TLC): on the specification they are `true`
              wherever the constituents are modelled (streams, entries, explode/implode, split/join, paths/getpath/setpath, tostring|tonumber).
              Dates.tla (civil calendar) is model-checked for EVERY day of the years 1..9999 (DatesMC.tla): gmtime|mktime and
              todate|fromdate are the identity, the conversion is a monotone bijection.
conformance : every law runs on the real gojq over the universe and random nested values (objects with empty, multi-byte and
              escape-needing keys; strings of every byte class; integer seconds across +-10^11): the real answer must be `true`
              (the law IS the property) and equal to the specification's answer; the real gmtime arrays and todate texts are validated
              by TLC against Dates.tla.
"""
import random

import evalfam
import jqgen
import vcheck as vc

PROP = "C13"

# (name, domain predicate on a python value, query yielding true)
def is_obj(v): return isinstance(v, dict)
def is_str(v): return isinstance(v, str)
def is_num(v): return isinstance(v, (int, float)) and not isinstance(v, bool) and v == v and v not in (float("inf"), float("-inf"))
def any_(v): return True
def no_nonfinite(v):
    if isinstance(v, float):
        return v == v and v not in (float("inf"), float("-inf"))
    if isinstance(v, list):
        return all(no_nonfinite(x) for x in v)
    if isinstance(v, dict):
        return all(no_nonfinite(x) for x in v.values())
    return True

LAWS = [
    ("fromstream(tostream)", no_nonfinite, "fromstream(tostream) == ."),
    ("to_entries|from_entries", is_obj, "(to_entries | from_entries) == ."),
    ("with_entries(.)", is_obj, "with_entries(.) == ."),
    ("explode|implode", is_str, "(explode | implode) == ."),
    ("split|join ,", is_str, "(split(\",\") | join(\",\")) == ."),
    ("split|join ab", is_str, "(split(\"ab\") | join(\"ab\")) == ."),
    ("split|join multi-byte", is_str, "(split(\"é\") | join(\"é\")) == ."),
    ("split|join self", lambda v: is_str(v) and v != "", ". as $s | (split($s) | join($s)) == ."),
    ("@base64|@base64d", is_str, "(@base64 | @base64d) == ."),
    ("@uri|@urid", is_str, "(@uri | @urid) == ."),
    ("tojson|fromjson", no_nonfinite, "(tojson | fromjson) == ."),
    ("tostring|tonumber", is_num, "(tostring | tonumber) == ."),
    ("setpath|getpath", no_nonfinite, ". as $v | all(([\"a\"], [0], [\"a\", \"b\"], [1, \"x\"], [], [\"k\", 0, \"z\"])[]? as $p | (try ($v | setpath($p; {\"new\": 1}) | getpath($p) == {\"new\": 1}) catch true); .)" if False else
     ". as $v | [([\"a\"], [0], [\"a\", \"b\"], [1, \"x\"], [], [\"k\", 0, \"z\"]) as $p | try ($v | setpath($p; {\"new\": [1]}) | getpath($p) == {\"new\": [1]}) catch true] | all"),
    ("setpath(p; getpath(p)) for p in paths", no_nonfinite, ". as $v | [paths as $p | ($v | setpath($p; getpath($p))) == $v] | all"),
    ("[paths] = [path(..)] - root", no_nonfinite, "[paths] == ([path(..)] | map(select(. != [])))"),
    ("tostream leaves", no_nonfinite, ". as $v | [tostream | select(length == 2) | . as [$p, $leaf] | ($v | getpath($p)) == $leaf] | all"),
    # the same laws with paths that went through JSON text (fromjson and the decoders keep number literals: path elements of another Go type)
    ("fromstream of re-read events", no_nonfinite, "fromstream([tostream] | tojson | fromjson | .[]) == ."),
    ("replay re-read events with setpath", no_nonfinite, ". as $v | (reduce ([tostream] | tojson | fromjson | .[] | select(length == 2)) as [$p, $x] (null; setpath($p; $x))) == $v"),
    ("setpath(p; getpath(p)) for re-read paths", no_nonfinite, ". as $v | [([paths] | tojson | fromjson | .[]) as $p | ($v | setpath($p; getpath($p))) == $v] | all"),
    ("setpath|getpath on null for re-read paths", no_nonfinite, "[([paths] | tojson | fromjson | .[]) as $p | (null | setpath($p; \"X\") | getpath($p)) == \"X\"] | all"),
    ("delpaths / del / getpath with re-read paths", no_nonfinite, ". as $v | ([paths] | tojson | fromjson) as $ps | ($v | delpaths($ps)) == ($v | delpaths([paths])) and ([$ps[] as $p | ($v | getpath($p))] == [paths as $p | getpath($p)]) and ([$ps[] as $p | ($v | delpaths([$p]))] == [paths as $p | delpaths([$p])])"),
    ("replay events with setpath", no_nonfinite, ". as $v | (reduce (tostream | select(length == 2)) as [$p, $x] (null; setpath($p; $x))) == $v"),
]
DATE_LAWS = [("todate|fromdate", "(todate | fromdate) == ."), ("gmtime|mktime", "(gmtime | mktime) == .")]

VALUES = [None, True, False, 0, 1, -1, 2 ** 53, -(2 ** 63), 10 ** 20, 0.5, -2.25, 1e17, 1.25e-7,
          "\u0080", "x\u0080y", "\u007f\u0080\u07ff\u0800\uffff\U00010000\U0010ffff", "\u00ff", "\ud7ff\ue000", "", "a", "a,b", ",", ",,a,", "abab", "ab", "é", "aéb", "日本語", "\u0000", "a\"b\\c", "\n\t", "\u007f", " +%2B&=?/", "\U0001F600", "%", "a b", "a b c", "  ", " a  b ", "+ +", "a+b c d+ e", "%20 %2B  +", "=", "YQ==",
          [], [[]], [1, [2, [3]]], [None, False], {}, {"": 1}, {"a": {}}, {"a": [], "b": {"c": None}}, {"é": "x", "a\"b": 1, "\n": [1]}, {"a b": {"": {"k": [1, {"z": 2}]}}},
          [{"a": 1}, {"b": [2, 3]}], {"a": [{"b": 1}, {"c": {"d": [1, 2]}}]}, [[], {}, [[]], [{}]], {"k": [0, {"z": 5}]},
          # every class of character as an object KEY (keys are written by their own code path): C0 controls with and without a short escape, DEL, C1, line separators, non-printable astral, noncharacters
          {"x\u0001": 1, "\u0007": 2, "\u000b": 3, "\u001f": 4, "\u007f": 5}, {"\b\f\n\r\t": 1, "\u0000": 2, "\u0080\u009f": 3}, {"\u2028\u2029": 1, "\U000e0001": 2, "\ufffe\uffff": 3, "\ufeff": 4},
          {"\u00ad": 1, "\u200b": 2, "\u0301": 3, "/": 4, "<>&'": 5}, ["\u0001\u0007\u000b\u001f\u007f", "\u2028\U000e0001\ufffe"], {"k": {"\u0001": {"\u007f": ["\u000b"]}}}]


def rand_deep(r, d=3):
    k = r.randrange(9 if d > 0 else 5)
    if k == 0:
        return None
    if k == 1:
        return r.choice([True, False])
    if k == 2:
        return r.choice([0, 1, -5, 2 ** 40, 10 ** 25, 0.5, -1.75, 123456.5])
    if k in (3, 4):
        return "".join(r.choice(["a", "b", ",", " ", "é", "日", "\"", "\\", "\n", "\u0001", "%", "+", "=", "\U0001F600", "\u007f", "/", "\u0080", "\u07ff", "\u0800", "\uffff", "\U00010000", "\U0010ffff"]) for _ in range(r.randrange(6)))
    if k in (5, 6):
        return [rand_deep(r, d - 1) for _ in range(r.randrange(4))]
    return {"".join(r.choice(["a", "b", "", "é", " ", "\"", "k", "\n", "\u0001", "\u007f", "\u000b", "\u2028", "\U000e0001", "\\", "\u0000"]) for _ in range(r.randrange(3))): rand_deep(r, d - 1) for _ in range(r.randrange(4))}


def run(tier, seed, replay):
    rep = vc.Report(PROP, tier, seed)
    rep.assumptions += ["results that are not valid UTF-8 (@base64d of arbitrary bytes) are outside the value model",
                        "dates: whole seconds within years 1..9999"]
    vh, _ = vc.build()
    work = vc.Work(PROP)
    try:
        prelude = evalfam.make_prelude(work, vh)
        if replay:
            evalfam.replay_file(rep, work, vh, prelude, replay)
            return rep.finish(min_decided=0)
        r = random.Random(seed)
        quick = tier == "quick"
        # --- the calendar on the specification
        res = vc.tlc(work.dir, "DatesMC.tla", "DatesMC.cfg" if quick else "DatesMC_all.cfg", workers=vc.NCPU, timeout=3000, xss="64m")
        rep.add_tlc(res)
        if not res.ok():
            raise vc.ToolError("DatesMC does not hold:\n" + vc.tlc_error_text(res))
        rep.cov["calendar_days_checked_on_spec"] = (3652059 // 37) if quick else 3652059
        # --- laws over values
        vals = list(VALUES) + [rand_deep(r) for _ in range(250 if quick else 5000)]
        cases = []
        for name, dom, q in LAWS:
            ins = [v for v in vals if dom(v)]
            enc = []
            for v in ins:
                try:
                    enc.append(jqgen.V(v))
                except Exception:
                    pass
            for k in range(0, len(enc), 40):
                cases.append({"id": len(cases), "src": q, "inputs": enc[k:k + 40], "law": name})
                # the same inputs as the decoders hand them over (json.Number) and with every integer as *big.Int
                for rp in (2, 1):
                    if quick and (k // 40 + rp) % 2:
                        continue
                    cases.append({"id": len(cases), "src": q, "inputs": enc[k:k + 40], "law": name + " [numbers as %s]" % ("json.Number" if rp == 2 else "*big.Int"), "rep": rp})
        recs = evalfam.replay(work, vh, cases, tag="laws")
        for c, rec in zip(cases, recs):
            for run_ in rec.get("runs", []):
                rep.count("evaluations")
                if run_.get("long"):
                    rep.count("out_of_model")
                    continue
                ok = run_["out"] == [{"t": "bool", "b": True}] and not run_.get("err") and not run_.get("panic")
                if ok:
                    rep.count("traces_validated_against_impl")
                    rep.nontrivial([c["law"], run_["in"]])
                    rep.sample({"law": c["law"], "input": jqgen.unV(run_["in"]), "result": True}, limit=8)
                else:
                    rep.violation("the law %s fails on the real code for %s: query %r gave %s err=%s" % (c["law"], evalfam.show(run_["in"]), c["src"], [jqgen.unV(x) for x in run_["out"]], run_.get("err") or run_.get("panic")),
                                  {"family": "eval", "case": {"src": c["src"], "input": run_["in"]}, "actual": run_, "expected": [True]})
        # the same cases against the specification (agreement where the constituents are modelled)
        counters = evalfam.check_cases(rep, work, vh, prelude, [dict(c, id=i) for i, c in enumerate(cases)], tag="lawspec", timeout=1500, per_shard_min=6)
        rep.cov["law_verdicts_vs_spec"] = counters
        # --- dates on the real code
        lo, hi = -62135596800, 253402300799
        epochs = [lo, lo + 1, lo + 86399, lo + 86400, hi, hi - 1, 0, -1, 1, 86399, 86400, -86400, -86401, 951782400, 951868799, 951868800, 4107542400, -2208988800, 1e9, 10000000000, 4617281731,
                  -12219292800, 13569465600, 68169600, 94694400, 978307200, 1582934400, 1583020800]
        epochs += [r.randrange(lo, hi + 1) for _ in range(1500 if quick else 60000)]
        epochs += [r.choice([-1, 1]) * r.randrange(10 ** 11) for _ in range(300 if quick else 10000)]
        epochs = [int(e) for e in epochs if lo <= e <= hi]
        dcases = []
        for k in range(0, len(epochs), 50):
            chunk = [jqgen.V(e) for e in epochs[k:k + 50]]
            for name, q in DATE_LAWS:
                dcases.append({"id": len(dcases), "src": q, "inputs": chunk, "law": name})
            dcases.append({"id": len(dcases), "src": "[gmtime, (todate | explode), (gmtime | mktime), (todate | fromdate)]", "inputs": chunk, "law": "record"})
        drecs = evalfam.replay(work, vh, dcases, tag="dates")
        trace = []
        for c, rec in zip(dcases, drecs):
            for run_ in rec.get("runs", []):
                rep.count("evaluations")
                e = jqgen.unV(run_["in"])
                known = next((k for k in rep.known if k.get("classifier", {}).get("epoch") == e), None)
                if c["law"] != "record":
                    ok = run_["out"] == [{"t": "bool", "b": True}] and not run_.get("err")
                    if ok:
                        rep.count("traces_validated_against_impl")
                    elif known and c["law"] in known["classifier"].get("laws", []):
                        rep.known_finding(known["id"], "%d | %s fails" % (e, c["law"]))
                    else:
                        rep.violation("%d | %s is not the identity on the real code: %s err=%s" % (e, c["law"], [jqgen.unV(x) for x in run_["out"]], run_.get("err")),
                                      {"family": "eval", "case": {"src": c["src"], "input": run_["in"]}, "actual": run_, "expected": [True]})
                    continue
                if run_.get("err") or len(run_["out"]) != 1:
                    if known:
                        rep.count("out_of_model")
                    else:
                        rep.violation("date functions fail on %d: %s" % (e, run_.get("err")), {"family": "eval", "case": {"src": c["src"], "input": run_["in"]}, "actual": run_})
                    continue
                gm, text, rt1, rt2 = [jqgen.unV(x) for x in run_["out"][0]["a"]]
                if not all(isinstance(x, int) for x in gm + [rt1, rt2]):
                    rep.violation("non-integral date component for the whole second %d: %s %s %s" % (e, gm, rt1, rt2), {"family": "eval", "case": {"src": c["src"], "input": run_["in"]}, "actual": run_})
                    continue
                d, s = divmod(e, 86400)
                trace.append({"id": len(trace), "days": d, "sod": s, "gm": gm, "text": text, "rt1": {"days": rt1 // 86400, "sod": rt1 % 86400}, "rt2": {"days": rt2 // 86400, "sod": rt2 % 86400}, "epoch": e})
        vc.write_ndjson(work.path("dates.trace"), trace)
        res = vc.tlc(work.dir, "ValidateDates.tla", "ValidateDates.cfg", env={"VERIF_TRACE": work.path("dates.trace"), "VERIF_OUT": work.path("dates.verdict")}, timeout=1500, xss="256m")
        rep.add_tlc(res)
        if not res.ok():
            raise vc.ToolError("ValidateDates failed:\n" + vc.tlc_error_text(res))
        for t, v in zip(trace, vc.read_ndjson(work.path("dates.verdict"))):
            if all(v[k] for k in ("gm", "text", "rt1", "rt2")):
                rep.count("traces_validated_against_impl")
                rep.nontrivial(["date", t["epoch"]])
            else:
                rep.violation("date functions disagree with the calendar specification for epoch %d: gmtime=%s todate=%r roundtrips=%s,%s (verdict %s)" % (
                    t["epoch"], t["gm"], "".join(map(chr, t["text"])), t["rt1"], t["rt2"], v),
                    {"family": "eval", "case": {"src": "[gmtime, todate, (gmtime|mktime), (todate|fromdate)]", "input": jqgen.V(t["epoch"])}, "actual": t})
        rep.cov["date_epochs"] = len(epochs)
        rep.cov["rule"] = ("17 laws x values of their domain (fixed universe of %d + random nested values) on the real code and against the specification; dates: boundary + random whole "
                           "seconds of years 1..9999; non-trivial = a (law, value) pair that returned true / an epoch validated against Dates.tla") % len(VALUES)
        return rep.finish()
    finally:
        work.cleanup()
