"""C14 - string positions are code points and the regex builtins agree with match.

design level  : RegexMC.tla - TLC explores, for every subject over a 1/2/3/4-byte alphabet, every list of
                global matches an engine obeying Go's allMatches protocol can deliver, and checks the laws of
                the property on the functions of Regex.tla (funcMatch's conversion, the builtin.jq reductions,
                the byte walks of indexString/sliceString); a negative control (offsets left in bytes) must fail.
model -> code : RegexGen.tla enumerates every subject up to a length bound over an alphabet mixing ASCII, 2-, 3-
                and 4-byte characters, a combining mark and a newline, every regex of depth <= 1 of a grammar
                and the flag arguments; the check forms (samples of) the product, composes deeper regexes and
                adds longer random subjects (seeded).
code -> model : every case is run through the public API of the real gojq under a watchdog (match, test,
                capture, scan, splits, split/2, sub, gsub in all arities, the laws as jq programs, length,
                explode, .[i], .[i:j], index, rindex, indices); next to it Go's regexp is asked directly and its
                raw byte offsets are logged; ValidateRegex.tla computes what Regex.tla prescribes for every run.
"""
import concurrent.futures as cf
import json
import os
import random
import shutil
import time

import evalfam
import vcheck as vc
from jqgen import V, unV

PROP = "C14"


def cps(s):
    return [ord(c) for c in s]


def txt(cp):
    return "".join(chr(c) for c in cp)


# --- the programs (public API; $re, $flags / $ks, $ij, $ts are passed as variables) -------------------------
RE_PROGS = {
    "match": "match($re; $flags)",
    "matchg": 'match($re; $flags + "g")',
    "test": "test($re; $flags)",
    "capture": "capture($re; $flags)",
    "scan": "scan($re; $flags)",
    "splits": "splits($re; $flags)",
    "split2": "split($re; $flags)",
    "law_slice": '. as $s | [match($re; $flags + "g") | (., (.captures[] | select(.offset >= 0))) | . as $m'
                 ' | $s[$m.offset:$m.offset + $m.length] == $m.string] | all',
    "law_gsubid": 'gsub("(?<w>" + $re + ")"; .w; $flags) == .',
    "law_splits": '[splits($re; $flags)] as $p | [match($re; $flags + "g") | .string] as $m'
                  ' | ($p | length) == ($m | length) + 1 and ([range($m | length) as $i | $p[$i], $m[$i]] + [$p[-1]] | add) == .',
    "law_test": "test($re; $flags) == ([match($re; $flags)] | length > 0)",
    "law_capture": "[capture($re; $flags)] == [match($re; $flags) | [.captures[] | select(.name != null)"
                   " | {key: .name, value: .string}] | from_entries]",
}
RE_PROGS1 = {   # the one-argument forms: only when $flags is null
    "match1": "match($re)", "test1": "test($re)", "capture1": "capture($re)", "scan1": "scan($re)", "splits1": "splits($re)",
}
SUB_PROGS = {"sub": "sub($re; %s; $flags)", "gsub": "gsub($re; %s; $flags)"}
SUB_PROGS1 = {"sub1": "sub($re; %s)", "gsub1": "gsub($re; %s)"}
# replacement filters (evaluated by JqSem on the captures object)
STRS = ['.n', '"<\\(.n)>"', '.n + "-" + .m', '"€"', '""', '(.n, "x")', '("a", "é", "\U0001F600")', 'empty',
        '.n // "?"', '(.n | length)', '(.n // "" | ascii_upcase)', '(keys | join(","))', '.w',
        'if .n == null then error("nil") else .n end', '(.m, empty, .n)', '(.n | tojson)']

POS_PROGS = {
    "length": "length",
    "explode": "explode",
    "explen": "explode | length",
    "implode": "explode | implode",
    "utf8len": "utf8bytelength",
    "index": "$ks[] as $i | .[$i]",
    "slice": "$ij[] as [$i, $j] | .[$i:$j]",
    "sliceopen": "$ks[] as $i | (.[$i:], .[:$i])",
    "find": "$ts[] as $t | [index($t), rindex($t), indices($t)]",
    "law_find": ". as $s | all($ts[] as $t | indices($t)[] | $s[.:. + ($t | length)] == $t; .)",
    "law_len": "length == (explode | length) and (explode | implode) == .",
}


def src_of(k):
    f = k["f"]
    if f in RE_PROGS:
        return RE_PROGS[f]
    if f in RE_PROGS1:
        return RE_PROGS1[f]
    if f in SUB_PROGS:
        return SUB_PROGS[f] % STRS[k["sx"]]
    if f in SUB_PROGS1:
        return SUB_PROGS1[f] % STRS[k["sx"]]
    return POS_PROGS[f]


def probes_for(re_v, flags_v):
    """The patterns the specification will look up (Regex!EffectivePattern); a wrong guess only makes a case undecided."""
    if re_v["t"] != "str" or flags_v["t"] not in ("str", "null"):
        return []
    fl = txt(flags_v["s"]) if flags_v["t"] == "str" else ""
    out = []
    for base in (re_v["s"], cps("(?<w>") + re_v["s"] + cps(")")):
        p = list(base)
        if "i" in fl:
            p = cps("(?i)") + p
        if "m" in fl:
            p = cps("(?s)") + p
        out.append(p)
    return out


# Appended to the Prelude of JqSem for the second reading of builtin.jq (ValidateRegex!XVerdict): the native _match
# answers from the table the specification computed (fed as the input stream), _captures is funcCaptures in jq.
XDEFS = '''
def _match($re; $flags; $test): input[[$re, $flags, $test] | tojson] | if .e then error(null) else .v end;
def _captures: reduce .[] as $c ({}; if ($c | type) == "object" and ($c.name | type) == "string" then . + {($c.name): $c.string} else . end);
'''


def make_prelude(work, vh):
    x = work.path("c14_defs.jq")
    with open(x, "w") as f:
        f.write(XDEFS)
    p = work.path("prelude.ndjson")
    vc.sh([vh, "prelude", "-out", p, os.path.join(vc.REPO, "builtin.jq"), os.path.join(vc.SPEC, "prelude_spec.jq"), x])
    return p


def re_case(cid, subj_v, re_v, flags_v, r, nstr=2, laws=True, xcheck=False):
    sx = r.sample(range(len(STRS)), nstr)
    ks = [{"f": f} for f in RE_PROGS if laws or not f.startswith("law_")]
    if re_v["t"] != "str":
        ks = [k for k in ks if k["f"] != "law_gsubid"]
    if flags_v["t"] == "null":
        ks += [{"f": f} for f in RE_PROGS1]
    for j, x in enumerate(sx):
        ks += [{"f": f, "si": j + 1, "sx": x} for f in SUB_PROGS]
        if flags_v["t"] == "null":
            ks += [{"f": f, "si": j + 1, "sx": x} for f in SUB_PROGS1]
    asts = [STRS[x] for x in sx]
    if xcheck:      # the specification also evaluates these programs from the text of builtin.jq
        for k in ks:
            asts.append(src_of(k))
            k["pa"] = len(asts)
    return {"id": cid, "meta": {"fam": "re"}, "input": subj_v, "vars": [["$re", re_v], ["$flags", flags_v]],
            "progs": [{"k": k, "src": src_of(k)} for k in ks], "probes": probes_for(re_v, flags_v), "asts": asts}


def pos_case(cid, subj, r, small):
    n = len(subj)
    if small:
        idx = list(range(-n - 2, n + 3))
        ks = idx + [1.5, -0.5, 10 ** 9, -10 ** 9]
        ij = [[i, j] for i in idx + [None] for j in idx + [None]] + [[0.5, 1.5], [1, 1.5], [-1.5, None]]
    else:
        idx = [r.randint(-n - 2, n + 2) for _ in range(10)] + [0, -1, n, n - 1, -n, n + 1]
        ks = idx + [r.randint(0, n) + 0.5, 10 ** 9]
        ij = [[r.choice(idx + [None]), r.choice(idx + [None])] for _ in range(40)] + [[r.randint(0, n) + 0.5, r.randint(0, n) + 0.5]]
    subs = {""}
    for a in range(n):
        for b in range(a + 1, min(n, a + 3) + 1):
            subs.add(subj[a:b])
    subs = sorted(subs)
    if len(subs) > 24:
        subs = r.sample(subs, 24)
    ts = subs + ["a", "é", "́", "\U0001F600", "e", "aa", "€a"]
    return {"id": cid, "meta": {"fam": "pos"}, "input": V(subj), "vars": [["$ks", V(ks)], ["$ij", V(ij)], ["$ts", V(ts)]],
            "progs": [{"k": {"f": f}, "src": POS_PROGS[f]} for f in POS_PROGS], "probes": [], "asts": []}


# --- generators -------------------------------------------------------------------------------------------
LONG_ALPHABET = "aaAbB eéÉ€\U0001F600́\n\n\r\t0_-ſK.éa"
# the first and last code point of every UTF-8 length class, the neighbours of the surrogate gap, U+FFFD itself
EDGE_ALPHABET = "\x00\x7f\x80\u07ff\u0800\ud7ff\ue000\ufffd\uffff\U00010000\U0010ffff"


def long_subject(r, lo=5, hi=40):
    n = r.randint(lo, hi)
    out = []
    while len(out) < n:
        if out and r.random() < 0.25:      # repeat a chunk: more matches, adjacent matches
            a = r.randrange(len(out))
            out += out[a:a + r.randint(1, 3)]
        else:
            out.append(r.choice(EDGE_ALPHABET if r.random() < 0.08 else LONG_ALPHABET))
    return "".join(out[:n])


EXTRA_ATOMS = ["s", "k", "S", " ", "\\t", "\\r?\\n", "[[:space:]]", "\\p{Greek}", "[^\\x00-\\x7f]", "\\PL", "a{0}", "(?s:.)", "\\x{1F600}",
               "[é-\\x{1F600}]", "\\Q.\\E", "(?U:a+)", "aa", "é́", "_", "0", "-", "\\."]


def compose(r, res, depth):
    """Deeper regexes composed from the TLC-enumerated ones (text level, as a user would write them)."""
    if depth == 0:
        return r.choice(EXTRA_ATOMS) if r.random() < 0.2 else txt(r.choice(res))
    a, b = compose(r, res, depth - 1), compose(r, res, depth - 1)
    k = r.randrange(9)
    if k == 0:
        return a + b
    if k == 1:
        return a + "|" + b
    if k == 2:
        return "(" + a + ")*" + b
    if k == 3:
        return "(?<n>" + a + ")(?<m>" + b + ")?"
    if k == 4:
        return "(?:" + a + ")?" + "(" + b + ")"
    if k == 5:
        return "(?<n>" + a + "|" + b + ")"
    if k == 6:
        return "(?:" + a + "|" + b + ")+"
    if k == 7:
        return "(" + a + ")|(?<n>" + b + ")|"
    return "(?i:" + a + ")" + b


def gen_re_cases(r, subjects, re0, re1, flagsets, quick):
    """-> list of (subject value, regex value, flags value) triples"""
    out = []
    fl_valid = [None] + [f for f in flagsets if set(f) <= set("gim")]
    fl_all = [None, None] + flagsets + ["é", "g\n"]
    small = [s for s in subjects if len(s) <= 3]

    def F(f):
        return V(f)

    # 1. every atom of the grammar x EVERY subject up to length 2 (quick) / 3 (thorough)
    for re in re0:
        for s in subjects:
            if len(s) <= (2 if quick else 3):
                for f in (["g"] if quick else [None, "g"]):
                    out.append((V(s), V(txt(re)), F(f)))
    # 2. depth-1 regexes x exhaustive short subjects (sampled product)
    for _ in range(1500 if quick else 40000):
        out.append((V(r.choice(subjects)), V(txt(r.choice(re1))), F(r.choice(fl_all if r.random() < 0.15 else fl_valid))))
    # 3. deeper regexes x longer random subjects
    pool = re0 + re1
    for _ in range(700 if quick else 15000):
        out.append((V(long_subject(r)), V(compose(r, pool, r.choice([0, 1, 1, 2]))), F(r.choice(fl_valid))))
    # 4. argument types: not a string subject / regex / flags
    odd = [None, 1, ["a"], {"a": 1}, True]
    for _ in range(20 if quick else 200):
        k = r.randrange(3)
        s, re, f = V(r.choice(small)), V(txt(r.choice(re0))), F(r.choice(fl_valid))
        if k == 0:
            s = V(r.choice(odd))
        elif k == 1:
            re = V(r.choice(odd))
        else:
            f = V(r.choice(odd[1:]))
        out.append((s, re, f))
    return out


# --- running and judging ----------------------------------------------------------------------------------
def run_cases(work, vh, cases, tag, budget="5s"):
    cpath, tpath = work.path(tag + ".cases.ndjson"), work.path(tag + ".trace.ndjson")
    vc.write_ndjson(cpath, cases)
    vc.sh([vh, "c14run", "-in", cpath, "-out", tpath, "-budget", budget, "-j", str(vc.NCPU)], timeout=7200)
    recs = vc.read_ndjson(tpath)
    for p in (cpath, tpath):
        if not os.environ.get("VERIF_KEEP"):
            os.remove(p)
    return recs


def show_case(case, k):
    vs = {n: unV(v) for n, v in case["vars"]}
    if case["meta"]["fam"] == "re":
        return "%s on %s with $re=%s $flags=%s" % (src_of(k), json.dumps(unV(case["input"])), json.dumps(vs["$re"]), json.dumps(vs["$flags"]))
    return "%s on %s" % (src_of(k), json.dumps(unV(case["input"])))


def outs(vs):
    return [unV(x) for x in vs]


PREDICATES = {}


def match_known(rep, case, k, run):
    for kf in rep.known:
        c = kf.get("classifier", {})
        f = PREDICATES.get(c.get("impl"))
        if c.get("kind") == "predicate" and f and f(case, k, run):
            return kf["id"]
    return None


def check_cases(rep, work, vh, prelude, cases, tag, timeout):
    """Replay, validate with TLC, classify. Returns counters."""
    counters = {}

    def bump(k, n=1):
        counters[k] = counters.get(k, 0) + n

    t0 = time.time()
    recs = run_cases(work, vh, cases, tag)
    t1 = time.time()
    verdicts, stats = vc.validate_sharded(work, recs, "ValidateRegex.tla", "ValidateRegex.cfg", {"VERIF_PRELUDE": prelude},
                                          tag=tag, timeout=timeout, per_shard_min=25)
    rep.add_tlc(stats)
    vc.log("  [%s] %d cases: replay %.1fs, TLC validation %.1fs wall (%d JVM runs, %.0fs summed)" % (
        tag, len(cases), t1 - t0, time.time() - t1, stats["tlc_runs"], stats["tlc_wall"]))
    suspects = []     # (case, record, run index, verdict)
    for case, rec, v in zip(cases, recs, verdicts):
        nruns = len(rec["runs"])
        if "tlc" in v:
            bump("tlc_" + v["tlc"], nruns)
            rep.count("evaluations", nruns)
            rep.count("out_of_model", nruns)
            continue
        if not v["env"]:
            bump("env_assumption_broken")
            rep.notes.append("regexp answered outside the assumptions of RegexMC on case %s" % json.dumps(case)[:300])
            rep.count("evaluations", nruns)
            rep.count("out_of_model", nruns)
            continue
        if not v["laws"]:
            bump("spec_law_broken")
            rep.notes.append("a law of Regex.tla fails on the specification's own objects: %s" % json.dumps(case)[:300])
        decided = False
        for j, (run, rv) in enumerate(zip(rec["runs"], v["runs"])):
            rep.count("evaluations")
            bump(rv["v"])
            if "x" in rv:
                bump(rv["x"])
                if rv["x"] == "xmismatch":
                    rep.notes.append("SPEC-DRIFT: Regex.tla and JqSem's reading of builtin.jq differ on " + show_case(case, run["k"]))
            if rv["v"] == "agree":
                decided = True
                rep.count("traces_validated_against_impl")
                if rv.get("n", 0) > 0 or rv.get("e") != "none":
                    rep.nontrivial([case["input"], case["vars"], run["k"]])
            elif rv["v"] in ("oom", "cerr"):
                rep.count("out_of_model")
            else:       # mismatch, panic, long
                suspects.append((case, rec, j, rv))
        if decided and case["meta"]["fam"] == "re" and len(rep.cov["samples"]) < 5:
            m = [x for x in rec["runs"] if x["k"]["f"] == "matchg"]
            rep.sample({"subject": unV(case["input"]), "re": unV(case["vars"][0][1]), "flags": unV(case["vars"][1][1]),
                        "global_matches": [[o.get("offset"), o.get("length"), o.get("string")] for o in outs(m[0]["out"])][:6] if m else None})
    # second execution of every suspect, in one batch (determinism; long runs get a ten times larger budget)
    ones = [dict(case, id=i, progs=[case["progs"][j]]) for i, (case, rec, j, rv) in enumerate(suspects)]
    agains = run_cases(work, vh, ones, tag + "r", budget="20s") if ones else []
    for (case, rec, j, rv), one, arec in zip(suspects, ones, agains):
        run = rec["runs"][j]
        k = run["k"]
        again = arec["runs"][0]
        what = show_case(case, k)
        replay = {"family": "c14", "case": one, "actual": run, "expected": rv.get("exp")}
        if rv["v"] == "long":
            if again.get("long"):
                bump("nonterminating")
                rep.violation("does not terminate (20 s watchdog): " + what, replay)
            else:
                bump("slow")
                rep.count("out_of_model")
            continue
        same = all(again.get(f) == run.get(f) for f in ("out", "err", "panic"))
        if not same:
            # not reproduced on the second execution: never a verdict (rule: only reproduced behaviour counts)
            bump("irreproducible")
            rep.count("out_of_model")
            if counters["irreproducible"] <= 3:
                rep.notes.append("not reproduced on a second execution (undecided): %s: first %s, second %s" % (
                    what, json.dumps(run.get("err") or outs(run["out"]))[:200], json.dumps(again.get("err") or outs(again["out"]))[:200]))
            continue
        fid = match_known(rep, case, k, run)
        if fid:
            bump("known")
            rep.known_finding(fid, what)
            continue
        if rv["v"] == "panic":
            rep.violation("panic: %s: %s" % (what, run.get("panic")), replay)
        else:
            rep.violation("%s: real outputs %s err=%s; specification %s err=%s" % (
                what, json.dumps(outs(run["out"]))[:300], json.dumps(run.get("err"))[:120],
                json.dumps(outs(rv["exp"]["o"]))[:300], rv["exp"]["e"].get("k")), replay)
    return counters


def model_check(work, quick):
    """Design-level runs: the laws on every match list of the bounded universe; the deviation must be caught."""
    cfg = "RegexMC_quick.cfg" if quick else "RegexMC.cfg"
    res = vc.tlc(work.dir, "RegexMC.tla", cfg, workers=4 if quick else 6, timeout=900 if quick else 10000, extra=["-noGenerateSpecTE"])
    if not res.ok() or res.distinct == 0:
        raise vc.ToolError("RegexMC (%s) did not pass:\n%s" % (cfg, vc.tlc_error_text(res)))
    neg = vc.tlc(work.dir, "RegexMC.tla", "RegexMC_bytes.cfg", workers=2, timeout=300, extra=["-noGenerateSpecTE"])
    if "Invariant SliceInv is violated" not in neg.out:
        raise vc.ToolError("negative control: the deviation 'offsets in bytes' was not caught by SliceInv:\n%s" % vc.tlc_error_text(neg))
    return cfg, res


def run(tier, seed, replay):
    rep = vc.Report(PROP, tier, seed)
    rep.assumptions += ["TLC evaluates the specification correctly",
                        "Go's regexp package is the environment: its raw answers are logged, not judged (only checked against the "
                        "assumptions of RegexMC: rune-boundary offsets, first = prefix of all, deterministic leftmost matching)",
                        "the jq source of every program kind in checks/c14.py is what the comments of ValidateRegex.tla say",
                        "replacement filters of sub/gsub are evaluated by JqSem.tla on the AST of the real parser"]
    vh0, _ = vc.build()
    work = vc.Work(PROP)
    try:
        # a private copy: build/vh is shared and rebuilt by every check that starts while this one runs
        vh = work.path("vh")
        shutil.copyfile(vh0, vh)
        os.chmod(vh, 0o755)
        prelude = make_prelude(work, vh)
        if replay:
            rec = json.load(open(replay))
            c = check_cases(rep, work, vh, prelude, [rec["case"]], "replay", 600)
            vc.log("replay:", c)
            return rep.finish(min_decided=0)
        quick = tier == "quick"
        r = random.Random(seed)
        mc = cf.ThreadPoolExecutor(max_workers=1).submit(model_check, work, quick)     # runs next to the conformance part
        gen, res = evalfam.tlc_generate(work, "RegexGen.tla", seed, {"VERIF_SUBJ_LEN": "3" if quick else "4"})
        rep.add_tlc(res)
        subjects = [txt(g["s"]) for g in gen if g["t"] == "subj"]
        re0 = [g["r"] for g in gen if g["t"] == "re" and g["d"] == 0]
        re1 = [g["r"] for g in gen if g["t"] == "re" and g["d"] == 1]
        flagsets = [txt(g["s"]) for g in gen if g["t"] == "flags"]
        rep.cov["tlc_enumerated"] = {"subjects": len(subjects), "regex_depth0": len(re0), "regex_depth1": len(re1), "flag_arguments": len(flagsets)}
        cases = []
        # positions: every enumerated subject, plus long random ones
        for s in subjects:
            cases.append(pos_case(len(cases), s, r, small=True))
        for _ in range(150 if quick else 3000):
            cases.append(pos_case(len(cases), long_subject(r, 5, 40), r, small=False))
        npos = len(cases)
        triples = gen_re_cases(r, subjects, re0, re1, flagsets, quick)
        xs = set(r.sample(range(len(triples)), 30 if quick else 500))      # cases that also get the second reading of builtin.jq
        for i, (s, re, f) in enumerate(triples):
            cases.append(re_case(len(cases), s, re, f, r, xcheck=i in xs))
        rep.cov["cases"] = {"positions": npos, "regex": len(cases) - npos}
        r.shuffle(cases)            # spread the expensive (long subject) cases over the TLC shards
        rep.cov["exhaustive"] = True
        counters = {}
        step = 4000
        for a in range(0, len(cases), step):
            c = check_cases(rep, work, vh, prelude, cases[a:a + step], "t%d" % (a // step), timeout=900 if quick else 6000)
            for k, n in c.items():
                counters[k] = counters.get(k, 0) + n
        # several regular expressions in ONE program: every call is the composition of ITS OWN matches, whatever other (regex, flags)
        # pairs the program evaluated before (the jq definitions append "g" to the flags themselves: "a" used globally and "ag" used
        # plainly must stay different expressions).  Literal expressions only: JqSem.tla decides these completely (Formats.tla).
        std_prelude = evalfam.make_prelude(work, vh)
        pairs = [(("ag", None), ("a", "g")), (("a", "i"), ("ai", None)), (("b", "gi"), ("bgi", None)), (("lo", "g"), ("log", None)), (("x", None), ("", "x")), (("ai", None), ("a", "i")), (("k", "i"), ("ki", None)), (("m", None), ("", "m")),
                 (("a", ""), ("", "a")), (("ab", None), ("a", None)), (("g", "g"), ("gg", None)), (("ig", None), ("", "ig"))]
        subjects = ["xa", "xag", "aib", "hello log lo", "ki K", "A ai", "ggg", "abab", ""]
        fns = ['test(%s; %s)', '[match(%s; %s) | .offset]', '[scan(%s; %s)]', '[splits(%s; %s)]', 'gsub(%s; "-"; %s)', 'sub(%s; "-"; %s)', '[match(%s; %s + "g") | .string]']
        J = lambda x: "null" if x is None else json.dumps(x)
        mcases = []
        for (p1, p2) in pairs:
            for _ in range(3 if quick else 12):
                f1, f2, f3 = r.choice(fns), r.choice(fns), r.choice(fns)
                a, b, c3 = f1 % (J(p1[0]), J(p1[1])), f2 % (J(p2[0]), J(p2[1])), f3 % (J(p1[0]), J(p1[1]))
                src = '[try (%s) catch "e", try (%s) catch "e", try (%s) catch "e", try (%s) catch "e"]' % (a, b, c3, b)
                mcases.append({"id": len(mcases), "src": src, "inputs": [V(x) for x in r.sample(subjects, 3)]})
        mc2 = evalfam.check_cases(rep, work, vh, std_prelude, mcases, tag="multi", timeout=900, per_shard_min=15)
        rep.cov["several_expressions_in_one_program"] = mc2
        rep.cov["verdicts"] = counters
        rep.cov["second_reading_of_builtin_jq"] = {k: counters.get(k, 0) for k in ("xagree", "xoom", "xmismatch")}
        tw = time.time()
        cfg, res = mc.result()
        vc.log("  model checking %s: %d distinct states in %.1fs (waited %.1fs for it)" % (cfg, res.distinct, res.wall, time.time() - tw))
        rep.add_tlc(res)
        rep.cov["model_checking"] = {"config": cfg, "distinct_states": res.distinct, "states_generated": res.generated, "wall_s": round(res.wall, 1),
                                     "negative_control": "RegexMC_bytes.cfg (offsets left in bytes): SliceInv violated, as it must be"}
        rep.cov["rule"] = ("exhaustive: RegexMC state space (all match lists over the bounded universe); positions family on every subject "
                           "of length <= %d over the 7-character alphabet. sampled (seeded): regex family = TLC-enumerated regexes x subjects x "
                           "flag arguments, deeper composed regexes x random subjects up to 40 code points. evaluations = program runs; "
                           "non-trivial = the specification prescribes an output or an error; distinct by (subject, arguments, program)" % (3 if quick else 4))
        if counters.get("env_assumption_broken") or counters.get("spec_law_broken") or counters.get("xmismatch"):
            rep.finish()
            vc.log("TOOL: environment assumption broken, specification law broken or the two readings of builtin.jq differ (see notes in evidence)")
            return 1 if rep.violations else 2
        return rep.finish()
    finally:
        work.cleanup()
