"""C10 - integer arithmetic is exact and number literals are not degraded.

design level  : IntFastMC.tla model-checks the transcription of the int fast paths of operator.go /
                func.go (IntFast.tla) on a W-bit machine, W = 4, 6, 8 (thorough: also 10): ALL operand
                pairs x operators x representation pairs, plus chained applications.
                NumLit.tla: the JSON number automaton against the declarative grammar, the
                printing laws, over every text up to a length bound.
model -> code : NumLitGen enumerates number literals of every lexical shape (TLC); seeded boundary
                operand pairs (0, +-1, +-2^k(+-1), k <= 130, int64 limits, sqrt(2^63), random 1..40 digits).
code -> model : every operand pair runs through the real gojq in every exact Go representation
                (library, harness `vh c10arith`) and through the real binary (json.Number, literals);
                TLC validates each record: ValidateArith.tla instantiates the SAME IntFast.tla text over
                ExactInt digit sequences with W = 64; ValidateNum.tla checks what build/gojq printed for
                every literal (untouched: text = text; computed: canonical integer / float format
                selection / saturation / NaN -> null; every emitted number is a JSON number).
"""
import concurrent.futures as cf
import json
import os
import random
import subprocess
import time

import vcheck as vc

PROP = "C10"
MAXI = 2 ** 63 - 1
MINI = -2 ** 63
ISQ = 3037000499          # floor(sqrt(2^63))

MAX_CONFIRM = 40          # mismatches re-executed and reported per family (the rest is only counted)

BIN_OPS = ["add", "sub", "mul", "div", "mod"]
REL_OPS = ["eq", "ne", "gt", "lt", "ge", "le"]
UN_OPS = ["neg", "plus", "abs", "length"]


# ---------------------------------------------------------------------------
# operands

def boundary_set(r, nrandom):
    s = {0, 1, -1}
    for k in range(0, 131):
        for sg in (1, -1):
            for d in (-1, 0, 1):
                s.add(sg * 2 ** k + d)
    for base in (MAXI, MINI):
        for d in range(-3, 4):
            s.add(base + d)
    for base in (ISQ, -ISQ, 2 ** 32, -2 ** 32):
        for d in range(-2, 3):
            s.add(base + d)
    fixed = sorted(s)
    rnd = []
    for _ in range(nrandom):
        nd = r.randint(1, 40)
        v = r.randint(10 ** (nd - 1) if nd > 1 else 0, 10 ** nd - 1)
        rnd.append(v if r.random() < 0.5 else -v)
    return fixed, rnd


def fits(v):
    return MINI <= v <= MAXI


def rand_word(r):
    """An int64 of random magnitude (uniform in the bit length)."""
    k = r.randint(0, 63)
    v = r.randint(0, 2 ** k - 1) if k < 63 else r.randint(2 ** 62, MAXI)
    return v if r.random() < 0.5 else -v


def structured_pairs(r, op, n, pool):
    """Operand pairs aimed at the decision points of the fast path of `op` (the candidates are computed
    with Python integers: these are test inputs, not verdicts)."""
    out = []
    edge = [MAXI, MINI, MAXI - 1, MINI + 1, MAXI + 1, MINI - 1]
    while len(out) < n:
        a = r.choice([rand_word(r), rand_word(r), r.choice(pool)])
        d = r.choice([-2, -1, 0, 1, 2])
        t = r.choice(edge)
        if op in ("add",) + tuple(REL_OPS):
            b = t - a + d                       # a + b lands on the int64 boundary
            if op in REL_OPS:
                b = r.choice([a + d, -a + d, b])
        elif op == "sub":
            b = a - t + d                       # a - b lands on the boundary
        elif op == "mul":
            if a == 0:
                continue
            k = r.random()
            if k < 0.5:
                b = t // a + d                  # a * b next to the boundary
            elif k < 0.75:
                i = r.randint(0, 63)
                a = r.choice([1, -1]) * 2 ** i + r.choice([-1, 0, 1])
                b = r.choice([1, -1]) * 2 ** (63 - i) + r.choice([-1, 0, 1])
            else:
                a = r.choice([1, -1]) * ISQ + r.choice([-1, 0, 1, 2])
                b = r.choice([1, -1]) * ISQ + r.choice([-1, 0, 1, 2])
        else:                                   # div, mod
            k = r.random()
            b = r.choice([rand_word(r), r.choice(pool), r.choice([0, 1, -1, 2, -2, 3, -3, 10, MINI, MAXI])])
            if k < 0.45:
                q = r.choice([rand_word(r), r.choice(pool), r.choice([0, 1, -1, MINI, MAXI, 2 ** 63, 2 ** 64])])
                a = q * b                       # exact multiple: the quotient must be integral and exact
                if r.random() < 0.3:
                    a += r.choice([1, -1])
            elif k < 0.6:
                a = r.choice([MINI, MINI + 1, MAXI, -MAXI, 2 ** 63, -2 ** 63 - 1, 2 ** 64, -2 ** 64])
        out.append((a, b))
    return out


def rep_choices(v):
    reps = ["big", "jnum"]
    if fits(v):
        reps.insert(0, "int")
    if v == 0:
        reps.append("jnegzero")
    return reps


def arith_cases(r, quick, scale):
    """One case per (operator, a, b); its runs are (query mode, representation of a, of b)."""
    fixed, rnd = boundary_set(r, 60 if quick else 400)
    pool = fixed + rnd
    cases = []

    def pick(combos):
        # thorough: every representation pair; quick: (int, int) / the first one plus three random others
        if not quick or len(combos) <= 4:
            return combos
        return [combos[0]] + r.sample(combos[1:], 3)

    def add_case(kind, op, a, b=None):
        ra = rep_choices(a)
        c = {"kind": kind, "op": op, "a": str(a)}
        if kind == "un":
            runs = [{"mode": "var", "la": x} for x in ra]
            runs.append({"mode": "input", "la": r.choice(ra)})
            if op != "plus" or a >= 0:
                runs.append({"mode": "lit", "la": "lit"})
                runs.append({"mode": "litz", "la": "lit"})
        else:
            rb = rep_choices(b)
            c["b"] = str(b)
            runs = [{"mode": "var", "la": x, "lb": y} for x, y in pick([(x, y) for x in ra for y in rb])]
            runs.append({"mode": "input", "la": r.choice(ra), "lb": r.choice(rb)})
            runs.append({"mode": "lit", "la": "lit", "lb": "lit"})
            if len(cases) % 3 == 0:     # the same literals spelled with leading zeros (seeded C10_10)
                runs.append({"mode": "litz", "la": "lit", "lb": "lit"})
            if op == "add":
                runs.append({"mode": "addfn", "la": r.choice(ra), "lb": r.choice(rb)})
        c["runs"] = runs
        cases.append(c)

    nbin = int(300 * scale)
    nrel = int(80 * scale)
    for op in BIN_OPS:
        pairs = [(r.choice(pool), r.choice(pool)) for _ in range(nbin)]
        pairs += structured_pairs(r, op, nbin, pool)
        pairs += [(r.choice(fixed), r.choice([0, 1, -1, 2, -2, MINI, MAXI])) for _ in range(nbin // 4)]
        for a, b in pairs:
            add_case("bin", op, a, b)
    # the full cross product of the edge operands the property names (and their negations: equal magnitudes matter for / and %)
    core = sorted({0, 1, -1, 2, -2, MINI - 1, MINI, MINI + 1, -MINI, MAXI - 1, MAXI, MAXI + 1, -MAXI, 2 ** 64, -2 ** 64, ISQ, -ISQ, ISQ + 1, 2 ** 32, -2 ** 32, 2 ** 31, 2 ** 32 - 1})
    for op in BIN_OPS:
        for a in core:
            for b in core:
                add_case("bin", op, a, b)
        for a in r.sample(pool, 40 if quick else 400):      # equal and opposite magnitudes
            add_case("bin", op, a, -a)
            add_case("bin", op, a, a)
    for op in REL_OPS:
        pairs = [(r.choice(pool), r.choice(pool)) for _ in range(nrel)]
        pairs += structured_pairs(r, op, nrel, pool)
        pairs += [(a, a) for a in r.sample(pool, max(4, nrel // 4))]
        for a, b in pairs:
            add_case("rel", op, a, b)
    uvals = fixed if not quick else r.sample(fixed, 200) + [0, 1, -1, MINI, MAXI, MINI - 1, MAXI + 1, MINI + 1]
    for op in UN_OPS:
        for a in uvals + r.sample(rnd, min(len(rnd), 40)):
            add_case("un", op, a)
    for i, c in enumerate(cases):
        c["id"] = i
    return cases


# ---------------------------------------------------------------------------
# replay + validation of the operator cases

def err_class(msg):
    if "cannot divide" in msg:
        return "zerodiv"
    if "cannot modulo" in msg:
        return "zeromod"
    return "other"


def replay_arith(work, vh, cases, tag):
    cpath, tpath = work.path(tag + ".cases.ndjson"), work.path(tag + ".trace.ndjson")
    vc.write_ndjson(cpath, cases)
    vc.sh([vh, "c10arith", "-in", cpath, "-out", tpath, "-j", str(vc.NCPU)], timeout=3600)
    recs = vc.read_ndjson(tpath)
    for rec in recs:
        for run in rec["runs"]:
            if run["res"].get("k") == "err":
                run["res"]["e"] = err_class(run["res"].get("msg", ""))
    return recs


def zshow(z):
    if z is None:
        return None
    s = "".join(str(x) for x in z["d"]) or "0"
    return ("-" if z.get("neg") else "") + s


def res_show(res):
    k = res.get("k")
    if k == "z":
        s = zshow(res)
        if res.get("negzero"):
            s = "-0"
        p = zshow(res["p"]) if "p" in res else ("".join(chr(c) for c in res.get("ptxt", [])) or None)
        return "%s (%s; printed %s)" % (s, res.get("go"), p)
    if k == "float":
        return "float64 printed %s" % ("".join(chr(c) for c in res.get("ptxt", [])) or zshow(res.get("p")))
    if k == "err":
        return "error: " + res.get("msg", "")
    if k == "bool":
        return str(res.get("b")).lower()
    return json.dumps(res)


def case_of(rec, run):
    c = {"kind": rec["kind"], "op": rec["op"], "a": zshow(rec["a"])}
    if "b" in rec:
        c["b"] = zshow(rec["b"])
    c["runs"] = [{k: run[k] for k in ("mode", "la", "lb") if k in run}]
    return c


def check_arith(rep, work, vh, cases, tag="a", timeout=900):
    recs = replay_arith(work, vh, cases, tag)
    verdicts, stats = vc.validate_sharded(work, recs, "ValidateArith.tla", "ValidateArith.cfg", {}, tag=tag,
                                          timeout=timeout, per_shard_min=100)
    rep.add_tlc(stats)
    counters = {}

    def bump(k, n=1):
        counters[k] = counters.get(k, 0) + n

    mism = []
    for rec, v in zip(recs, verdicts):
        if "tlc" in v:
            bump("tlc_" + v["tlc"], len(rec["runs"]))
            rep.count("evaluations", len(rec["runs"]))
            rep.count("out_of_model", len(rec["runs"]))
            continue
        for run, rv in zip(rec["runs"], v["runs"]):
            rep.count("evaluations")
            bump(rv["v"])
            if run.get("mutated") and counters.get("operand_mutated", 0) < 20:
                bump("operand_mutated")
                c = case_of(rec, run)
                rep.violation("%s with a=%s b=%s (%s) changes a number it was given: %s - every later use of that number is inexact" % (
                    run["src"], c["a"], c.get("b"), "/".join(x for x in (run["la"], run.get("lb")) if x), run["mutated"]),
                    {"family": "arith", "case": c, "src": run["src"], "actual": {"res": run["res"], "mutated": run["mutated"]}})
                continue
            if rv["v"] == "agree":
                rep.count("traces_validated_against_impl")
                rep.nontrivial([rec["kind"], rec["op"], rec["a"], rec.get("b")])
                bump("outcome_" + rv["ek"])
                if not rv["rep"]:
                    bump("rep_drift")
                    if counters["rep_drift"] <= 3:
                        rep.notes.append("representation differs from the model (informational): %s -> real %s, model %s" % (
                            json.dumps(case_of(rec, run)), run["res"].get("go"), rv["mrep"]))
                elif rv["mrep"] in ("int", "big"):
                    bump("path_" + rv["mrep"])
                if rec["id"] % 997 == 0 and run is rec["runs"][0]:
                    rep.sample({"query": run["src"], "a": zshow(rec["a"]), "b": zshow(rec.get("b")),
                                "reps": [run["la"], run.get("lb")], "real": res_show(run["res"]), "verdict": "agree"}, limit=6)
            elif rv["v"] == "specerr":
                rep.count("out_of_model")
                vc.log("SPEC-DRIFT: IntFast.tla and the exact result differ on %s" % json.dumps(case_of(rec, run)))
            else:
                mism.append((rec, run, rv))
    if len(mism) > MAX_CONFIRM:
        counters["mismatches_not_reexecuted"] = len(mism) - MAX_CONFIRM
        mism = mism[:MAX_CONFIRM]
    if mism:
        again = replay_arith(work, vh, [dict(case_of(rec, run), id=i) for i, (rec, run, rv) in enumerate(mism)], tag + "r")
        for (rec, run, rv), rec2 in zip(mism, again):
            run2 = rec2["runs"][0]
            c = case_of(rec, run)
            if run2["res"] != run["res"]:
                bump("nondeterministic")
                rep.violation("non-deterministic result for %s" % json.dumps(c),
                              {"family": "arith", "case": c, "actual": [run["res"], run2["res"]]})
                continue
            if rv["v"] == "panic":
                what = "panic evaluating %s on %s: %s" % (run["src"], json.dumps(c), run["res"].get("msg"))
            else:
                what = "%s with a=%s b=%s (%s) gives %s; the exact result is different (%s)" % (
                    run["src"], c["a"], c.get("b"), "/".join(x for x in (run["la"], run.get("lb")) if x), res_show(run["res"]), rv.get("ek"))
            rep.violation(what, {"family": "arith", "case": c, "src": run["src"], "actual": run["res"]})
    return counters


# ---------------------------------------------------------------------------
# number literals through the real binary

# mode -> (query, extra args, how the literal is wrapped in the input); the expected text of every mode is
# in spec/ValidateNum.tla (ModeTable): nothing about expectations lives here.
LIT_MODES = {
    "id": (".", [], "plain"), "arr": ("[.]", [], "plain"), "obj": ("{a:.}", [], "plain"),
    "index": (".[0]", [], "arr"), "field": (".a", [], "obj"), "iter": (".[]", [], "arr"),
    "stream": (".", ["--stream"], "plain"), "slurp": (".[]", ["-s"], "plain"),
    "sort": ("[., .] | sort | .[1]", [], "plain"), "min": ("[., .] | min", [], "plain"),
    "unique": ("[., .] | unique | .[0]", [], "plain"), "select": ("select(. == .)", [], "plain"),
    "uplus": ("+.", [], "plain"), "tonum": ("tonumber", [], "plain"), "negneg": ("-(-.)", [], "plain"),
    "tojson": ("tojson", [], "plain"), "tostring": ("tostring", [], "plain"), "interp": ('"\\(.)"', [], "plain"),
    "attext": ("@text", [], "plain"), "neg": ("-.", [], "plain"), "abs": ("abs", [], "plain"),
    "length": ("length", [], "plain"), "plus0": (". + 0", [], "plain"), "mul1": (". * 1", [], "plain"),
    "sub0": (". - 0", [], "plain"), "reparse": ("tojson | tonumber", [], "plain"),
    "fromjson": ("tojson | fromjson", [], "plain"),
    "roundtrip": ("(. + 0) | (tojson | tonumber) == .", [], "plain"),
    "walk": ('walk(.)', [], "plain"),
    "entries": ('{a:.} | to_entries[0].value', [], "plain"),
    "tostream": ('[.] | tostream | select(length == 2) | .[1]', [], "plain"),
    "getpath": ('[.] | getpath([0])', [], "plain"),
    "reduce": ('reduce . as $x (null; $x)', [], "plain"),
    "foreach": ('[foreach (., .) as $x (null; $x; .)] | .[1]', [], "plain"),
    "limit": ('limit(1; ., .)', [], "plain"),
    "alt": ('. // 1', [], "plain"),
    "var": ('. as $x | [$x] | .[0]', [], "plain"),
    "def": ('def f(g): g; f(.)', [], "plain"),
    "update": ('[.] | (.[0] |= .) | .[0]', [], "plain"),
    "assign": ('. as $x | {} | .a = $x | .a', [], "plain"),
    "groupby": ('[., .] | group_by(.) | .[0][1]', [], "plain"),
    "flatten": ('[[.]] | flatten | .[0]', [], "plain"),
    "mapvalues": ('[.] | map_values(.) | .[0]', [], "plain"),
    "trycatch": ('try error(.) catch .', [], "plain"),
    "ifthen": ('if . == . then . else 0 end', [], "plain"),
    "label": ('label $l | ., break $l', [], "plain"),
    "recurse": ('[[.]] | [..] | .[2]', [], "plain"),
    "csv": ('[.] | @csv', [], "plain"),
    "tsv": ('[.] | @tsv', [], "plain"),
    "sh": ('@sh', [], "plain"),
    "html": ('@html', [], "plain"),
    "atjson": ('@json', [], "plain"),
    "raw": (".", ["-r"], "plain"), "color": (".", ["-C"], "plain"),
    "pretty": (".", ["--indent", "2"], "arr"),         # three output lines per literal
}
LINES_PER = {"pretty": 3}
NO_COMPACT = {"pretty"}


def mode_args(mode):
    q, extra, how = LIT_MODES[mode]
    return ([] if mode in NO_COMPACT else ["-c"]) + extra + [q]


def split_lines(out, per):
    lines = out.split("\n")
    if lines and lines[-1] == "":
        lines.pop()
    if per > 1:
        if len(lines) % per:
            return None
        lines = ["\n".join(lines[i:i + per]) for i in range(0, len(lines), per)]
    return lines
SPECIALS = {"nan": ["nan", "infinite - infinite", "[nan] | .[0]"],
            "inf": ["infinite", "1e1000", "1e200 * 1e200", "-(-infinite)"],
            "-inf": ["-infinite", "-1e1000", "-1e200 * 1e200"]}
SPECIAL_MODES = ["id", "arr", "obj", "tojson", "tostring", "interp"]


def wrap_input(text, how):
    if how == "arr":
        return "[" + text + "]"
    if how == "obj":
        return '{"a":' + text + "}"
    return text


def run_gojq(gojq, args, stdin_text=None, timeout=120):
    p = subprocess.run([gojq] + args, input=stdin_text, stdout=subprocess.PIPE, stderr=subprocess.PIPE,
                       text=True, timeout=timeout)
    return p.returncode, p.stdout, p.stderr


def lit_batch(work, gojq, mode, texts, use_file, tag):
    """One process for the whole batch; returns the output line of every literal (None = none)."""
    q, extra, how = LIT_MODES[mode]
    data = "".join(wrap_input(t, how) + "\n" for t in texts)
    if use_file:
        path = work.path("lit_%s_%s.json" % (tag, mode))
        with open(path, "w") as f:
            f.write(data)
        rc, out, err = run_gojq(gojq, mode_args(mode) + [path])
        os.remove(path)
    else:
        rc, out, err = run_gojq(gojq, mode_args(mode), stdin_text=data)
    lines = split_lines(out, LINES_PER.get(mode, 1))
    if rc == 0 and lines is not None and len(lines) == len(texts):
        return lines
    # something failed inside the batch: one process per literal to find out which
    return [lit_single(gojq, mode, t)[0] for t in texts]


def lit_single(gojq, mode, text):
    q, extra, how = LIT_MODES[mode]
    rc, out, err = run_gojq(gojq, mode_args(mode), stdin_text=wrap_input(text, how) + "\n")
    ls = split_lines(out, LINES_PER.get(mode, 1))
    return (ls[0] if rc == 0 and ls is not None and len(ls) == 1 else None), err


def cps(s):
    return [ord(c) for c in s]


def replay_texts(work, vh, cases, tag):
    cpath, tpath = work.path(tag + ".cases.ndjson"), work.path(tag + ".trace.ndjson")
    vc.write_ndjson(cpath, cases)
    vc.sh([vh, "c10tonum", "-in", cpath, "-out", tpath, "-j", str(vc.NCPU)], timeout=1800)
    return vc.read_ndjson(tpath)


def check_texts(rep, work, vh, cases, quick, tag="x"):
    """Every text over the scanner alphabet (TLC-enumerated) through `tonumber` and the query parser."""
    recs = replay_texts(work, vh, cases, tag)
    verdicts, stats = vc.validate_sharded(work, recs, "ValidateNum.tla", "ValidateNum.cfg", {}, tag=tag,
                                          timeout=900 if quick else 3000, per_shard_min=2000)
    rep.add_tlc(stats)
    counters = {"texts": len(recs)}
    bad = []
    for rec, v in zip(recs, verdicts):
        rep.count("evaluations")
        if "tlc" in v:
            rep.count("out_of_model")
            counters["tlc_" + v["tlc"]] = counters.get("tlc_" + v["tlc"], 0) + 1
        elif v["v"] == "agree":
            rep.count("traces_validated_against_impl")
            k = "text_accepted" if rec["ok"] else "text_rejected"
            counters[k] = counters.get(k, 0) + 1
            if rec["ok"]:
                rep.nontrivial(["text", rec["t"]])
        else:
            bad.append((rec, v))
    if bad:
        again = replay_texts(work, vh, [{"id": i, "t": rec["t"]} for i, (rec, v) in enumerate(bad[:MAX_CONFIRM])], tag + "r")
        for (rec, v), rec2 in zip(bad, again):
            text = "".join(chr(c) for c in rec["t"])
            same = all(rec.get(k) == rec2.get(k) for k in ("ok", "qnum", "p"))
            printed = "".join(chr(c) for c in rec["p"]) if "p" in rec else None
            what = ("text %r: tonumber %s (printed %r), whole-text query literal: %s; lexer.go model (%s) says otherwise" % (
                text, "accepts" if rec["ok"] else "rejects", printed, rec["qnum"], v["why"])) if same else "non-deterministic scanner result for %r" % text
            rep.violation(what, {"family": "text", "case": {"t": rec["t"]}, "text": text,
                                 "actual": {k: rec.get(k) for k in ("ok", "qnum", "p", "go")}})
    return counters


def check_literals(rep, work, vh, gojq, seed, quick):
    # model -> code: TLC enumerates the literal shapes
    gout, gout2 = work.path("lits.ndjson"), work.path("texts.ndjson")
    res = vc.tlc(work.dir, "NumLitGen.tla", "Gen.cfg",
                 env={"VERIF_OUT": gout, "VERIF_OUT2": gout2, "VERIF_N": "1500" if quick else "8000",
                      "VERIF_TEXTLEN": "4" if quick else "5"},
                 timeout=900, extra=["-seed", str(seed), "-noGenerateSpecTE"])
    if not res.ok() or not os.path.exists(gout) or not os.path.exists(gout2):
        raise vc.ToolError("NumLitGen failed:\n" + vc.tlc_error_text(res))
    rep.add_tlc(res)
    lits = vc.read_ndjson(gout)
    tcases = vc.read_ndjson(gout2)
    rz = random.Random(seed + 77)
    for k in range(60 if quick else 600):     # integer texts beyond int64 with leading zeros (tonumber must read them in base ten)
        digits = "".join(rz.choice("0123456789" if k % 2 else "01234567") for _ in range(rz.randint(19, 40)))
        t = rz.choice(["", "-"]) + "0" * rz.randint(1, 3) + digits
        tcases.append({"id": len(tcases) + 1, "t": cps(t)})
    text_counters = check_texts(rep, work, vh, tcases, quick)
    texts = ["".join(chr(c) for c in l["lit"]) for l in lits]
    rep.cov["literals_generated_by_tlc"] = len(texts)
    r = random.Random(seed)
    recs = []

    def add(mode, text, out, **kw):
        rec = {"id": len(recs), "mode": mode, "lit": cps(text)}
        if out is not None:
            rec["out"] = cps(out)
        rec.update(kw)
        recs.append(rec)

    jobs = []
    for mode in LIT_MODES:
        jobs.append((mode, True))
        if mode in ("id", "plus0", "tojson") or not quick:
            jobs.append((mode, False))
    with cf.ThreadPoolExecutor(max_workers=vc.NCPU) as ex:
        futs = [(mode, use_file, ex.submit(lit_batch, work, gojq, mode, texts, use_file, "f" if use_file else "s"))
                for mode, use_file in jobs]
        for mode, use_file, fu in futs:
            for t, o in zip(texts, fu.result()):
                add(mode, t, o, via="file" if use_file else "stdin")
    # argument transports: --jsonargs (chunks), --argjson (one process each; a sample)
    for i in range(0, len(texts), 150):
        chunk = texts[i:i + 150]
        rc, out, err = run_gojq(gojq, ["-nc", "$ARGS.positional[]", "--jsonargs"] + chunk)
        lines = out.split("\n")[:-1]
        if rc != 0 or len(lines) != len(chunk):
            lines = [None] * len(chunk)
        for t, o in zip(chunk, lines):
            add("jsonargs", t, o, via="argv")
    for t in r.sample(texts, 40 if quick else 400):
        rc, out, err = run_gojq(gojq, ["-nc", "$x", "--argjson", "x", t])
        add("argjson", t, out[:-1] if rc == 0 and out.endswith("\n") else None, via="argv")
    # special floats computed by the query, through both encoders
    for name, queries in SPECIALS.items():
        for q in queries:
            for mode in SPECIAL_MODES:
                full = "(%s) | %s" % (q, LIT_MODES[mode][0])
                rc, out, err = run_gojq(gojq, ["-nc", full])
                rec = {"id": len(recs), "mode": mode, "special": name, "query": full}
                if rc == 0 and out.endswith("\n"):
                    rec["out"] = cps(out[:-1])
                recs.append(rec)
    verdicts, stats = vc.validate_sharded(work, recs, "ValidateNum.tla", "ValidateNum.cfg", {}, tag="n",
                                          timeout=900 if quick else 3000, per_shard_min=300)
    rep.add_tlc(stats)
    counters = {}

    def bump(k):
        counters[k] = counters.get(k, 0) + 1

    counters.update(text_counters)
    for rec, v in zip(recs, verdicts):
        rep.count("evaluations")
        text = "".join(chr(c) for c in rec["lit"]) if "lit" in rec else rec["query"]
        out = "".join(chr(c) for c in rec["out"]) if "out" in rec else None
        if "tlc" in v:
            bump("tlc_" + v["tlc"])
            rep.count("out_of_model")
            continue
        bump(v["v"] + ":" + v["why"])
        if v["v"] == "agree":
            rep.count("traces_validated_against_impl")
            rep.nontrivial(["lit", rec["mode"], text])
            if rec["id"] % 4001 == 0:
                rep.sample({"literal": text, "mode": rec["mode"], "printed": out, "verdict": "agree (%s)" % v["why"]}, limit=12)
        elif v["v"] == "oom":
            rep.count("out_of_model")
        elif len(rep.violations) >= 2 * MAX_CONFIRM:
            bump("mismatches_not_reexecuted")
        else:
            # second execution (single process) before anything is reported
            if "lit" in rec:
                out2, err = lit_single(gojq, rec["mode"], text) if rec["mode"] in LIT_MODES else (out, "")
            else:
                rc, o2, err = run_gojq(gojq, ["-nc", rec["query"]])
                out2 = o2[:-1] if rc == 0 and o2.endswith("\n") else None
            if out2 != out:
                if rec.get("via") in ("file", "stdin") and "lit" in rec:
                    # batch and single transport disagree: report it as it is observable
                    what = "literal %s through `%s`: batch run printed %r, single run printed %r" % (text, LIT_MODES[rec["mode"]][0], out, out2)
                else:
                    what = "non-deterministic output for %s" % text
            else:
                what = "%s through mode %s (%s) printed %r; the specification (%s) says otherwise" % (
                    "literal " + text if "lit" in rec else "query " + text, rec["mode"],
                    LIT_MODES.get(rec["mode"], ("$x",))[0], out, v["why"])
            rep.violation(what, {"family": "literal", "case": {k: rec[k] for k in rec if k not in ("id", "out")},
                                 "text": text, "actual": out})
    return counters


# ---------------------------------------------------------------------------

def model_check(work, quick):
    """Design-level runs: IntFastMC for the word widths of the tier, NumLitMC; parallel JVMs."""
    runs = [("IntFastMC.tla", "IntFastMC_W4.cfg", 2), ("IntFastMC.tla", "IntFastMC_W6.cfg", 4),
            ("IntFastMC.tla", "IntFastMC_W8.cfg", 2), ("NumLitMC.tla", "NumLitMC.cfg", 2)]
    if not quick:
        runs = [("IntFastMC.tla", "IntFastMC_W4t.cfg", 2), ("IntFastMC.tla", "IntFastMC_W6t.cfg", 4),
                ("IntFastMC.tla", "IntFastMC_W8t.cfg", 4), ("IntFastMC.tla", "IntFastMC_W10.cfg", 4),
                ("NumLitMC.tla", "NumLitMC_t.cfg", 3)]
    out = {}

    def one(x):
        mod, cfg, workers = x
        return cfg, vc.tlc(work.dir, mod, cfg, workers=workers, timeout=400 if quick else 3000, xss="64m",
                           extra=["-noGenerateSpecTE"])

    with cf.ThreadPoolExecutor(max_workers=len(runs)) as ex:
        for cfg, res in ex.map(one, runs):
            if not res.ok() or res.distinct == 0:
                raise vc.ToolError("model checking with %s failed:\n%s" % (cfg, vc.tlc_error_text(res)))
            out[cfg] = {"distinct": res.distinct, "generated": res.generated, "wall_s": round(res.wall, 1)}
    return out


def replay_literal(rep, work, gojq, rec):
    case = rec["case"]
    if "lit" in case:
        out, err = lit_single(gojq, case["mode"], rec["text"])
    else:
        rc, o, err = run_gojq(gojq, ["-nc", case["query"]])
        out = o[:-1] if rc == 0 and o.endswith("\n") else None
    r = dict(case, id=0)
    if out is not None:
        r["out"] = cps(out)
    verdicts, stats = vc.validate_sharded(work, [r], "ValidateNum.tla", "ValidateNum.cfg", {}, tag="replay")
    rep.add_tlc(stats)
    v = verdicts[0]
    vc.log("replay:", rec["text"], "->", out, v)
    rep.count("evaluations")
    if v.get("v") == "agree":
        rep.count("traces_validated_against_impl")
    elif v.get("v") == "mismatch":
        rep.violation("%s through mode %s printed %r; the specification (%s) says otherwise" % (rec["text"], case["mode"], out, v["why"]),
                      {"family": "literal", "case": case, "text": rec["text"], "actual": out})


def run(tier, seed, replay):
    rep = vc.Report(PROP, tier, seed)
    rep.assumptions += ["TLC evaluates the specification correctly",
                        "math/big is exact (the model uses the carrier operation for the fallback)",
                        "Go's int is 64 bit (W = 64 in ValidateArith.tla)",
                        "digits of computed floats come from strconv (not modelled; only format selection, saturation, "
                        "<= 17 significant digits and a 2^-52 relative closeness bound are)"]
    vh, gojq = vc.build()
    work = vc.Work(PROP)
    try:
        if replay:
            rec = json.load(open(replay))
            if rec.get("family") == "arith":
                c = check_arith(rep, work, vh, [dict(rec["case"], id=0)], tag="replay")
                vc.log("replay:", c)
            elif rec.get("family") == "literal":
                replay_literal(rep, work, gojq, rec)
            elif rec.get("family") == "text":
                vc.log("replay:", check_texts(rep, work, vh, [dict(rec["case"], id=0)], True, tag="replay"))
            return rep.finish(min_decided=0)
        r = random.Random(seed)
        quick = tier == "quick"
        with cf.ThreadPoolExecutor(max_workers=1) as ex:
            mc = ex.submit(model_check, work, quick)
            t0 = time.time()
            cases = arith_cases(r, quick, 1.0 if quick else 8.0)
            counters = check_arith(rep, work, vh, cases, timeout=600 if quick else 3000)
            t1 = time.time()
            lit_counters = check_literals(rep, work, vh, gojq, seed, quick)
            t2 = time.time()
            rep.cov["model_checking"] = mc.result()
            rep.cov["phase_wall_s"] = {"operators": round(t1 - t0, 1), "literals": round(t2 - t1, 1),
                                       "waiting_for_model_checking": round(time.time() - t2, 1)}
            for m in rep.cov["model_checking"].values():
                rep.add_tlc({"states": m["distinct"], "generated": m["generated"]})
        rep.cov["arith_verdicts"] = counters
        rep.cov["literal_verdicts"] = lit_counters
        rep.cov["exhaustive"] = True
        rep.cov["rule"] = ("IntFastMC: all operand pairs of the W-bit universe (W=4,6,8; thorough also 10) x 5 operators + compare + 4 unary "
                           "x 3 representations, chained; NumLitMC: every text over 9 symbols up to length 6 (thorough 7). "
                           "conformance: seeded pairs from the boundary set of the property and structured pairs at the decision points of each "
                           "fast path x every exact Go representation pair x query modes ($a op $b, .[0] op .[1], literals, add); "
                           "TLC-enumerated literal shapes (seeded subset of 1500 / 8000 of the 31460 + all integer-shaped ones) x %d journeys "
                           "through build/gojq (file, stdin, argv); every text over 9 symbols up to length 4 / 5 through tonumber and the query parser; " % (len(LIT_MODES) + 2) +
                           "non-trivial = distinct (operator, a, b) / (mode, literal)")
        code = rep.finish()
        if code == 0 and counters.get("specerr"):
            vc.log("SPEC-DRIFT: the model disagrees with the exact result on %d runs the real code got right" % counters["specerr"])
            return 2
        return code
    finally:
        work.cleanup()
