"""C09 - parsing follows jq's grammar and String() round-trips.

Specification: spec/Lexer.tla (lexer.go as a byte machine), spec/Grammar.tla (what the precedence block
of parser.go.y means, as a deterministic parser over tokens; the printer of query.go), model checked by
spec/LexerNumMC.tla (number scanner automaton = recursive scanner = regular expression, every text up to
a length) and spec/GrammarMC.tla (every token sequence up to a length over nine alphabets: round trip,
print stability, blanks/comments irrelevant; two negative controls).

model -> code : GenOps.tla writes every ordered pair and triple of the 24 binary operators around atoms
                and around every delimiting construct, and the token alphabets; the check enumerates all
                token sequences (blank separated and glued) and all number-ish strings; seeded random
                programs of the full surface grammar, their byte mutations, the corpus.
code -> model : `vh c09parse` hands every text to the real gojq.Parse and records the AST, String(), the
                re-parse, re-spacings and `tonumber`; TLC (ValidateParse.tla) computes tokens, tree,
                print and round trip from the bytes and the check compares.
"""
import concurrent.futures as cf
import itertools
import json
import os
import random
import time

import vcheck as vc

PROP = "C09"

# ---------------------------------------------------------------------------
# seeded generator of programs of the full surface grammar (text only; what the text MEANS
# - tokens, tree, print - is decided by the TLA+ specification from the bytes)

IDENTS = ["f", "g", "foo", "map", "select", "_x", "a1", "f1", "android", "iff", "nulls", "orx", "as_", "E", "e1", "x9"]
MODIDENTS = ["m::f", "m1::g2", "_m::_f"]
VARS = ["$x", "$y", "$x1", "$__loc__", "$if", "$ENV", "$_"]
MODVARS = ["$m::x", "$m1::y2"]
KEYWORDS = ["or", "and", "module", "import", "include", "def", "as", "label", "break", "null", "true", "false",
            "if", "then", "elif", "else", "end", "try", "catch", "reduce", "foreach"]
FIELDS = [".a", ".b", ".foo", "._x", ".a1", ".and", ".if", ".e", ".E1", ".null", ".x9"]
NUMBERS = ["0", "1", "2", "10", "007", "1.", "1.5", ".5", "0.0", "1e3", "1E3", "1e+3", "1e-3", "1.e2", "1.5e10", ".5E-1",
           "123456789012345678901234567890", "1e1000", "0e0", "9.", "00.00"]
FORMATS = ["@text", "@json", "@base64", "@base64d", "@base32d", "@uri", "@csv", "@sh", "@html", "@f", "@1", "@_a"]
BINOPS = ["//", "=", "|=", "+=", "-=", "*=", "/=", "%=", "//=", "or", "and", "==", "!=", "<", "<=", ">", ">=", "+", "-", "*", "/", "%"]
STR_PIECES = ["a", "b", " ", "xyz", "0", ".", "#", "'", "(", ")", "\\n", "\\t", "\\\"", "\\\\", "\\/", "\\b", "\\f", "\\r",
              "\\u00e9", "\\u0041", "\\ud83d\\ude00", "\\ud800", "\\udc00\\ud800", "\\u0000", "\\u001f", "\\uD83D\\uDE00", "\\ud83d\\u0041",
              "\t", "\x01", "\x7f", "é", "日本", "\U0001f600", "\\\\(", "\\\\\\\\", "\\u007f", "\\ufffd", "�", "\\u2028"]


class Gen:
    def __init__(self, r):
        self.r = r

    def pick(self, xs):
        return self.r.choice(xs)

    def join(self, toks):
        """tokens -> text with seeded spacing: mostly one blank, sometimes none where harmless, sometimes more."""
        out = []
        for i, t in enumerate(toks):
            if i > 0:
                k = self.r.random()
                if k < 0.70:
                    out.append(" ")
                elif k < 0.80:
                    a, b = toks[i - 1][-1:], t[:1]
                    tight = (a in "([{,;|:" or b in ")]},;|:") and not (a in "|" and b in "=|") and not (a == ":" and b == ":")
                    out.append("" if tight else " ")
                elif k < 0.88:
                    out.append(self.pick(["  ", "\t", "\n", " \n ", "\r\n"]))
                elif k < 0.94:
                    out.append(" " + self.comment() + self.pick(["\n", "\r\n", "\r"]))
                else:
                    out.append(" ")
            out.append(t)
        return "".join(out)

    def comment(self):
        body = self.pick(["", " c", " \" unbalanced", " \\( x", " a \\\n continued", " a \\\r\n continued", " ends with \\\\", " \\\\\\\n more", " tab\there", " é"])
        return "#" + body

    # ---- strings
    def string(self, d, plain=False):
        parts = []
        for _ in range(self.r.choice([0, 1, 1, 2, 3, 4])):
            if not plain and d > 0 and self.r.random() < 0.3:
                parts.append("\\(" + self.join(self.query(d - 1)) + ")")
            else:
                parts.append(self.pick(STR_PIECES))
        return '"' + "".join(parts) + '"'

    # ---- patterns
    def pattern(self, d):
        k = self.r.random()
        if d <= 0 or k < 0.45:
            return [self.pick(VARS)]
        if k < 0.7:
            out = ["["]
            for i in range(self.r.choice([1, 1, 2, 3])):
                if i:
                    out.append(",")
                out += self.pattern(d - 1)
            return out + ["]"]
        out = ["{"]
        for i in range(self.r.choice([1, 1, 2, 3])):
            if i:
                out.append(",")
            c = self.r.randrange(7)
            if c == 0:
                out.append(self.pick(VARS))
            elif c == 1:
                out += [self.pick(VARS), ":"] + self.pattern(d - 1)
            elif c == 2:
                out += [self.pick(IDENTS), ":"] + self.pattern(d - 1)
            elif c == 3:
                out += [self.pick(KEYWORDS), ":"] + self.pattern(d - 1)
            elif c == 4:
                out += [self.string(d - 1), ":"] + self.pattern(d - 1)
            elif c == 5:
                out += ["("] + self.query(d - 1) + [")", ":"] + self.pattern(d - 1)
            else:
                out += [self.string(0, plain=True), ":"] + self.pattern(d - 1)
        return out + ["}"]

    def patterns(self, d):
        out = self.pattern(d)
        while self.r.random() < 0.25:
            out += ["?//"] + self.pattern(d)
        return out

    # ---- terms
    def suffix(self, d):
        c = self.r.randrange(14)
        if c <= 2:
            return [self.pick(FIELDS)]
        if c == 3:
            return ["[", "]"]
        if c == 4:
            return ["?"]
        if c == 5:
            return ["["] + self.query(d - 1) + ["]"]
        if c == 6:
            return [".", "["] + self.query(d - 1) + ["]"]
        if c == 7:
            return [".", self.string(d - 1)]
        if c == 8:
            return ["["] + self.query(d - 1) + [":", "]"]
        if c == 9:
            return ["[", ":"] + self.query(d - 1) + ["]"]
        if c == 10:
            return ["["] + self.query(d - 1) + [":"] + self.query(d - 1) + ["]"]
        if c == 11:
            return [".", "[", "]"]
        if c == 12:
            return [".", "["] + self.query(d - 1) + [":"] + self.query(d - 1) + ["]"]
        return ["." + self.string(0, plain=True)]

    def objectval(self, d):
        out = self.expr(d)
        while self.r.random() < 0.2:
            out += ["|"] + self.expr(d)
        return out

    def object(self, d):
        out = ["{"]
        n = self.r.choice([0, 1, 1, 2, 3])
        for i in range(n):
            if i:
                out.append(",")
            c = self.r.randrange(9)
            if c == 0:
                out.append(self.pick(IDENTS))
            elif c == 1:
                out.append(self.pick(VARS))
            elif c == 2:
                out.append(self.pick(KEYWORDS))
            elif c == 3:
                out.append(self.string(d - 1))
            elif c == 4:
                out += [self.pick(IDENTS + KEYWORDS), ":"] + self.objectval(d - 1)
            elif c == 5:
                out += [self.string(d - 1), ":"] + self.objectval(d - 1)
            elif c == 6:
                out += ["("] + self.query(d - 1) + [")", ":"] + self.objectval(d - 1)
            elif c == 7:
                out += [self.pick(VARS), ":"] + self.objectval(d - 1)
            else:
                out += [self.pick(IDENTS), ":"] + self.term(d - 1)
        if n and self.r.random() < 0.15:
            out.append(",")
        return out + ["}"]

    def primary(self, d):
        if d <= 0:
            c = self.r.randrange(12)
            return [[".", "..", self.pick(FIELDS), self.pick(NUMBERS), self.pick(IDENTS), self.pick(VARS), "null", "true", "false",
                     self.string(0), self.pick(FORMATS), self.pick(MODIDENTS + MODVARS)][c]]
        c = self.r.randrange(30)
        if c <= 4:
            return self.primary(0)
        if c == 5:
            return [".", "["] + self.query(d - 1) + ["]"]
        if c == 6:
            return [".", self.string(d - 1)]
        if c == 7:
            return [".", "[", "]"]
        if c == 8:
            out = [self.pick(IDENTS + MODIDENTS), "("]
            for i in range(self.r.choice([1, 1, 2, 3])):
                if i:
                    out.append(";")
                out += self.query(d - 1)
            return out + [")"]
        if c == 9:
            return self.object(d)
        if c == 10:
            return ["[", "]"] if self.r.random() < 0.3 else ["["] + self.query(d - 1) + ["]"]
        if c == 11:
            return [self.pick(["-", "+"])] + self.term(d - 1)
        if c == 12:
            return [self.pick(FORMATS), self.string(d - 1)]
        if c == 13:
            return [self.string(d)]
        if c == 14:
            out = ["if"] + self.query(d - 1) + ["then"] + self.query(d - 1)
            for _ in range(self.r.choice([0, 0, 1, 2])):
                out += ["elif"] + self.query(d - 1) + ["then"] + self.query(d - 1)
            if self.r.random() < 0.6:
                out += ["else"] + self.query(d - 1)
            return out + ["end"]
        if c == 15:
            out = ["try"] + self.term(d - 1)
            if self.r.random() < 0.5:
                out += ["catch"] + self.term(d - 1)
            return out
        if c == 16:
            return ["reduce"] + self.expr(d - 1) + ["as"] + self.pattern(d - 1) + ["("] + self.query(d - 1) + [";"] + self.query(d - 1) + [")"]
        if c == 17:
            out = ["foreach"] + self.expr(d - 1) + ["as"] + self.pattern(d - 1) + ["("] + self.query(d - 1) + [";"] + self.query(d - 1)
            if self.r.random() < 0.5:
                out += [";"] + self.query(d - 1)
            return out + [")"]
        if c == 18:
            return ["break", self.pick(VARS)]
        if c in (19, 20):
            return ["("] + self.query(d - 1) + [")"]
        if c == 21:
            return [".", "["] + self.query(d - 1) + [":"] + self.query(d - 1) + ["]"]
        if c == 22:
            return [".", "[", ":"] + self.query(d - 1) + ["]"]
        if c == 23:
            return [".", "."] + self.pick([["["] + self.query(d - 1) + ["]"], ["[", "]"], [self.string(0)]])
        return self.primary(0)

    def term(self, d):
        out = self.primary(d)
        while self.r.random() < 0.35:
            out += self.suffix(d)
        return out

    def expr(self, d):
        if d <= 0 or self.r.random() < 0.45:
            return self.term(d)
        return self.expr(d - 1) + [self.pick(BINOPS)] + self.expr(d - 1)

    def funcdef(self, d):
        out = ["def", self.pick(IDENTS)]
        if self.r.random() < 0.5:
            out.append("(")
            for i in range(self.r.choice([1, 1, 2, 3])):
                if i:
                    out.append(";")
                out.append(self.pick(IDENTS + VARS))
            out.append(")")
        return out + [":"] + self.query(d - 1) + [";"]

    def query(self, d):
        if d <= 0:
            return self.expr(0)
        c = self.r.randrange(16)
        if c <= 5:
            return self.expr(d)
        if c in (6, 7):
            return self.query(d - 1) + ["|"] + self.query(d - 1)
        if c in (8, 9):
            return self.query(d - 1) + [","] + self.query(d - 1)
        if c in (10, 11):
            return self.expr(d - 1) + ["as"] + self.patterns(d - 1) + ["|"] + self.query(d - 1)
        if c in (12, 13):
            return self.funcdef(d) + self.query(d - 1)
        if c == 14:
            return ["label", self.pick(VARS), "|"] + self.query(d - 1)
        return self.term(d)

    # ---- program header
    def constterm(self, d):
        c = self.r.randrange(9 if d > 0 else 6)
        if c <= 5:
            return [[self.pick(NUMBERS), self.string(0, plain=True), "null", "true", "false", '""'][c]]
        if c == 6:
            out = ["["]
            for i in range(self.r.choice([0, 1, 2])):
                if i:
                    out.append(",")
                out += self.constterm(d - 1)
            return out + ["]"]
        return self.constobject(d - 1)

    def constobject(self, d):
        out = ["{"]
        n = self.r.choice([0, 1, 2, 3])
        for i in range(n):
            if i:
                out.append(",")
            out += [self.pick([self.pick(IDENTS), self.pick(KEYWORDS), self.string(0, plain=True), '""']), ":"] + self.constterm(d)
        if n and self.r.random() < 0.2:
            out.append(",")
        return out + ["}"]

    def program(self, d):
        out = []
        if self.r.random() < 0.12:
            out += ["module"] + self.constobject(2) + [";"]
        while self.r.random() < 0.12:
            path = self.pick([self.string(0, plain=True), '"a/b"', '""', '"m"'])
            if self.r.random() < 0.6:
                out += ["import", path, "as", self.pick(IDENTS + VARS + ["$__loc__"])]
            else:
                out += ["include", path]
            if self.r.random() < 0.4:
                out += self.constobject(1)
            out.append(";")
        k = self.r.random()
        if k < 0.06:
            for _ in range(self.r.choice([0, 1, 2])):
                out += self.funcdef(d)
            return out
        while self.r.random() < 0.15:
            out += self.funcdef(d)
        return out + self.query(d)


MUT_BYTES = [b".", b'"', b"\\", b"(", b")", b"[", b"]", b"?", b"/", b"=", b"e", b"1", b":", b"$", b"@", b"#", b"\n", b"\x00", b"\xc3",
             b" ", b"|", b",", b";", b"-", b"{", b"}", b"as", b"def", b"\\(", b"..", b"::", b"//", b"\\u12", b"\xe2\x82", b"!", b"&", b"'"]


def mutate(r, b):
    """a byte-level mutation of a program text (most mutants are rejected: both sides must agree on that)"""
    b = bytearray(b)
    for _ in range(r.choice([1, 1, 1, 2, 3])):
        k = r.randrange(4)
        pos = r.randrange(len(b) + 1)
        if k == 0 and b:
            n = r.choice([1, 1, 2, 5])
            del b[pos:pos + n]
        elif k == 1:
            b[pos:pos] = r.choice(MUT_BYTES)
        elif k == 2 and len(b) > 1:
            i, j = r.randrange(len(b)), r.randrange(len(b))
            b[i], b[j] = b[j], b[i]
        else:
            b = b[:pos] if r.random() < 0.5 else b[pos:]
    return bytes(b)


# ---------------------------------------------------------------------------
# re-spacings from the token extents the specification computed

WS = [b" ", b"\t", b"\n", b"\r", b"\r\n", b"  ", b" \n\t "]
COMMENTS = [b"#\n", b"# c\n", b"#c\r\n", b"# \" ( \\( [ {\n", b"# a \\\n b\n", b"# a \\\r\n b \\\\\n", b"#\r", b"# \xc3\xa9 \xff\n", b"#\\\\\\\n x\n"]


def needs_gap(a, b):
    """conservative guess whether two adjacent token texts need a separator (TLC decides what really happened)"""
    if not a or not b:
        return False
    x, y = a[-1:], b[:1]
    wordy = b"abcdefghijklmnopqrstuvwxyzABCDEFGHIJKLMNOPQRSTUVWXYZ0123456789_$@.:"
    if x in wordy and y in wordy:
        return True
    if x in b"+-*/%=<>!|?/" and y in b"=/":
        return True
    if x in b"?" and y in b"/":
        return True
    if x in b"0123456789." and y in b".eE":
        return True
    return False


def respacings(r, src, spans, n_loose=2):
    """variants of src that keep the tokens: gaps rewritten (tight / loose with comments)"""
    toks = [src[b:e] for b, e in spans]
    if not toks:
        return []
    # gaps inside a string literal (between strstart/segments/strend) must stay empty: detect by zero-width original gap
    # inside a literal; the original gap text tells (tokens of one literal are adjacent without bytes between them)
    orig_gaps = [src[spans[i][1]:spans[i + 1][0]] for i in range(len(spans) - 1)]

    def in_literal(i):
        # gap i lies between token i and i+1; inside a literal iff the original gap is empty and one of the neighbours
        # is a piece of an interpolated string. Conservative: keep every originally empty gap empty.
        return orig_gaps[i] == b""

    out = []
    # tight
    parts = [toks[0]]
    for i in range(1, len(toks)):
        if not in_literal(i - 1) and needs_gap(toks[i - 1], toks[i]):
            parts.append(b" ")
        parts.append(toks[i])
    out.append(b"".join(parts))
    for _ in range(n_loose):
        parts = [r.choice([b"", b" ", b"\n", r.choice(COMMENTS)]), toks[0]]
        for i in range(1, len(toks)):
            if not in_literal(i - 1):
                k = r.random()
                if k < 0.5:
                    parts.append(r.choice(WS))
                elif k < 0.8:
                    parts.append(b" " + r.choice(COMMENTS) + r.choice([b"", b" ", b"\t"]))
                else:
                    parts.append(r.choice(WS) + r.choice(COMMENTS) + r.choice(COMMENTS))
            parts.append(toks[i])
        parts.append(r.choice([b"", b" ", b"\n", b" # end", b"\t#", b" # \\", b"\r\n"]))
        out.append(b"".join(parts))
    return out


# ---------------------------------------------------------------------------
# pipeline pieces

def harness(work, vh, cases, tag, noast=False):
    """replay on the real code; returns (trace lines for TLC, the same records without the AST for the classification)"""
    cpath, tpath, lpath = work.path(tag + ".cases.ndjson"), work.path(tag + ".trace.ndjson"), work.path(tag + ".light.ndjson")
    vc.write_ndjson(cpath, cases)
    vc.sh([vh, "c09parse", "-in", cpath, "-out", tpath, "-light", lpath, "-j", str(vc.NCPU)] + (["-noast"] if noast else []), timeout=3600)
    os.remove(cpath)
    with open(tpath) as f:
        lines = f.readlines()
    os.remove(tpath)
    recs = vc.read_ndjson(lpath)
    os.remove(lpath)
    if len(recs) != len(lines):
        raise vc.ToolError("harness wrote %d trace lines and %d light records" % (len(lines), len(recs)))
    return lines, recs


def validate_lines(work, lines, tag, spans=False, timeout=900, per_shard=2500, mode="full"):
    """ValidateParse.tla over trace lines, sharded over JVMs, bisecting a shard TLC cannot evaluate.
    Returns (verdicts aligned with lines, stats)."""
    n = len(lines)
    stats = {"states": 0, "generated": 0, "tlc_wall": 0.0, "tlc_runs": 0}
    if n == 0:
        return [], stats
    size = sum(len(l) for l in lines)
    shards = max(1, min(vc.NCPU if size < (400 << 20) else 3 * vc.NCPU, max(n // per_shard, size // (12 << 20), min(vc.NCPU, size // (1 << 20))) + 1))
    bounds = [(i * n // shards, (i + 1) * n // shards) for i in range(shards)]
    verdicts = [None] * n
    counter = itertools.count()

    def run_range(lo, hi, tmo):
        k = "%s%d_%d_%d" % (tag, next(counter), lo, hi)
        tpath, vpath = work.path(k + ".trace.ndjson"), work.path(k + ".verdict.ndjson")
        with open(tpath, "w") as f:
            f.writelines(lines[lo:hi])
        env = {"VERIF_TRACE": tpath, "VERIF_OUT": vpath, "VERIF_SPANS": "1" if spans else "0", "VERIF_MODE": mode}
        res = vc.tlc(work.dir, "ValidateParse.tla", "ValidateParse.cfg", env=env, timeout=tmo, xmx="2g", extra=["-noGenerateSpecTE"])
        stats["tlc_wall"] += res.wall
        stats["tlc_runs"] += 1
        vs = None
        good = os.path.exists(vpath) and not res.timeout
        if good:
            try:
                vs = vc.read_ndjson(vpath)
                good = len(vs) == hi - lo
            except Exception:
                good = False
        for p in (tpath, vpath):
            if os.path.exists(p) and not os.environ.get("VERIF_KEEP"):
                os.remove(p)
        if good:
            stats["states"] += res.distinct
            stats["generated"] += res.generated
            return vs
        if hi - lo == 1:
            why = "timeout" if res.timeout else "error"
            vc.log("TLC could not evaluate a record (%s): %s" % (why, vc.tlc_error_text(res)[:800]))
            return [{"v": "tlc_" + why}]
        mid = (lo + hi) // 2
        sub = max(60, tmo // 2)
        return run_range(lo, mid, sub) + run_range(mid, hi, sub)

    with cf.ThreadPoolExecutor(max_workers=vc.NCPU) as ex:
        futs = {ex.submit(run_range, lo, hi, timeout): (lo, hi) for lo, hi in bounds if hi > lo}
        for fu in cf.as_completed(futs):
            lo, hi = futs[fu]
            verdicts[lo:hi] = fu.result()
    return verdicts, stats


def model_check(work, module, cfg_text, name, workers, timeout):
    """one design-level TLC run with a generated config (kept in the work directory)"""
    cfg = work.path("C09_%s.cfg" % name)
    with open(cfg, "w") as f:
        f.write(cfg_text)
    return vc.tlc(work.dir, module, cfg, workers=workers, timeout=timeout, xmx="3g", extra=["-noGenerateSpecTE"])


def src_text(b):
    try:
        return bytes(b).decode("utf-8")
    except Exception:
        return repr(bytes(b))


class Checker:
    def __init__(self, rep, work, vh):
        self.rep, self.work, self.vh = rep, work, vh
        self.c = {}
        self.pending = []     # (kind, what, case, actual, expected) to be reproduced before reporting
        self.nsample = {}
        self.drift = []

    def bump(self, k, n=1):
        self.c[k] = self.c.get(k, 0) + n

    def disagree(self, kind, what, case, actual, expected=None):
        self.pending.append((kind, what, case, actual, expected))

    def classify(self, rec, v, family):
        """one trace record against its verdict"""
        rep = self.rep
        rep.count("evaluations")
        case = {"srcB": rec.get("srcB"), "family": family}
        src = src_text(rec.get("srcB", []))
        if "panic" in rec:
            self.bump("panic")
            self.disagree("panic", "panic in Parse/String() of %r: %s" % (src, rec["panic"]), case, {"panic": rec["panic"]})
            return
        if v.get("v", "").startswith("tlc_"):
            self.bump(v["v"])
            rep.count("out_of_model")
            return
        if v.get("v") == "vars":
            self.classify_vars(rec, v, case, src)
            return
        if v["acc"] != rec["ok"]:
            self.bump("mismatch_accept")
            self.disagree("accept", "%r: real parser %s, grammar specification %s" % (
                src, "accepts" if rec["ok"] else "rejects (%s)" % rec["err"]["msg"], "accepts" if v["acc"] else "rejects"),
                case, {"ok": rec["ok"], "err": rec.get("err")}, {"ok": v["acc"]})
            return
        good = True
        if rec["ok"]:
            rt = rec["rt"]
            real_rt = bool(rt.get("ok") and rt.get("equal"))
            rtinfo = {"printed": rec["printed"], "rt": {k: rt[k] for k in rt if k != "ast2"}}
            how = ("is rejected: " + rt.get("msg", "")) if not rt.get("ok") else "parses to a different AST"
            if not v["ast"]:
                good = False
                self.bump("mismatch_ast")
                self.disagree("ast", "%r: the AST of the real parser is not the tree the grammar specification gives" % src, case, {"printed": rec["printed"]})
            elif not real_rt:
                good = False
                self.bump("mismatch_roundtrip")
                self.disagree("roundtrip", "%r: String() = %r %s" % (src, src_text(rec["printed"]), how), case, rtinfo)
            elif not v["pr"]:
                # the text differs from the printer specification but parses back to the same AST: the property holds
                # on this record, the specification is no longer a model of the printer (reported as drift, exit 2)
                good = False
                self.bump("printer_text_differs_from_spec")
                if len(self.drift) < 5:
                    self.drift.append("%s: String() = %s is not what the printer specification gives (it still round-trips)" % (repr(src)[:160], repr(src_text(rec["printed"]))[:160]))
            elif not v["srt"]:
                raise vc.ToolError("SPEC-DRIFT: the specification predicts a round-trip failure the real code does not have: %r" % src)
            elif not rt.get("idem", True):
                good = False
                self.bump("mismatch_idempotence")
                self.disagree("roundtrip", "%r: printing the re-parsed query gives a different text" % src, case, rtinfo)
        else:
            if v["ek"] != rec["err"]["kind"] or v["eo"] != rec["err"].get("offset", -2):
                self.bump("error_position_differs")     # informational (C17 owns positions)
        if "tn" in rec:
            if rec["tn"].get("panic") or rec["tn"]["ok"] != v["tn"]:
                good = False
                self.bump("mismatch_tonumber")
                self.disagree("tonumber", "%r | tonumber: real %s, lexer specification (validNumber) %s" % (src, rec["tn"], v["tn"]), dict(case, tn=True), rec["tn"], v["tn"])
        if good:
            self.bump("agree_accepted" if rec["ok"] else "agree_rejected")
            rep.count("traces_validated_against_impl")
            if rec["ok"]:
                rep.nontrivial(rec["srcB"])
                self.nsample[family] = self.nsample.get(family, 0) + 1
                if self.nsample[family] % 97 == 3 and self.nsample.get(family + "#", 0) < 2 and 6 <= len(rec["srcB"]) < 200:
                    self.nsample[family + "#"] = self.nsample.get(family + "#", 0) + 1
                    rep.sample({"source": src, "printed": src_text(rec["printed"]), "tokens": v.get("ntok"), "family": family}, limit=16)

    def classify_vars(self, rec, v, case, src):
        """re-spacings: the same token sequence (decided by Lexer.tla) must give the same outcome and AST"""
        rep = self.rep
        good = True
        for j, var in enumerate(rec.get("vars", [])):
            if not v["vars"][j]:
                self.bump("respacing_changed_tokens")
                continue
            rep.count("respacings_checked")
            bad = var.get("panic") or (var["ok"] != rec["ok"]) or (rec["ok"] and not var.get("equal"))
            if bad:
                good = False
                self.bump("mismatch_respacing")
                self.disagree("respacing", "%r and its re-spacing %r have the same tokens but %s" % (
                    src, src_text(var["b"]), "different ASTs" if var.get("ok") and rec["ok"] else "only one is accepted"),
                    dict(case, vars=[var["b"]]), {"ok": rec["ok"], "var": {k: var[k] for k in var if k != "b"}})
        if good:
            self.bump("agree_respacing")
            rep.count("traces_validated_against_impl")

    def run_family(self, family, cases, spans=False, noast=False, timeout=900, mode="full"):
        """replay cases on the real code, validate with TLC, classify; returns (light records, verdicts)"""
        t0, c0 = time.time(), sum(os.times()[:4])
        try:
            return self._run_family(family, cases, spans, noast, timeout, mode)
        finally:
            vc.log("  %-15s %7d cases  wall %6.1fs  cpu %6.1fs" % (family, len(cases), time.time() - t0, sum(os.times()[:4]) - c0))

    def _run_family(self, family, cases, spans, noast, timeout, mode):
        recs, verdicts = [], []
        chunk = 150000
        for lo in range(0, len(cases), chunk):
            part = cases[lo:lo + chunk]
            for i, c in enumerate(part):
                c["id"] = lo + i
            lines, lrecs = harness(self.work, self.vh, part, family, noast=noast)
            vs, stats = validate_lines(self.work, lines, family, spans=spans, timeout=timeout, mode=mode)
            self.rep.add_tlc(stats)
            del lines
            for rec, v in zip(lrecs, vs):
                self.classify(rec, v, family)
                if spans:
                    recs.append(rec)
                    verdicts.append(v)
        fam = self.rep.cov.setdefault("families", {})
        fam[family] = fam.get(family, 0) + len(cases)
        return recs, verdicts

    def settle(self):
        """reproduce every disagreement on a second execution, then report"""
        if not self.pending:
            return
        cases = []
        for i, (kind, what, case, actual, expected) in enumerate(self.pending):
            c = {"id": i, "srcB": case["srcB"]}
            if case.get("tn"):
                c["tn"] = True
            if case.get("vars"):
                c["vars"] = case["vars"]
            cases.append(c)
        _, again_recs = harness(self.work, self.vh, cases, "again", noast=True)
        for (kind, what, case, actual, expected), rec2 in zip(self.pending, again_recs):
            again = {"ok": rec2.get("ok"), "printed": rec2.get("printed"), "panic": rec2.get("panic"),
                     "rt": {k: x for k, x in rec2.get("rt", {}).items() if k != "ast2"}, "tn": rec2.get("tn"),
                     "vars": [{k: x for k, x in var.items() if k != "b"} for var in rec2.get("vars", [])]}
            stable = True
            if "panic" in actual:
                stable = rec2.get("panic") == actual["panic"]
            if "ok" in actual:
                stable = stable and rec2.get("ok") == actual["ok"]
            if "printed" in actual:
                stable = stable and rec2.get("printed") == actual["printed"]
            if not stable:
                what = "non-deterministic: " + what
            self.rep.violation(what, {"family": case.get("family"), "kind": kind, "case": {k: x for k, x in case.items() if k != "family"},
                                      "source": src_text(case["srcB"]), "actual": actual, "expected": expected, "second_execution": again})
        self.pending = []


def corpus(work, vh):
    """queries of cli/test.yaml, builtin.jq (whole and per definition), the module files of cli/testdata"""
    out = work.path("corpus.ndjson")
    vc.sh([vh, "corpus", "-in", os.path.join(vc.REPO, "cli", "test.yaml"), "-out", out])
    srcs = []
    for t in vc.read_ndjson(out):
        for a in t.get("args") or []:
            if isinstance(a, str) and not (a.startswith("-") and len(a) > 1 and not a[1:2].isdigit() and " " not in a):
                srcs.append(a)
    os.remove(out)
    bj = open(os.path.join(vc.REPO, "builtin.jq")).read()
    srcs.append(bj)
    cur = []
    for line in bj.splitlines():
        if line.startswith("def ") and cur:
            srcs.append("\n".join(cur))
            cur = []
        cur.append(line)
    if cur:
        srcs.append("\n".join(cur))
    for root in (os.path.join(vc.REPO, "cli", "testdata"), vc.SPEC):
        for dp, _, fns in os.walk(root):
            for fn in sorted(fns):
                if fn.endswith(".jq"):
                    try:
                        srcs.append(open(os.path.join(dp, fn)).read())
                    except Exception:
                        pass
    seen, uniq = set(), []
    for s in srcs:
        if s not in seen:
            seen.add(s)
            uniq.append(s)
    return uniq


NUM_ALPHABET = "019.eE+-a_"

REGRESSION = ['import "" as a; .', 'import "" as $a {x: 1}; include ""; .', 'import "" as a; . .[0]', ". .[0]", ". . [ .a ]", ".a | . .[1:2]",
              ". .[1:2]", ". .[0]?", ". .[0].a[1]", ". .a", '. ."a"', '. . "a"', ". .[]", ".[]", ".[0]", "..[0]", ".. .[0]", "..[]", ". .[:1]",
              "-. .[0]", "[. .[0]]", '"\\(. .[0])"', "1.[0]", ". .[. .[0]]"]
# a number literal ending in every digit, then a dotted suffix: the printer must keep the separating space (seeded C09_10)
REGRESSION += [w % (n + sfx) for n in [str(d) for d in range(10)] + ["1%d" % d for d in range(10)] + ["1.%d" % d for d in range(10)] + ["2e%d" % d for d in (0, 8, 9)]
               for sfx in (" .x", ' ."x"', " .x.y", " .x?", ' ."x"?') for w in ("%s", "[.[] | %s]", "try (%s) catch .")]


def run(tier, seed, replay):
    rep = vc.Report(PROP, tier, seed)
    rep.assumptions += ["TLC evaluates Lexer.tla / Grammar.tla correctly",
                        "AST equality in the harness is reflect.DeepEqual; the AST crosses the boundary by a generic reflection encoder",
                        "the program text ends at the first NUL byte outside a string literal (as the code does; jq reads C strings)"]
    vh, _ = vc.build()
    work = vc.Work(PROP)
    quick = tier == "quick"
    try:
        ck = Checker(rep, work, vh)
        if replay:
            rec = json.load(open(replay))
            c = dict(rec["case"])
            ck.run_family("replay", [c], mode="vars" if c.get("vars") else "full")
            ck.settle()
            vc.log("replay:", ck.c)
            return rep.finish(min_decided=0)
        r = random.Random(seed)

        # ---- 0. design-level model checking (in the background, on few workers each: the runs are small)
        pool = cf.ThreadPoolExecutor(max_workers=8)
        mc = []
        numlen = 5 if quick else 6
        mc.append(("LexerNumMC MaxLen=%d" % numlen, pool.submit(
            model_check, work, "LexerNumMC.tla",
            "SPECIFICATION Spec\nCONSTANTS\n  MaxLen = %d\nINVARIANTS DfaIsScanner ScannerIsRegex TonumberIsRegex PrefixToken\nCHECK_DEADLOCK FALSE\n" % numlen,
            "num", 2 if quick else 4, 300 if quick else 1200)))

        # negative controls of the model: with a deviation of the printer switched on TLC must find the counterexample
        negs = [("GrammarMC negative control dotBracket", pool.submit(
            model_check, work, "GrammarMC.tla",
            "SPECIFICATION Spec\nCONSTANTS\n  Profile = \"terms\"\n  MaxLen = 5\nINVARIANTS NegDotBracket\nCHECK_DEADLOCK FALSE\n", "neg1", 2, 600))]
        if not quick:
            negs.append(("GrammarMC negative control emptyImport", pool.submit(
                model_check, work, "GrammarMC.tla",
                "SPECIFICATION Spec\nCONSTANTS\n  Profile = \"modules\"\n  MaxLen = 5\nINVARIANTS NegEmptyImport\nCHECK_DEADLOCK FALSE\n", "neg2", 2, 1200)))

        # ---- 1. TLC-enumerated cases
        out = work.path("genops.ndjson")
        out2 = work.path("alphabets.ndjson")
        res = vc.tlc(work.dir, "GenOps.tla", "GenOps.cfg", env={"VERIF_OUT": out, "VERIF_OUT2": out2}, timeout=300, extra=["-seed", str(seed), "-noGenerateSpecTE"])
        if not res.ok() or not os.path.exists(out):
            raise vc.ToolError("generator GenOps failed:\n" + vc.tlc_error_text(res))
        rep.add_tlc(res)
        ops = vc.read_ndjson(out)
        alphabets = vc.read_ndjson(out2)
        os.remove(out)
        os.remove(out2)

        profiles = [a["profile"] for a in alphabets]
        pieces = {"strings", "comments", "lexemes"}        # alphabets of token pieces (C09Universe!PieceProfiles)
        tokprofiles = [p for p in profiles if p not in pieces]
        if quick:
            mclens = {p: 3 for p in tokprofiles}
            mclens[tokprofiles[(seed - 1) % len(tokprofiles)]] = 4
            mclens.update({"strings": 4, "comments": 5, "lexemes": 4})
        else:
            mclens = {p: 4 for p in tokprofiles}
            mclens["terms"] = 5
            mclens[tokprofiles[1 + (seed - 1) % (len(tokprofiles) - 1)]] = 5
            mclens.update({"strings": 5, "comments": 6, "lexemes": 5})
        for p in profiles:
            mc.append(("GrammarMC %s MaxLen=%d" % (p, mclens[p]), pool.submit(
                model_check, work, "GrammarMC.tla",
                "SPECIFICATION Spec\nCONSTANTS\n  Profile = \"%s\"\n  MaxLen = %d\nINVARIANTS AllInvariants\nCHECK_DEADLOCK FALSE\n" % (p, mclens[p]),
                "g" + p, 2 if mclens[p] <= 4 else 4, 300 if quick else 2400)))

        if quick:
            style = (seed - 1) % 4
            npair, ntri = 4 * 576, 4 * 13824
            sel = ops[:npair] + ops[npair + style * 13824: npair + (style + 1) * 13824] + ops[npair + ntri:]
            rep.cov["exhaustive_ops"] = "all pairs (4 atom styles), all triples of atom style %d, all operator pairs around 24 constructs" % (style + 1)
        else:
            sel = ops
            rep.cov["exhaustive_ops"] = "all pairs and triples in 4 atom styles, all operator pairs around 24 constructs"
        rep.cov["tlc_enumerated_operator_texts"] = len(sel)
        recs_ops, ver_ops = ck.run_family("operators", [{"src": o["src"], "tag": o["tag"]} for o in sel], spans=True)

        # ---- regression witnesses of the two printer defects repaired in /repo (F-C09-empty-import-path,
        #      F-C09-identity-bracket-suffix) and their neighbours: they must agree and round-trip now
        ck.run_family("regression", [{"src": x, "tag": "regression"} for x in REGRESSION])

        # ---- 2. every token sequence over the alphabets of C09Universe, blank-separated and glued
        seqlen = 3 if quick else 4
        piecelen = {"strings": 4, "comments": 4, "lexemes": 4} if quick else {"strings": 5, "comments": 5, "lexemes": 4}
        cases = []
        for a in alphabets:
            alpha = [bytes(t) for t in a["alphabet"]]
            piece = a["profile"] in pieces
            for n in range(1, (piecelen[a["profile"]] if piece else seqlen) + 1):
                for ts in itertools.product(alpha, repeat=n):
                    if not piece:
                        cases.append({"srcB": list(b" ".join(ts)), "tag": "tokseq"})
                    if n > 1 or piece:
                        cases.append({"srcB": list(b"".join(ts)), "tag": "tokseq"})
        rep.cov["token_sequences"] = ("every sequence of <= %d tokens over %d token alphabets (16-18 tokens), blank-separated and glued; every glued sequence of "
                                      "<= %s pieces over the 3 alphabets of token pieces: %d texts" % (seqlen, len(tokprofiles), "/".join("%d (%s)" % (piecelen[k], k) for k in sorted(piecelen)), len(cases)))
        ck.run_family("tokseq", cases)

        # ---- 3. every number-ish string (Parse and tonumber)
        nl = 4 if quick else 5
        cases = [{"src": "".join(t), "tn": True, "tag": "num"} for n in range(1, nl + 1) for t in itertools.product(NUM_ALPHABET, repeat=n)]
        rep.cov["number_strings"] = "every string of <= %d characters over {%s}: %d, each through Parse and tonumber" % (nl, NUM_ALPHABET, len(cases))
        ck.run_family("numbers", cases)
        rep.cov["exhaustive"] = True

        # ---- 4. seeded random programs of the full surface grammar, and byte mutations of them
        g = Gen(r)
        nrand = 2500 if quick else 40000
        progs = []
        for _ in range(nrand):
            progs.append(g.join(g.program(r.choice([1, 2, 2, 3, 3, 4]))).encode("utf-8"))
        cases = [{"srcB": list(p), "tag": "random"} for p in progs]
        recs_rand, ver_rand = ck.run_family("random", cases, spans=True)
        muts = [mutate(r, r.choice(progs)) for _ in range(nrand)]
        ck.run_family("mutants", [{"srcB": list(m), "tag": "mutant"} for m in muts])

        # ---- 5. the corpus
        cor = corpus(work, vh)
        if quick:
            cor = [s for s in cor if len(s) <= 4000]      # builtin.jq as ONE text (15 s of TLC) only in the thorough tier; its definitions stay
        rep.cov["corpus_texts"] = len(cor)
        recs_cor, ver_cor = ck.run_family("corpus", [{"srcB": list(s.encode("utf-8")), "tag": "corpus"} for s in cor], spans=True)
        cmuts = [mutate(r, r.choice(cor).encode("utf-8")) for _ in range(600 if quick else 6000)]
        ck.run_family("corpus_mutants", [{"srcB": list(m), "tag": "mutant"} for m in cmuts])

        # ---- 6. re-spacings (token extents from the specification) of accepted and rejected texts
        cases = []
        pools = [(recs_rand, ver_rand, 0.5 if quick else 1.0), (recs_cor, ver_cor, 1.0), (recs_ops, ver_ops, 0.03 if quick else 0.2)]
        for recs, vers, frac in pools:
            for rec, v in zip(recs, vers):
                if "spans" not in v or not v["spans"] or "srcB" not in rec or len(rec["srcB"]) > (2000 if quick else 6000):
                    continue
                if frac < 1.0 and r.random() > frac:
                    continue
                src = bytes(rec["srcB"])
                vs = respacings(r, src, v["spans"], n_loose=1 if quick else 2)
                cases.append({"srcB": rec["srcB"], "vars": [list(x) for x in vs], "tag": "respace"})
        ck.run_family("respacing", cases, noast=True, mode="vars")

        # ---- design-level runs: collect
        for name, fu in mc:
            res = fu.result()
            rep.add_tlc(res)
            rep.cov.setdefault("model_checking", []).append({"run": name, "distinct_states": res.distinct, "states_generated": res.generated, "wall_s": round(res.wall, 1)})
            if res.timeout:
                rep.notes.append("model checking run %s hit its time limit after %d states (counted, no verdict)" % (name, res.distinct))
            elif not res.ok():
                raise vc.ToolError("SPEC: model checking run %s failed (a property of the SPECIFICATION, not of the code):\n%s" % (name, vc.tlc_error_text(res)))
        for name, fu in negs:
            res = fu.result()
            rep.add_tlc(res)
            found = "is violated" in res.out
            rep.cov.setdefault("model_checking", []).append({"run": name, "distinct_states": res.distinct, "counterexample_found": found, "wall_s": round(res.wall, 1)})
            if not found and not res.timeout:
                raise vc.ToolError("SPEC: %s did not find its counterexample (the model lost its sensitivity):\n%s" % (name, vc.tlc_error_text(res)))
        pool.shutdown()

        ck.settle()
        rep.cov["verdicts"] = ck.c
        rep.cov["rule"] = ("texts: TLC-enumerated operator pairs/triples/contexts, all token sequences and number strings up to the stated length, "
                           "seeded random programs of the full surface grammar + byte mutants, corpus (cli/test.yaml queries, builtin.jq whole and per "
                           "definition, module files) + mutants, re-spacings; a text is validated when TLC's tokens/tree/print/round-trip/tonumber verdict "
                           "computed from its bytes equals what the real Parse/String()/tonumber did; non-trivial = accepted text, distinct by bytes")
        if ck.drift:
            rep.notes.append("SPEC-DRIFT: " + "; ".join(ck.drift))
            rc = rep.finish()
            for d in ck.drift:
                print("SPEC-DRIFT: property=%s %s" % (PROP, d), flush=True)
            return rc if rc == 1 else 2
        return rep.finish()
    finally:
        work.cleanup()
