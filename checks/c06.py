"""C06 - a compiled query can be run from many goroutines at once.

Design level: ConcRuns.tla - G goroutines x a run as a sequence of native steps with their read/write sets over
{constants, shared or private input, own allocations, the regexp cache with split load/compile/store}; TLC explores every
interleaving (G = 3): NoRace, NoForeignWrite, CacheSound, termination.  With the pre-repair switch SweepWritesShared the
model violates NoForeignWrite (defect D7, repaired) - the negative control.
Real code: the harness is built with -race; each program (corpus, update/delete-heavy, regex-heavy with cold and warm cache,
programs whose literals are nested containers) is run from G in {2, 8, 32} goroutines released by a barrier, on distinct
inputs and on ONE shared input, R repetitions, GOMAXPROCS varied.  Observables: a race-detector report, `fatal error:
concurrent map ...`, a goroutine whose outputs differ from the solo run, a deadlock (watchdog).
The sensor for memory accesses is Go's race detector: TLA+ cannot observe a Go memory access; it predicts which step
kinds may touch shared objects and supplies the histories to run.  Schedules are those the Go scheduler produces.
"""
import json
import os
import random
import re

import evalfam
import jqgen
import vcheck as vc

PROP = "C06"

REGEX = ['test("a+")', 'match("(?<x>a)(b)?"; "g") | .captures | length', '[scan("[a-z]")] | length', 'gsub("a"; "b")', 'sub("(?<l>[a-z])"; "\\(.l)!")', 'split("a+"; null)', '[splits("b")]',
         'try test("a(b"; "g") catch "bad"', '[., .] | .[] | try test("(") catch "bad"', 'try [match("[a"; "g")] catch "bad"', 'try sub("(?<x"; "y") catch "bad"', 'try [scan("a**")] catch "bad"', 'try test("a"; "xyz") catch "bad"',
         'capture("(?<k>[a-z]+)")', 'test("A"; "i")', '[match("";"g")] | length', 'ascii_downcase | test("ab")', '(tostring | test("1")), (tojson | test("a"))']
LITERALS = ['[1, [2, {"a": [3]}]] as $c | $c[1].a + [.]', '{"k": {"l": [1, 2]}} | .k.l |= map(. + 1)', '[[1, 2], [3]] | add + [1] | sort', '{"a": [1]} * {"a": [2], "b": {}} | .b.c = 1',
            '[{"a": 1}, {"a": 0}] | sort_by(.a) | .[0].a = 5', '{"x": []} | .x += [1] | .x[0] += 1', '[3, 1, 2] | sort | .[0] = 9', '["a", "b"] | join(",") | ascii_upcase',
            '{"a": {"b": {"c": 1}}} | del(.a.b.c), (.a.b.c |= . + 1), [paths]', '[[0]] | .[0][0] |= 1 | . + [[2]] | flatten',
            '[0, 1, 2, 3] | .[1:3][0] |= . + 1', '[0, [1], 2] | .[1:][0][0] += 1, (.[:2] | .[1]) = 5', '{"a": [1, 2, 3]} | .a[0:2][1] |= . + 1 | .a[1:][0] |= . + 1']
SHAREDIN = ['del(.a.q)', 'del(.a.q, .b)', '.a.r |= map(. + 1)', '.. |= .', 'to_entries', '[paths]', 'del(..|.q?)', '.a |= del(.q)', 'delpaths([["a","q"],["b"]])', '.b.c = 1 | del(.a)', 'map_values(.)',
            '.a.r[0] = 9', 'with_entries(.value |= .)', '[.[]] | add?', 'tojson | fromjson', '[tostream] | fromstream(.[])', '.a.r | sort | reverse', '.a + .b', 'keys, length, (.a | keys)', 'walk(.)',
            '.a.r + [9]', '.a.r[:2] + [.a.r[0]]', '.a.r + .a.r | length', 'reduce .a.r[] as $x (.a.r[:1]; . + [$x])', '.a.r[1:] + [0] | length', '.a.r - [1] + [2]', '[.a.r, .b.q] | add', '.a.r[:1] | . + . + .',
            '.a.r |= . + [1]', '.a.r += [7]', '.a.r[:2] |= . + [5]', '[.a.r[:2][]] + .a.r[:1]', '.a.r | .[:2] as $p | $p + [4], $p + [5]',
            # slice followed by a deeper component: the replacement has the slice's length, the target is the shared input (seeded C06_10)
            '.a.r[0:2][0] |= . + 1', '.a.r[1:3][0] += 1', '(.a.r[:2] | .[1]) = 10', '.a.r[1:][1].q |= . + 1', '.a.r[:3][2].q = 7', '.b.q[0:1][0] |= . * 2', '(.a.r[0:2], .a.r[1:3]) |= map(.)', '.a.r[1:2][0] |= [.]']


def run(tier, seed, replay):
    rep = vc.Report(PROP, tier, seed)
    rep.assumptions += ["Go's race detector is the sensor for unsynchronised accesses (including same-value writes)", "schedules are those the Go scheduler produces under varied GOMAXPROCS, goroutine counts and Gosched perturbation"]
    vh, _ = vc.build()
    vhr, _ = vc.build(race=True)
    work = vc.Work(PROP)
    try:
        r = random.Random(seed)
        quick = tier == "quick"
        # --- design level
        res = vc.tlc(work.dir, "ConcRuns.tla", "ConcRuns.cfg", workers=8, timeout=900, xss="64m")
        rep.add_tlc(res)
        if not res.ok():
            raise vc.ToolError("ConcRuns does not hold:\n" + vc.tlc_error_text(res))
        neg = vc.tlc(work.dir, "ConcRuns.tla", "ConcRuns_prefix.cfg", workers=2, timeout=300, xss="64m")
        if "NoForeignWrite is violated" not in neg.out and "NoRace is violated" not in neg.out:
            raise vc.ToolError("negative control: ConcRuns with SweepWritesShared must violate NoForeignWrite / NoRace")
        rep.cov["design_states"] = res.distinct
        # --- real code under the race detector
        shared_input = jqgen.V({"a": {"q": 1, "r": [1, 2, {"q": 3}]}, "b": {"c": 3, "q": [4]}})
        inputs = [jqgen.V(x) for x in ("abcab", [1, [2, 3], {"a": 1}], {"a": [1, 2], "b": {"c": 3}}, 5, None, ["b", "a"])]
        if replay:
            c = json.load(open(replay))["case"]
            cases = [dict(c, id=0)]
        else:
            progs = [(s, jqgen.V("abcab")) for s in REGEX] + [(s, r.choice(inputs)) for s in LITERALS] + [(s, shared_input) for s in SHAREDIN]
            # objects / arrays merged into leading empty ones, mutable scalars (*big.Int) reachable from the shared input or from constants
            big = -(2 ** 72)
            sh2 = jqgen.V([{}, {"a": 1}, {"b": 2}, {"c": 3}, [], [1], big, {"n": big}])
            sh3 = jqgen.V({"ids": [1, 2, 3], "nums": [1, 2.5, True, "x", None], "strs": ["b", "a"], "objs": [{"a": 1}, {"a": 0}], "arrs": [[2], [1]]})
            progs += [(s, sh3) for s in (".ids | add, join(\",\")", ".nums | (map(type) | join(\" \")), join(\"-\")", "{\"ids\": [1, 2, 3]} | .ids | add, join(\",\")", "[1, 2.5, true, \"x\", null] | (map(type) | join(\" \")), join(\"-\")",
                                         ".strs | sort, ., join(\"\")", ".objs | sort_by(.a), min_by(.a), ., map(.a)", ".arrs | sort, flatten, add, .", ".nums | tojson, @csv, @sh, map(tostring), .", ".ids | reverse, ., (. - [1]), implode?",
                                         "[.ids, .strs] | transpose, add, flatten, .", ".ids | map(. + 1), ., unique, group_by(. % 2)", ".nums | @tsv, @json, @text, @html, .", ".objs | to_entries, map(keys), add, .", ".arrs | map(add), map(length), .")]
            progs += [(s, sh2) for s in ("[.[0:4][]] | add", ".[1]", "map(length?)", "[.[] | objects] | add | length", ".[0:4] | add", "[{}, .[1], .[2]] | add", "[.[4], .[5], .[5]] | add", ".[6] | abs", ".[7].n | abs, -(.)",
                                         "[.[6], .[7].n] | map(abs) | add", "[.. | numbers | abs] | length", "[{}, {a: 1}, {b: 2}] | (.[1] | length), (add | length)", "%d | abs, ." % big, "[.[] | objects] | add, add",
                                         "reduce (.[] | objects) as $o ({}; . + $o)", ".[6] | ., abs, (. - 1 | abs)", "[.[6], .[6]] | unique | map(abs)")]
            cor = evalfam.corpus_cases(work, vh)
            for c in r.sample(cor, 60 if quick else len(cor)):
                progs.append((c["src"], c["inputs"][0]))
            for _ in range(40 if quick else 800):
                progs.append((jqgen.c05_program(r).replace("$v0", "[1]").replace("$v1", "{}"), r.choice(inputs + [shared_input])))
            cases = []
            for src, inp in progs:
                for g, shared in ((8, True), (2, False)) if quick else ((2, True), (8, True), (32, True), (8, False), (32, False)):
                    # aliasing mode of the input object (harness buildInput): arrays with spare capacity are what a JSON decoder produces
                    mode = r.choice(["plain", "spare", "spare"]) if shared else "plain"
                    cases.append({"id": len(cases), "src": src, "input": inp, "mode": mode, "g": g, "shared": shared, "reps": 3 if quick else 6,
                                  "gomaxprocs": r.choice([2, 4, 8, 16]), "parsedonly": r.randrange(5) == 0})
        vc.write_ndjson(work.path("race.cases"), cases)
        env = dict(os.environ, GORACE="halt_on_error=0 exitcode=0 history_size=2")
        p = vc.sh([vhr, "race", "-in", work.path("race.cases"), "-out", work.path("race.out")], env=env, timeout=3400, check=False)
        results = {x["id"]: x for x in vc.read_ndjson(work.path("race.out"))} if os.path.exists(work.path("race.out")) else {}
        # attribute the runtime's reports to cases through the markers
        seg, cur = {}, None
        for line in p.stderr.splitlines():
            m = re.match(r"VH-CASE (\d+)", line)
            if m:
                cur = int(m.group(1))
                continue
            if cur is not None:
                seg.setdefault(cur, []).append(line)
        if p.returncode != 0 and "fatal error" not in p.stderr:
            raise vc.ToolError("race harness failed (%d): %s" % (p.returncode, p.stderr[-2000:]))
        for c in cases:
            rep.count("evaluations")
            res_ = results.get(c["id"])
            text = "\n".join(seg.get(c["id"], []))
            what = None
            if "WARNING: DATA RACE" in text:
                funcs = re.findall(r"gojq\.\(?\*?\w*\)?\.?(\w+)\(\)", text)[:4]
                what = "DATA RACE (%s)" % ", ".join(dict.fromkeys(funcs))
            elif "fatal error" in text:
                what = [l for l in text.splitlines() if "fatal error" in l][0]
            elif res_ is None:
                rep.count("out_of_model")
                continue
            elif res_.get("solo") == ["BUDGET"] or (res_.get("deadlock") and res_.get("budget")):
                # a budget of the harness (wall clock, process heap) ended runs of this case: no verdict
                rep.count("out_of_model")
                continue
            elif res_.get("deadlock"):
                what = "deadlock (goroutines did not finish within the watchdog)"
            elif res_.get("diverged"):
                what = "%d of %d concurrent runs differ from the solo run (%s vs %s)" % (res_["diverged"], res_["runs"], res_.get("first_diverged"), res_.get("solo"))
            elif "perr" in res_ or "cerr" in res_:
                rep.count("out_of_model")
                continue
            if what:
                rep.violation("%s: %r from %d goroutines on %s input%s" % (what, c["src"], c["g"], "one shared" if c["shared"] else "distinct", " (Query.Run)" if c.get("parsedonly") else ""),
                              {"family": "race", "case": c, "actual": {"report": text[:3000], "result": res_}})
            else:
                rep.count("traces_validated_against_impl")
                rep.nontrivial([c["src"], c["g"], c["shared"]])
                rep.sample({"query": c["src"], "goroutines": c["g"], "shared_input": c["shared"], "concurrent_runs": res_["runs"], "solo_outputs": len(res_["solo"] or [])})
        rep.cov["rule"] = ("programs: regex-heavy (cold/warm cache), nested-literal constants, update/delete on a shared input, corpus, generated update programs; x goroutine counts x shared/distinct input x repetitions "
                           "under the race detector; non-trivial = a configuration whose runs all matched the solo run without any runtime report")
        return rep.finish()
    finally:
        work.cleanup()
