"""C03 - every builtin computes its documented function on all argument types.

* Natives are specified in Builtins.tla/Text.tla; jq-defined builtins are NOT re-specified: their builtin.jq text is parsed by the
  real parser at check time and evaluated by JqSem.tla, while the real run uses what is compiled into builtin.go - so "builtin.go is in
  sync with builtin.jq" is decided by the comparison (plus a direct structural comparison of the two ASTs).
* Cells: for every name/arity of the real `builtins` plus the operators, (input, arg1, arg2, arg3) tuples over a ~60-value universe
  (every type, empty/singleton/nested containers, negative/fractional/huge numbers, NaN/inf, multi-byte strings; invalid UTF-8 on the
  Go side only): real result vs the specification (TLC), never a panic, never a non-JSON Go type.
* Representation independence: the same cell with numbers as int, *big.Int, json.Number, float64: identical results.
* Math/time values are Go library primitives: only typing, error class and representation independence are decided.
"""
import json
import random

import evalfam
import jqgen
import vcheck as vc

PROP = "C03"

UNIVERSE = [
    None, False, True, 0, 1, -1, 2, 3, 10, -7, 100, 0.5, -0.5, 1.5, 2.25, 2 ** 31, 2 ** 53, 2 ** 53 + 1, 2 ** 63, -(2 ** 63), 2 ** 64 + 1, 10 ** 30, float("nan"), float("inf"), float("-inf"),
    "\u0080", "\u007f\u0080\u07ff\u0800\uffff\U00010000\U0010ffff", "", "a", "b", "ab", "abc", "a,b", "A", " a ", "1", "10", "-1.5", "1e2", "0x1", "nan", "true", "null", "[1]", "{\"a\":1}", "é", "日本語", "\u0000", "a\nb", "\U0001F600", "%41", "YQ==",
    [], [None], [1], [1, 2], [2, 1, 3], [1, [2]], [[1, 2], [3, 4]], ["a", "b"], ["a", 1, None], [[]], [{}], [0.5, 1], [1, 1, 2], [[1], [1]], ["b", "a"], [{"a": 1}, {"a": 2}], [[1, "a"]],
    ["a", [1], "b"], [[], "x"], ["a", {}, "b", "c"], list(range(20, 0, -1)), [{"k": i % 3, "i": i} for i in range(16)], [1, 2 ** 64 + 1, "a"], [2 ** 64 + 1, -(2 ** 70)], [0.5, 2 ** 70, None], ["a", 10 ** 20, True],
    {}, {"a": 1}, {"a": 1, "b": 2}, {"b": 2, "a": {"c": 3}}, {"a": [1, 2]}, {"a": None}, {"key": "k", "value": 1}, {"a": {"a": {"a": 1}}}, {"": 0}, {"start": 1, "end": 2},
]
SUB = [None, True, 0, 1, -1, 1.5, 2 ** 64 + 1, "a", "ab", "", [], [1, 2], ["a"], {"a": 1}, {}, list(range(14, 0, -1)), [1, 2 ** 64 + 1, "a"]]
BYTES = [{"t": "bytes", "b": [255]}, {"t": "bytes", "b": [97, 192, 128, 98]}, {"t": "arr", "a": [{"t": "bytes", "b": [237, 160, 128]}]}]
OPERATORS = ["+", "-", "*", "/", "%", "==", "!=", "<", "<=", ">", ">=", "and", "or", "//"]
SKIP = {"input", "inputs", "debug", "stderr", "input_filename", "halt", "halt_error", "now", "localtime", "strflocaltime", "env", "builtins", "modulemeta",
        "get_search_list", "input_line_number", "$__loc__"}
# loops that never end on constant arguments are cut by the budget; these mostly do and only waste it
SLOW = {"repeat", "range", "until", "while", "recurse", "limit", "combinations", "walk"}


# targeted cells for the text codecs of Formats.tla: (input, arguments) pools per family
TEXTS = ["[1]]", "1]", "{\"a\":[1]}}", "null}", "[1],", "[1] ]", "1 }", "\"a\"]", "[[1]]]", "{}}", "true]", "[1]:", "{\"a\":1},", "", "a b+c%2F~-_.", "%zz", "%", "%4", "%41%C3%A9", "%ff", "a+b", "YQ==", "YWI", "YWJj\n", "Y", "YQ", "!!", "YW=Jj", "w6k=", "/+8=", "<a href='x'>&\"", "a\tb\\c\r\n", "it's", "\u0000x", "日本 語", "é",
         "{\"a\":[1,2.5,\"x\\u00e9\\ud83d\\ude00\"],\"b\":null}", "[1,]", "01", "1e2", " [ ] ", "\"\\ud800\"", "\"\\ud800\\u0041\"", "nul", "{\"a\":1,\"a\":2}", "[1] x", "-", "1.", "-0", "[1,[2,{\"k\":[]}]]", "\"a\nb\"",
         "\"\\q\"", "{\"a\" 1}", "{a:1}", "tru", "true ", "1E3", "0.25", "123456789012345678901234567890", "[\"\\u00zz\"]", "\t\n 7 \r", "abcabca", "aaa", "a,b,,c", "AbaB"]
EPOCHS = [-1.5, -0.5, -86400.25, -0.25, 1.5, 0.5, -1, -86401, 86399.75, 1425599621, -62135596800, 253402300799, 1e12, -2.5e9, [1970, 0, 1, 0, 0, -1.5], [2015, 2, 5, 23, 51, 47.5, 4, 63], [2024, 13, 32, 25, 61, 61], [2020],
          [1969, 11, 31, 23, 59, 59.5], [2000, 1, 29], [1900, 1, 29, 0, 0, 0], ["a"], [2015, "x"], [], [1e3, 0, 1], [1.5, 0.5, 1.5, 0, 0, 0]]
TIMEFMTS = ["%Y-%m-%dT%H:%M:%SZ", "%A, %B %d, %Y", "%a %b %e %H:%M:%S %Z %Y", "%j %u %w %y %I %p %%", "%F %T %D %R %z", "%s", "%", "%q", "%-d", "plain é", "", 1, None]
ISOTEXTS = ["2015-03-05T23:51:47Z", "1969-12-31T23:59:59Z", "0001-01-01T00:00:01Z", "9999-12-31T23:59:59Z", "2016-02-29T00:00:00Z", "2015-02-29T00:00:00Z", "2015-13-01T00:00:00Z", "2015-03-05 23:51:47", "2015-03-05T23:51:47+09:00", "x", "", 5]
ROWS = [[float("nan"), 1], ["a", 1, None, True], ["x\"y", "p\tq", 1.5], [None, None], ["it's", "\u0000"], [[1]], [{"a": 1}, "z"], ["a", 2 ** 64 + 1, -0.5], "plain", 5, None, {"a": 1}, [False, "é日", ""]]
RES = ["a", "", "ab", ",", "é", "b", "abc", "A", "a,b", " ", "a.c", "a+", "(a)", "[ab]", "^a", "\\d"]
FLAGS = [None, "g", "", "gi", "i", "m", "x", "gx", "ig", 1]
TEXT_NATIVES = {"@html", "@uri", "@urid", "@base64", "@base64d", "@text", "@json", "fromjson", "ascii_downcase", "ltrimstr", "tojson", "tostring", "tonumber", "utf8bytelength", "explode", "trim", "ltrim", "rtrim"}
ROW_NATIVES = {"@csv", "@tsv", "@sh"}
RE_NATIVES = {"test", "match", "capture", "scan", "splits", "split", "sub", "gsub"}


def small_numbers(v):
    t = v.get("t")
    if t == "num":
        return abs(v["n"]) < 2 ** 20
    if t in ("big", "float"):
        return False
    if t == "arr":
        return all(small_numbers(x) for x in v["a"])
    if t == "obj":
        return all(small_numbers(x[1]) for x in v["o"])
    return True


def call(name, ar):
    vs = ["$a", "$b", "$c"][:ar]
    return name + ("(" + "; ".join(vs) + ")" if ar else "")


def run(tier, seed, replay):
    rep = vc.Report(PROP, tier, seed)
    rep.assumptions += ["values of the math and time-format builtins are Go library primitives (typing, error class and representation independence only)",
                        "message text of native errors is not compared"]
    vh, gojq = vc.build()
    work = vc.Work(PROP)
    try:
        prelude = evalfam.make_prelude(work, vh)
        if replay:
            evalfam.replay_file(rep, work, vh, prelude, replay)
            return rep.finish(min_decided=0)
        r = random.Random(seed)
        quick = tier == "quick"
        names = json.loads(vc.sh([gojq, "-nc", "builtins"]).stdout)
        blt = sorted((n.rsplit("/", 1)[0], int(n.rsplit("/", 1)[1])) for n in names)
        rep.cov["builtins"] = len(blt)
        # builtin.go in sync with builtin.jq, structurally
        sync = json.loads(vc.sh([vh, "builtinsync"]).stdout)
        rep.count("evaluations", sync["defs"])
        if sync["diff"]:
            rep.violation("builtin.go is out of sync with builtin.jq: %s" % sync["diff"][:5], {"family": "sync", "case": {"diff": sync["diff"][:20]}})
        else:
            rep.count("traces_validated_against_impl", sync["defs"])
        uni = [jqgen.V(x) for x in UNIVERSE]
        sub = [jqgen.V(x) for x in SUB]
        cases = []

        def tuples(ar, n):
            pool = uni if ar <= 1 else sub
            out = []
            for _ in range(n):
                t = [r.choice(pool) for _ in range(ar + 1)]
                out.append({"t": "arr", "a": t})
            return out

        per = (14 if quick else 400)
        for name, ar in blt:
            if name in SKIP:
                continue
            n = per if name not in SLOW else max(3, per // 5)
            full = not quick and ar == 0
            ins = [{"t": "arr", "a": [x]} for x in uni] if full else tuples(ar, n)
            if name in ("sort", "sort_by", "group_by", "unique", "unique_by", "min_by", "max_by", "join", "add", "flatten", "transpose", "reverse", "tojson", "implode", "to_entries", "bsearch"):
                # boundary cells that are always included: long arrays (stability needs > 12 tied elements), integers beyond 64 bits
                for big in (list(range(20, 0, -1)), [{"k": i % 3, "i": i} for i in range(16)], [1, 2 ** 64 + 1, "a"], [128, 55296, 1114112, -1]):
                    ins.append({"t": "arr", "a": [jqgen.V(big)] + [r.choice(sub) for _ in range(ar)]})
                    ins.append({"t": "arr", "a": [jqgen.V(big)] + [jqgen.V(x) for x in (["-", None, 0] if name == "join" else [0, None, "k"])][:ar]})
            if name in TEXT_NATIVES and ar == 0:
                ins += [{"t": "arr", "a": [jqgen.V(t)]} for t in (TEXTS if not quick else TEXTS[:13] + r.sample(TEXTS[13:], 20))]
            if name in ("gmtime", "mktime", "todate", "todateiso8601", "dateadd", "datesub", "date", "strftime", "localtime", "strflocaltime"):
                for e in EPOCHS:
                    ins.append({"t": "arr", "a": [jqgen.V(e)] + [jqgen.V(r.choice(TIMEFMTS)) for _ in range(ar)]})
            if name in ("strftime",):
                for f in TIMEFMTS:
                    ins.append({"t": "arr", "a": [jqgen.V(r.choice(EPOCHS)), jqgen.V(f)]})
            if name in ("fromdate", "fromdateiso8601", "strptime", "dateadd"):
                for t in ISOTEXTS:
                    ins.append({"t": "arr", "a": [jqgen.V(t)] + [jqgen.V(r.choice(["%Y-%m-%dT%H:%M:%S%z", "%Y-%m-%dT%H:%M:%S%z", "%F", 1]))for _ in range(ar)]})
            if name in RE_NATIVES:
                k = 30 if quick else 400
                for _ in range(k):
                    tup = [r.choice(TEXTS + ["abcabca", "aaa", "a,b,,c", "AbaB", "ééa"]), r.choice(RES)]
                    if name in ("sub", "gsub"):
                        tup.append(r.choice(["X", "", "[\\(.)]" if False else "é", 1, None]))
                    tup += [r.choice(FLAGS) for _ in range(ar + 1 - len(tup))]
                    ins.append({"t": "arr", "a": [jqgen.V(x) for x in tup[:ar + 1]]})
            src = ".[0] as $x | .[1] as $a | .[2] as $b | .[3] as $c | $x | " + call(name, ar)
            cases.append({"src": src, "inputs": ins, "name": name + "/%d" % ar})
        OPPAIRS = [({"a": {"b": 1}}, {"a": {"b": 2}}), ({"k": {"a": 1, "b": 2}}, {"k": {"a": 0, "c": 3}}), ({"a": {"b": {"c": 1, "d": 1}}}, {"a": {"b": {"c": 2}, "e": 5}}), ({"a": {"b": 1}}, {"a": 7}), ({"a": 7}, {"a": {"b": 1}}),
                   ({"a": {"b": 1}}, {"a": None}), ({"a": [1]}, {"a": [2]}), ({"a": {"x": {"y": {"z": 1}}}}, {"a": {"x": {"y": {"z": 2, "w": 3}}}}), ({}, {"a": {"b": 1}}), ({"a": 1, "b": 2}, {"b": 3, "c": 4}),
                   ([1, 2, 1, 3], [1]), ([[1], [2], [1]], [[1]]), ([1, 2], []), ("a,b,a", ","), ("abab", "ab"), ("", ","), ("abc", ""), ("ab", 3), (3, "ab"), ("ab", 0), ("ab", 0.5), ("ab", -1), ("ab", 1.5), (None, "a"), ("a", None),
                   (5, 0), (5, 0.5), (-5, 3), (5, -3), (-5, -3), (5.5, 2), (2 ** 64 + 1, 7), (7, 2 ** 64 + 1), (-(2 ** 63), -1), (1, float("nan")), (float("nan"), float("nan")), (float("inf"), 2), ([1, [2]], [1, [2]]),
                   ({"a": 1}, {"a": 1.0}), ([], {}), (False, None), (None, None), ("a", "A"), ([0], [False])]
        # the *_by family with keys that TIE without being constant (stability / first-last rules are only visible then)
        tied = [jqgen.V(x) for x in ([{"k": i % 3, "i": i} for i in range(16)], [{"k": i % 2, "i": i} for i in range(40)], [[i % 4, i] for i in range(30)], [{"k": [i % 2], "i": i} for i in range(20)], [{"k": None, "i": 2}, {"k": None, "i": 1}],
                                     [{"k": "a", "i": i} for i in range(14)] + [{"k": "A", "i": 99}])]
        for nm in ("sort_by", "group_by", "unique_by", "min_by", "max_by"):
            for key in (".k", ".[0]?", ".k?", "(.k | tostring)?", ".i % 2", "[.k, 0]?"):
                cases.append({"src": ".[0] | %s(%s)" % (nm, key), "inputs": [{"t": "arr", "a": [t]} for t in tied], "name": nm + ":" + key})
        for op in OPERATORS:
            ins = [{"t": "arr", "a": [a, b]} for a in uni for b in uni] if not quick else tuples(1, 120)
            ins += [{"t": "arr", "a": [jqgen.V(a), jqgen.V(b)]} for a, b in OPPAIRS]
            cases.append({"src": ".[0] %s .[1]" % op, "inputs": ins, "name": op})
        # doubles at and beyond the int64 boundary (every double >= 2^53 is an integer and travels with its exact value): the saturating
        # float -> int conversion behind `%`, indices, slice bounds, has, implode and path elements (func.go floatToInt / toInt)
        FA = jqgen.float_atoms(vh, ["9223372036854775808", "-9223372036854775808", "9223372036854774784", "-9223372036854774784", "18446744073709551616", "1e19", "-1e19", "9007199254740992", "1e300"])
        small = [jqgen.V(x) for x in (5, -3, 1, -1, 0, 0.5, 7, 1000)]
        modin = [{"t": "arr", "a": [a, b]} for a in FA for b in small + FA[:3]] + [{"t": "arr", "a": [b, a]} for a in FA for b in small]
        cases.append({"src": ".[0] % .[1]", "inputs": modin, "name": "%:bigdouble"})
        idxin = [{"t": "arr", "a": [jqgen.V(subj), a, b]} for subj in ([1, 2, 3], "abc", None) for a in FA[:5] + [jqgen.V(None), jqgen.V(1)] for b in FA[:3] + [jqgen.V(None), jqgen.V(2)]]
        for body in ("$s[$a:$b]", "$s[$a]", "$s | has($a)", "[$a] | implode", "$s | getpath([$a])", "$s | getpath([{start: $a, end: $b}])", "$s | setpath([$a]; 9)", "$s | delpaths([[$a]])", "$s | del(.[$a:$b])",
                     "$s | .[$a:$b] = [\"x\"]", "$s | flatten($a)", "$s | nth($a)", "$s | .[$a:$b] |= map(.)", "$s | try (.[$a] = 1) catch \"err\"", "$s | to_entries | .[$a:$b]", "[$s[$a:$b], $s[$b:$a]]"):
            cases.append({"src": ". as [$s, $a, $b] | " + body, "inputs": idxin if not quick else r.sample(idxin, 40), "name": "bigdouble:" + body})
        # several regular-expression builtins in ONE program: each call computes its own documented value whatever expressions and flags the
        # program compiled before (the jq definitions add "g" themselves: `a` used globally and `ag` used plainly are different expressions)
        J = lambda x: "null" if x is None else json.dumps(x)
        REPAIRS = [(("ag", None), ("a", "g")), (("lo", "g"), ("log", None)), (("g", "g"), ("gg", None)), (("a", ""), ("a", "g")), (("ab", None), ("a", None)), (("b", "g"), ("bg", "")), (("", "g"), ("g", None)), (("a", "gg"), ("ag", "g"))]
        REFNS = ["test(%s; %s)", "[match(%s; %s) | .offset]", "[scan(%s; %s)]", "[splits(%s; %s)]", "gsub(%s; \"-\"; %s)", "sub(%s; \"-\"; %s)", "[match(%s; %s) | .string]", "(split(%s; %s) | length)", "[capture(%s; %s)] | length"]
        RE1 = {"test(%s; %s)": "test(%s)", "[match(%s; %s) | .offset]": "[match(%s) | .offset]", "[scan(%s; %s)]": "[scan(%s)]", "[splits(%s; %s)]": "[splits(%s)]", "gsub(%s; \"-\"; %s)": "gsub(%s; \"-\")", "sub(%s; \"-\"; %s)": "sub(%s; \"-\")"}
        resubj = [{"t": "arr", "a": [jqgen.V(x)]} for x in ("xa", "xag ag", "hello log lo", "ggg", "abab", "bg b", "", "a")]
        for (p1, p2) in REPAIRS:
            for _ in range(3 if quick else 20):
                calls = []
                for (e, f) in (p1, p2, p1, p2):
                    fn = r.choice(REFNS)
                    calls.append(RE1[fn] % J(e) if f is None and fn in RE1 and r.randrange(2) else fn % (J(e), J(f)))
                cases.append({"src": ".[0] | [%s]" % ", ".join("try (%s) catch \"e\"" % c for c in calls), "inputs": resubj, "name": "regex-sequence"})
        for fmt in ["@text", "@json", "@html", "@uri", "@urid", "@csv", "@tsv", "@sh", "@base64", "@base64d"]:
            extra_in = [{"t": "arr", "a": [jqgen.V(t)]} for t in (ROWS if fmt in ROW_NATIVES else TEXTS)]
            cases.append({"src": ".[0] | " + fmt, "inputs": tuples(0, per) + (extra_in if not quick else r.sample(extra_in, min(len(extra_in), 24))), "name": fmt})
            cases.append({"src": ".[0] | format(\"%s\")" % fmt[1:], "inputs": tuples(0, 4) + r.sample(extra_in, min(len(extra_in), 6)), "name": "format:" + fmt})
            cases.append({"src": ".[0] | %s \"<\\(.)|\\(.[0]?)>\"" % fmt, "inputs": tuples(0, 4) + r.sample(extra_in, min(len(extra_in), 6)), "name": "interp:" + fmt})
        for extra in [".[0] | .[.[1]?]?" if False else ".[0][.[1]]", ".[0][.[1]:.[2]]", ".[0] | -.", ".[0] | .[]?", ".[0] | [..]", ".[0] | tojson | fromjson", ".[0] | tostring", ".[0] | ascii_downcase | ascii_upcase",
                      ".[0] | to_entries | from_entries", ".[0] | getpath([.[1]?])" if False else ".[0] | getpath([\"a\", 0])", ".[0] | paths", ".[0] | [leaf_paths]" if False else ".[0] | [paths(type == \"number\")]"]:
            cases.append({"src": extra, "inputs": tuples(2, per * 2), "name": extra})
        for i, c in enumerate(cases):
            c["id"] = i
        # split long input lists so that one slow cell does not starve a shard
        flat = []
        for c in cases:
            for k in range(0, len(c["inputs"]), 40):
                flat.append({"id": len(flat), "src": c["src"], "inputs": c["inputs"][k:k + 40], "name": c["name"]})
        counters = evalfam.check_cases(rep, work, vh, prelude, flat, timeout=1200 if quick else 3600, per_shard_min=12)
        rep.cov["verdicts"] = counters
        # --- representation independence + no panic on Go-only inputs (invalid UTF-8)
        # every builtin / operator / form (not a sample) with numbers in every position: equal scalars on both sides (path validity),
        # fractional and negative indices and slice bounds, integers beyond 64 bits, numbers inside containers
        NUMS = [0, 1, -1, 2, 1.5, -0.5, 2.5, 0.5, 3, 10, -7, 2 ** 31, 2 ** 53, 2 ** 64 + 1, [1, 2], [1, 2, 3], [0.5, 1], {"a": 1}, [[1, 2], [3]], [1, 1], "ab", None]
        numv = [jqgen.V(x) for x in NUMS]
        repcases = []
        for c in cases:
            k = 12 if quick else 80
            ins = [{"t": "arr", "a": [r.choice(numv) for _ in range(4)]} for _ in range(k)]
            ins += [{"t": "arr", "a": [x, x, x, x]} for x in r.sample(numv[:14], 3 if quick else 14)]      # the same number as input and as arguments
            ins += r.sample(c["inputs"], min(len(c["inputs"]), 4 if quick else 20))
            ins += [{"t": "arr", "a": [r.choice(BYTES + uni) for _ in range(4)]} for _ in range(3)]
            if ":" in c["src"] or c["name"] in ("limit/2", "nth/1", "nth/2", "first/1", "flatten/1", "getpath/1", "setpath/2", "delpaths/1", "del/1", "has/1", "range/1", "range/2", "range/3", "splits/1", "ltrimstr/1", "indices/1",
                                                 "index/1", "implode/0", "tojson/0", "tostring/0", "@text", "@json", "halt_error/1", "error/1", "skip/2", "pick/1", "to_entries/0", "bsearch/1"):
                # index-like arguments: every fractional / negative / huge bound against arrays and strings (rounding must not depend on the carrier)
                bounds = [None, 0, 1, -1, 0.5, 1.5, -1.5, 2.5, -0.5, 2 ** 64 + 1]
                for subj in ([1, 2, 3], "abc", [0.5, [1], "x", None]):
                    for a in bounds:
                        for b in (bounds if ":" in c["src"] else [None]):
                            ins.append({"t": "arr", "a": [jqgen.V(subj), jqgen.V(a), jqgen.V(b), jqgen.V(a)]})
            for rp in (0, 1, 2, 3):
                repcases.append({"id": len(repcases), "src": c["src"], "inputs": ins, "rep": rp, "group": c["id"]})
        recs = evalfam.replay(work, vh, repcases, tag="reps")
        groups = {}
        for c, rec in zip(repcases, recs):
            groups.setdefault(c["group"], []).append((c, rec))
        nrep = 0
        for g, lst in groups.items():
            base_c, base = lst[0]
            for c, rec in lst:
                for j, run_ in enumerate(rec.get("runs", [])):
                    rep.count("evaluations")
                    if run_.get("panic"):
                        rep.violation("panic: %s in %r on %s (numbers as %s)" % (run_["panic"], c["src"], evalfam.show(run_["in"]) if "bytes" not in json.dumps(run_["in"]) else run_["in"], c["rep"]),
                                      {"family": "eval", "case": {"src": c["src"], "input": run_["in"], "rep": c["rep"]}, "actual": run_})
                        continue
                    if any(x.get("t") == "other" for x in run_["out"]):
                        rep.violation("a non-JSON Go value was emitted by %r" % c["src"], {"family": "eval", "case": {"src": c["src"], "input": run_["in"], "rep": c["rep"]}, "actual": run_})
                    b = base["runs"][j]
                    if run_.get("long") or b.get("long"):
                        continue
                    if c["rep"] == 3 and not small_numbers(run_["in"]):
                        continue      # integers carried as float64 are interchangeable with int only while everything stays exact in doubles
                    eb, ec = b.get("err"), run_.get("err")
                    same = run_["out"] == b["out"] and (eb is None) == (ec is None) and (eb is None or (eb.get("k"), eb.get("c")) == (ec.get("k"), ec.get("c")) and (eb["v"].get("t") == "opaque" or eb["v"] == ec["v"]))
                    if not same:
                        rep.violation("the result depends on the Go representation of numbers: %r on %s: as native %s err=%s, as rep %d %s err=%s" % (
                            c["src"], evalfam.show(run_["in"]), [jqgen.unV(x) for x in b["out"]][:5], eb, c["rep"], [jqgen.unV(x) for x in run_["out"]][:5], ec),
                            {"family": "eval", "case": {"src": c["src"], "input": run_["in"], "rep": c["rep"]}, "actual": run_, "expected": b})
                    else:
                        nrep += 1
                        rep.count("traces_validated_against_impl")
        rep.cov["representation_cells_agreeing"] = nrep
        rep.cov["rule"] = ("for each builtin name/arity of `builtins` + operators + formats: tuples over a %d-value universe (arity<=1) / %d-value sub-universe (arity 2-3), "
                           "quick: %d sampled cells per builtin, thorough: 400 (all inputs for arity 0, all pairs for operators); x 4 Go number representations on a sample; "
                           "non-trivial = a cell with an output or an error") % (len(uni), len(sub), per)
        return rep.finish()
    finally:
        work.cleanup()
