"""C18 - modules behave as textual inclusion with namespacing.

spec           : spec/Modules.tla  (paths + sandbox file system + resolution; Link = the property;
                 MInit/MStep = compiler.go's scope surgery as a state machine with named deviation
                 switches; ModuleMeta), ModulesTrees.tla (bounded universes), ModulesMC.tla,
                 ModulesResolveMC.tla (model checking), ModulesGen.tla (generator), ModulesTrace.tla.
model checking : every tree of the universe: the machine with the switches off IS Link state by state;
                 with the switches of today's code the structural invariants hold and TLC produces the
                 D10 counterexample; every layout: lookupModule's loop finds the property's file.
model -> code  : TLC enumerates the trees and the layouts and tabulates, for every site and every
                 conceivable name, what the property and the code-level machine say; this file turns the
                 tables into probe programs (rich programs over the names both agree on; one extra
                 reference where they differ or where both hide the name), adds seeded random trees
                 (depth <= 3, diamonds, clashes, arities, data modules, decoy files, -L / default /
                 ~ / $ORIGIN / relative search lists, `search` metadata, -f programs, ~/.jq) and
                 modulemeta queries, materialises each in a sandbox and runs the REAL binary (and the
                 library API where the configuration does not depend on the process environment).
code -> model  : ModulesTrace.tla recomputes Spec(c) and Code(c, switches) for every record and gives the
                 verdict agree / deviation(switches) / mismatch / oom.
"""
import concurrent.futures as cf
import copy
import json
import os
import random
import re
import time

import vcheck as vc

PROP = "C18"

# deviation switch of the code-level machine -> finding id (reported only when open in known_findings.json)
SWITCH_FINDING = {
    "leakFuncs": "F-D10-module-scope-leak",
    "leakVars": "F-D10-module-scope-leak",
    "slotReuse": "F-D13-data-import-slot-reuse",
    "hideInclVars": "F-D15-include-hides-data-vars",
    "mainSearchCwd": "F-D14-main-file-search-cwd",
}

# ---------------------------------------------------------------------------
# rendering of a model case as files + argument vector (trusted, purely syntactic)


def jstr(s):
    return json.dumps(s)


def spec_str(ps, root):
    s = "/".join(ps["s"])
    b = ps["b"]
    if b == "abs":
        return root + "/" + s
    if b == "home":
        return "~/" + s
    if b == "origin":
        return "$ORIGIN/" + s
    return s


def untag(v):
    t = v["t"]
    if t == "s":
        return v["s"]
    if t == "n":
        return v["n"]
    if t == "b":
        return v["b"]
    if t == "a":
        return [untag(x) for x in v["a"]]
    if t == "o":
        return {k: untag(x) for k, x in v["o"].items()}
    raise ValueError(t)


def tag(v):
    if isinstance(v, bool):
        return {"t": "b", "b": v}
    if isinstance(v, str):
        return {"t": "s", "s": v}
    if isinstance(v, int):
        return {"t": "n", "n": v}
    if isinstance(v, list):
        return {"t": "a", "a": [tag(x) for x in v]}
    if isinstance(v, dict):
        return {"t": "o", "o": {k: tag(x) for k, x in v.items()}}
    return {"t": "x", "j": json.dumps(v)}


def const_object(d, quote_keys=True):
    parts = []
    for k, v in d.items():
        key = jstr(k) if quote_keys or not re.match(r"^[a-z]+$", k) else k
        parts.append("%s: %s" % (key, json.dumps(v)))
    return "{" + ", ".join(parts) + "}"


def import_text(imp, root, salt):
    name = "/".join(imp["name"])
    meta = {}
    if "extra" in imp:
        meta.update(untag(imp["extra"]))
    if "search" in imp:
        meta["search"] = spec_str(imp["search"], root)
    mtxt = (" " + const_object(meta, quote_keys=(salt % 2 == 0))) if meta else ""
    if imp["k"] == "include":
        return 'include %s%s;' % (jstr(name), mtxt)
    if imp["k"] == "data":
        return 'import %s as $%s%s;' % (jstr(name), imp["alias"], mtxt)
    return 'import %s as %s%s;' % (jstr(name), imp["alias"], mtxt)


def ref_text(r):
    t = r["n"]
    if r["ar"] > 0:
        t += "(" + "; ".join(["."] * r["ar"]) + ")"
    return "(%s | .[0])" % t if r["head"] else t


def def_text(d):
    params = ""
    if d["ar"] > 0:
        params = "(" + "; ".join("p%d_" % i for i in range(d["ar"])) + ")"
    body = ", ".join([jstr(d["tag"])] + [ref_text(r) for r in d["refs"]])
    return "def %s%s: [%s];" % (d["name"], params, body)


def module_text(mod, root, salt=0):
    lines = []
    if "meta" in mod:
        lines.append("module %s;" % const_object(untag(mod["meta"])))
    for n, imp in enumerate(mod["imports"]):
        lines.append(import_text(imp, root, salt + n))
    for d in mod["defs"]:
        lines.append(def_text(d))
    return "\n".join(lines) + "\n"


def main_text(c):
    m = c["main"]
    if "meta" in m:
        return "%s | modulemeta" % jstr("/".join(m["meta"]))
    parts = [import_text(imp, c["root"], n) for n, imp in enumerate(m["imports"])]
    parts += [def_text(d) for d in m["defs"]]
    parts.append("[" + ", ".join(ref_text(r) for r in m["refs"]) + "]")
    return " ".join(parts)


def lib_eligible(c):
    """The library run is meaningful when nothing depends on the process environment (cwd, HOME, executable)."""
    if not c["lib"] or "file" in c["main"]:
        return False
    if any(ps["b"] != "abs" for ps in c["lib"]):
        return False

    def imps_ok(imps, is_main):
        for imp in imps:
            s = imp.get("search")
            if s is None:
                continue
            if s["b"] in ("home", "origin"):
                return False
            if s["b"] == "rel" and is_main:
                return False
        return True

    if "imports" in c["main"] and not imps_ok(c["main"]["imports"], True):
        return False
    for e in c["fs"]:
        if e["k"] == "jq" and not imps_ok(e["mod"]["imports"], False):
            return False
    return True


def materialise(c, cid, sbroot):
    """model case -> harness case; sets c['root'] (the sandbox is the model's file-system root)."""
    d = "k%d" % cid
    root = os.path.join(sbroot, d)
    c["root"] = root
    files = []
    for n, e in enumerate(c["fs"]):
        p = "/".join(e["p"])
        if e["k"] == "dir":
            files.append({"p": p, "dir": True})
        elif e["k"] == "json":
            texts = [jstr(v) for v in e["vals"]] + [json.dumps(untag(v)) for v in e.get("tvals", [])]
            files.append({"p": p, "c": (" " if n % 2 else "\n").join(texts) + "\n"})
        else:
            files.append({"p": p, "c": module_text(e["mod"], root, n)})
    args = ["-n", "-c"]
    for n, ps in enumerate(c["lib"]):
        s = spec_str(ps, root)
        args += [["-L", s], ["-L" + s] if s else ["-L", s], ["--library-path", s]][(cid + n) % 3]
    query = main_text(c)
    if "file" in c["main"]:
        fp = c["main"]["file"]
        assert fp["b"] == "rel"
        files.append({"p": "/".join(c["cwd"] + fp["s"]), "c": query + "\n"})
        args += ["-f", spec_str(fp, root)]
    else:
        args.append(query)
    h = {"id": cid, "dir": d, "files": files, "cwd": "/".join(c["cwd"]), "home": "/".join(c["home"]),
         "exe": "/".join(c["exe"] + ["gojq"]), "args": args}
    if lib_eligible(c):
        h["lib"] = {"paths": [spec_str(ps, root) for ps in c["lib"]], "query": query}
    return h


# ---------------------------------------------------------------------------
# observations

_ERRS = [
    (re.compile(r'^function not defined: (.+)/(\d+)$'), lambda m: {"k": "fnf", "n": m.group(1), "ar": int(m.group(2))}),
    (re.compile(r'^variable not defined: (\$.+)$'), lambda m: {"k": "vnf", "n": m.group(1)}),
    (re.compile(r'^module not found: "(.*)"$'), lambda m: {"k": "mnf", "name": m.group(1)}),
    (re.compile(r'^read (.+): is a directory$'), lambda m: {"k": "isdir", "p": m.group(1)}),
]


def classify_error(msg):
    for rx, f in _ERRS:
        m = rx.match(msg)
        if m:
            return f(m)
    return None


def other(what, **kw):
    o = {"k": "other", "what": what}
    o.update(kw)
    return o


def parse_value_lines(lines):
    if len(lines) != 1:
        return other("outputs", n=len(lines))
    try:
        return {"k": "ok", "v": tag(json.loads(lines[0]))}
    except ValueError:
        return other("not json", text=lines[0][:200])


def parse_cli(res, is_meta):
    if res.get("tool"):
        return None
    if res.get("long"):
        return {"k": "long"}
    rc, out, err = res["rc"], res["out"], res["err"].strip()
    if rc == 0:
        if err:
            return other("stderr on success", text=err[:200])
        return parse_value_lines(out.splitlines())
    if out.strip():
        return other("output before error", rc=rc, text=out[:200])
    if rc == 3 and err.startswith("gojq: compile error: "):
        e = classify_error(err[len("gojq: compile error: "):])
        if e:
            return {"k": "err", "e": e}
    if rc == 5 and is_meta and err.startswith("gojq: error: "):
        e = classify_error(err[len("gojq: error: "):])
        if e:
            return {"k": "err", "e": e}
    if rc == 5 and is_meta and err.startswith("gojq: "):
        e = classify_error(err[len("gojq: "):])
        if e:
            return {"k": "err", "e": e}
    return other("unclassified", rc=rc, text=err[:300])


def parse_lib(lr, is_meta):
    if lr.get("panic"):
        return other("panic", text=lr["panic"][:300])
    if lr.get("err"):
        if lr["out"]:
            return other("output before error")
        stage = lr.get("stage")
        if (stage == "compile" and not is_meta) or (stage == "run" and is_meta):
            e = classify_error(lr["err"])
            if e:
                return {"k": "err", "e": e}
        return other("unclassified", stage=stage, text=lr["err"][:300])
    return parse_value_lines(lr["out"])


# ---------------------------------------------------------------------------
# seeded random skeletons (module trees laid out under search configurations)

DEF_NAMES = ["x", "x", "y", "f", "g", "_p"]
ALIASES = ["a", "a", "b", "c"]
DALIASES = ["d", "d", "e"]
CP = lambda s: [ord(ch) for ch in s]


class Sandbox:
    def __init__(self, r):
        self.r = r
        self.fs = {}        # path tuple -> entry
        self.nfile = 0

    def free(self, p):
        p = tuple(p)
        for q in self.fs:
            if q == p or q[:len(p)] == p or (p[:len(q)] == q and True):
                return False
        return True

    def add(self, p, entry):
        if not self.free(p):
            return None
        self.nfile += 1
        e = dict(entry)
        e["p"] = list(p)
        self.fs[tuple(p)] = e
        return e

    def fid(self):
        return "F%d" % (self.nfile + 1)


def make_defs(r, fid, n=None):
    n = n or r.choice([1, 2, 2, 3])
    defs = []
    for j in range(n):
        name = r.choice(DEF_NAMES)
        defs.append({"name": name, "cp": CP(name), "ar": r.choice([0, 0, 0, 1, 2]), "tag": "%s.%d" % (fid, j + 1), "refs": []})
    return defs


def clean(segs):
    out = []
    for s in segs:
        if s in (".", ""):
            continue
        if s == ".." and out and out[-1] != "..":
            out.pop()
        else:
            out.append(s)
    return out


def gen_skeleton(r, deep):
    sb = Sandbox(r)
    cwd, home, exe = ["cwd"], ["home"], ["bin"]
    c = {"cwd": cwd, "home": home, "exe": exe, "defaults": True}
    # --- the search list
    dirs = []           # physical directories searched, in order
    lib = []
    use_defaults = r.random() < 0.2
    if use_defaults:
        dirs = [["home", ".jq"], ["lib", "gojq"], ["lib"]]
    else:
        for i in range(r.choice([1, 2, 2, 3])):
            nm = "l%d" % (i + 1)
            kind = r.choice(["abs", "abs", "abs", "rel", "relcwd", "home", "origin", "dot", "empty"])
            if kind == "empty":
                # the empty path: documented as IGNORED (it must not come to mean the working directory); modules are still placed in the
                # working directory so that a loader that searches there finds something
                phys, ps = cwd, {"b": "rel", "s": []}
            elif kind == "abs":
                phys, ps = [nm], {"b": "abs", "s": [nm]}
            elif kind == "rel":
                phys, ps = [nm], {"b": "rel", "s": ["..", nm]}
            elif kind == "relcwd":
                phys, ps = cwd + [nm], {"b": "rel", "s": r.choice([[nm], [".", nm]])}
            elif kind == "home":
                phys, ps = home + [nm], {"b": "home", "s": [nm]}
            elif kind == "origin":
                phys, ps = [nm], {"b": "origin", "s": ["..", nm]}
            else:
                phys, ps = cwd, {"b": "rel", "s": ["."]}
            dirs.append(phys)
            lib.append(ps)
        if r.random() < 0.25:
            lib.insert(r.randrange(len(lib) + 1), {"b": "home", "s": [".jq"]})
    c["lib"] = lib
    home_jq_file = (use_defaults or any(ps == {"b": "home", "s": [".jq"]} for ps in lib)) and r.random() < 0.6
    if not home_jq_file and use_defaults is False:
        for ps in lib:
            if ps == {"b": "home", "s": [".jq"]}:
                dirs.append(["home", ".jq"])
    if home_jq_file and use_defaults:
        dirs = dirs[1:]
    # --- logical modules in levels
    nmod = r.choice([2, 3, 3, 4, 5] if deep else [1, 2, 3, 3])
    maxlevel = 3 if deep else 2
    mods = []
    for i in range(nmod):
        level = 1 + (i * maxlevel) // nmod
        name = ["m%d" % (i + 1)] if r.random() < 0.8 else [r.choice(["p", "q"]), "m%d" % (i + 1)]
        mods.append({"name": name, "level": level, "data": False})
    ndata = r.choice([0, 1, 1, 2])
    datas = [{"name": ["d%d" % (i + 1)], "level": 9, "data": True} for i in range(ndata)]

    def make_imports(level, nmax):
        cands = [m for m in mods if m["level"] > level] + datas
        imps = []
        if not cands:
            return imps
        for _ in range(r.randint(0 if level > 0 else 1, nmax)):
            t = r.choice(cands)
            if t["data"]:
                imp = {"k": "data", "name": t["name"], "alias": r.choice(DALIASES)}
            elif r.random() < 0.42:
                imp = {"k": "include", "name": t["name"], "alias": ""}
            else:
                imp = {"k": "import", "name": t["name"], "alias": r.choice(ALIASES)}
            if r.random() < 0.2:
                kind = r.choice(["sub", "sub", "up", "abs", "home", "origin", "dot", "empty"])
                imp["search"] = {"sub": {"b": "rel", "s": r.choice([["s"], [".", "s"]])},
                                 "up": {"b": "rel", "s": ["..", "u"]},
                                 "abs": {"b": "abs", "s": [r.choice(["l1", "l2", "zz"])]},
                                 "home": {"b": "home", "s": ["hs"]},
                                 "origin": {"b": "origin", "s": ["..", "os"]},
                                 "dot": {"b": "rel", "s": ["."]}, "empty": {"b": "rel", "s": []}}[kind]
            imps.append(imp)
        return imps

    def place(name, ext, d, form, entry):
        p = d + name[:-1] + [name[-1] + ext] if form == 0 else d + name + [name[-1] + ext]
        return sb.add(clean(p), entry)

    def search_dir(imp, filedir):
        s = imp["search"]
        if s["b"] == "abs":
            return clean(s["s"])
        if s["b"] == "home":
            return clean(home + s["s"])
        if s["b"] == "origin":
            return clean(exe + s["s"])
        return clean(filedir + s["s"])

    pending = []   # (import, directory of the importing file): extra placements for `search`
    for m in mods:
        m["imports"] = make_imports(m["level"], 3 if deep else 2)
    placed_dirs = {}
    for m in mods + datas:
        ext = ".json" if m["data"] else ".jq"
        first = True
        order = list(range(len(dirs)))
        r.shuffle(order)
        for n, di in enumerate(order):
            if n > 0 and r.random() > 0.3:
                continue
            if not first and r.random() < 0.15:
                place(m["name"], ext, dirs[di], r.choice([0, 0, 1]), {"k": "dir"})
                continue
            fid = sb.fid()
            if m["data"]:
                entry = {"k": "json", "vals": ["%s.%d" % (fid, j) for j in range(r.choice([1, 2]))]}
                if r.random() < 0.4:
                    entry["tvals"] = [tag(r.choice([0, 7, -3, True, False, [], [1, "s"], {"k": "v"}, {"b": [1, {"c": False}], "a": 2}, "str"]))
                                      for _ in range(r.choice([1, 2]))]
            else:
                entry = {"k": "jq", "mod": {"imports": copy.deepcopy(m["imports"]) if first else [], "defs": make_defs(r, fid)}}
            forms = [r.choice([0, 0, 1])]
            if r.random() < 0.12:
                forms = [0, 1]
            for f in forms:
                e = place(m["name"], ext, dirs[di], f, entry if f == forms[0] else
                          ({"k": "jq", "mod": {"imports": [], "defs": make_defs(r, sb.fid())}} if not m["data"] else {"k": "json", "vals": [sb.fid() + ".0"]}))
                if e is not None and first and not m["data"]:
                    placed_dirs[tuple(m["name"])] = e["p"][:-1]
                    for imp in e["mod"]["imports"]:
                        if "search" in imp:
                            pending.append((imp, e["p"][:-1]))
            first = False
    # --- the main program
    main = {"imports": make_imports(0, 4 if deep else 3), "defs": make_defs(r, "M", r.choice([0, 1, 2])), "refs": []}
    maindir = cwd
    if r.random() < 0.15:
        sub = r.choice([["prog"], ["prog"], []])
        main["file"] = {"b": "rel", "s": sub + ["main.jq"]}
        maindir = cwd + sub
    for imp in main["imports"]:
        if "search" in imp:
            pending.append((imp, r.choice([maindir, cwd])))
    byname = {tuple(m["name"]): m for m in mods + datas}
    for imp, fdir in pending:
        if r.random() < 0.75:
            t = byname[tuple(imp["name"])]
            d = search_dir(imp, fdir)
            if d and d[0] == "..":
                continue
            fid = sb.fid()
            entry = ({"k": "json", "vals": [fid + ".0"]} if t["data"] else
                     {"k": "jq", "mod": {"imports": [], "defs": make_defs(r, fid)}})
            place(t["name"], ".json" if t["data"] else ".jq", d, r.choice([0, 0, 1]), entry)
    if home_jq_file:
        fid = sb.fid()
        himps = make_imports(2, 2) if r.random() < 0.45 else []
        for imp in himps:
            # the auto-included ~/.jq may import with a `search` relative to ITS directory (the home directory): make such imports
            # resolvable there (and, half of the time, put a decoy where a wrong base directory would look)
            if r.random() < 0.6:
                imp["search"] = r.choice([{"b": "rel", "s": ["jqlib"]}, {"b": "rel", "s": [".", "jqlib", "data"]}, {"b": "rel", "s": ["."]}, {"b": "rel", "s": ["..", "home", "hs"]}])
            if "search" in imp:
                t = byname[tuple(imp["name"])]
                if (search_dir(imp, home) or [".."])[0] == "..":
                    continue
                f2 = sb.fid()
                entry = ({"k": "json", "vals": [f2 + ".0"]} if t["data"] else {"k": "jq", "mod": {"imports": [], "defs": make_defs(r, f2)}})
                place(t["name"], ".json" if t["data"] else ".jq", search_dir(imp, home), r.choice([0, 0, 1]), entry)
                if r.random() < 0.5:
                    f3 = sb.fid()
                    decoy = ({"k": "json", "vals": [f3 + ".0"]} if t["data"] else {"k": "jq", "mod": {"imports": [], "defs": make_defs(r, f3)}})
                    place(t["name"], ".json" if t["data"] else ".jq", search_dir(imp, home + [".jq"]), 0, decoy)
        sb.add(["home", ".jq"], {"k": "jq", "mod": {"imports": himps, "defs": make_defs(r, fid)}})
    c["main"] = main
    c["fs"] = list(sb.fs.values())
    # --- the universe of conceivable names
    names = set()
    aliases = set()
    daliases = set()
    for e in c["fs"]:
        if e["k"] == "jq":
            for d in e["mod"]["defs"]:
                names.add((d["name"], d["ar"]))
            for imp in e["mod"]["imports"]:
                (daliases if imp["k"] == "data" else aliases).add(imp["alias"])
    for d in main["defs"]:
        names.add((d["name"], d["ar"]))
    for imp in main["imports"]:
        (daliases if imp["k"] == "data" else aliases).add(imp["alias"])
    aliases.discard("")
    univ = []
    for pre in [""] + sorted(aliases):
        for (n, ar) in sorted(names):
            univ.append({"n": (pre + "::" + n) if pre else n, "ar": ar, "var": False})
    for a in sorted(daliases):
        univ.append({"n": "$" + a, "ar": 0, "var": True})
        univ.append({"n": "$%s::%s" % (a, a), "ar": 0, "var": True})
    c["univ"] = univ
    c["root"] = "/R"
    return c


def gen_meta_case(r):
    """a module with metadata, dependencies and definitions, queried with modulemeta"""
    sb = Sandbox(r)
    c = {"cwd": ["cwd"], "home": ["home"], "exe": ["bin"], "defaults": True, "root": "/R"}
    kinds = r.choice([["abs"], ["abs", "rel"], ["rel"], ["home"], ["origin"], ["abs", "abs"]])
    lib, dirs = [], []
    for i, k in enumerate(kinds):
        nm = "l%d" % (i + 1)
        if k == "abs":
            lib.append({"b": "abs", "s": [nm]}); dirs.append([nm])
        elif k == "rel":
            lib.append({"b": "rel", "s": r.choice([["..", nm], [".", "..", nm]])}); dirs.append([nm])
        elif k == "home":
            lib.append({"b": "home", "s": [nm]}); dirs.append(["home", nm])
        else:
            lib.append({"b": "origin", "s": ["..", nm]}); dirs.append([nm])
    c["lib"] = lib
    name = r.choice([["mm"], ["p", "mm"], ["mm"]])
    imports = []
    for _ in range(r.choice([0, 1, 2, 3])):
        k = r.choice(["include", "import", "data"])
        imp = {"k": k, "name": [r.choice(["t1", "t2", "sub/t3"])] if False else r.choice([["t1"], ["t2"], ["sub", "t3"]]),
               "alias": "" if k == "include" else r.choice(["a", "b", "d"])}
        if r.random() < 0.5:
            imp["search"] = r.choice([{"b": "rel", "s": ["."]}, {"b": "rel", "s": [".", "s"]}, {"b": "rel", "s": ["..", "u"]},
                                      {"b": "abs", "s": ["zz"]}, {"b": "home", "s": ["hs"]}, {"b": "origin", "s": ["..", "os"]},
                                      {"b": "rel", "s": ["s", "..", "t"]}])
        if r.random() < 0.4:
            extra = {}
            for kx in r.sample(["x", "note", "as", "relpath", "is_data", "v"], r.choice([1, 2])):
                extra[kx] = r.choice([1, 7, "txt", True, False, "q"])
            imp["extra"] = tag(extra)
        imports.append(imp)
    defs = []
    for j in range(r.choice([0, 1, 2, 3, 4, 5])):
        nm = r.choice(["x", "y", "f", "g", "_p", "ab", "a", "b_c", "B", "x1", "_"])
        defs.append({"name": nm, "cp": CP(nm), "ar": r.choice([0, 0, 1, 2, 3]), "tag": "T.%d" % j, "refs": []})
    mod = {"imports": imports, "defs": defs}
    if r.random() < 0.7:
        meta = {}
        for kx in r.sample(["name", "version", "defs", "deps", "k"], r.choice([1, 2, 3])):
            meta[kx] = r.choice([1, 2, "v", True, "mm"])
        mod["meta"] = tag(meta)
    present = False
    for n, d in enumerate(dirs):
        if r.random() < 0.6:
            form = r.choice([0, 0, 1])
            p = d + name[:-1] + [name[-1] + ".jq"] if form == 0 else d + name + [name[-1] + ".jq"]
            if r.random() < 0.1:
                sb.add(p, {"k": "dir"})
            elif not present:
                sb.add(p, {"k": "jq", "mod": mod})
                present = True
            else:
                sb.add(p, {"k": "jq", "mod": {"imports": [], "defs": [{"name": "decoy", "cp": CP("decoy"), "ar": 0, "tag": "D", "refs": []}]}})
    c["fs"] = list(sb.fs.values())
    c["main"] = {"meta": name}
    return c


# ---------------------------------------------------------------------------
# from the tables of ModulesGen.tla to probe programs

def group_sites(tab):
    g = {}
    for s in tab:
        g.setdefault((s["f"], s["j"]), []).append(s["vis"])
    return g


def site_defs(c, f):
    return c["main"]["defs"] if f == 0 else c["fs"][f - 1]["mod"]["defs"]


def add_ref(c, key, u, head):
    f, j = key
    ref = {"n": u["n"], "ar": u["ar"], "var": u["var"], "head": head}
    defs = site_defs(c, f)
    if f == 0 and j == len(defs) + 1:
        c["main"]["refs"].append(ref)
    else:
        defs[j - 1]["refs"].append(ref)


def decorate(c, p, i, r, nprobe, src=""):
    """skeleton + tables -> list of (label, case with references)."""
    univ = c.get("univ", [])
    base = copy.deepcopy(c)
    base.pop("univ", None)
    if p.get("k") != "ok" or i.get("k") != "ok" or not univ:
        return [(src + "plain", base)]
    gp, gi = group_sites(p["tab"]), group_sites(i["tab"])
    if set(gp) != set(gi):
        return [(src + "plain", base)]
    safe, differ, hidden = {}, [], []
    for key in gp:
        ep, ei = gp[key], gi[key]
        safe[key] = []
        for y in range(len(univ)):
            colp = [v[y] for v in ep]
            coli = [v[y] for v in ei]
            if colp != coli:
                differ.append((key, y))
            elif all(x == "-" for x in colp):
                hidden.append((key, y))
            elif all(x not in ("-", "self") for x in colp):
                safe[key].append(y)
    rich = copy.deepcopy(base)
    mainkey = (0, len(c["main"]["defs"]) + 1)
    for key in sorted(gp):
        ys = list(safe[key])
        r.shuffle(ys)
        if key == mainkey:
            for y in ys[:10]:
                add_ref(rich, key, univ[y], False)
        else:
            for n, y in enumerate(ys[:r.choice([0, 1, 1, 2])]):
                add_ref(rich, key, univ[y], n > 0 or r.random() < 0.3)
    out = [(src + "rich", rich)]
    r.shuffle(differ)
    r.shuffle(hidden)
    nd = min(len(differ), max(2, nprobe // 2))
    for key, y in differ[:nd] + hidden[:max(0, nprobe - nd)]:
        v = copy.deepcopy(rich)
        add_ref(v, key, univ[y], False)
        out.append((src + ("differ" if (key, y) in differ[:nd] else "hidden"), v))
    return out


# ---------------------------------------------------------------------------
# pipeline pieces

def run_tlc(work, module, cfg, env=None, timeout=600, workers=4, extra=()):
    return vc.tlc(work.dir, module, cfg, env=env, timeout=timeout, workers=workers, extra=["-noGenerateSpecTE"] + list(extra))


def tlc_gen(work, mode, cfg, seed, skeletons=None, tag_="g", timeout=900, want=0):
    out = work.path("%s.gen.ndjson" % tag_)
    env = {"VERIF_MODE": mode, "VERIF_OUT": out, "VERIF_TRACE": "", "VERIF_N": str(want)}
    if skeletons is not None:
        tp = work.path("%s.skel.ndjson" % tag_)
        vc.write_ndjson(tp, skeletons)
        env["VERIF_TRACE"] = tp
    res = run_tlc(work, "ModulesGen.tla", cfg, env=env, timeout=timeout, workers=1, extra=["-seed", str(seed)])
    if not res.ok() or not os.path.exists(out):
        raise vc.ToolError("ModulesGen (%s) failed:\n%s" % (mode, vc.tlc_error_text(res)))
    recs = vc.read_ndjson(out)
    os.remove(out)
    return recs, res


def gen_file_sharded(work, skeletons, cfg, shards):
    """ModulesGen in file mode over parallel JVMs."""
    n = len(skeletons)
    shards = max(1, min(shards, n // 50 or 1))
    bounds = [(k * n // shards, (k + 1) * n // shards) for k in range(shards)]
    out = [None] * n
    stats = []

    def one(k, lo, hi):
        recs, res = tlc_gen(work, "file", cfg, 1, skeletons[lo:hi], tag_="gf%d" % k)
        return lo, recs, res

    with cf.ThreadPoolExecutor(max_workers=shards) as ex:
        for lo, recs, res in ex.map(lambda a: one(*a), [(k, lo, hi) for k, (lo, hi) in enumerate(bounds)]):
            out[lo:lo + len(recs)] = recs
            stats.append(res)
    return out, stats


def execute(work, vh, gojq, hcases, tag_="r"):
    cpath, rpath = work.path(tag_ + ".cases.ndjson"), work.path(tag_ + ".results.ndjson")
    vc.write_ndjson(cpath, hcases)
    sb = work.path("sb", "x")
    vc.sh([vh, "c18run", "-in", cpath, "-out", rpath, "-root", os.path.dirname(sb), "-gojq", gojq, "-j", str(vc.NCPU)], timeout=3600)
    res = vc.read_ndjson(rpath)
    for p in (cpath, rpath):
        if not os.environ.get("VERIF_KEEP"):
            os.remove(p)
    return res


def build(work):
    """vc.build(); C18_VH / C18_GOJQ override the binaries (development and mutation demonstrations only)."""
    vh, gojq = os.environ.get("C18_VH"), os.environ.get("C18_GOJQ")
    if vh and gojq:
        return vh, gojq
    bvh, bgojq = vc.build()
    return vh or bvh, gojq or bgojq


class Pipeline:
    def __init__(self, rep, work, vh, gojq):
        self.rep, self.work, self.vh, self.gojq = rep, work, vh, gojq
        self.sbroot = os.path.join(work.dir, "sb")
        self.nid = 0
        self.counters = {}
        self.classes = {}
        self.labels = {}
        self.feat = {}
        self.agreed = []

    def binding_selftest(self):
        """Corrupt accepted records (one string of the observed value, or ok -> error) and validate them again:
        the trace specification must reject every one of them.  Returns (corrupted, rejected)."""
        def corrupt(v):
            if v["t"] == "s":
                return {"t": "s", "s": v["s"] + "~"}
            if v["t"] == "a" and v["a"]:
                return {"t": "a", "a": v["a"][:-1] + [corrupt(v["a"][-1])]}
            if v["t"] == "o" and v["o"]:
                k = sorted(v["o"])[0]
                o = dict(v["o"])
                o[k] = corrupt(o[k])
                return {"t": "o", "o": o}
            return {"t": "s", "s": "~"}
        recs = []
        for n, a in enumerate(self.agreed):
            obs = {"k": "ok", "v": corrupt(a["obs"]["v"])} if n % 4 else {"k": "err", "e": {"k": "fnf", "n": "x", "ar": 0}}
            recs.append({"id": n, "c": a["c"], "obs": obs})
        if not recs:
            return 0, 0
        verdicts, stats = vc.validate_sharded(self.work, recs, "ModulesTrace.tla", "ModulesTrace.cfg", {}, tag="self", shards=1, timeout=300)
        self.rep.add_tlc(stats)
        return len(recs), sum(1 for v in verdicts if v.get("v") in ("mismatch", "deviation"))

    def bump(self, k, n=1):
        self.counters[k] = self.counters.get(k, 0) + n

    def check(self, labelled, tag_="t", timeout=900):
        """labelled: list of (label, model case).  Materialise, run, validate, classify."""
        t0 = time.time()
        hcases, models = [], {}
        for label, c in labelled:
            self.nid += 1
            cid = self.nid
            c.pop("univ", None)
            h = materialise(c, cid, self.sbroot)
            hcases.append(h)
            models[cid] = (label, c, h)
        results = execute(self.work, self.vh, self.gojq, hcases, tag_)
        t1 = time.time()
        trace = []
        for res in results:
            label, c, h = models[res["id"]]
            is_meta = "meta" in c["main"]
            obs = parse_cli(res, is_meta)
            if obs is None:
                raise vc.ToolError("sandbox runner: %s" % res.get("tool"))
            if obs.get("k") == "long":       # cut by the process budget: undecided, never a verdict
                self.bump("undecided_timeout")
                continue
            self.rep.count("evaluations")
            trace.append({"id": len(trace), "c": c, "obs": obs, "via": "cli", "cid": res["id"]})
            if res.get("lib") is not None:
                lc = dict(c)
                lc["defaults"] = False
                self.rep.count("evaluations")
                trace.append({"id": len(trace), "c": lc, "obs": parse_lib(res["lib"], is_meta), "via": "lib", "cid": res["id"]})
        slim = [{"id": t["id"], "c": t["c"], "obs": t["obs"]} for t in trace]
        verdicts, stats = vc.validate_sharded(self.work, slim, "ModulesTrace.tla", "ModulesTrace.cfg", {}, tag=tag_,
                                              timeout=timeout, per_shard_min=150)
        self.rep.add_tlc(stats)
        for t, v in zip(trace, verdicts):
            label, c, h = models[t["cid"]]
            self.classify(t, v, label, c, h)
            if v.get("v") == "agree" and t["obs"].get("k") == "ok" and len(self.agreed) < 40:
                self.agreed.append({"c": t["c"], "obs": t["obs"]})
        vc.log("[C18 %s] %d cases, %d records: run %.1fs, validate+classify %.1fs" % (tag_, len(hcases), len(trace), t1 - t0, time.time() - t1))

    def classify(self, t, v, label, c, h):
        rep = self.rep
        kind = v.get("v") or ("tlc_" + v.get("tlc", "error"))
        self.bump(kind)
        self.labels[label + ":" + kind] = self.labels.get(label + ":" + kind, 0) + 1
        if kind in ("agree", "deviation"):
            for ft in features(c, t["obs"]):
                self.feat[ft] = self.feat.get(ft, 0) + 1
        if kind == "agree":
            rep.count("traces_validated_against_impl")
            rep.nontrivial({"a": h["args"], "f": h["files"]})
            if not v.get("code", True):
                self.bump("agree_but_machine_differs")
            if len(rep.cov["samples"]) < 5 and label in ("rnd-rich", "tree-rich", "layout", "meta"):
                rep.sample({"args": [a.replace(c["root"], "<root>") for a in h["args"]],
                            "files": {f["p"]: f.get("c", "<dir>") for f in h["files"]},
                            "observed": short(t["obs"]), "via": t["via"], "verdict": "agree"})
        elif kind == "deviation":
            sws = v.get("sw", [])
            fids = sorted({SWITCH_FINDING[s] for s in sws if s in SWITCH_FINDING})
            if not fids:
                self.report_mismatch(t, v, label, c, h, "deviation not attributable to a switch")
                return
            rep.count("traces_validated_against_impl")
            key = "+".join(sorted(sws))
            self.classes[key] = self.classes.get(key, 0) + 1
            open_ids = {k["id"] for k in rep.known}
            if any(fid not in open_ids for fid in fids):
                # the class of a repaired (or never listed) finding: a violation like any other
                self.report_mismatch(t, v, label, c, h, "deviation of a class that is not an open finding (%s)" % ", ".join(f for f in fids if f not in open_ids))
                return
            for fid in fids:
                rep.known_finding(fid, "`%s` -> %s; property: %s" % (
                    " ".join(a.replace(c["root"], "<root>") for a in h["args"]), short(t["obs"]), short(v.get("exp"))))
            if "deviation_samples" not in rep.cov:
                rep.cov["deviation_samples"] = {}
            if key not in rep.cov["deviation_samples"]:
                rep.cov["deviation_samples"][key] = {
                    "args": [a.replace(c["root"], "<root>") for a in h["args"]],
                    "files": {f["p"]: f.get("c", "<dir>") for f in h["files"]},
                    "observed": short(t["obs"]), "property": short(v.get("exp")), "via": t["via"]}
        elif kind == "mismatch":
            self.report_mismatch(t, v, label, c, h, "real behaviour differs from the property and from the code-level machine")
        elif kind == "oom":
            rep.count("out_of_model")
        else:
            self.bump("undecided")

    def report_mismatch(self, t, v, label, c, h, why):
        # second execution from the same description
        h2 = dict(h)
        again = execute(self.work, self.vh, self.gojq, [h2], "again")[0]
        is_meta = "meta" in c["main"]
        obs2 = parse_cli(again, is_meta) if t["via"] == "cli" else (parse_lib(again["lib"], is_meta) if again.get("lib") else None)
        if obs2 != t["obs"]:
            self.bump("not_reproduced")
            return
        self.rep.violation("%s: `%s` via %s -> %s; property: %s; machine: %s" % (
            why, " ".join(h["args"]), t["via"], short(t["obs"]), short(v.get("exp")), short(v.get("code"))),
            {"case": {"c": c, "label": label}, "via": t["via"], "actual": t["obs"], "expected": v.get("exp"),
             "files": {f["p"]: f.get("c", "<dir>") for f in h["files"]}, "args": h["args"]})


def features(c, obs):
    """what a record exercises (evidence only)"""
    f = []
    m = c["main"]
    if "meta" in m:
        f.append("modulemeta")
    if not c["lib"]:
        f.append("default search list")
    if "file" in m:
        f.append("program from -f")
    kinds = {ps["b"] for ps in c["lib"]}
    for k in sorted(kinds):
        f.append("-L " + {"abs": "absolute", "rel": "relative", "home": "~/", "origin": "$ORIGIN/"}[k])
    if any(e["p"] == ["home", ".jq"] and e["k"] == "jq" for e in c["fs"]):
        f.append("~/.jq file present")
    if any(e["p"][:2] == ["home", ".jq"] and len(e["p"]) > 2 for e in c["fs"]):
        f.append("~/.jq directory present")
    if any("tvals" in e for e in c["fs"]) and obs.get("k") == "ok" and re.search(r'"t": "[nbo]"', json.dumps(obs)):
        f.append("data values of other JSON types observed")
    if any(e["k"] == "dir" for e in c["fs"]):
        f.append("directory at a candidate path")
    imps = list(m.get("imports", []))
    for e in c["fs"]:
        if e["k"] == "jq":
            imps += e["mod"]["imports"]
            if any(i.get("search", {}).get("b") == "rel" for i in e["mod"]["imports"]):
                f.append("relative search in a module file")
    if any("search" in i for i in m.get("imports", [])):
        f.append("search in the main program")
    if any(len(i["name"]) > 1 for i in imps):
        f.append("nested module name a/b")
    for k in ("include", "import", "data"):
        if any(i["k"] == k for i in imps):
            f.append(k)
    if obs.get("k") == "err":
        f.append("error: " + obs["e"].get("k", "?"))
    return f


def short(x):
    if x is None:
        return "?"
    try:
        if x.get("k") == "ok":
            return json.dumps(untag(x["v"]))
        if x.get("k") == "err":
            return "error " + json.dumps(x["e"])
    except Exception:
        pass
    return json.dumps(x)[:300]


# ---------------------------------------------------------------------------
# hand-written witnesses (regression corpus): the D10/D13/D14/D15 witnesses and their neighbours

def W(fs, main, lib=None, **kw):
    c = {"root": "/R", "cwd": ["cwd"], "home": ["home"], "exe": ["bin"], "defaults": True,
         "lib": lib if lib is not None else [{"b": "abs", "s": ["lib"]}], "fs": fs, "main": main}
    c.update(kw)
    return c


def jq(p, imports, defs):
    return {"p": p, "k": "jq", "mod": {"imports": imports, "defs": [
        {"name": n, "cp": CP(n), "ar": ar, "tag": t, "refs": [dict(zip(("n", "ar", "var", "head"), x)) for x in refs]}
        for (n, ar, t, refs) in defs]}}


def ref(n, ar=0, head=False):
    return {"n": n, "ar": ar, "var": n.startswith("$"), "head": head}


def witnesses():
    inc = lambda m, **kw: dict({"k": "include", "name": [m], "alias": ""}, **kw)
    imp = lambda m, a, **kw: dict({"k": "import", "name": [m], "alias": a}, **kw)
    dat = lambda m, a, **kw: dict({"k": "data", "name": [m], "alias": a}, **kw)
    d1 = {"p": ["lib", "d1.json"], "k": "json", "vals": ["D1", "D1b"]}
    d2 = {"p": ["lib", "d2.json"], "k": "json", "vals": ["D2"]}
    m1 = jq(["lib", "m1.jq"], [], [("x", 0, "m1.x", [])])
    out = []
    # D10: the importer's earlier import is visible inside a later module
    out.append(("w-d10-a", W([m1, jq(["lib", "m2.jq"], [], [("y", 0, "m2.y", [("a::x", 0, False, False)])])],
                            {"imports": [imp("m1", "a"), imp("m2", "b")], "defs": [], "refs": [ref("b::y")]})))
    # D10: an earlier include is visible inside a later imported module
    out.append(("w-d10-b", W([m1, jq(["lib", "m3.jq"], [], [("z", 0, "m3.z", [("x", 0, False, False)])])],
                            {"imports": [inc("m1"), imp("m3", "c")], "defs": [], "refs": [ref("c::z")]})))
    # the same with include: textual inclusion, legitimately visible
    out.append(("w-incl-sees", W([m1, jq(["lib", "m3.jq"], [], [("z", 0, "m3.z", [("x", 0, False, False)])])],
                                {"imports": [inc("m1"), inc("m3")], "defs": [], "refs": [ref("z")]})))
    # D10 (variables): the importer's data variable inside an imported module
    out.append(("w-d10-var", W([d1, jq(["lib", "m6.jq"], [], [("f", 0, "m6.f", [("$d", 0, True, False)])])],
                              {"imports": [dat("d1", "d"), imp("m6", "m")], "defs": [], "refs": [ref("m::f")]})))
    # D13: same-named data import after an include: the included closure sees the later value
    out.append(("w-d13", W([d1, d2, jq(["lib", "mf.jq"], [], [("f", 0, "mf.f", [("$d", 0, True, False)])])],
                          {"imports": [dat("d1", "d"), inc("mf"), dat("d2", "d")], "defs": [], "refs": [ref("f"), ref("$d")]})))
    # D13 x D15: a data import between two includes of a file that imports the same alias
    m1d = jq(["lib", "m1d.jq"], [dat("d1", "d")], [("x", 0, "m1d.x", [])])
    out.append(("w-d13-d15", W([d1, d2, m1d], {"imports": [inc("m1d"), dat("d2", "d"), inc("m1d")],
                                               "defs": [], "refs": [ref("x"), ref("$d")]})))
    # D15: data variables of an included file
    out.append(("w-d15", W([d1, jq(["lib", "m5.jq"], [dat("d1", "d")], [("dd", 0, "m5.dd", [("$d", 0, True, False)])])],
                          {"imports": [inc("m5")], "defs": [], "refs": [ref("dd"), ref("$d::d")]})))
    # D14: -f program in a sub-directory with a relative search
    ms_a = jq(["cwd", "prog", "lib2", "ms.jq"], [], [("s", 0, "prog/lib2", [])])
    ms_b = jq(["cwd", "lib2", "ms.jq"], [], [("s", 0, "cwd/lib2", [])])
    out.append(("w-d14", W([ms_a, ms_b], {"imports": [imp("ms", "m", search={"b": "rel", "s": [".", "lib2"]})], "defs": [], "refs": [ref("m::s")],
                                         "file": {"b": "rel", "s": ["prog", "main.jq"]}}, lib=[])))
    # nested alias is not reachable; import isolates the module's own imports
    m4 = jq(["lib", "m4.jq"], [imp("m1", "a")], [("w", 0, "m4.w", [("a::x", 0, False, False)])])
    out.append(("w-nested", W([m1, m4], {"imports": [imp("m4", "b")], "defs": [], "refs": [ref("b::w")]})))
    out.append(("w-nested-hidden", W([m1, m4], {"imports": [imp("m4", "b")], "defs": [], "refs": [ref("a::x")]})))
    out.append(("w-include-exports-imports", W([m1, m4], {"imports": [inc("m4")], "defs": [], "refs": [ref("w"), ref("a::x")]})))
    # data import binds $d and $d::d
    out.append(("w-data", W([d1], {"imports": [dat("d1", "d")], "defs": [], "refs": [ref("$d"), ref("$d::d"), ref("$d", head=True)]})))
    # ~/.jq: file = auto-included, directory = search directory
    hj = jq(["home", ".jq"], [], [("h", 0, "home.h", [])])
    out.append(("w-home-file", W([hj], {"imports": [], "defs": [], "refs": [ref("h")]}, lib=[])))
    out.append(("w-home-file-L", W([hj, m1], {"imports": [], "defs": [], "refs": [ref("h")]})))
    out.append(("w-home-dir", W([jq(["home", ".jq", "hm.jq"], [], [("hm", 0, "home.hm", [])])],
                               {"imports": [imp("hm", "m")], "defs": [], "refs": [ref("m::hm")]}, lib=[])))
    out.append(("w-origin", W([jq(["lib", "gojq", "om.jq"], [], [("o", 0, "lib/gojq", [])]), jq(["lib", "om.jq"], [], [("o", 0, "lib", [])])],
                             {"imports": [imp("om", "m")], "defs": [], "refs": [ref("m::o")]}, lib=[])))
    # module-relative search
    mt = jq(["lib", "mt.jq"], [imp("ms", "m", search={"b": "rel", "s": [".", "sub"]})], [("t", 0, "mt.t", [("m::s", 0, False, False)])])
    out.append(("w-rel-search", W([mt, jq(["lib", "sub", "ms.jq"], [], [("s", 0, "lib/sub", [])]), jq(["cwd", "sub", "ms.jq"], [], [("s", 0, "cwd/sub", [])])],
                                 {"imports": [imp("mt", "t")], "defs": [], "refs": [ref("t::t")]}, lib=[{"b": "rel", "s": ["..", "lib"]}])))
    return out


# ---------------------------------------------------------------------------

def model_checking(rep, work, quick):
    """The design-level TLC runs.  Returns a list of problems (tool trouble / spec inconsistency)."""
    suffix = "" if quick else "_T"
    jobs = [("scope machine, switches off = Link", "ModulesMC.tla", "ModulesMC_fixed%s.cfg" % suffix, "pass"),
            ("scope machine, switches of the code: structure, leaks only add", "ModulesMC.tla", "ModulesMC_code%s.cfg" % suffix, "pass"),
            ("scope machine, switches of the code: StepAgree must fail (D10)", "ModulesMC.tla", "ModulesMC_code_cex.cfg", "cex"),
            ("lookupModule loop = first candidate in documented order", "ModulesResolveMC.tla", "ModulesResolveMC.cfg", "pass")]
    problems = []
    mc = []

    def one(job):
        what, module, cfg, want = job
        res = run_tlc(work, module, cfg, timeout=300 if quick else 2400, workers=2 if quick else 4)
        return job, res

    with cf.ThreadPoolExecutor(max_workers=4) as ex:
        for (what, module, cfg, want), res in ex.map(one, jobs):
            rep.add_tlc(res)
            ok = res.ok() if want == "pass" else ("Invariant StepAgree is violated" in res.out)
            mc.append({"what": what, "cfg": cfg, "distinct_states": res.distinct, "states_generated": res.generated,
                       "wall_s": round(res.wall, 1), "result": ("as expected" if ok else "UNEXPECTED")})
            if not ok:
                problems.append("%s (%s): %s" % (what, cfg, vc.tlc_error_text(res)[:1500]))
    rep.cov["model_checking"] = mc
    return problems


def run(tier, seed, replay):
    rep = vc.Report(PROP, tier, seed)
    rep.assumptions += [
        "TLC evaluates Modules.tla correctly; the rendering of a model case as files/arguments (checks/c18.py) is faithful",
        "definition bodies are restricted to ['tag', references...]: what a name resolves to is observed, not general jq evaluation (C01)",
        "module graphs are acyclic (a cyclic include makes gojq overflow its stack: outside this property)",
        "the sandbox is the whole file system: a path leaving it is out of model",
    ]
    work = vc.Work(PROP)
    try:
        vh, gojq = build(work)
        pipe = Pipeline(rep, work, vh, gojq)
        if replay:
            rec = json.load(open(replay))
            c = rec["case"]["c"]
            pipe.check([(rec["case"].get("label", "replay"), c)], "replay")
            rep.cov["verdicts"] = pipe.counters
            return rep.finish(min_decided=0)
        quick = tier == "quick"
        r = random.Random(seed)
        t0 = time.time()
        with cf.ThreadPoolExecutor(max_workers=4) as bg:
            # 1. design-level model checking (in the background of the rest)
            mcf = bg.submit(model_checking, rep, work, quick)
            # 2. TLC enumerates trees and layouts and tabulates property vs machine (seeded subsets on quick)
            f_trees = bg.submit(tlc_gen, work, "trees", "ModulesGen.cfg" if quick else "ModulesGen_T.cfg", seed, None, "trees", 2400,
                                450 if quick else 6000)
            f_lays = bg.submit(tlc_gen, work, "layouts", "ModulesGen.cfg", seed, None, "lay", 2400, 1000 if quick else 0)
            # 3. seeded random trees under random search configurations, tabulated the same way
            skels = [{"id": n, "c": gen_skeleton(r, deep=(n % 2 == 1))} for n in range(400 if quick else 6000)]
            f_rnd = bg.submit(gen_file_sharded, work, skels, "ModulesGen.cfg", 6 if quick else vc.NCPU)
            labelled = [(l, copy.deepcopy(c)) for l, c in witnesses()]
            labelled += [("meta", gen_meta_case(r)) for _ in range(300 if quick else 3000)]
            trees, res = f_trees.result()
            rep.add_tlc(res)
            rep.cov["tlc_enumerated_trees"] = len(trees)
            for t in trees:
                labelled += decorate(t["c"], t["p"], t["i"], r, 3 if quick else 4, "tree-")
            lays, res = f_lays.result()
            rep.add_tlc(res)
            rep.cov["tlc_enumerated_layouts"] = len(lays)
            rep.cov["exhaustive"] = not quick
            labelled += [("layout", l["c"]) for l in lays]
            tabs, stats = f_rnd.result()
            for s_ in stats:
                rep.add_tlc(s_)
            for s_, t in zip(skels, tabs):
                labelled += decorate(s_["c"], t["p"], t["i"], r, 4 if quick else 5, "rnd-")
            vc.log("[C18] generation %.1fs, %d cases" % (time.time() - t0, len(labelled)))
            # 4. every case on the real code, every record through the trace specification
            pipe.check(labelled, "all", timeout=1200 if quick else 3000)
            ncor, nrej = pipe.binding_selftest()
            rep.cov["binding_selftest"] = {"corrupted_records": ncor, "rejected_by_trace_spec": nrej}
            problems = mcf.result()
            if ncor != nrej:
                problems.append("binding self-test: the trace specification accepted %d of %d corrupted records" % (ncor - nrej, ncor))
        rep.cov["verdicts"] = pipe.counters
        rep.cov["verdicts_by_kind_of_case"] = pipe.labels
        rep.cov["deviation_classes"] = pipe.classes
        rep.cov["records_by_feature"] = dict(sorted(pipe.feat.items()))
        rep.cov["rule"] = ("cases: hand-written witnesses; probe programs over TLC-enumerated module trees (seeded subsets: thorough 6000 of 21060, "
                           "quick 450 of 2628) and layouts (thorough: all 14580, quick: 1000); seeded random trees x search configurations; "
                           "modulemeta queries.  Every case runs the real binary in a sandbox (HOME, cwd, $ORIGIN inside it) and, when the "
                           "configuration is environment-independent, the library API.  non-trivial = accepted record, distinct by (arguments, files)")
        if pipe.counters.get("undecided", 0) or any(k.startswith("tlc_") for k in pipe.counters):
            rep.notes.append("some records were not decided by TLC (counted, never compared)")
        if problems:
            for p_ in problems:
                vc.log("TOOL/SPEC: " + p_)
            rep.notes += problems
            rep.finish()
            return 2
        return rep.finish()
    finally:
        work.cleanup()
