"""C07 - cancellation is prompt, prefix-consistent and terminal; false is forever; advancing after an error does not panic.

VM.tla makes the poll of ctx.Done() explicit (one per instruction) and `cancel = k` closes the context from the k-th
poll on.  For each program and each cancellation point k the REAL interpreter is run under a context whose Done()
counts calls (cancellation at exactly the k-th poll, no hook), Next() is called until false and 3 more times, and the
recorded step trace + results are validated state by state by TLC against VM.tla with the protocol invariants on.
Observable violations: a value that is not the next value of the uncancelled run; no context error at poll k; results
after the context error or after false; a panic; an instruction executed without a poll (hook step count != poll count);
a run that does not return (watchdog).
"""
import json
import random

import evalfam
import jqgen
import vcheck as vc
import vmfam

PROP = "C07"

LOOPS = [
    "def f: f; f", "def f: ., f; f", "def f: .+1 | f; f", "repeat(.)", "repeat(.; .)" if False else "repeat(1)", "range(infinite)", "range(infinite) | empty",
    "[limit(5; repeat(1))]", "until(. > 100; .+1)", "recurse(.+1)", "recurse(if . < 50 then .+1 else empty end)", "limit(3; repeat(1))",
    "label $l | repeat(1) | ., break $l", "label $f | range(infinite) | empty", "first(range(infinite))", "last(range(1000))", "last(range(infinite))" if False else "last(range(500))",
    "path(..)", "path(.. | repeat(.))", "[paths]", "reduce range(infinite) as $x (0; .)", "reduce range(100) as $x (0; . + $x)", "foreach range(infinite) as $x (0; . + $x)",
    "foreach range(10) as $x (0; . + $x; [$x, .])", ".. |= .", ".[] |= (. , .)", "(.. | select(type == \"number\")) |= . + 1", "del(..)", "to_entries", "[.[]?] | sort | unique",
    "try error catch .", "error", ".[] | error", "(1, error, 2)", "[.[]?] | map(try error catch .)", "try repeat(error) catch .", "def f: try (error) catch f; f" if False else "try (1, error) catch 2",
    "label $l | empty", ".[]", ".[]?", "1 | .[]", "limit(1; .[]?)", "first(.[]?)", "empty", "isempty(repeat(1))", "any(repeat(true))", "all(repeat(false))",
    "[range(50)] | map(. * 2) | add", "[range(30)] | sort_by(-.) | .[0]", "tostream", "[tostream] | fromstream(.[])", "while(. < 100 and type == \"number\"; .+1)" if False else "0 | while(. < 100; .+1)",
    "def fib: if . < 2 then . else (.-1 | fib) + (.-2 | fib) end; 12 | fib", "def f($n): if $n > 50 then $n else f($n + 1) end; f(0)", "[recurse] | length", "walk(.)",
    "input" if False else "getpath([\"a\",\"b\"])", "range(0; infinite; 2)", "range(5; -infinite; -1)" if False else "range(5; -5; -1)", "[combinations]" if False else "[[1,2],[3,4]] | [combinations]",
    "limit(10; def f: ., (.+1 | f); 0 | f)", "[limit(20; 0 | recurse(.+1))] | length", "nth(5; repeat(1))", "until(false; .)", "0 | until(. == 10; .+1)",
]


# every way an instruction can fail (and be re-entered by the next call): the iterator is advanced after each error
# errors raised by natives that keep state in the compiled code (the regexp cache): the same failing call again in the same run
REERRS = ['.[]? | test("(")', '(1, 2, 3) | tostring | test("(")', '.[]? | try test("[") catch "c"', '.[]? | (test("("))?', '(1, 2) | "a" | sub("(?<x"; "")', '("a", "b") | [match("a{2,1}")]', '("a", "b") | test("("; "g"), test("a")',
          '("a", "b", "c") | test("("; "x")', 'range(3) | tostring | test("\\\\p{Foo}")', '("a", "b") | (test("(") // 1)', '("a", "b") | splits("(")', '("a", "b") | test("a"; "q")', '[.[]? | strings | try test("(") catch "bad"]',
          '("a", "b") | capture("(?<n")', '("a", "b") | gsub("("; "x")', '("a", "b") | [scan("[")]', '("a", "b") | ascii_downcase | test("*")']
ERRS = REERRS[:6] + ["path([1] | .[])", "path({a:1} | .[])", "[1] | path(.[0] | [2] | .[])", "path(1 | .a)", "path(1 | .[0])", "path([1] | .[0])", "path({a:1} | .a)", "path(1 | .[1:])", "path(getpath([\"a\"]) | 1 | getpath([\"b\"]))",
        "(1 | .[]) = 2", "del([1] | .[])", "([1] | .[0]) |= 3", ".[]", ".a", ".[0]", ".[1:]", "{(1): 2}", "{(null, \"a\", 1): 2}", "{a: 1} | .[0]", "[1] | .a", "1 | .[]?, .[]", "to_entries", "keys", "error", "error(null)", "error(\"x\")",
        "[.[]? | error]", "(1, error, 2, error, 3)", "(error, 1)", "error | 1", "try error(\"x\") catch error(\"y\")", "(try error catch .) | error", ".[] |= error", "reduce error as $x (0; .)", "reduce (1, 2) as $x (0; error)",
        "foreach (1, error) as $x (0; .)", "foreach (1, 2) as $x (0; error; .)", "foreach (1, 2) as $x (0; .; error)", "if error then 1 else 2 end", "if . then error else error end", "error as $x | 1", "1 as $x | error",
        "[error]", "{a: error}", "{(error): 1}", "error + 1", "1 + error", "-error", "error?", "(.. | error)", "path(error)", "[paths(error)]", "getpath(error)", "getpath(1)", "getpath([\"a\", 1, \"b\"]) | error",
        "limit(error; 1)", "limit(1; error)", "first(error)", "first(range(3) | error)", "range(error)", "range(\"a\")", "label $l | error", "label $l | (1, break $l, error)", ".[error]", ".[1:error]", ".[\"a\":]",
        ". as [$a] ?// $a | error", ". as [$a] | $a", ". as {a: $a} | $a", ".[] as [$a] ?// {a: $a} | $a | error", "implode", "[1114112, -1] | implode", "tojson | fromjson | error", "\"{\" | fromjson", "\"\\(error)\"",
        "@base64d", "\"%zz\" | @urid", "test(\"(\")", "[splits(\"(\")]", "sub(\"(\"; \"x\")", "ltrimstr(1) | error", "input", "[inputs]", "halt_error", "(1, halt_error, 2)", "halt", "1 / 0", "1 % 0", "[1] | .[1e1000]",
        "setpath(1; 2)", "setpath([1]; 2)", "delpaths(1)", "delpaths([[\"a\", 0]]) | error", "flatten(-1)", "tonumber", "\"x\" | tonumber", "[1, [2]] | implode", "{} | has(1)", "[] | has(\"a\")", "splits(1)", "ascii_downcase",
        "join(\",\")", "[[1]] | join(\",\")", "add", "{a: 1} | add | error", "min_by(error)", "sort_by(error)", "group_by(.[])", "with_entries(error)", "walk(error)", "env | error", "$ENV | .a | error", "$__loc__ | error",
        "def f: error; f, f", "def f(g): g, g; f(error)", "def f($a): $a; f(error, 1)", "[limit(3; repeat(error))]", "[limit(3; repeat(try error catch .))] | error", "first(empty) // error", "(error // 1)", "(1 // error)",
        "(null // error)", "(false, error) // 2", "isempty(error)", "any(error; .)", "all(.[]?; error)", "[range(3)] | .[] |= (if . == 1 then error else . end)", "try (1, error, 2) catch (error, 3)", "[.[]?, error] | length"]


def run(tier, seed, replay):
    rep = vc.Report(PROP, tier, seed)
    rep.assumptions += ["one poll of ctx.Done() per instruction is what `the next step of the interpreter` means (execute.go Next prologue)"]
    vh, _ = vc.build()
    work = vc.Work(PROP)
    try:
        prelude = evalfam.make_prelude(work, vh)
        r = random.Random(seed)
        quick = tier == "quick"
        uni = jqgen.input_universe()
        inputs = [jqgen.V(x) for x in (None, 0, [1, [2, 3]], {"a": {"b": 1}, "c": [0, 1]})]
        if replay:
            c = json.load(open(replay))["case"]
            progs = [(c["src"], c["input"])]
            ks_override = [c.get("cancel", 0)] if c.get("cancel_after") is None else [-1]
            after_override = c.get("cancel_after")
        else:
            ks_override, after_override = None, None
            progs = [(s, r.choice(inputs)) for s in LOOPS]
            errs = ERRS if not quick else r.sample(ERRS, 70) + ERRS[:12]
            progs += [(s, r.choice(inputs)) for s in errs] + [(s, jqgen.V(x)) for s in (ERRS[:40] if not quick else ERRS[:12]) for x in ([7, 8], {"b": 2})]
            progs += [(c["src"], c["inputs"][0]) for c in evalfam.regression_cases()]
            progs += [(s, jqgen.V(x)) for s in REERRS for x in (["a", "b", "c"],)]
            for _ in range(40 if quick else 400):
                progs.append((jqgen.program(r, 3), r.choice(uni)))
            if not quick:
                progs += [(c["src"], c["inputs"][0]) for c in evalfam.corpus_cases(work, vh)]
        # 1. uncancelled runs (under a context, so every instruction polls): the reference behaviour
        base_cases = [{"id": i, "src": s, "input": v, "ctx": True} for i, (s, v) in enumerate(progs)]
        base = vmfam.record(work, vh, base_cases, tag="base", maxsteps=3000, maxnext=60)
        cases = []
        ref = {}
        for b in base:
            if "code" not in b or "panic" in b or b.get("hang"):
                if b.get("hang"):
                    rep.violation("the uncancelled run hangs (does not return and ignores its budget context): %r" % b["src"],
                                  {"family": "vm", "case": {"src": b["src"], "input": b["input"], "cancel": 0}, "actual": {"hang": True}})
                if "panic" in b:
                    rep.violation("panic: %s in %r" % (b["panic"], b["src"]), {"family": "vm", "case": {"src": b["src"], "input": b["input"], "cancel": 0}, "actual": {"panic": b["panic"]}})
                continue
            total = len(b["steps"])
            if not b["cut"] and b["polls"] != total:
                rep.violation("%d instructions were executed but the context was polled %d times: %r" % (total, b["polls"], b["src"]),
                              {"family": "vm", "case": {"src": b["src"], "input": b["input"], "cancel": 0}, "actual": {"steps": total, "polls": b["polls"]}})
            if ks_override:
                ks = ks_override
            else:
                # a reference run that was cut (infinite program) stopped at `total`: only points before that are comparable
                top = total - 1 if b["cut"] else total + 1
                ks = set(range(1, min(top, 24 if quick else 400) + 1))
                ks |= {r.randrange(1, top + 1) for _ in range(6 if quick else 60)} if top > 0 else set()
                ks |= {k for k in (total, total + 1, total - 1) if 0 < k <= top}
            for k in sorted(ks):
                if k <= 0:
                    continue
                cid = len(cases)
                cases.append({"id": cid, "src": b["src"], "input": b["input"], "cancel": k, "noast": True})
                ref[cid] = b
            # the caller cancels BETWEEN two Next calls (after m results; m = 0: a context that is done before the first call): for the interpreter
            # this is a cancellation at the first poll of the following call - the harness records that poll as the record's `cancel`
            nres = len(b["next"])
            ms = {after_override} if ks_override else ({0, 1, 2, nres - 1, nres} if quick else set(range(0, min(nres, 12) + 1)) | {nres - 1, nres})
            for m in sorted(ms):
                if m is None or m < 0 or m > nres or (ks_override and after_override is None):
                    continue
                cid = len(cases)
                cases.append({"id": cid, "src": b["src"], "input": b["input"], "cancel_after": m, "noast": True})
                ref[cid] = b
        cases.append({"id": len(cases), "src": ".", "input": jqgen.V(1), "cancel": 1, "noast": True})
        ref[len(cases) - 1] = None
        rep.cov["programs"] = len(progs)
        rep.cov["cancellation_points"] = len(cases)

        def on_verdict(rec, v):
            b = ref.get(rec["id"])
            if v["v"] == "out-mismatch":
                what = "cancelled at poll %s%s, %r on %s returned %s but the interpreter model returns %s" % (
                    rec.get("cancel"), " (by the caller, after %d results)" % rec["cancel_after"] if "cancel_after" in rec else "", rec["src"], jqgen.unV(rec["input"]), rec["next"][-3:], v.get("out", [])[-3:])
                rep.violation(what, {"family": "vm", "case": {"src": rec["src"], "input": rec["input"], "cancel": rec.get("cancel"), "cancel_after": rec.get("cancel_after")},
                                     "actual": rec["next"], "expected": v.get("out")})

        recs, vs, counters = vmfam.check(rep, work, vh, prelude, cases, family="vm", tag="c07", on_verdict=on_verdict)
        # 2. observable protocol checks on the real results themselves (independent of VM.tla)
        for rec in recs:
            if rec.get("hang"):
                rep.violation("cancelled at poll %s the run does not return: %r" % (rec.get("cancel"), rec["src"]),
                              {"family": "vm", "case": {"src": rec["src"], "input": rec["input"], "cancel": rec.get("cancel")}, "actual": {"hang": True}})
                continue
            if "next" not in rec:
                continue
            b = ref.get(rec["id"])
            k = rec.get("cancel")
            if not k:
                continue          # cancel_after beyond the end of the run: nothing was cancelled
            nxt = rec["next"]
            case = {"family": "vm", "case": {"src": rec["src"], "input": rec["input"], "cancel": k, "cancel_after": rec.get("cancel_after")}, "actual": nxt}
            ctxpos = [i for i, x in enumerate(nxt) if "ctx" in x]
            if b is not None:
                total = len(b["steps"])
                if k <= total:
                    if not ctxpos:
                        rep.violation("cancelled at poll %d of %s but Next never returned the context error: %r" % (k, total, rec["src"]), case)
                        continue
                    if len(rec["steps"]) != k:
                        rep.violation("cancelled at poll %d but %d instructions were started before Next returned the context error: %r" % (k, len(rec["steps"]), rec["src"]), case)
                pre = nxt[:ctxpos[0]] if ctxpos else nxt
                if pre != b["next"][:len(pre)]:
                    rep.violation("values before cancellation are not a prefix of the uncancelled run: %r: %s vs %s" % (rec["src"], pre[-2:], b["next"][:len(pre)][-2:]), case)
            if ctxpos and ctxpos[0] != len(nxt) - 1:
                rep.violation("results after the context error: %r: %s" % (rec["src"], nxt[ctxpos[0]:][:3]), case)
        rep.cov["vm"] = counters
        rep.cov["exhaustive"] = not quick
        rep.cov["rule"] = ("loop programs (finite and infinite) + random/corpus programs; for each, cancellation at every poll k <= 24 (quick) / 400 (thorough), "
                           "sampled larger k, and k around the end; non-trivial = a run that returned at least one result; distinct by (source, input, k)")
        return rep.finish()
    finally:
        work.cleanup()
