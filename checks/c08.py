"""C08 - no query text or input can crash the library or the command.

spec     : Outcome.tla - the protocol of observable outcomes (Parse -> Compile -> Run -> Next* with Marshal/Preview/Error() of every
           result; the command's exit status and stderr).  A panic, a runtime fatal error and a hang are not outcomes.  The design-level
           crash freedom of compiler + interpreter (every action precondition of VM.tla holds) is checked by the C01/C04/C07 checks on
           the bytecode of all their programs; here the same machine runs on fuzzed programs that still compile.
explore  : the quantifier "every byte string" is reached by GENERATION, not by the model: byte-level mutations of the corpus queries,
           grammar-generated queries calling every builtin with wrong-typed and boundary arguments, inputs over all Go representations
           (NaN/inf, invalid UTF-8, deep nesting), random command lines with random stdin.  Every recorded walk / invocation is
           validated by TLC against Outcome.tla.
"""
import json
import os
import random
import subprocess

import evalfam
import jqgen
import vcheck as vc
import vmfam

PROP = "C08"
FLAGS = ["-n", "-r", "-j", "-c", "-s", "-e", "-R", "-C", "-M", "-S", "--tab", "--indent", "3", "--indent", "9", "--indent", "x", "--stream", "--yaml-input", "--yaml-output", "--raw-output0", "--seq",
         "--arg", "a", "b", "--argjson", "a", "1", "--argjson", "a", "{", "--args", "--jsonargs", "--slurpfile", "f", "/nonexistent", "--rawfile", "f", "/dev/null", "-f", "/nonexistent", "-L", "/tmp",
         "--exit-status", "--", "-", "-x", "--nope", "-h", "-v", "--indent=2", "--arg=1", "-nr", "-cs", "-e1", ""]
STDIN = [b"", b"null", b"1 2 3", b"[1,2", b"{\"a\":[1,{\"b\":null}]}", b"\xff\xfe", b"\"\\ud800\"", b"1e1000 -1e1000 1e-1000", b"[" * 300 + b"]" * 300, b"{\"a\":" * 100 + b"1" + b"}" * 100,
         b"nan", b"\"a\x00b\"", b"- a\n- b: [1, 2]\n", b"a: &x [1]\nb: *x\n", b"{\"a\":1}{\"a\":2}[]\"x\"", b"123456789012345678901234567890.123456789e-400", b"[1,,2]", b"\n\n\n", b"\"" + b"a" * 20000 + b"\" x"]


def mutate(r, bs):
    bs = bytearray(bs)
    for _ in range(r.choice([1, 1, 2, 3, 5])):
        k = r.randrange(7)
        if k == 0 and bs:
            bs[r.randrange(len(bs))] = r.randrange(256)
        elif k == 1:
            bs.insert(r.randrange(len(bs) + 1), r.choice(b"()[]{}|,.\"\\$:;?@#-+*/%<>=!&~^`'\x00\n\t\xff\xc3 01e_Eaz"))
        elif k == 2 and bs:
            del bs[r.randrange(len(bs))]
        elif k == 3 and len(bs) > 2:
            i, j = sorted(r.sample(range(len(bs)), 2))
            bs[i:j] = bs[i:j] * 2
        elif k == 4 and len(bs) > 1:
            bs = bs[:r.randrange(1, len(bs))]
        elif k == 5:
            tok = r.choice([b"reduce ", b"foreach ", b" as $x | ", b"label $l | ", b"break $l", b"def f: ", b"try ", b" catch ", b"if ", b" then ", b" elif ", b" else ", b" end", b"\\(", b"?//", b"..", b"::", b"import \"a\" as b;",
                            b"1e", b"1e+", b".5E-", b"\"\\u12\"", b"\"\\(\"", b"@base64 \"\\(.)\"", b"$__loc__", b"$ENV", b"input", b"ltrimstr(", b"getpath([", b"limit(", b"path(", b"[.[]|", b"{(", b"-", b"//="])
            i = r.randrange(len(bs) + 1)
            bs[i:i] = tok
        else:
            i = r.randrange(len(bs) + 1)
            bs[i:i] = bytes([r.randrange(128, 256)])
    return bytes(bs)


def run(tier, seed, replay):
    rep = vc.Report(PROP, tier, seed, level="exploration")
    rep.assumptions += ["programs that legitimately demand unbounded time or memory are outside the claim: runs are cut by a poll/time/heap budget and counted"]
    vh, gojq = vc.build()
    work = vc.Work(PROP)
    try:
        prelude = evalfam.make_prelude(work, vh)
        r = random.Random(seed)
        quick = tier == "quick"
        cor = evalfam.corpus_cases(work, vh)
        names = json.loads(vc.sh([gojq, "-nc", "builtins"]).stdout)
        deep = jqgen.V(None)
        for _ in range(200):
            deep = {"t": "arr", "a": [deep]}
        wide = jqgen.V(list(range(300)))
        weird = [jqgen.V(x) for x in (None, True, 0, -1, 2 ** 63, -(2 ** 63) - 1, 10 ** 40, 0.5, float("nan"), float("inf"), float("-inf"), "", "a", "\u0000", "\U0010FFFF", [], {}, [[[]]], {"a": {"a": {"a": None}}},
                                      [1, "a", None, [2]], {"": 0}, "1e1000", "{", list(range(40)))] + [deep, wide, {"t": "bytes", "b": [255, 254]}, {"t": "arr", "a": [{"t": "bytes", "b": [237, 160, 128]}]},
                                                                                                          {"t": "obj", "o": [[[97], {"t": "bytes", "b": [192]}]]}]
        weird += [jqgen.V(x) for x in (["a", [1], "b"], [[], "x"], ["a", {}, "b", "c"], [1, None, "a", [2], {"b": 3}, True], {"a": [1, "x"], "b": None}, [[1, 2], "a", [3]], ["é", 2 ** 64, 0.5, "z"])]
        # empty containers in leading / nested positions: under representation 4 they are nil slices and nil maps (values of the supported Go types)
        emptyish = [jqgen.V(x) for x in ([{}, {"a": 1}], [[], [1]], {"x": {}, "y": {"a": 1}}, [[{}, {"k": 2}]], {}, [], [{}], [[]], {"a": {}}, {"a": []}, [{"a": 1}, {}], [{}, {}], [[], []], [{}, None, {"a": {}}])]
        weird += emptyish
        if replay:
            c = json.load(open(replay))["case"]
            libcases = [dict(c, id=0)] if "srcb" in c else []
            clicases = [c] if "argv" in c else []
        else:
            libcases = []
            for _ in range(2500 if quick else 120000):
                base = r.choice(cor)["src"].encode()
                libcases.append({"id": len(libcases), "srcb": list(mutate(r, base)), "inputs": r.sample(weird, 2), "rep": r.randrange(5)})
            for _ in range(1500 if quick else 60000):
                n, ar = r.choice(names).rsplit("/", 1)
                args = "; ".join(r.choice([".", "null", "-1", "1e1000", "nan", "infinite", "\"\"", "\"\\u0000\"", "[]", "{}", "[.]", "..", "empty", "error", ".[0]", "$__loc__", "[limit(3;repeat(.))]", "1e400", "-0", "\"%\"", "\"(\"", "[[1,2],[3]]",
                                            "{\"a\":[]}", "9223372036854775807", "-9223372036854775808", "536870912", "0.1", "\"\\ud800\"" if False else "\"é\""]) for _ in range(int(ar)))
                src = r.choice(["%s", "[%s]", "try %s catch .", "path(%s)", ".[] | %s", "%s as $x | $x", "first(%s)", "[limit(3; %s)]", "(%s)?", "reduce %s as $x (.; .)", ". as [$a] ?// $a | %s"]) % (n + ("(" + args + ")" if int(ar) else ""))
                libcases.append({"id": len(libcases), "srcb": list(src.encode()), "inputs": r.sample(weird, 3), "rep": r.randrange(5)})
            for _ in range(300 if quick else 10000):
                libcases.append({"id": len(libcases), "srcb": [r.randrange(256) for _ in range(r.randrange(12))], "inputs": [jqgen.V(None)], "rep": 0})
            # the end of the text met in every sub-state of the scanner (comment, escaped comment continuation, string, escape,
            # interpolation, number parts, format, variable, operators of several bytes): seeded C08_10
            tails = [b"#", b"# c", b"#\\", b"# c \\", b"# c \\\\", b"#\\\r", b"# \\\r\n", b"#\\\n", b"#\\\n\\", b"\"", b"\"a", b"\"\\", b"\"\\u", b"\"\\u12", b"\"\\(", b"\"\\(1", b"\"\\(\"",
                     b"@", b"@a", b"$", b"$a", b"$__", b".", b"..", b".a", b".\"", b".[", b"?", b"?/", b"?//", b"1.", b"1e", b"1e+", b".5E-", b"0x", b"\\", b"|", b"|=", b"/", b"//", b"//=", b"<", b"!", b"!=", b"a:", b"a::", b"-", b"\x00", b"\xff", b"\xc3"]
            for tail in tails:
                for base in [b"1", b"", b".", b"1 "] + [r.choice(cor)["src"].encode() for _ in range(3 if quick else 40)]:
                    for sep in (b"", b" ", b"\n"):
                        libcases.append({"id": len(libcases), "srcb": list(base + sep + tail), "inputs": [jqgen.V(None)], "rep": 0})
            # every builtin on EVERY boundary input (arguments: the input itself, a string, a number)
            for nm in names:
                n, ar = nm.rsplit("/", 1)
                if n in ("input", "inputs", "halt", "halt_error", "debug", "stderr", "input_filename", "repeat", "range", "until", "while", "recurse", "limit", "combinations", "walk", "env", "builtins"):
                    continue
                for args in ([".", "\",\"", "1"], ["\"a\"", ".", "."], ["0", "null", ".[0]"]):
                    src = n + ("(" + "; ".join(args[:int(ar)]) + ")" if int(ar) else "")
                    libcases.append({"id": len(libcases), "srcb": list(src.encode()), "inputs": weird, "rep": r.randrange(5)})
                    libcases.append({"id": len(libcases), "srcb": list(src.encode()), "inputs": emptyish, "rep": 4})
                    if int(ar) == 0:
                        break
            # every builtin with wrong-typed arguments INSIDE path expressions / updates (the interpreter's path tracking makes its own
            # assumptions about what a native returned), and repeated uses of one compiled query (state kept in the code: regexp cache)
            patharg = [".", "1", "\"a\"", "null", "[\"a\", null]", "{}", "[0]", "-1", "[[0]]", "(1, [0])", "empty", "error"]
            pathctx = ["path(%s)", "[paths(%s)]?", "(%s) = 1", "(%s) |= .", "del(%s)", "path(%s | .[]?)", "path(.[]? | %s)", "[path(%s)?]", "path(first(%s))", "(%s) += 1", "try path(%s) catch .", "path(%s | %s)"]
            nullish = [jqgen.V(x) for x in (None, [None], {"a": None}, [], {}, 0, "a", [[0]], {"a": [1]})]
            k = 0
            for nm in names:
                n, ar = nm.rsplit("/", 1)
                if n in ("input", "inputs", "halt", "halt_error", "debug", "stderr", "input_filename", "repeat", "range", "until", "while", "recurse", "limit", "combinations", "walk", "env", "builtins") or int(ar) > 2:
                    continue
                for _ in range(2 if quick else 12):
                    call = n + ("(" + "; ".join(r.choice(patharg) for _ in range(int(ar))) + ")" if int(ar) else "")
                    ctx = pathctx[k % len(pathctx)]
                    k += 1
                    libcases.append({"id": len(libcases), "srcb": list((ctx.replace("%s", call)).encode()), "inputs": nullish, "rep": r.randrange(5)})
            for n in ("getpath", "setpath", "delpaths", "paths", "pick", "to_entries", "del", "path", "getpath"):
                for a in patharg:
                    for ctx in pathctx:
                        call = {"setpath": "setpath(%s; 1)", "delpaths": "delpaths([%s])", "paths": "paths(%s)", "to_entries": "to_entries[%s]?"}.get(n, n + "(%s)") % a
                        libcases.append({"id": len(libcases), "srcb": list(ctx.replace("%s", call).encode()), "inputs": nullish[:5], "rep": 0})
            strs = [jqgen.V(x) for x in ("a", "b", "ab(", "", "a", "(")]
            for f in ("test(%s)", "[match(%s)]", "[match(%s; \"g\")]", "capture(%s)", "[scan(%s)]", "[splits(%s)]", "split(%s; null)", "sub(%s; \"x\")", "gsub(%s; \"x\")", "test(%s; \"x\")", "test(%s; \"gi\")", "ascii_downcase | test(%s)"):
                for re in ("\"(\"", "\"[\"", "\"a{2,1}\"", "\"\\\\\"", "\"(?<n\"", "\"a**\"", "\"(?P<x>a)(?P<x>b)\"", "\"\\\\p{Foo}\"", ".", "\"a\"", "\"\""):
                    for wrap in ("%s", "try %s catch .", ".[]? // . | try %s catch \"bad\"", "(%s)?, (%s)?"):
                        libcases.append({"id": len(libcases), "srcb": list(wrap.replace("%s", f % re).encode()), "inputs": strs, "rep": 0})
            clicases = []
            for _ in range(500 if quick else 12000):
                argv = [r.choice(FLAGS) for _ in range(r.randrange(5))]
                q = r.choice([r.choice(cor)["src"], mutate(r, r.choice(cor)["src"].encode()).decode("utf-8", "replace").replace("\x00", ""), ".", "halt_error", "halt_error(300)", "error", "input", "inputs", "$ENV|length", "env|length", "input_filename", "debug", "stderr", "[limit(5;repeat(1))]", ".[", "@base64d", "ltrimstr(1)", "\"\\(1;2)\""])
                argv.insert(r.randrange(len(argv) + 1), q)
                clicases.append({"argv": argv, "stdin": list(r.choice(STDIN)), "halts": "halt" in q})
            # every COMBINATION of the flags that select how input is read and how output is written (readers and wrappers are chosen by
            # separate switches: a pair that disagrees about the value type must not crash), on documents of every kind
            import itertools
            inflags = ["-R", "--yaml-input", "-s", "-n", "--stream", "--seq"]
            outflags = [[], ["-r"], ["-j"], ["--raw-output0"], ["--yaml-output"], ["-c", "-S"], ["--tab", "-C"]]
            docs = [b"a: 1\n", b"- a\n- b: [1, 2]\n", b"1 2 3", b"\"s\"", b"{\"a\":[1,{\"b\":null}]}", b"", b"[1,", b"x: [\n", b"plain text\nline 2\n", b"\x1e[1]\n\x1e2", b"null"]
            combos = [list(c) for k in range(1, 5) for c in itertools.combinations(inflags, k)]
            for fl in (combos if not quick else r.sample(combos, 40) + [["-R", "--yaml-input", "-s"], ["--yaml-input", "--stream"], ["-R", "--stream", "-s"], ["--seq", "-R"], ["--yaml-input", "-s", "-n"]]):
                for q in ((".", "inputs", "[., input?]") if not quick else (r.choice([".", "inputs", "[., input?]"]),)):
                    for d in (docs if not quick else r.sample(docs, 4)):
                        argv = fl + r.choice(outflags) + [q]
                        r.shuffle(argv)
                        clicases.append({"argv": argv, "stdin": list(d), "halts": False})
            # regular expressions whose capture groups do not match left to right, are optional, nested, repeated, empty or named (the match
            # records are built from the engine's index pairs: every arrangement of them must be handled)
            res = ["(?:(a)|(b))+", "(a)|(b)", "((a)|b)*", "(?<x>a)?(?<y>b)?", "(a*)(b*)", "(?:(?<w>[a-z]+)|(?<n>[0-9]+)|:)+", "(a)(?:(b)|(c))*", "^(.)(.)?(.)?$", "(?i)(A)|(b)", "\\\\b(\\\\w+)\\\\b", "(|a)+", "(a|)(b|)", "()",
                   "(?:(b)|(a))*", "((((a))))", "(a)?(b)?(c)?", "(?<k>.)(?<k2>.)?", "(\\\\d)|(\\\\D)", "(?:x|(y))+?", "(é)|(a)", "(?s)(.)(\\\\n)?"]
            subj = [jqgen.V(x) for x in ("ba", "ab", "12:ab", "aXb", "", "abcabc", "éa☆", "a\nb", "yxy")]
            for re_ in res:
                for f in ('[match("%s")]', '[match("%s"; "g")]', 'capture("%s")', '[capture("%s"; "g")]', '[scan("%s")]', 'sub("%s"; "<\\(.)>")' if False else 'sub("%s"; "-")', 'gsub("%s"; "-")', '[splits("%s")]', 'test("%s")',
                          '[match("%s"; "gi") | .captures[] | .offset, .length, .string, .name]', 'sub("(?<all>%s)"; .all)', '[.[]? // . | strings | match("%s"; "g").captures | length]'):
                    libcases.append({"id": len(libcases), "srcb": list((f % re_).encode()), "inputs": subj if not quick else r.sample(subj, 4), "rep": 0})
        # --- library walks
        libres = vc.run_restartable([vh, "fuzz"], libcases, work, "fuzz", timeout=3400)
        trace = []
        for c, x in zip(libcases, libres):
            rep.count("evaluations")
            case = {"family": "fuzz", "case": c}
            src = bytes(c["srcb"]).decode("utf-8", "replace")
            if "fatal" in x or x.get("hang"):
                rep.violation("%s on query %r" % ("runtime fatal error: " + x["fatal"] if "fatal" in x else "hang (no return, cancelled context ignored)", src), dict(case, actual=x.get("fatal") or "hang"))
                continue
            trace.append(x)
        # --- command invocations
        for i, c in enumerate(clicases):
            rep.count("evaluations")
            try:
                p = subprocess.run([gojq] + c["argv"], input=bytes(c["stdin"]), stdout=subprocess.PIPE, stderr=subprocess.PIPE, timeout=10, cwd=work.dir,
                                   env={"PATH": "/usr/bin:/bin", "HOME": work.dir, "NO_COLOR": "", "GOJQ_COLORS": r.choice(["", "0;31", "x", "1:2:3:4:5:6:7:8"]) if False else ""})
                err = p.stderr.decode("utf-8", "replace")
                rec = {"id": len(trace), "fam": "cmd", "exit": p.returncode, "timeout": False, "halts": c["halts"],
                       "trace": ("goroutine " in err and ("panic:" in err or "fatal error:" in err)) or "runtime error:" in err or "\npanic: " in "\n" + err, "case": i}
            except subprocess.TimeoutExpired:
                rec = {"id": len(trace), "fam": "cmd", "exit": -1, "timeout": True, "halts": c["halts"], "trace": False, "case": i}
            trace.append(rec)
        for k, t in enumerate(trace):
            t["id"] = k
        verdicts, stats = vc.validate_sharded(work, trace, "Outcome.tla", "Outcome.cfg", {}, tag="outc", timeout=1200, per_shard_min=300)
        rep.add_tlc(stats)
        for t, v in zip(trace, verdicts):
            if "tlc" in v:
                rep.count("out_of_model")
                continue
            if v.get("undecided"):
                rep.count("out_of_model")
                continue
            if v["ok"]:
                rep.count("traces_validated_against_impl")
                if t["fam"] == "lib":
                    kinds = sorted({e["e"] for e in t["events"]})
                    rep.nontrivial([t["srcb"], kinds])
                    if len(kinds) > 3:
                        rep.sample({"query": bytes(t["srcb"]).decode("utf-8", "replace"), "events": [e["e"] for e in t["events"]][:12]}, limit=6)
                else:
                    rep.nontrivial(["cmd", clicases[t["case"]]["argv"], clicases[t["case"]]["stdin"][:20]])
                continue
            if t["fam"] == "lib":
                ev = t["events"][v["at"] - 1] if v.get("at") else {}
                rep.violation("%s: query %r, event %s" % (v["why"], bytes(t["srcb"]).decode("utf-8", "replace"), ev),
                              {"family": "fuzz", "case": next(c for c in libcases if c["srcb"] == t["srcb"]), "actual": {"why": v["why"], "event": ev}})
            else:
                c = clicases[t["case"]]
                rep.violation("%s: gojq %r with stdin %r exits %s" % (v["why"], c["argv"], bytes(c["stdin"])[:60], t["exit"]), {"family": "cmd", "case": c, "actual": t})
        # --- the interpreter model on fuzzed programs that still compile: no action precondition may fail
        sample = [c for c, x in zip(libcases, libres) if any(e.get("e") == "compile_ok" for e in x.get("events", []))]
        vmcases = []
        for c in r.sample(sample, min(len(sample), 250 if quick else 4000)):
            try:
                src = bytes(c["srcb"]).decode("utf-8")
            except UnicodeDecodeError:
                continue
            if "bytes" in json.dumps(c["inputs"][0]) or len(json.dumps(c["inputs"][0])) > 3000:
                continue
            vmcases.append({"id": len(vmcases), "src": src, "input": c["inputs"][0], "noast": True})
        _, _, vmc = vmfam.check(rep, work, vh, prelude, vmcases, family="vm", tag="c08vm")
        rep.cov["vm"] = vmc
        rep.cov["library_walks"] = len(libcases)
        rep.cov["command_invocations"] = len(clicases)
        rep.cov["rule"] = ("byte-level mutations of the %d corpus queries, builtin calls with wrong-typed/boundary arguments in 11 calling contexts, random byte strings; inputs over all Go representations incl. NaN/inf, invalid UTF-8, "
                           "depth-200 nesting; random command lines x stdin; non-trivial = distinct (query bytes, set of event kinds) / distinct invocation") % len(cor)
        return rep.finish()
    finally:
        work.cleanup()
