"""C12 - every emitted value serialises to valid JSON that reads back equal.

design level  : MCEncoder.tla (laws of the property on the specification of both encoders over the
                exhaustive small universe), IndentWriter.tla (the buffer machine of cli/encoder.go:
                block doubling + flush threshold, scaled constants) - model-checked by TLC.
model -> code : GenC12.tla writes that same universe; the real encoders are run on it.
code -> model : plus seeded random strings / values, float64 bit-pattern classes, deep and wide
                containers, GOJQ_COLORS variants, YAML round trips: everything the real code wrote
                (gojq.Marshal, tojson, tostring, @json, @text, interpolation, tojson|fromjson through
                the API; stdout of the real binary under -c / default / --indent n / --tab / -C / -M /
                GOJQ_COLORS / -r / -j; stderr of debug|stderr) is validated byte for byte by
                ValidateEnc.tla, which also reads the real bytes back with the specification's JSON reader.
"""
import concurrent.futures as cf
import json
import os
import random
import struct
import time

import vcheck as vc

PROP = "C12"
FID_YAML_BIG = "F-C12-yaml-bigint-string"
FID_YAML_NUM = "F-C12-yaml-number-literal"
FID_YAML_IND = "F-C12-yaml-indent-block-scalar"
FID_YAML_TAB = "F-C12-yaml-tab-leading-block-scalar"

# ---------------------------------------------------------------------------
# values (the codec of spec/Encoder.tla)

NULL = {"t": "null"}


def B(b):
    return {"t": "bool", "v": bool(b)}


def I(n):
    return {"t": "int", "neg": n < 0, "d": [int(c) for c in str(abs(n))]}


def Fbits(bits):
    return {"t": "flt", "bits": [bits >> 32, bits & 0xFFFFFFFF]}


def F(x):
    return Fbits(struct.unpack(">Q", struct.pack(">d", x))[0])


def L(text):
    return {"t": "lit", "s": list(text.encode())}


def S(bs):
    return {"t": "str", "b": list(bs)}


def A(xs):
    return {"t": "arr", "a": list(xs)}


def O(pairs):
    """pairs: [(key bytes, value)] with distinct keys; written sorted (bytewise) = canonical."""
    seen = {}
    for k, v in pairs:
        seen[bytes(k)] = v
    return {"t": "obj", "o": [[list(k), seen[k]] for k in sorted(seen)]}


def show(v, limit=200):
    """human readable rendering for messages (not used for any verdict)"""
    t = v.get("t")
    if t == "null":
        s = "null"
    elif t == "bool":
        s = "true" if v["v"] else "false"
    elif t == "int":
        s = ("-" if v["neg"] else "") + "".join(map(str, v["d"]))
    elif t == "flt":
        s = v.get("k") if v.get("k") != "fin" else "%s%s.%se%d" % ("-" if v["neg"] else "", v["d"][0], "".join(map(str, v["d"][1:])), v["e"])
        if "bits" in v:
            s = "float64(0x%08x%08x)" % tuple(v["bits"])
    elif t == "lit":
        s = "json.Number(%s)" % bytes(v["s"]).decode("latin1")
    elif t == "str":
        s = repr(bytes(v["b"]))
    elif t == "arr":
        s = "[" + ",".join(show(x, limit) for x in v["a"]) + "]"
    elif t == "obj":
        s = "{" + ",".join(repr(bytes(k)) + ":" + show(x, limit) for k, x in v["o"]) + "}"
    else:
        s = json.dumps(v)
    return s if len(s) <= limit else s[:limit] + "..."


# ---------------------------------------------------------------------------
# configurations of the command

def all_cfgs():
    base = [{"c": True}, {}] + [{"ind": i} for i in range(10)] + [{"tab": True}]
    odd = [{"tab": True, "ind": 3}, {"c": True, "tab": True}, {"c": True, "ind": 5}]          # precedence of createMarshaler
    return base, odd


JQ_DEFAULT = "0;90:0;39:0;39:0;39:0;32:1;39:1;39:34;1"
COLORS_OK = ["4::0;31:::1;34:1:2", JQ_DEFAULT, "1", "1:2:3:4:5:6:7:8", "1:2:3:4:5:6:7:8:x", ":::::::", "::::::1:1", "0:0:0:0:0:0:0:0",
             "38;5;208:48;2;1;2;3::::::", ":::::::5:9:9"]
COLORS_BAD = ["x", "1;", ";1", "1;;2", "1:2:3:x", "1 ", "1m", "::::::\x1b[1m", "1:2:3:4:5:6:7:8;", "\xff"]


def colour_cfgs(r, n):
    base, _ = all_cfgs()
    out = []
    for _ in range(n):
        c = dict(r.choice(base))
        c["C"] = True
        k = r.random()
        if k < 0.45:
            c["colors"] = list(r.choice(COLORS_OK).encode("latin1"))
        elif k < 0.55:
            c["colors"] = list(r.choice(COLORS_BAD).encode("latin1"))
        elif k < 0.62:
            c["M"] = True
        out.append(c)
    return out


# ---------------------------------------------------------------------------
# generators (all randomness from the seeded Random)

CLASS_BYTES = [0, 1, 8, 9, 10, 12, 13, 27, 31, 32, 34, 47, 60, 62, 38, 92, 97, 126, 127, 128, 133, 159, 160, 169, 191, 192, 193, 194,
               223, 224, 225, 226, 236, 237, 238, 239, 240, 241, 243, 244, 245, 254, 255]
CHARS = ["\u00e9", "\u20ac", "\ufffd", "\U0001f600", "\u2028", "\u2029", "\u0085", "\ufeff", "\ud7ff", "\ue000", "\U0010ffff", "\u0000", "\u007f",
         "\u0080", "\u07ff", "\u0800", "\uffff", "\U00010000"]


def rand_string(r):
    k = r.random()
    if k < 0.1:
        return b""
    n = r.choice([1, 1, 2, 3, 3, 4, 5, 8, 13, 40])
    out = bytearray()
    for _ in range(n):
        k = r.random()
        if k < 0.35:
            out.append(r.choice(CLASS_BYTES))
        elif k < 0.55:
            out.append(r.randrange(256))
        elif k < 0.8:
            out += r.choice(CHARS).encode("utf-8", "surrogatepass")
        elif k < 0.9:
            c = r.choice(CHARS).encode("utf-8")
            out += c[:r.randrange(1, len(c) + 1)]           # truncated sequence
        else:
            out += r.choice([b"abc", b" ", b"\\u0041", b"\\", b'"', b"\x1b[0m", b"\r\n", b"</script>"])
    return bytes(out)


def float_classes(r, nrand):
    """float64 bit patterns: both zeros, subnormals, the format thresholds and their neighbours, every
    negative exponent that gets cleaned up, powers of ten and two, the edges of the integers, random bits"""
    bits = [0x0000000000000000, 0x8000000000000000, 0x0000000000000001, 0x8000000000000001, 0x000FFFFFFFFFFFFF,
            0x0010000000000000, 0x0010000000000001, 0x7FEFFFFFFFFFFFFF, 0xFFEFFFFFFFFFFFFF, 0x7FF0000000000000, 0xFFF0000000000000,
            0x7FF8000000000000, 0xFFF8000000000001, 0x7FF0000000000001, 0x3FF0000000000000, 0x3FB999999999999A, 0x3FD3333333333334,
            0x4340000000000000, 0x433FFFFFFFFFFFFF, 0x4340000000000001, 0xC340000000000000, 0x43E0000000000000, 0xC3E0000000000000,
            0x43F0000000000000]
    out = [Fbits(b) for b in bits]

    def around(x, k=3):
        b = struct.unpack(">Q", struct.pack(">d", x))[0]
        return [Fbits(b + d) for d in range(-k, k + 1)]

    for x in (1e-6, 1e21, 1e-7, 1e-5, 1e20, 1e22, 1e-9, 1e-10, 1e-99, 1e-100, 1e100, 1e15, 1e16, 1e17, 0.1, 0.5, 123456789.125, 1e23, 5e-324, 2.2250738585072014e-308):
        out += around(x)
        out += around(-x, 1)
    for e in list(range(-324, -290, 3)) + list(range(-30, 31)) + list(range(290, 309, 3)):
        out.append(F(float("1e%d" % e)))
        out.append(F(float("%d.%de%d" % (r.randrange(1, 10), r.randrange(1, 10 ** r.randrange(1, 17)), e))) if e < 308 else F(1.5e308))
    for k in range(-1074, 1024, 37):
        out.append(F(2.0 ** k))
    for _ in range(nrand):
        k = r.random()
        if k < 0.5:
            out.append(Fbits(r.getrandbits(64)))
        elif k < 0.75:           # exponents near the two thresholds
            out.append(F(r.uniform(0.1, 10) * 10.0 ** r.randrange(-12, -3)))
        else:
            out.append(F(r.uniform(0.1, 10) * 10.0 ** r.randrange(15, 25)))
    return out


def rand_number(r):
    k = r.random()
    if k < 0.3:
        return I(r.choice([0, 1, -1, 42, 2 ** 31, -2 ** 31, 2 ** 53, 2 ** 53 + 1, 2 ** 63 - 1, -2 ** 63, r.randrange(-10 ** 6, 10 ** 6)]))
    if k < 0.4:
        return I(r.choice([2 ** 63, -2 ** 63 - 1, 10 ** 25, -10 ** 40 + 7, r.randrange(10 ** 19, 10 ** 30)]))
    if k < 0.75:
        return r.choice([F(0.0), F(-0.0), F(1.5), F(-2.25), F(1e-7), F(1e21), F(1e-6), F(3.0), F(0.1 + 0.2), F(1e300 * 1e10), F(-1e300 * 1e10),
                         Fbits(0x7FF8000000000000), Fbits(r.getrandbits(64)), F(r.uniform(-1e6, 1e6)), F(r.uniform(0, 1e-6)), F(r.uniform(1e20, 1e22))])
    return L(r.choice(["1.000", "1E+2", "-0", "1e1000", "0.0000001", "100000000000000000000000", "-1.5e-7", "0e0", "1.0E-0", "12345678901234567890.12345678901234567890"]))


def rand_value(r, depth):
    k = r.random()
    if depth <= 0 or k < 0.35:
        k = r.random()
        if k < 0.12:
            return r.choice([NULL, B(True), B(False)])
        if k < 0.4:
            return rand_number(r)
        return S(rand_string(r))
    if k < 0.7:
        return A([rand_value(r, depth - 1) for _ in range(r.choice([0, 1, 1, 2, 3, 5]))])
    return O([(rand_string(r), rand_value(r, depth - 1)) for _ in range(r.choice([0, 1, 1, 2, 3, 5]))])


def nest(depth, kind, leaf, r=None):
    v = leaf
    for d in range(depth):
        k = kind if kind != "mix" else ("arr" if (d * 7 + depth) % 3 else "obj")
        if k == "arr":
            v = A([v])
        elif k == "arr2":
            v = A([I(d), v, S(b"x")])
        else:
            v = O([(b"k%d" % (d % 3), v)] + ([(b"a", I(d))] if d % 2 else []))
    return v


def big_values(r, quick):
    """deep (block doubling: n > 32 spaces / 16 tabs, several doublings) and wide (flush above 8 KiB, several
    flushes, flush positions sweeping over token kinds) containers; returns (value, cfgs) pairs"""
    out = []
    deep_cfg = [{"ind": 9}, {"ind": 7}, {"tab": True}, {}, {"ind": 1}, {"ind": 9, "C": True}, {"c": True}]
    depths = [3, 4, 5, 8, 15, 17, 18, 19, 36, 40, 72] + ([] if quick else [100, 150, 230, 300])
    for d in depths:
        for kind in ("arr", "obj", "mix", "arr2"):
            if quick and d > 40 and kind in ("obj", "arr2"):
                continue
            out.append((nest(d, kind, r.choice([I(1), A([]), O([]), S(b"\xff")])), deep_cfg if d <= 72 else deep_cfg[:4]))
    wide_cfg = [{}, {"c": True}, {"ind": 0}, {"tab": True}, {"C": True}, {"ind": 9}]
    widths = [1636, 1637, 1638, 1639, 1640, 2047, 2731, 4100] + ([] if quick else [13000, 16400, 40000])
    for n in widths:
        out.append((A([I(i % 10) for i in range(n)]), wide_cfg if n < 5000 else wide_cfg[:3]))
    for n in ([700, 1100] if quick else [700, 1100, 5000, 9000]):
        out.append((A([S(bytes([97 + i % 26]) * (i % 7)) for i in range(n)]), wide_cfg[:4]))
        out.append((O([(b"k%05d" % i, r.choice([NULL, I(i), S(b"v"), A([])])) for i in range(n)]), wide_cfg[:5]))
    # wide and deep at once: the flush threshold is crossed at many different places of nested indentation
    for _ in range(6 if quick else 100):
        n, d = r.randrange(150, 700), r.randrange(2, 9)
        inner = nest(d, r.choice(["arr", "mix", "arr2"]), I(7))
        out.append((A([inner if i % r.randrange(2, 6) else S(rand_string(r)) for i in range(n)]),
                    [r.choice([{"ind": 9}, {"ind": 5}, {"tab": True}, {}]), {"ind": r.randrange(0, 10), "C": True}]))
    # one long string: > 8 KiB in a single write
    out.append((A([S(bytes(r.choice(CLASS_BYTES) for _ in range(9000))), I(1), A([I(2)])]), [{}, {"c": True}, {"C": True}]))
    return out


YAML_ALPHA = ["-", ":", "#", " ", "'", '"', "\n", "~", "[", "]", "{", "}", "!", "&", "*", "|", ">", "%", "@", "`", ",", "?", "=", "<",
              "0", "1", "7", "e", "E", ".", "_", "x", "o", "y", "n", "N", "t", "f", "+", "\t", "\r", "\x00", "\x1b", "\x7f", "\\", "/",
              "\u0085", "\u00a0", "\u2028", "\u2029", "\ufeff", "\u00e9", "\U0001f600", "\ufffd", "a"]
YAML_WORDS = ["true", "True", "TRUE", "false", "no", "No", "NO", "yes", "on", "off", "null", "Null", "NULL", "~", ".inf", "-.inf", ".Inf", ".nan", ".NaN",
              "1e3", "1E3", "0x10", "0o17", "017", "1_000", "0b11", "1:30", "1:30:00", "2001-01-01", "2001-01-01T00:00:00Z", "2001-01-01 00:00:00",
              "<<", "=", "!!str", "!!binary", "---", "...", "--- a", "- ", "? ", ": ", "a: b", "a:b", "a #b", "a# b", " a", "a ", "\ta", "a\t", "a\nb",
              "a\n", "\na", "a\n\nb", "a\r\nb", "  a\n b", "a\n  b\n", "|", ">", "|-", ">+", "%YAML", "@a", "`a", "[a", "{a", "a]", "a}", "a,b", "'a'", '"a"',
              "1.0", "1.", ".5", "+1", "-1", "+.5", "-0", "0.0", "1e-7", "1e+21", "12345678901234567890", "0.1e1", "1_0.5", "0x", "0o", "inf", "nan", "NaN",
              "y", "Y", "n", "N", "on", "On", "OFF", "a\u0085b", "a\u2028b", "\ufeffa", "a\x00b", "a\x07b", "\x7f", "a" * 90 + " " + "b" * 90, "a" * 200,
              ("line one is long " * 6 + "\n") * 3, " leading\nspace", "trailing space \nx", "tab\there", "# not a comment", "key: value\nother: 1"]


def yaml_values(r, quick):
    strs = [a for a in YAML_ALPHA] + [a + b for a in YAML_ALPHA for b in YAML_ALPHA] + YAML_WORDS
    if not quick:
        strs += [a + b + c for a in YAML_ALPHA[:30] for b in YAML_ALPHA[:30] for c in ("a", " ", "\n", "1")]
    vals = [S(s.encode()) for s in strs]
    out = []
    # values in sequences, as keys, nested in mappings
    for i in range(0, len(vals), 40):
        out.append([A(vals[i:i + 40])])
    for i in range(0, len(vals), 40):
        out.append([O([(bytes(v["b"]), I(j)) for j, v in enumerate(vals[i:i + 40])])])
    for i in range(0, len(vals), 25):
        out.append([O([(b"k", v)]) for v in vals[i:i + 25]] + vals[i:i + 5])            # several documents
    nums = [I(n) for n in (0, 1, -1, 2 ** 31, 2 ** 53 + 1, 2 ** 63 - 1, -2 ** 63)] + float_classes(r, 30 if quick else 400)[:260 if quick else 2000] + \
        [L(t) for t in ("1.000", "1E+2", "-0", "1e1000", "0.0000001", "100000000000000000000000", "1.0E-0")]
    for i in range(0, len(nums), 40):
        out.append([A(nums[i:i + 40])])
    out.append([NULL, B(True), B(False), A([]), O([]), A([A([]), O([])]), O([(b"", A([NULL]))]), S(b""), A([NULL, B(True)])])
    for _ in range(40 if quick else 2000):
        out.append([rand_yaml_value(r, 3) for _ in range(r.randrange(1, 4))])
    big = [[I(2 ** 63)], [A([I(-2 ** 63 - 1), I(10 ** 30)])], [O([(b"a", I(2 ** 64))])]]
    return out, big


def yaml_input_docs(r, quick):
    """YAML documents whose scalars look like numbers in YAML's wider syntax (and things near it): what
    `gojq --yaml-input -c .` prints for them must be JSON"""
    scal = []
    for sign in ("", "+", "-"):
        for ip in ("", "0", "1", "12", "00", "01", "08", "1_000"):
            for fr in ("", ".", ".0", ".5", ".50"):
                for ex in ("", "e1", "E+2", "e-3", "e01"):
                    if ip or fr not in ("", "."):
                        scal.append(sign + ip + fr + ex)
    scal += ["0x10", "-0x1F", "0o17", "017", "0b11", "0x_1", "1__0", "1_", ".inf", "-.inf", "+.inf", ".Inf", ".NaN", ".nan", "1:30", "190:20:30", "1e400",
             "-1e400", "1e-400", "0.1e1", "123456789012345678901234567890", "-123456789012345678901234567890", "0.000000000000000000001", "1.7976931348623157e309",
             "1e", "1e+", "+.", ".e1", "_1", "1,5", "1 000", "0x", "0o8", "+0x10", "0xg", "1.5.1", "--1", "+-1", "1-", "1+1", "~", "null", "true", "2001-01-01"]
    if quick:
        scal = r.sample(scal[:-40], 220) + scal[-40:]
    docs = []
    for i in range(0, len(scal), 30):
        part = scal[i:i + 30]
        docs.append("".join("- %s\n" % x for x in part))
        docs.append("".join("k%d: %s\n" % (j, x) for j, x in enumerate(part)))
        docs.append("[" + ", ".join(part) + "]\n")
        docs.append("".join("%s: %d\n" % (x, j) for j, x in enumerate(part)))          # as keys: strings
    docs += ["+1\n", "1.\n", "---\n+1\n---\n-.5\n", "a: [+1, {b: 1.}]\n"]
    return [list(d.encode()) for d in docs]


def rand_yaml_value(r, depth):
    while True:
        v = rand_value(r, depth)
        if not has_bigint(v):
            return v


def has_bigint(v):
    t = v["t"]
    if t == "int":
        n = int("".join(map(str, v["d"])))
        n = -n if v["neg"] else n
        return not (-2 ** 63 <= n < 2 ** 63)
    if t == "arr":
        return any(has_bigint(x) for x in v["a"])
    if t == "obj":
        return any(has_bigint(x) for _, x in v["o"])
    return False


# ---------------------------------------------------------------------------
# pipeline

def run_harness(work, vh, gojq, cases, tag):
    cpath, tpath = work.path(tag + ".cases.ndjson"), work.path(tag + ".trace.ndjson")
    vc.write_ndjson(cpath, cases)
    tmp = work.path(tag + ".tmp", "x")
    vc.sh([vh, "c12run", "-in", cpath, "-out", tpath, "-gojq", gojq, "-tmp", os.path.dirname(tmp), "-j", str(vc.NCPU)], timeout=3000)
    recs = vc.read_ndjson(tpath)
    for p in (cpath, tpath):
        if not os.environ.get("VERIF_KEEP"):
            os.remove(p)
    return recs


def validate(work, recs, tag, timeout, per_shard_min=12):
    return vc.validate_sharded(work, recs, "ValidateEnc.tla", "ValidateEnc.cfg", {}, tag=tag, timeout=timeout, per_shard_min=per_shard_min)


def modes_of(case):
    n = len(case["vs"])
    return (8 * n if case.get("lib") else 0) + n * len(case.get("cli") or []) + (2 * n if case.get("dbg") else 0) + (n if case.get("yaml") else 0) + \
        (1 if case.get("yin") else 0)


def part_case(case, fail):
    """the smallest sub-case that contains the failed check"""
    k = fail["k"]
    if k.startswith("cli."):
        return {"vs": case["vs"], "cli": [case["cli"][fail["i"] - 1]]}
    if k.startswith("dbg."):
        return {"vs": case["vs"], "dbg": True}
    if k.startswith("yaml."):
        return {k2: case[k2] for k2 in ("vs", "yaml", "yind", "yflags") if k2 in case}
    if k.startswith("yamlin."):
        return {"vs": [], "yin": case["yin"]}
    return {"vs": [case["vs"][fail["i"] - 1]], "lib": True}


class Checker:
    def __init__(self, rep, work, vh, gojq):
        self.rep, self.work, self.vh, self.gojq = rep, work, vh, gojq
        self.counters = {}
        self.n = 0
        self.listed = {k["id"]: k.get("status") for k in vc.load_known()}

    def bump(self, k, n=1):
        self.counters[k] = self.counters.get(k, 0) + n

    def recheck(self, cases, tag):
        for i, c in enumerate(cases):
            c["id"] = i
        recs = run_harness(self.work, self.vh, self.gojq, cases, tag)
        vs, stats = validate(self.work, recs, tag, 600, per_shard_min=4)
        self.rep.add_tlc(stats)
        return recs, vs

    def check(self, cases, tag, timeout=600, per_shard_min=12):
        for i, c in enumerate(cases):
            c["id"] = i
        t0 = time.time()
        recs = run_harness(self.work, self.vh, self.gojq, cases, tag)
        t1 = time.time()
        # a tree that prints far more than the cases can legitimately produce (a flush that repeats its buffer, an endless loop) must end in a
        # verdict, not in hours of parsing: beyond a budget only the smallest records are validated (they show the same defect)
        size = [sum(len(x.get("out", [])) for x in rec.get("cli", [])) + sum(len(d.get("err", [])) for d in rec.get("dbg", []) if isinstance(d, dict)) for rec in recs]
        budget = 40 << 20
        if sum(size) > budget:
            keep, tot = set(), 0
            for i in sorted(range(len(recs)), key=lambda i: size[i]):
                if tot + size[i] > budget and keep:
                    break
                keep.add(i)
                tot += size[i]
            self.rep.notes.append("phase %s: the commands wrote %d MiB, %d of %d records (the smallest) were validated" % (tag, sum(size) >> 20, len(keep), len(recs)))
            self.bump("skipped_oversize", len(recs) - len(keep))
            cases, recs = [c for i, c in enumerate(cases) if i in keep], [x for i, x in enumerate(recs) if i in keep]
        verdicts, stats = validate(self.work, recs, tag, timeout, per_shard_min)
        vc.log("[C12 %s] %d cases: real code %.1fs, TLC validation %.1fs wall (%d JVM runs, %.0fs summed)" % (
            tag, len(cases), t1 - t0, time.time() - t1, stats["tlc_runs"], stats["tlc_wall"]))
        self.rep.add_tlc(stats)
        pending = []
        for case, rec, v in zip(cases, recs, verdicts):
            m = modes_of(case)
            self.rep.count("evaluations", m)
            if "tlc" in v:
                self.bump("tlc_" + v["tlc"])
                self.rep.count("out_of_model", m)
            elif v["v"] == "tool":
                self.bump("harness_error")
                vc.log("harness error:", rec.get("harness_error"))
            elif v["v"] == "oom":
                self.bump("oom")
                self.rep.count("out_of_model", m)
            elif v["v"] == "agree":
                self.bump("agree")
                self.bump("checks", v["n"])
                self.rep.count("traces_validated_against_impl", m)
                for x in case["vs"]:
                    self.rep.nontrivial(x)
                if case.get("yin"):
                    self.rep.nontrivial(case["yin"])
                if self.n % 97 == 0 and case["vs"]:
                    self.sample(case, rec)
                self.n += 1
            else:
                self.bump("mismatch")
                if all(self.finding_of(f) for f in v["fails"]) and self.report_finding(case, rec, v):
                    continue            # explained exactly by a deviation switch of the specification: a listed / proposed finding
                pending.append((case, rec, v))
        if pending:
            self.classify(pending[:12], tag)
        if len(pending) > 12:
            self.rep.notes.append("%d further mismatching records were not analysed" % (len(pending) - 12))
        return recs, verdicts

    def sample(self, case, rec):
        s = {"value": show(case["vs"][0], 80)}
        if rec.get("lib"):
            m = rec["lib"][0]["marshal"]
            s["marshal"] = bytes(m.get("b", [])[:120]).decode("latin1")
        if rec.get("cli"):
            s["cli"] = {"cfg": rec["cli"][0]["cfg"], "stdout": bytes(rec["cli"][0]["out"][:160]).decode("latin1")}
        self.rep.sample(s, limit=6)

    def classify(self, pending, tag):
        """second execution of the smallest failing sub-cases (one batch), shrink to one value (one batch), report"""
        subs = []
        for case, rec, v in pending:
            seen = set()
            for fail in v["fails"]:
                fid = self.finding_of(fail)
                if fid and self.listed.get(fid) != "fixed":
                    continue
                sub = part_case(case, fail)
                key = json.dumps(sub, sort_keys=True)
                if key not in seen and len(seen) < 2:
                    seen.add(key)
                    subs.append(sub)
        recs2, vs2 = self.recheck(subs, tag + "r")
        final, singles = [], []
        for sub, r2, v2 in zip(subs, recs2, vs2):
            if v2.get("v") != "mismatch":
                self.bump("not_reproduced")
                self.rep.notes.append("a mismatch was not reproduced on the second execution: %s" % show((sub.get("vs") or [NULL])[0]))
                self.not_reproduced = True
            elif len(sub.get("vs", [])) > 1:
                singles.append((len(final), [dict(sub, vs=[x]) for x in sub["vs"]]))
                final.append((sub, r2, v2))
            else:
                final.append((sub, r2, v2))
        flat = [c for _, cs in singles for c in cs]
        if flat:
            recs3, vs3 = self.recheck(flat, tag + "s")
            pos = 0
            for idx, cs in singles:
                for c3, r3, v3 in zip(cs, recs3[pos:pos + len(cs)], vs3[pos:pos + len(cs)]):
                    if v3.get("v") == "mismatch":
                        final[idx] = (c3, r3, v3)
                        break
                pos += len(cs)
        for sub, r2, v2 in final:
            if len(self.rep.violations) >= 10:
                self.rep.notes.append("more than 10 violations: the remaining reproduced mismatches are not listed")
                break
            self.report(sub, r2, v2)

    @staticmethod
    def finding_of(f):
        return {("yaml.roundtrip", "bigint-as-string"): FID_YAML_BIG,
                ("yamlin.wellformed", "yaml-number-literal"): FID_YAML_NUM,
                ("yaml.read", "indent-block-scalar"): FID_YAML_IND,
                ("yaml.roundtrip", "indent-block-scalar"): FID_YAML_IND,
                ("yaml.read", "tab-leading-block-scalar"): FID_YAML_TAB}.get((f["k"], f.get("dev")))

    def report_finding(self, case, rec, v):
        """every failed check of the record carries a deviation tag: count it as that finding (never a violation
        unless the finding is recorded as fixed)"""
        fid = self.finding_of(v["fails"][0])
        status = self.listed.get(fid)
        if status != "open":            # repaired (the class has returned) or not listed at all: a violation like any other
            return False
        self.bump("finding:" + fid)
        if fid == FID_YAML_TAB:
            what = "--yaml-output writes a multi-line string that starts with a TAB as a block scalar that --yaml-input rejects: %r" % bytes(rec["yaml"].get("text", [])[:120]).decode("latin1")
        elif fid == FID_YAML_IND:
            what = "--yaml-output --indent %s writes a block scalar with an indentation indicator that --yaml-input rejects or reads as another string: %r" % (case.get("yind"), bytes(rec["yaml"].get("text", [])[:120]).decode("latin1"))
        elif fid == FID_YAML_BIG:
            what = "--yaml-output writes the *big.Int %s as a quoted string; --yaml-input reads a string back" % show(case["vs"][0], 60)
        else:
            what = "--yaml-input hands YAML number literals through verbatim: stdout %r is not JSON" % bytes(rec["yin"]["out"][:80]).decode("latin1")
        self.rep.known_finding(fid, what)
        return True

    def report(self, case, rec, v):
        f = v["fails"][0]
        kinds = sorted({x["k"] for x in v["fails"]})
        if all(self.finding_of(x) for x in v["fails"]) and self.report_finding(case, rec, v):
            return
        actual, what = {}, ""
        k = f["k"]
        if k.startswith("yamlin."):
            y = rec["yin"]
            actual = {"status": y["status"], "stdout": bytes(y["out"][:2000]).decode("latin1"), "stderr": y.get("err")}
            what = "gojq --yaml-input -c . on %r: stdout %r is not well-formed JSON" % (bytes(case["yin"][:300]).decode("latin1"), actual["stdout"][:300])
        elif k.startswith("cli."):
            r = rec["cli"][0]
            actual = {"status": r["status"], "stdout": bytes(r["out"][:4000]).decode("latin1"), "stderr": r.get("err")}
            what = "gojq %s on %s: stdout %r" % (json.dumps(r["cfg"]), show(case["vs"][0]), actual["stdout"][:300])
        elif k.startswith("yaml."):
            y = rec["yaml"]
            actual = {"yaml": bytes(y.get("text", [])[:2000]).decode("latin1"), "back": bytes(y.get("back", [])[:2000]).decode("latin1"),
                      "s1": y.get("s1"), "s2": y.get("s2"), "err1": y.get("err1"), "err2": y.get("err2")}
            what = "--yaml-output | --yaml-input on %s: wrote %r, read back %r" % (show(case["vs"][0]), actual["yaml"][:200], actual["back"][:200])
        elif k.startswith("dbg."):
            actual = {"stderr": [bytes(d["err"][:2000]).decode("latin1") for d in rec["dbg"]]}
            what = "debug|stderr on %s: %r" % (show(case["vs"][0]), actual["stderr"])
        else:
            m = rec["lib"][0]
            name = k.split(".")[0]
            name = {"roundtrip": "rt"}.get(name, name)
            got = m.get(name)
            actual = {name: got if not (isinstance(got, dict) and "b" in got) else bytes(got["b"][:2000]).decode("latin1")}
            what = "%s of %s: %r" % (k, show(case["vs"][0]), actual[name])
        exp = f.get("exp")
        exps = bytes(exp[:4000]).decode("latin1") if isinstance(exp, list) and all(isinstance(b, int) and 0 <= b < 256 for b in exp) else exp
        self.rep.violation("%s [%s]; specification: %r" % (what, ",".join(kinds), exps if not isinstance(exps, str) else exps[:300]),
                           {"family": "c12", "case": case, "failed_checks": kinds, "actual": actual, "expected": exps})


def mc_runs(work, quick):
    """design-level model checking: returns [(name, TlcResult)]"""
    jobs = [("MCEncoder", "MCEncoder.tla", "MCEncoder.cfg", 6), ("IndentWriter", "IndentWriter.tla", "IndentWriter.cfg", 4)]
    if not quick:
        jobs.append(("IndentWriter_big", "IndentWriter.tla", "IndentWriter_big.cfg", 6))

    def one(j):
        name, mod, cfg, w = j
        return name, vc.tlc(work.dir, mod, cfg, workers=w, timeout=1500, extra=["-noGenerateSpecTE"])
    ex = cf.ThreadPoolExecutor(max_workers=len(jobs))
    return ex, [ex.submit(one, j) for j in jobs]


def tlc_universe(work, seed):
    out = work.path("universe.ndjson")
    res = vc.tlc(work.dir, "GenC12.tla", "GenC12.cfg", env={"VERIF_OUT": out}, timeout=600, extra=["-seed", str(seed), "-noGenerateSpecTE"])
    if not os.path.exists(out) or not res.ok():
        raise vc.ToolError("GenC12 failed:\n" + vc.tlc_error_text(res))
    return [x["v"] for x in vc.read_ndjson(out)], res


def run(tier, seed, replay):
    rep = vc.Report(PROP, tier, seed)
    rep.assumptions += ["TLC evaluates the specification correctly",
                        "strconv's shortest-digit generation for float64 is a leaf (the digits are logged, everything done with them is modelled)",
                        "the YAML codec is third party: only laws over logged pairs are checked (written text -> value read back; YAML document -> printed JSON is well-formed)",
                        "values reach the command through a generated jq program (literals, tonumber, --arg, --rawfile, --argjson)"]
    vh, gojq = vc.build()
    work = vc.Work(PROP)
    try:
        ck = Checker(rep, work, vh, gojq)
        ck.not_reproduced = False
        if replay:
            rec = json.load(open(replay))
            recs, vs = ck.check([rec["case"]], "replay")
            vc.log("replay:", ck.counters, [f["k"] for f in vs[0].get("fails", [])] if vs else None)
            return rep.finish(min_decided=0)
        quick = tier == "quick"
        r = random.Random(seed)
        ex, futs = mc_runs(work, quick)
        base, odd = all_cfgs()

        # 1. the universe of the model-checked laws, enumerated by TLC, on the real encoders
        uni, res = tlc_universe(work, seed)
        rep.add_tlc(res)
        rep.cov["tlc_universe_values"] = len(uni)
        r.shuffle(uni)
        cases = []
        for i in range(0, len(uni), 8):
            if quick:       # every value, sampled configurations
                cfgs = [{"c": True}, {}, {"tab": True}] + r.sample(base[2:12], 4) + [r.choice(odd)] + colour_cfgs(r, 2)
                if i % 64 == 0:
                    cfgs += [{"raw": r.choice(["r", "j"]), **r.choice(base)}]
            else:           # every value x every configuration
                cfgs = list(base) + odd + colour_cfgs(r, 5) + [{"raw": "r"}, {"raw": "j", "c": True}]
            cases.append({"vs": uni[i:i + 8], "lib": True, "cli": cfgs, "dbg": (i % (80 if quick else 16) == 0)})
        PH = os.environ.get("VERIF_C12_PHASES", "urby")       # development aid: run only some phases
        if "u" in PH:
            ck.check(cases, "u", timeout=900 if quick else 3000)
        rep.cov["universe_values_exhaustive"] = True
        rep.cov["exhaustive"] = not quick          # quick samples the configurations per value

        # 2. seeded random strings and values
        cases = []
        for _ in range(260 if quick else 14000):
            vs = [S(rand_string(r)) for _ in range(3)] + [rand_value(r, r.choice([1, 2, 3, 4])) for _ in range(3)]
            cfgs = r.sample(base, 3 if quick else 5) + colour_cfgs(r, 1) + ([{"raw": r.choice(["r", "j"]), **r.choice(base)}] if r.random() < 0.2 else [])
            cases.append({"vs": vs, "lib": True, "cli": cfgs, "dbg": r.random() < 0.05})
        # 3. float64 bit-pattern classes
        fl = float_classes(r, 150 if quick else 20000)
        rep.cov["float_patterns"] = len(fl)
        for i in range(0, len(fl), 12):
            cases.append({"vs": fl[i:i + 12], "lib": True, "cli": [{"c": True}, r.choice(base), {"C": True}]})
        # kept literals of every lexical shape through the number-editing operators (LibChecks neg / negneg) and the encoders
        lits = ["1e-5", "2.5E-9", "-1e-5", "0", "-0", "1E+2", "0.0e-0", "-0.0", "1e5", "-2E-3", "10", "-10", "1.5", "0e0", "123456789012345678901234567890", "-1e-400", "1e400", "0.000001", "1E-7"]
        for k in range(0, len(lits), 10):
            cases.append({"vs": [L(x) for x in lits[k:k + 10]], "lib": True, "cli": [{"c": True}, {}]})
        # 4. GOJQ_COLORS variants (valid, invalid, partial)
        pal_vs = [A([NULL, B(True), B(False), I(1), F(1.5), L("1.0"), S(b"s\xff"), A([]), O([]), O([(b"k", A([I(1)])), (b"\xff", NULL)])])]
        for cs in COLORS_OK + COLORS_BAD:
            cases.append({"vs": pal_vs, "cli": [{"C": True, "colors": list(cs.encode("latin1"))}, {"C": True, "c": True, "colors": list(cs.encode("latin1"))},
                                                {"colors": list(cs.encode("latin1"))}, {"C": True, "M": True, "colors": list(cs.encode("latin1"))}]})
        if "r" in PH:
            ck.check(cases, "r", timeout=900 if quick else 3000)

        # 5. deep and wide containers (block doubling, flush threshold)
        cases = [{"vs": [v], "lib": i % 3 == 0, "cli": cfgs} for i, (v, cfgs) in enumerate(big_values(r, quick))]
        rep.cov["deep_wide_values"] = len(cases)
        if "b" in PH:
            ck.check(cases, "b", timeout=900 if quick else 3000, per_shard_min=2)

        # 6. YAML: written with --yaml-output, read back with --yaml-input
        yv, ybig = yaml_values(r, quick)
        cases = [{"vs": vs, "yaml": True} for vs in yv + ybig]
        # the same under --indent n (the YAML writer takes the indentation from the option): multi-line strings with leading / trailing blanks
        blk = [S(x.encode()) for x in (" x\ny\n", " \n", "  a\nb", "\n a", " a\n b\n", "a\nb\n", "a\n\n", "\ta\nb", "a \nb", "- a\n- b\n", "x: 1\ny: 2\n", "#c\nd", " ")]
        for n in (0, 1, 2, 3, 4, 7, 8, 9):
            cases.append({"vs": [A(blk)], "yaml": True, "yind": n})
            cases.append({"vs": [O([(b"k", A(blk[:6])), (b"m", O([(b"n", blk[0])]))])], "yaml": True, "yind": n})
            cases.append({"vs": [r.choice(yv)[0] if False else A([blk[j] for j in r.sample(range(len(blk)), 4)])], "yaml": True, "yind": n})
        # --yaml-output together with the options of the JSON writer (-r, -j, --raw-output0, -c, -C, -M): the documents are the same
        yopts = ["-r", "-j", "--raw-output0", "-c", "-C", "-M"]       # (--tab is rejected together with --yaml-output, by design)
        ysel = r.sample(yv, min(len(yv), 40 if quick else 600))
        for k, vs in enumerate(ysel):
            cases.append({"vs": vs, "yaml": True, "yflags": [yopts[k % len(yopts)]] + (r.sample(yopts, 2) if k % 4 == 0 else [])})
        for o in yopts:
            cases.append({"vs": [O([(b"a", I(1))]), A([I(2)]), S(b"x\ny"), NULL], "yaml": True, "yflags": [o]})
        ydocs = yaml_input_docs(r, quick)
        cases += [{"vs": [], "yin": d} for d in ydocs]
        rep.cov["yaml_cases"] = len(cases)
        if "y" in PH:
            ck.check(cases, "y", timeout=900 if quick else 3000, per_shard_min=6)

        # design-level runs
        for fu in futs:
            name, res = fu.result()
            if not res.ok():
                raise vc.ToolError("model checking of %s failed:\n%s" % (name, vc.tlc_error_text(res)))
            rep.add_tlc(res)
            rep.cov["mc_" + name] = {"distinct_states": res.distinct, "states_generated": res.generated, "wall_s": round(res.wall, 1)}
        ex.shutdown()
        rep.cov["verdicts"] = ck.counters
        rep.cov["rule"] = ("values: every element of the TLC-enumerated universe of MCEncoder.tla (all byte strings of length <= 2 over a 24-byte "
                           "alphabet, number classes, containers over them), seeded random byte strings / nested values, float64 bit patterns, "
                           "deep (<= 300) and wide (> 8 KiB, > 64 KiB) containers, GOJQ_COLORS strings, YAML-significant strings; x modes: 8 library "
                           "modes, the binary under compact / default / --indent 0..9 / --tab / -C / -M / GOJQ_COLORS / -r / -j, debug|stderr, "
                           "--yaml-output|--yaml-input; evaluation = one (value, mode) output compared; distinct_nontrivial = distinct values")
        if ck.counters.get("harness_error") or ck.not_reproduced:
            rep.finish()
            return 2 if not rep.violations else 1
        return rep.finish()
    finally:
        work.cleanup()
