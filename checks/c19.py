"""C19 - no ambient authority by default; each compile option grants exactly its own capability.

spec   : Caps.tla - the gate table (probe x option set -> value / compile error / runtime error) with the invariants Monotone and
         OnlyOwn (an option changes only the outcome of its own probes) checked over all 32 option sets; EnvObject (pairs split at the
         first '=', empty keys dropped, later pair wins), VarsOutcome, Serving (overlapping registrations); the input iterator is part of
         JqSem.Eval.
real   : (i) programs over ALL names of `builtins`, compiled without options, run in 4 processes that differ in environment variables,
         working directory, HOME (with a ~/.jq present), stdin content and time zone: identical outputs (exceptions: now, localtime,
         strflocaltime, input_filename), and the default process's outputs agree with the specification (C03 check);
         (ii) option semantics: variables (0..5 names, off-by-one counts), input iterators (validated by TLC against JqSem with the
         iterator's values), environ loaders with odd pairs, the gate table itself - validated by TLC against Caps.tla;
         (iii) custom functions (Go callbacks, arity ranges, overlapping registrations, iterator functions with 0/1/n values and errors)
         substituted for the equivalent jq definition across calling contexts: the callback run and the `def` run on the real code must
         be equal, and the `def` run is validated by TLC against JqSem.
"""
import itertools
import json
import os
import random

import evalfam
import jqgen
import vcheck as vc

PROP = "C19"
EXCEPT = {"now", "localtime", "strflocaltime", "input_filename", "mktime" if False else "date", "input", "inputs", "debug", "stderr", "halt", "halt_error", "env", "builtins", "modulemeta",
          "repeat", "range", "until", "while", "recurse", "limit", "combinations", "walk"}

CONTEXTS = [
    "%s", "try %s catch .", "[%s]", "first(%s)", "[limit(2; %s)]", "reduce %s as $x (0; . + ($x | length))", "foreach %s as $x (0; . + 1; [$x, .])", "{a: %s}", "{(%s | tojson): 1}",
    "[.[]? | %s]", "%s as [$t] | $t", "def g(f): [f, f]; g(%s)", "label $l | (%s, break $l, 1)", "(%s)?", "[%s] | length", ". as $v | $v | %s", "%s | .[0]", "[path(%s)?]", "if %s then 1 else 2 end",
    "(%s) // \"alt\"", "[%s, %s]",
    "[path(%s)]", "path(%s)", "try path(%s) catch \"invalid\"", "[paths] as $p | [path(%s | .a?)?]", "(%s) |= 1", "try ((%s) |= 1) catch \"invalid\"", "[path(.. | %s)?] | length", "del(%s)?", "path(first(%s))",
]
PATHY = [{"a": {"b": {"c": 1}}, "d": [0, [1]]}, {"a": "boom"}, {"a": None}, [{"a": 1}], {"a": [1, 2]}, None]
CALLS = ["cf", "cf(1)", "cf(1; 2)", "cf(1, 2; 3, 4)", "cf(.; .a?)", "cf(\"boom\")", "cf(1; \"boom\")", "cf((1, \"boom\", 2))", "cf(empty)", "cf(cf(1))", "cf(error(\"arg\"))", "cf(.[]?)", "cf(1; 2; 3)",
         "cfi", "cfi(1)", "cfi(1, 2)", "cfi(1; \"boom\"; 3)", "cfi(empty)", "cfi(cfi(1))", "cfi(.a?)", "[cfi(1; 2)] | cf(.)", "cf([cfi(1)])"]


def jq_defs(regs, iregs, maxar=3):
    """the jq definitions equivalent to the registrations (the latest registration covering an arity serves it)"""
    out = []
    for ar in range(maxar + 1):
        tag = None
        for mn, mx, t in regs:
            if mn <= ar <= mx:
                tag = t
        if tag is not None:
            ps = ["$a%d" % i for i in range(ar)]
            boom = " or ".join("%s == \"boom\"" % p for p in ps) or "false"
            # the built-in argument order: arguments are evaluated as values, the LAST one in the outermost loop
            binds = "".join("a%d as $a%d | " % (i, i) for i in reversed(range(ar)))
            out.append("def cf%s: %sif %s then error(\"boom:%s\") else [\"%s%d\", .%s] end;" % ("(" + "; ".join("a%d" % i for i in range(ar)) + ")" if ps else "", binds, boom, tag, tag, ar, "".join(", " + p for p in ps)))
        tag = None
        for mn, mx, t in iregs:
            if mn <= ar <= mx:
                tag = t
        if tag is not None:
            ps = ["$a%d" % i for i in range(ar)]
            body = "."
            for p in ps:
                body += ", (if %s == \"boom\" then error(\"boom:%s\") else %s end)" % (p, tag, p)
            binds = "".join("a%d as $a%d | " % (i, i) for i in reversed(range(ar)))
            # the stream ends at the first error
            out.append("def cfi%s: %s(%s);" % ("(" + "; ".join("a%d" % i for i in range(ar)) + ")" if ps else "", binds, body))
    return " ".join(out) + " "


def run(tier, seed, replay):
    rep = vc.Report(PROP, tier, seed)
    rep.assumptions += ["named exceptions to ambient independence: now, localtime, strflocaltime, input_filename"]
    vh, gojq = vc.build()
    work = vc.Work(PROP)
    try:
        prelude = evalfam.make_prelude(work, vh)
        r = random.Random(seed)
        quick = tier == "quick"
        def check_reuse(ucases):
            for c, x in zip(ucases, vc.run_restartable([vh, "caps"], ucases, work, "reuse")):
                rep.count("evaluations")
                if x.get("panic") or "shared" not in x:
                    rep.violation("panic/hang compiling with reused option values: %s" % (x.get("panic") or "no result"), {"family": "caps", "case": c, "actual": x})
                    continue
                bad = [i for i, (a, b) in enumerate(zip(x["shared"], x["fresh"])) if {k: v for k, v in a.items() if k not in ("cerr", "perr")} != {k: v for k, v in b.items() if k not in ("cerr", "perr")} or ("cerr" in a) != ("cerr" in b)]
                if bad:
                    i = bad[0]
                    rep.violation("a compile option value behaves differently after it was used by an earlier compilation: step %d (%r with options %s of %s): reused values give %s, fresh values give %s" % (
                        i + 1, c["steps"][i]["src"], c["steps"][i]["use"], c["opts"], json.dumps(x["shared"][i])[:200], json.dumps(x["fresh"][i])[:200]), {"family": "caps", "case": c, "actual": x["shared"], "expected": x["fresh"]})
                else:
                    rep.count("traces_validated_against_impl")
                    rep.nontrivial(["reuse", c["opts"], c["steps"]])

        def check_history(hcases):
            for c, x in zip(hcases, vc.run_restartable([vh, "caps"], hcases, work, "hist")):
                rep.count("evaluations")
                runs = x.get("runs")
                if not runs or any(u.get("long") for u in runs):
                    rep.count("out_of_model")
                    continue
                key = lambda u: json.dumps({k: u.get(k) for k in ("out", "panic")}, sort_keys=True) + str((u.get("err") or {}).get("k"))
                on_input = [key(u) for u in runs if u["on"] in ("input", "fresh-code")]
                if len(set(on_input)) > 1:
                    rep.violation("the output of %r on %s depends on what the same compiled query ran before (other input %s): %s" % (
                        c["src"], evalfam.show(c["input"]), evalfam.show(c["other"]), [json.dumps(u.get("out"))[:80] + " " + str((u.get("err") or {}).get("k")) for u in runs if u["on"] in ("input", "fresh-code")]),
                        {"family": "caps", "case": c, "actual": runs})
                else:
                    rep.count("traces_validated_against_impl")
                    rep.nontrivial(["history", c["src"], c["input"], c["other"]])

        if replay:
            rc = json.load(open(replay))["case"]
            if rc.get("k") == "reuse":
                check_reuse([dict(rc, id=0)])
            elif rc.get("k") == "history":
                check_history([dict(rc, id=0)])
            elif rc.get("k") == "custom":
                x = vc.run_restartable([vh, "caps"], [dict(rc, id=0)], work, "rcustom")[0]
                y = evalfam.replay(work, vh, [{"id": 0, "src": jq_defs(rc["regs"], rc["iregs"]) + rc["src"], "inputs": [rc["input"]]}], tag="rdefs")[0]
                run_ = (y.get("runs") or [{}])[0]
                rep.count("evaluations")
                if x.get("out") != run_.get("out") or (x.get("err") is None) != (run_.get("err") is None):
                    rep.violation("a Go function is not interchangeable with the equivalent jq definition: %r: callback gives %s err=%s, definition gives %s err=%s" % (
                        rc["src"], x.get("out"), x.get("err"), run_.get("out"), run_.get("err")), {"family": "caps", "case": rc, "actual": x, "expected": run_})
                else:
                    rep.count("traces_validated_against_impl")
            else:
                evalfam.replay_file(rep, work, vh, prelude, replay)
            return rep.finish(min_decided=0)
        # ---------------- (ii) options against Caps.tla
        caps = []
        opts_all = ["ModuleLoader", "EnvironLoader", "Variables", "Function", "InputIter"]
        for probe in ["env", "$ENV", "input", "inputs", "import", "include", "modulemeta", "$var", "custom", "now"]:
            for k in range(6):
                for o in itertools.combinations(opts_all, k):
                    caps.append({"k": "gate", "probe": probe, "opts": list(o)})
        for n in range(6):
            for k in range(8):
                caps.append({"k": "vars", "names": n, "given": k})
        pool = ["A=b", "A=c", "=x", "NOEQ", "B=", "C==", "D=e=f", "URL=https://x/?q=1&r=2", "PAD=YWJjZA==", "é=ü", " =sp", "A", "", "K=v\nw", "==", "X=1", "x=2"]
        for _ in range(60 if quick else 1500):
            caps.append({"k": "env", "pairs": [r.choice(pool) for _ in range(r.randrange(7))]})
        for i, c in enumerate(caps):
            c["id"] = i
        capres = vc.run_restartable([vh, "caps"], caps, work, "caps")
        trace = []
        for c, x in zip(caps, capres):
            rep.count("evaluations")
            if x.get("panic") or x.get("hang") or "fatal" in x:
                rep.violation("panic/hang with options: %s: %s" % (c, x.get("panic") or x.get("fatal") or "hang"), {"family": "caps", "case": c, "actual": x})
            elif "cerr" in x or "perr" in x:
                rep.count("out_of_model")
            else:
                trace.append(x)
        # overlapping registrations: which registration serves which arity (observed through the tag in the result)
        regsets = [[[0, 2, "A"]], [[0, 2, "A"], [1, 1, "B"]], [[1, 3, "A"], [0, 1, "B"], [3, 3, "C"]], [[2, 2, "A"], [0, 3, "B"]], [[0, 0, "A"], [1, 1, "B"], [2, 2, "C"], [0, 3, "D"], [1, 2, "E"]]]
        serving_cases = []
        # (registrations up to the largest arity a function can be registered with, 30: every arity of the range is served)
        bigsets = [[[0, 30, "A"]], [[28, 30, "A"], [29, 29, "B"]], [[30, 30, "Z"]], [[0, 29, "A"], [30, 30, "B"]], [[15, 30, "A"], [0, 16, "B"]]]
        top = lambda regs: 30 if any(mx > 3 for _, mx, _ in regs) else 3
        for regs in regsets + bigsets:
            for ar in range(top(regs) + 1):
                src = "cf" + ("(" + "; ".join(["0"] * ar) + ")" if ar else "") + " | .[0]"
                serving_cases.append({"id": len(serving_cases), "k": "custom", "src": src, "regs": regs, "iregs": [], "input": jqgen.V(None), "ar": ar})
        sres = vc.run_restartable([vh, "caps"], serving_cases, work, "serving")
        for regs in regsets + bigsets:
            served = []
            for ar in range(top(regs) + 1):
                x = next(y for c, y in zip(serving_cases, sres) if c["regs"] == regs and c["ar"] == ar)
                if "cerr" in x:
                    served.append("none")
                elif x.get("out"):
                    served.append(jqgen.unV(x["out"][0])[0])
                else:
                    served.append("?")
            trace.append({"id": 0, "k": "serving", "regs": [{"min": a, "max": b, "tag": t} for a, b, t in regs], "maxar": top(regs), "served": served})
        for i, t in enumerate(trace):
            t["id"] = i
        vc.write_ndjson(work.path("caps.trace"), trace)
        res = vc.tlc(work.dir, "Caps.tla", "Caps.cfg", env={"VERIF_TRACE": work.path("caps.trace"), "VERIF_OUT": work.path("caps.verdict")}, timeout=900)
        rep.add_tlc(res)
        if not res.ok():
            raise vc.ToolError("Caps.tla failed (gate-table invariants or evaluation):\n" + vc.tlc_error_text(res))
        for t, v in zip(trace, vc.read_ndjson(work.path("caps.verdict"))):
            if v["ok"]:
                rep.count("traces_validated_against_impl")
                rep.nontrivial([t["k"], json.dumps(t, sort_keys=True)[:300]])
            else:
                rep.violation("option semantics differ from Caps.tla: %s" % {k: x for k, x in t.items() if k not in ("id",)}, {"family": "caps", "case": t})
        # ---------------- input iterator against JqSem
        icases = []
        progs = ["[input, input]", "[inputs]", "input, [inputs]", "first(inputs)", "[limit(2; inputs)], input", "try input catch .", "[., input]", "[inputs] | length", "input as $x | [inputs | . , $x]",
                 "[.[]? | input]", "reduce inputs as $i (0; . + 1)", "(input, input) as $i | [$i]", "[input?] , [inputs]", "label $l | inputs | ., break $l", "[try input catch \"end\", try input catch \"end\", try input catch \"end\"]"]
        uni = jqgen.input_universe()
        for _ in range(120 if quick else 3000):
            icases.append({"id": len(icases), "src": r.choice(progs), "inputs": [r.choice(uni)], "inputiter": [r.choice(uni) for _ in range(r.randrange(5))]})
        counters = evalfam.check_cases(rep, work, vh, prelude, icases, tag="initer", timeout=900, per_shard_min=20)
        rep.cov["input_iterator_verdicts"] = counters
        # ---------------- (iii) custom functions vs equivalent definitions
        ccases, dcases = [], []
        # every calling context x every call form (complete), then random repetitions with other registrations and inputs
        combos = [(ctx, call) for ctx in CONTEXTS for call in CALLS]
        pathy = [jqgen.V(x) for x in PATHY]
        for k in range(len(combos) + (200 if quick else 30000)):
            regs, iregs = r.choice(regsets), r.choice([[[0, 3, "I"]], [[0, 1, "I"], [1, 3, "J"]], [[0, 3, "I"], [2, 2, "K"]]])
            ctx, call = combos[k] if k < len(combos) else (r.choice(CONTEXTS), r.choice(CALLS))
            src = ctx.replace("%s", call)
            inp = r.choice(pathy) if "path" in ctx or "|=" in ctx or "del(" in ctx else r.choice(uni)
            ccases.append({"id": len(ccases), "k": "custom", "src": src, "regs": regs, "iregs": iregs, "input": inp})
            dcases.append({"id": len(dcases), "src": jq_defs(regs, iregs) + src, "inputs": [inp]})
        cres = vc.run_restartable([vh, "caps"], ccases, work, "custom")
        dres = evalfam.replay(work, vh, dcases, tag="defs")
        agree = 0
        for c, d, x, y in zip(ccases, dcases, cres, dres):
            rep.count("evaluations")
            if x.get("panic") or x.get("hang") or "fatal" in x:
                rep.violation("panic/hang calling a Go function: %r: %s" % (c["src"], x.get("panic") or x.get("fatal") or "hang"), {"family": "caps", "case": c, "actual": x})
                continue
            if ("cerr" in x) != ("cerr" in y):
                rep.violation("compile outcome differs between the Go function and the jq definition: %r: %s vs %s" % (c["src"], x.get("cerr"), y.get("cerr")), {"family": "caps", "case": c, "actual": x, "expected": y})
                continue
            if "cerr" in x or "runs" not in y:
                rep.count("out_of_model")
                continue
            run_ = y["runs"][0]
            if x.get("long") or run_.get("long"):
                rep.count("out_of_model")
                continue
            ex, ey = x.get("err"), run_.get("err")
            same = x["out"] == run_["out"] and (ex is None) == (ey is None) and (ex is None or ex.get("k") == ey.get("k") and (ex["v"].get("t") == "opaque" or ey["v"].get("t") == "opaque" or ex["v"] == ey["v"]))
            if same:
                agree += 1
                rep.count("traces_validated_against_impl")
                if x["out"] or ex:
                    rep.nontrivial([c["src"], c["regs"], c["iregs"], c["input"]])
                rep.sample({"query": c["src"], "registrations": c["regs"], "outputs": [jqgen.unV(v) for v in x["out"]][:4]})
                continue
            rep.violation("a Go function is not interchangeable with the equivalent jq definition: %r on %s: callback gives %s err=%s, definition gives %s err=%s" % (
                c["src"], evalfam.show(c["input"]), [jqgen.unV(v) for v in x["out"]], ex, [jqgen.unV(v) for v in run_["out"]], ey), {"family": "caps", "case": c, "actual": x, "expected": run_})
        rep.cov["custom_function_cases_agreeing"] = agree
        # ---------------- option values are descriptions: reusing one value in several compilations changes nothing
        ucases = []
        optpool = [["func", 0, 0, "A"], ["func", 1, 1, "B"], ["func", 0, 0, "C"], ["func", 0, 2, "D"], ["func", 2, 3, "E"], ["iter", 0, 2, "I"], ["iter", 2, 3, "J"], ["iter", 0, 0, "K"], ["vars", 0, 0, "v"], ["env", 0, 0, "e"]]
        srcs = ["[cf, cf(1)]", "cf", "cf(1)", "[cf(1; 2)]", "[cfi]", "[cfi(1; 2)]", "[cfi(1; 2; 3)]", "builtins | map(select(startswith(\"cf\"))) | sort", "[builtins[] | select(startswith(\"cf\"))]", "builtins | map(select(startswith(\"cf\"))) | . == sort", "[cf?, cfi?]", "try cf(1; 2; 3) catch \"e\"", "$v", "env.K", "[cf, $v, env.K]"]
        for _ in range(150 if quick else 10000):
            opts = r.sample(optpool, r.randrange(2, 6))
            steps = []
            for _ in range(r.randrange(2, 5)):
                use = sorted(r.sample(range(len(opts)), r.randrange(1, len(opts) + 1)), key=lambda _: r.random())
                steps.append({"src": r.choice(srcs), "use": use})
            ucases.append({"id": len(ucases), "k": "reuse", "opts": opts, "steps": steps, "input": r.choice(uni)})
        check_reuse(ucases)
        # ---------------- the output is a function of the query and the input alone: not of what the same code ran before
        hcases = []
        coll = [(["xa", "ai", None], ["A", "a", "i"]), (["A", "a", "i"], ["xa", "ai", None]), (["xag", "ag", None], ["aXa", "a", "g"]), (["b", "b", "gi"], ["big", "bgi", None]), (["ab", "a", ""], ["ab", "", "a"]),
                (["hello log", "log", None], ["hello lo", "lo", "g"]), (["x", "", "x"], ["x", "x", None]), (["aib", "a", "i"], ["aib", "ai", None]), (["abbb", "b+", "gx"], ["abbb", "b+", "g"]), (["Bb", "b+", "xi"], ["Bb", "b+", "gi"])]
        hprogs = ['. as [$s, $re, $flags] | $s | try test($re; $flags) catch "err"', '. as [$s, $re, $flags] | $s | try [match($re; $flags).string] catch "err"', '. as [$s, $re, $flags] | $s | try gsub($re; "-") catch "err"',
                  '. as [$s, $re, $flags] | $s | try [scan($re)] catch "err"', '. as [$s, $re, $flags] | $s | try sub($re; "-"; $flags) catch "err"', '. as [$s, $re, $flags] | $s | try [splits($re; $flags)] catch "err"',
                  '. as [$s, $re, $flags] | [$s | test($re; $flags)?, test($re)?]']
        for p in hprogs:
            for a, b in coll:
                hcases.append({"id": len(hcases), "k": "history", "src": p, "input": jqgen.V(a), "other": jqgen.V(b)})
        # the list of builtins is collected from Go maps: its order (name, then arity) may not depend on the run
        for p in ("builtins", "[builtins[] | select(test(\"^[a-l]\"))]", "builtins | map(split(\"/\")) | . == sort_by(.[0], (.[1] | tonumber))", "[builtins[] | split(\"/\")[0]] | . == sort", "builtins | length, first, last",
                  "[limit(40; builtins[])]", "builtins | index(\"add/0\") < index(\"add/1\"), index(\"range/1\") < index(\"range/2\"), index(\"range/2\") < index(\"range/3\")"):
            for _ in range(3):
                hcases.append({"id": len(hcases), "k": "history", "src": p, "input": jqgen.V(None), "other": jqgen.V(1)})
        for c in r.sample(cor, 60 if quick else len(cor)) if False else []:
            pass
        names2 = [n for n in json.loads(vc.sh([gojq, "-nc", "builtins"]).stdout) if n.rsplit("/", 1)[0] not in EXCEPT]
        for _ in range(200 if quick else 15000):
            n, ar = r.choice(names2).rsplit("/", 1)
            src = ".[0] as $x | .[1] as $a | $x | try " + n + ("(" + "; ".join(["$a"] * int(ar)) + ")" if int(ar) else "") + ' catch "err"'
            hcases.append({"id": len(hcases), "k": "history", "src": src, "input": {"t": "arr", "a": [r.choice(uni), r.choice(uni)]}, "other": {"t": "arr", "a": [r.choice(uni), r.choice(uni)]}})
        check_history(hcases)
        # ---------------- a module loader without a usable search entry grants nothing (the empty string is documented as ignored)
        amb = work.path("ambient-cwd", "ambient.jq")
        open(amb, "w").write('def f: "from the working directory";')
        open(os.path.join(os.path.dirname(amb), "ambient.json"), "w").write('"data from the working directory"')
        ecases = [{"id": i, "k": "emptyloader", "src": src, "paths": paths} for i, (src, paths) in enumerate(
            [(src, paths) for paths in ([""], None, [], ["", ""]) for src in ('import "ambient" as a; a::f', 'import "ambient" as $d; $d', 'include "ambient" {search: ""}; f', 'include "ambient"; f', '"ambient" | modulemeta',
                                                                             'import "ambient" as a {search: ""}; a::f')])]
        vc.write_ndjson(work.path("empty.cases"), ecases)
        vc.sh([vh, "caps", "-in", work.path("empty.cases"), "-out", work.path("empty.out")], cwd=os.path.dirname(amb), timeout=300)
        for c, x in zip(ecases, vc.read_ndjson(work.path("empty.out"))):
            rep.count("evaluations")
            if "cerr" in x or x.get("err"):
                rep.count("traces_validated_against_impl")
                rep.nontrivial(["emptyloader", c["src"], c["paths"]])
            else:
                rep.violation("a module loader with the search list %r reads modules from the working directory: %r gives %s" % (c["paths"], c["src"], [jqgen.unV(v) for v in x.get("out", [])]),
                              {"family": "caps", "case": c, "actual": x})
        # the definition runs against the specification
        counters = evalfam.check_cases(rep, work, vh, prelude, dcases, tag="defspec", timeout=1500, per_shard_min=20)
        rep.cov["definition_verdicts_vs_spec"] = counters
        # ---------------- (i) ambient independence across processes
        names = json.loads(vc.sh([gojq, "-nc", "builtins"]).stdout)
        acases = []
        vals = [jqgen.V(x) for x in (None, 0, 1500000000, "a", "2015-03-05T23:51:47Z", [1, 2], {"a": 1}, [2015, 2, 5, 23, 51, 47, 4, 63], "%Y %Z %z %s", 1.5)]
        for nm in names:
            n, ar = nm.rsplit("/", 1)
            if n in EXCEPT:
                continue
            src = ".[0] as $x | .[1] as $a | $x | " + n + ("(" + "; ".join(["$a"] * int(ar)) + ")" if int(ar) else "")
            ins = [{"t": "arr", "a": [r.choice(vals), r.choice(vals + [jqgen.V("%Y-%m-%dT%H:%M:%S %Z %z %s"), jqgen.V("%c"), jqgen.V("%Z")])]} for _ in range(6 if quick else 40)]
            acases.append({"id": len(acases), "src": src, "inputs": ins})
        # the time functions that must NOT depend on the process time zone, with zone-revealing formats and instants in DST gaps
        for q in ["strftime(\"%Y-%m-%dT%H:%M:%S %Z %z %s\")", "todate", "todateiso8601", "gmtime", "gmtime | mktime", "gmtime | todate", "strftime(\"%c\")", "strftime(\"%Z\")", "gmtime | strftime(\"%H %z\")",
                  "todate | fromdate", "todate | strptime(\"%Y-%m-%dT%H:%M:%SZ\") | mktime", "[gmtime, todate, (todate|fromdate)]"]:
            acases.append({"id": len(acases), "src": q, "inputs": [jqgen.V(x) for x in (0, 1500000000, 1615689000, 1615692600, 1636264800, 1636268400, 951782400, -1, 1e9, 253402300799)]})
        for q in ["fromdate", "fromdateiso8601", "strptime(\"%Y-%m-%dT%H:%M:%SZ\")", "strptime(\"%Y-%m-%dT%H:%M:%S%z\") | mktime"]:
            acases.append({"id": len(acases), "src": q, "inputs": [jqgen.V(x) for x in ("2015-03-05T23:51:47Z", "2021-03-14T02:30:00Z", "2021-11-07T01:30:00Z", "1970-01-01T00:00:00Z")]})
        acases.append({"id": len(acases), "src": "mktime, (mktime | todate)", "inputs": [jqgen.V(x) for x in ([2021, 2, 14, 2, 30, 0, 0, 72], [2015, 2, 5, 23, 51, 47, 4, 63], [1970, 0, 1, 0, 0, 0, 4, 0])]})
        acases.append({"id": len(acases), "src": "[env, $ENV, (env | length), ($ENV | keys)]", "inputs": [jqgen.V(None)]})
        acases.append({"id": len(acases), "src": "[$__loc__, (try input_line_number catch 0)]" if False else "$__loc__", "inputs": [jqgen.V(None)]})
        vc.write_ndjson(work.path("amb.cases"), acases)
        home = work.path("home", ".jq")
        open(home, "w").write("def length: \"HIJACKED\"; def map(f): \"HIJACKED\";")
        envs = [
            ({"PATH": "/usr/bin:/bin", "TZ": "UTC", "HOME": "/nonexistent"}, "/", b""),
            ({"PATH": "/usr/bin:/bin", "TZ": "Asia/Tokyo", "HOME": os.path.dirname(home), "FOO": "bar", "PAGER": "x", "JQ_COLORS": "1;31", "GOJQ_COLORS": "1;31", "NO_COLOR": "1"}, os.path.dirname(home), b"[1,2,3]\n"),
            ({"PATH": "/usr/bin:/bin", "TZ": "America/New_York", "HOME": os.path.dirname(home), "LANG": "ja_JP.UTF-8", "A": "=b=", "": "x"}, "/tmp", b"garbage {"),
            ({"PATH": "/usr/bin:/bin", "TZ": ":/etc/localtime", "HOME": "", "ORIGIN": "/", "JQ_LIBRARY_PATH": "/tmp"}, work.dir, b"null"),
        ]
        outs = []
        import subprocess
        for k, (e, cwd, stdin) in enumerate(envs):
            o = work.path("amb.%d.out" % k)
            p = subprocess.run([vh, "eval", "-in", work.path("amb.cases"), "-out", o, "-noast"], env={x: y for x, y in e.items() if x}, cwd=cwd, input=stdin, stdout=subprocess.PIPE, stderr=subprocess.PIPE, timeout=1200)
            if p.returncode != 0:
                raise vc.ToolError("vh eval failed in environment %d: %s" % (k, p.stderr[-500:]))
            outs.append({x["id"]: x for x in vc.read_ndjson(o)})
        for c in acases:
            base = outs[0].get(c["id"])
            for k in range(1, len(outs)):
                other = outs[k].get(c["id"])
                for j, (a, b) in enumerate(zip(base.get("runs", []), other.get("runs", []))):
                    rep.count("evaluations")
                    if a.get("long") or b.get("long"):
                        rep.count("out_of_model")
                        continue
                    if a["out"] == b["out"] and a.get("err") == b.get("err") and not b.get("panic"):
                        rep.count("traces_validated_against_impl")
                    else:
                        rep.violation("the result of a query compiled without options depends on the process environment: %r on %s gives %s err=%s under TZ=UTC and %s err=%s under %s" % (
                            c["src"], evalfam.show(a["in"]), [jqgen.unV(v) for v in a["out"]][:3], a.get("err"), [jqgen.unV(v) for v in b["out"]][:3], b.get("err"),
                            {x: y for x, y in envs[k][0].items() if x in ("TZ", "HOME", "LANG")}),
                            {"family": "eval", "case": {"src": c["src"], "input": a["in"]}, "actual": b, "expected": a})
        rep.cov["rule"] = ("gate table: 10 probes x 32 option sets; variables 0..5 names x 0..7 values; environ loaders with odd pairs; input iterator programs; custom functions: %d calls x %d contexts x overlapping registrations "
                           "vs equivalent definitions; ambient: every builtin (except the named ones) in 4 process environments; non-trivial = a record that produced an output or an error") % (len(CALLS), len(CONTEXTS))
        return rep.finish()
    finally:
        work.cleanup()
