"""C15 - the command prints exactly what the library yields, with the documented statuses.

design level  : spec/Cli.tla (flag parser, marshaler/encoder/terminators, the run loop of cli/cli.go with its
                exit-status bookkeeping, and the property as a function of the scenario) is model-checked by TLC
                over the bounded universe of spec/CliMC.tla (all invariants + action properties, no deadlock).
model -> code : spec/CliGen.tla enumerates / samples that universe and adds seeded longer scenarios; every scenario
                becomes ONE invocation of the real build/gojq: the documents on stdin script the events and a fixed
                interpreter query turns them into values / error(v) / halt / halt_error(code).
code -> model : generated queries x input streams (0..5 documents, optional malformed tail) x TLC-generated command
                lines run through the library (vh c15run, same parsed inputs) and through the binary.
Both kinds of records are validated by the trace specification spec/CliTrace.tla: TLC runs the machine from the
scenario with every invariant on and compares its stdout / stderr / status with the binary's.
"""
import json
import os
import random

import jqgen
import vcheck as vc

PROP = "C15"

# the interpreter of scripted scenarios: a document {"d":[event,...]} (or, under -n / -s, the script embedded in the query)
INTERP = ('if has("v") then .v elif has("e") then error(.e) elif has("halt") then halt '
          'elif has("dbg") then (.dbg | debug | empty) elif has("se") then (.se | stderr | empty) '
          'elif has("hd") then (.hd | halt_error) else (.c as $c | .h | halt_error($c)) end')
BAD_TAILS = ['{"d":x}', '[1,', 'nul', '}', '{"d":[]', '"abc']
PARSE_ERR_QUERIES = [".[", "1 +", "if . then 1", "{a:", ". as | ."]
COMPILE_ERR_QUERIES = ["nosuchfunction", "$nosuchvar", "nosuch(1)", "break $out", '. as $x | $y']


def jtext(x):
    return json.dumps(x, ensure_ascii=False, separators=(",", ":"))


def render_args(tokens, query):
    """argv of a token list (spec/Cli.tla, part 1)."""
    out = []
    for t in tokens:
        k = t["k"]
        if k == "long":
            out.append("--" + t["name"])
        elif k == "longeq":
            out.append("--%s=%s" % (t["name"], t["n"] if t["int"] else "x"))
        elif k == "short":
            out.append("-" + "".join(t["fl"]))
        elif k == "int":
            out.append(str(t["n"]))
        elif k == "dd":
            out.append("--")
        elif k == "pos":
            out.append(query if not query.startswith("-") else " " + query)
        else:
            raise vc.ToolError("unknown token %r" % (t,))
    return out


def script(events, r):
    """The JSON script of a sequence of model events."""
    out = []
    for ev in events:
        if ev["k"] == "val":
            out.append({"v": jqgen.unV(ev["v"])})
        elif ev["k"] == "err":
            out.append({"e": jqgen.unV(ev["v"])})
        elif ev["k"] == "dbg":
            out.append({"dbg": jqgen.unV(ev["v"])})
        elif ev["k"] == "stderr":
            out.append({"se": jqgen.unV(ev["v"])})
        else:
            v, c = jqgen.unV(ev["v"]), ev["c"]
            if v is None and c == 0 and r.random() < 0.7:
                out.append({"halt": True})
            elif c == 5 and r.random() < 0.6:
                out.append({"hd": v})
            else:
                out.append({"h": v, "c": c})
    return out


def scripted_case(sc, r):
    """One invocation of the binary that realises scenario sc."""
    if sc["query"] == "parse":
        q = r.choice(PARSE_ERR_QUERIES)
    elif sc["query"] == "compile":
        q = r.choice(COMPILE_ERR_QUERIES)
    else:
        q = ('(if type == "object" then .d elif type == "null" then %s else %s end) | .[] | %s'
             % (jtext(script(sc["onull"], r)), jtext(script(sc["oslurp"], r)), INTERP))
    docs = [jtext({"d": script(d, r)}) for d in sc["docs"]]
    sep = r.choice(["\n", " ", "\n\n", "\t", ""])
    stdin = sep.join(docs)
    if sc["bad"]:
        stdin += r.choice(["\n", " "]) + r.choice(BAD_TAILS)
    elif docs and r.random() < 0.7:
        stdin += "\n"
    return {"argv": render_args(sc["args"], q), "stdin": stdin}


# ---------------------------------------------------------------------------
# code -> model: generated queries and input streams

ATOMS = [".", ".", ".[]", ".[]?", ".a", ".a?", ".[0]", "1", '"x"', "null", "false", "true", "empty", "[.]", "{a:.}", "tojson",
         "tostring", "type", "length", "keys", "..", "error", 'error("x")', "error(null)", "error({a:1})", 'error("l1\\nl2")',
         "halt", "halt_error", "halt_error(1)", '"bye\\n"|halt_error(0)', "halt_error(300)", "halt_error(-1)", "{a:1}|halt_error",
         "null|halt_error", '"a\\u0000b"', '("a","b\\u0000c","d")', "try error catch .", 'try error("x") catch .',
         'if . == 2 then error("two") else . end', "if . == null then halt else . end", "select(. != 2)", "first(.[])",
         "limit(2; .[])", "range(3)", "(1,2,3)", ".+1", ".*2", "1/0", ".a.b", '"\\(.)"', "@json", "@text", "not", "add", "nan",
         "infinite", "[1,[2,{\"a\":[]}]]", "{}", "[]", "1.5", ".[]|tostring", "label $f | 1, break $f, 2", "[.[]?]", "{(.[]?|tostring):1}",
         ".[]|halt_error(3)", 'if type == "string" then halt_error else . end', 'if type == "number" then halt_error(.) else . end',
         "(.[]?|select(type==\"string\")), error(\"after\")", "., halt, .", "1, error(\"e\"), 2", "false, null", "null", "\"é☃\"",
         "[limit(3; repeat(1))]", "path(..)", "to_entries", "tojson|fromjson", "ascii_downcase", "implode", "error(\"\\u0000\")",
         "debug", "stderr", ".[]? | debug", "debug | error", "(1,2) | stderr", "debug(\"m\")", "[.] | debug | .[0]", "stderr | halt_error",
         "halt_error(1.5)", "halt_error(\"x\")", "halt_error(null)", "error(error)", "try halt catch .", "try halt_error catch .",
         "@base64", "ltrimstr(\"a\")", "splits(\"a\")", "utf8bytelength", "halt_error(0)", "halt_error(256)", "[.]|halt_error(2)",
         # computed floats at every boundary of the number rendering (the command has its own copy of the encoder): format thresholds, integers beyond 2^53, tiny, huge, negative zero
         "1/1000000", "-1/1000000", "[1/1000000, 1e21+0, 1e-7*1, 1e20*10]", "1e21 + 0", "1e20 * 10 | ., -(.)", "1e-7 * 1", "1e-5 / 10", "0.1 + 0.2", "1e15 + 0.5", "9007199254740993 + 0.5", "{a: (1/1000000), b: [1e21 + 0]}",
         "1e300 * 1e10", "-1e300 * 1e10", "5e-324 * 1", "1.7976931348623157e308 + 0", "-0.0 * 1", "[.[]? | numbers | . / 1000000]", "100000000000000000000 * 10 + 0.0", "3.0 + 0", "1e6 / 1e12", "1e-6 + 0", "1e-6 * 1.0000000000000002",
         "1e21 - 65536", "[limit(3; 1e21 * (1, 0.9999999999999999, 1.0000000000000002))]", "(1e-6, 9.999999999999999e-7, 1.0000000000000002e-6) + 0"]


def gen_query(r):
    k = r.random()
    if k < 0.03:
        return r.choice(PARSE_ERR_QUERIES + COMPILE_ERR_QUERIES)
    if k < 0.12:
        return jqgen.program(r, r.choice([2, 3]))
    a = r.choice(ATOMS)
    if k < 0.45:
        return a
    b = r.choice(ATOMS)
    form = r.choice(["%s | %s", "%s, %s", "(%s), (%s)", "[%s] | %s", "try (%s) catch (%s)", "(%s)?, %s", ".[]? | (%s), (%s)",
                     "if . then (%s) else (%s) end", "(%s) as $x | $x, (%s)", "first(%s), (%s)"])
    return form % (a, b)


DOC_POOL = [None, True, False, 0, 1, 2, -7, 1.5, "", "a", "A b", "a\u0000b", "é☃😀", "l1\nl2\t\u007f", [], {}, [1, 2, 3], [2, "a", None],
            {"a": 1}, {"a": {"b": [1, {"c": None}]}}, [[], [[]], {}], {"a": "x\u0000", "b": [False]}, ["a", "b\u0000"], [0, [1, [2, [3]]]],
            {"b": 2, "a": 1, "c": {"z": [], "y": {}}}, 1234567, "<>&\u2028", [None, False], {"": 0, " ": 1}]


def gen_stream(r):
    n = r.choice([0, 1, 1, 2, 2, 3, 3, 4, 5])
    docs = [r.choice(DOC_POOL) if r.random() < 0.75 else jqgen.rand_value(r, 2) for _ in range(n)]
    text = ""
    for d in docs:
        text += jtext(d) + r.choice(["\n", " ", "\n", "  \n"])
    if r.random() < 0.25:
        text += r.choice(BAD_TAILS)
    return text


def lib_case(args, r):
    q = gen_query(r)
    toks = list(args)
    if r.random() < 0.04 and toks and toks[-1]["k"] == "pos" and not any(t["k"] == "dd" for t in toks):
        toks = toks[:-1]           # no query argument: the command runs `.`
        q = "."
    return {"argv": render_args(toks, q), "stdin": gen_stream(r), "lib": {"query": q}, "args": toks}


# ---------------------------------------------------------------------------

def run_cases(work, vh, gojq, cases, tag):
    cpath, opath = work.path(tag + ".cases.ndjson"), work.path(tag + ".obs.ndjson")
    vc.write_ndjson(cpath, [{k: c[k] for k in ("id", "argv", "stdin", "lib") if k in c} for c in cases])
    vc.sh([vh, "c15run", "-gojq", gojq, "-in", cpath, "-out", opath, "-j", str(vc.NCPU)], timeout=3600)
    return vc.read_ndjson(opath)


def make_record(case, res):
    """Trace record of one execution: scenario + observation; None if the execution is undecidable."""
    obs = res["obs"]
    rec = {"id": case["id"]}
    if "sc" in case:
        sc = case["sc"]
    else:
        lib = res["lib"]
        sc = {"args": case["args"], "query": lib["query"], "docs": lib["docs"], "bad": lib["bad"],
              "onull": lib["onull"], "oslurp": lib["oslurp"]}
        if lib.get("long") or lib.get("unrep") or lib.get("panic"):
            rec["oom"] = "long" if lib.get("long") else "unrep" if lib.get("unrep") else "libpanic"
    rec["sc"] = sc
    if obs.get("timeout") or obs.get("execerr") or obs.get("badutf8") or obs.get("exit", -1) < 0:
        rec["oom"] = "timeout" if obs.get("timeout") else "badutf8" if obs.get("badutf8") else "exec"
        rec["obs"] = {"stdout": [], "stderr": [], "exit": 0}
    else:
        rec["obs"] = {"stdout": obs["stdout"], "stderr": obs["stderr"], "exit": obs["exit"]}
    return rec


def text_of(cps):
    try:
        return "".join(chr(c) for c in cps)
    except Exception:
        return repr(cps)


def diag_text(items):
    out = []
    for it in items:
        if it["k"] == "exact":
            out.append(text_of(it["s"]))
        else:
            out.append(text_of(it["p"]) + ("<...>\n" if it["k"] == "line" else "<...to the end>"))
    return "".join(out)


def validate(rep, work, recs, tag, timeout):
    """TLC trace validation; returns {id: verdict}."""
    if not recs:
        return {}
    verdicts, stats = vc.validate_sharded(work, recs, "CliTrace.tla", "CliTrace.cfg", {}, tag=tag, timeout=timeout, per_shard_min=150)
    rep.add_tlc(stats)
    out = {}
    for v in verdicts:
        if isinstance(v, str):          # a line written by CSVWrite: the TLA+ string of a JSON object
            v = json.loads(v)
        out[v["id"]] = v
    return out


# predicates of open known findings (none: F-C15-slurp-empty-nil-slice is fixed; its witnesses stay in REGRESSION)
PREDICATES = {}


def classify_known(rep, work, case, res, rec, tag):
    for k in rep.known:
        c = k.get("classifier", {})
        f = PREDICATES.get(c.get("impl")) if c.get("kind") == "predicate" else None
        if f and f(rep, work, case, res, rec, tag):
            return k["id"]
    return None


# regression corpus: witnesses of the listed findings and pinned facts (DESIGN M7)
def A(*xs):
    out = []
    for x in xs:
        if x == "Q":
            out.append({"k": "pos"})
        elif x.startswith("--"):
            out.append({"k": "long", "name": x[2:]})
        elif x.startswith("-"):
            out.append({"k": "short", "fl": list(x[1:])})
        else:
            out.append({"k": "int", "n": int(x)})
    return out


REGRESSION = [
    (A("-s", "-c", "Q"), "del(.[0])", ""),                       # F-C15-slurp-empty-nil-slice (fixed by 7ad515a): must stay []
    (A("-s", "-e", "Q"), "del(.[1:])", " \n"),
    (A("-s", "Q"), "delpaths([[0,3]])", ""),
    (A("-s", "-c", "Q"), "del(.[0])", "1 2"),
    (A("Q"), 'if . == 1 then error("x") else halt end', "1 2 3"),   # the halt status wins over an earlier error
    (A("Q"), "halt_error(300)", "1"),
    (A("--indent", "10", "Q"), ".[", "1"),                        # status 5, before the query is parsed
    (A("-e", "Q"), "halt", "1"),
    (A("-e", "Q"), ".", "1 null"),
    (A("-e", "Q"), "empty", "1"),
    (A("-e", "Q"), 'if . == 2 then error("two") else null end', "1 2 3"),
    (A("--raw-output0", "Q"), ".", '"a\\u0000b" 2'),
    (A("-j", "--raw-output0", "Q"), ".[]", '["foo",1,2,3]'),
    (A("-s", "Q"), ".", "1 2 x"),
    (A("-n", "Q"), "1", "1 x"),
]


def check(rep, work, vh, gojq, cases, tag, counters, timeout=600):
    """Run the cases on the binary (and the library), validate with TLC, classify."""
    def bump(k, n=1):
        counters[k] = counters.get(k, 0) + n

    results = run_cases(work, vh, gojq, cases, tag)
    recs = [make_record(c, res) for c, res in zip(cases, results)]
    verdicts = validate(rep, work, recs, tag, timeout)
    mism = []
    for case, res, rec in zip(cases, results, recs):
        rep.count("evaluations")
        v = verdicts.get(rec["id"])
        fam = case.get("fam", "?")
        if res["obs"].get("panic") and not (res.get("lib") or {}).get("panic"):
            mism.append((case, res, rec, {"v": "panic"}))      # the command crashed where the library did not
            continue
        if v is None or "tlc" in v:
            bump("tlc_" + (v or {}).get("tlc", "missing"))
            rep.count("out_of_model")
            continue
        if v["v"] == "oom":
            bump("oom:" + str(rec.get("oom", "value")))
            rep.count("out_of_model")
        elif v["v"] == "agree":
            bump("agree:" + fam)
            if fam == "L":
                sc = rec["sc"]
                kinds = {ev["k"] for run in sc["docs"] + [sc["onull"], sc["oslurp"]] for ev in run}
                bump("L:query=" + sc["query"])
                for k in sorted(kinds):
                    bump("L:has_" + k)
                if sc["bad"]:
                    bump("L:malformed_tail")
            rep.count("traces_validated_against_impl")
            if v.get("n", 0) > 0 or v.get("exit", 0) != 0:
                rep.nontrivial([case["argv"], case["stdin"]])
            bump("exit=%d" % v.get("exit", -1) if v.get("exit", 0) in (0, 1, 2, 3, 4, 5) else "exit=other")
            if len(rep.cov["samples"]) < 5 and (v.get("n", 0) > 1 and v.get("exit", 0) != 0 or fam == "F"):
                rep.sample({"argv": case["argv"], "stdin": case["stdin"][:300], "stdout": text_of(rec["obs"]["stdout"])[:300],
                            "stderr": text_of(rec["obs"]["stderr"])[:300], "exit": rec["obs"]["exit"]})
        else:
            mism.append((case, res, rec, v))
    if mism:
        again = run_cases(work, vh, gojq, [dict(c, id=i) for i, (c, _, _, _) in enumerate(mism)], tag + "r")
        for (case, res, rec, v), res2 in zip(mism, again):
            kase = {k: case[k] for k in ("argv", "stdin", "lib", "args", "sc", "fam") if k in case}
            if res2["obs"] != res["obs"] or res2.get("lib") != res.get("lib"):
                bump("nondeterministic")
                rep.violation("non-deterministic behaviour of gojq %r on stdin %r" % (case["argv"], case["stdin"][:200]),
                              {"family": "c15", "case": kase, "actual": [res["obs"], res2["obs"]]})
                continue
            if v["v"] == "panic":
                bump("panic")
                rep.violation("gojq %r panicked on stdin %r: %s" % (case["argv"], case["stdin"][:200], text_of(res["obs"].get("stderr", []))[:300]),
                              {"family": "c15", "case": kase, "actual": res["obs"]})
                continue
            fid = classify_known(rep, work, case, res, rec, tag)
            if fid:
                bump("known:" + fid)
                rep.known_finding(fid, "gojq %s <<< %r prints %r" % (" ".join(map(repr, case["argv"])), case["stdin"][:80],
                                                                      text_of(rec["obs"]["stdout"])[:80]))
                continue
            bump("mismatch")
            e = v["exp"]
            parts = []
            if not v["okOut"]:
                parts.append("stdout %r, specification %r" % (text_of(rec["obs"]["stdout"])[:300], text_of(e["stdout"])[:300]))
            if not v["okErr"]:
                parts.append("stderr %r, specification %r" % (text_of(rec["obs"]["stderr"])[:300], diag_text(e["stderr"])[:300]))
            if not v["okExit"]:
                parts.append("exit status %d, specification %d" % (rec["obs"]["exit"], e["exit"]))
            rep.violation("gojq %s <<< %r: %s" % (" ".join(map(repr, case["argv"])), case["stdin"][:200], "; ".join(parts)),
                          {"family": "c15", "case": kase, "scenario": rec["sc"], "actual": rec["obs"], "expected": e})
    return counters


def tlc_model_check(rep, work, cfg, timeout):
    res = vc.tlc(work.dir, "CliMC.tla", cfg, workers=vc.NCPU, timeout=timeout, xmx="8g", extra=["-noGenerateSpecTE"])
    if not res.ok() or res.distinct == 0:
        raise vc.ToolError("model checking of Cli.tla with %s did not succeed (the specification contradicts itself, "
                           "or TLC failed):\n%s" % (cfg, vc.tlc_error_text(res)))
    rep.add_tlc(res)
    rep.cov.setdefault("model_checking", []).append({"cfg": cfg, "distinct_states": res.distinct, "states_generated": res.generated,
                                                     "wall_s": round(res.wall, 1)})
    return res


def tlc_generate(work, seed, mode, na=0, nb=0, nr=0, timeout=600):
    out = work.path("gen-%s.ndjson" % mode)
    env = {"VERIF_OUT": out, "VERIF_MODE": mode, "VERIF_NA": str(na), "VERIF_NB": str(nb), "VERIF_NR": str(nr)}
    res = vc.tlc(work.dir, "CliGen.tla", "CliGen.cfg", env=env, timeout=timeout, xmx="8g", extra=["-seed", str(seed), "-noGenerateSpecTE"])
    if not os.path.exists(out) or not res.ok():
        raise vc.ToolError("generator CliGen failed:\n%s" % vc.tlc_error_text(res))
    scs = []
    for line in vc.read_ndjson(out):
        for sc in line["scs"]:
            scs.append((line["fam"], sc))
    return scs, res


def run(tier, seed, replay):
    rep = vc.Report(PROP, tier, seed)
    rep.assumptions += ["TLC evaluates Cli.tla correctly", "the harness records stdout/stderr/exit of the real build/gojq and the library's "
                        "yields faithfully (generic recording, no semantics)",
                        "texts owned by other properties are matched as classes: position/excerpt of invalid json and invalid query "
                        "(C17), the %q rendering in the NUL diagnostic, the flag name in usage errors"]
    vh, gojq = vc.build()
    work = vc.Work(PROP)
    try:
        counters = {}
        if replay:
            rec = json.load(open(replay))
            case = dict(rec["case"], id=0)
            check(rep, work, vh, gojq, [case], "replay", counters)
            vc.log("replay:", counters)
            return rep.finish(min_decided=0)
        quick = tier == "quick"
        r = random.Random(seed)
        # 1. design level: model checking of the specification
        for cfg, tmo in ([("CliMC.cfg", 300)] if quick else [("CliMC_T1.cfg", 1500), ("CliMC_T2.cfg", 1500)]):
            tlc_model_check(rep, work, cfg, tmo)
        rep.cov["exhaustive"] = True
        # 2. model -> code: scenarios enumerated / sampled by TLC, scripted into the real binary
        if quick:
            scs, res = tlc_generate(work, seed, "sample", na=1000, nb=1200, nr=1200)
        else:
            scs, res = tlc_generate(work, seed, "all", timeout=1500)
            more, res2 = tlc_generate(work, seed, "sample", na=0, nb=0, nr=12000, timeout=1500)
            scs += [x for x in more if x[0] == "R"]
            rep.add_tlc(res2)
            rep.cov["replayed_universe"] = "every scenario of the universe model-checked by CliMC.cfg (families A, B, F)"
        rep.add_tlc(res)
        cases = []
        for fam, sc in scs:
            c = scripted_case(sc, r)
            c.update({"sc": sc, "fam": fam})
            cases.append(c)
        rep.cov["scripted_scenarios"] = {f: sum(1 for x in scs if x[0] == f) for f in "ABFR"}
        # 3. code -> model: generated queries x streams x TLC-generated command lines, library vs binary
        pool = [sc["args"] for fam, sc in scs if fam in ("R", "F")] or [[{"k": "pos"}]]
        canon = [sc["args"] for fam, sc in scs if fam == "A"]
        nlib = 2200 if quick else 25000
        for _ in range(nlib):
            args = r.choice(pool) if (r.random() < 0.6 or not canon) else r.choice(canon)
            c = lib_case(args, r)
            c["fam"] = "L"
            cases.append(c)
        for toks, q, stdin in REGRESSION:
            cases.append({"argv": render_args(toks, q), "stdin": stdin, "lib": {"query": q}, "args": toks, "fam": "L"})
        # deep values under every indentation: lines indented by more than the encoder's constant runs of blanks (32 spaces / 16 tabs) and by
        # several doublings beyond them (the command has its own copy of the indent writer)
        def nested(d, kind):
            if kind == "arr":
                return "[" * d + "0" + "]" * d
            if kind == "obj":
                return '{"a":' * d + "[]" + "}" * d
            return '[{"k":' * (d // 2) + '[1,"x"]' + "}]" * (d // 2)
        deep = [(("--indent", "9"), 11), (("--indent", "9"), 12), (("--indent", "9"), 4), (("--indent", "9"), 8), (("--indent", "9"), 30), (("--indent", "7"), 14), (("--indent", "7"), 19), (("--indent", "5"), 20), (("--indent", "3"), 33),
                ((), 17), ((), 33), ((), 49), ((), 50), ((), 65), ((), 100), (("--tab",), 17), (("--tab",), 33), (("--tab",), 49), (("--tab",), 50), (("--tab",), 70), (("--indent", "1"), 70), (("--indent", "1"), 104), (("-c",), 100)]
        for fl, d in deep:
            for kind in ("arr", "obj", "mix"):
                if quick and kind != "arr" and r.randrange(3):
                    continue
                d = min(d, {"arr": 104, "obj": 50, "mix": 66}[kind])      # the JSON reader of TLC stops at 255 levels of its own nesting (2 to 4 per level of the value)
                toks = A(*fl, "Q")
                q, stdin = r.choice([(".", nested(d, kind) + "\n"), (".", nested(d, kind) + " 1 " + nested(d, kind)), ("., [.]", nested(d - 1, kind)), ("reduce range(%d) as $i (.; [.])" % (d - 2), "[null]" if kind == "arr" else '{"a":[1]}')])
                cases.append({"argv": render_args(toks, q), "stdin": stdin, "lib": {"query": q}, "args": toks, "fam": "L"})
        for i, c in enumerate(cases):
            c["id"] = i
        step = 6000
        for lo in range(0, len(cases), step):
            check(rep, work, vh, gojq, cases[lo:lo + step], "t%d" % (lo // step), counters, timeout=600 if quick else 1500)
        rep.cov["verdicts"] = counters
        rep.cov["rule"] = ("scripted: TLC-generated scenarios (families A/B/F of CliMC.tla: thorough = all, quick = seeded sample; R = seeded random "
                           "longer scenarios with flag spellings) each replayed as one invocation of build/gojq; L: generated queries x "
                           "0..5 documents (+ malformed tail) x TLC-generated command lines, library events recorded by vh on the same parsed "
                           "inputs; every record validated by CliTrace.tla (stdout exact, stderr exact or class, exit status); "
                           "non-trivial = prints a value or exits non-zero; distinct by (argv, stdin)")
        return rep.finish()
    finally:
        work.cleanup()
