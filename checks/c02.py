"""C02 - paths and update operators equal their defining reductions.

Design level : Heap.tla (update/updateObject/updateArrayIndex/updateArraySlice + allocator over an explicit heap)
               model-checked against value semantics; configuration HeapRepaired = what the code does after the
               fix: commits; HeapPinned (the code before them) is the negative control that must violate I1.
model -> code: GenPaths.tla enumerates the path-safe grammar (depth <= 1 exhaustive, depth 2 sampled) and the
               overlapping path tuples x update bodies of Heap.tla; each becomes `[path(p)]`, `[p]`,
               `[path(p) as $q | getpath($q)]`, `p |= f`, `p = x`, `p op= x`, `del(p)`, ... on the real gojq.
code -> model: every run is validated by TLC against JqSem.tla, where `=`/`|=`/op= are DEFINED as the reductions
               over path(p) with getpath/setpath/delpaths (spec/prelude_spec.jq), and the update forms are ALSO compared
               on the real binary with the explicit reduction text (two independent equalities).
"""
import json
import random

import evalfam
import jqgen
import vcheck as vc

PROP = "C02"

MODIFY_DEF = ("def _m(ps; f): reduce path(ps) as $p ([., []]; . as [$x, $d] | label $out | "
              "((($x | getpath($p) | f) as $y | [($x | setpath($p; $y)), $d] | ., break $out), [$x, $d + [$p]])) "
              "| . as [$x, $d] | $x | delpaths($d); ")
ASSIGN_DEF = "def _a(ps; $v): reduce path(ps) as $p (.; setpath($p; $v)); "
CTX = "2 as $x | "


LAW = ('(try [%s] catch "p-fails") as $v | if $v == "p-fails" then $v else (try ([path(%s)] as $ps | if ($ps | length) != ($v | length) then "invalid-path-suppressed" '
       'else [$ps[] as $q | getpath($q)] == $v end) catch (if (tostring | contains("nvalid path")) then "invalid-path" else "law-error: \\(.)" end)) end')


def forms(p, r, f=None):
    """query forms for a path expression p"""
    f = f or r.choice([".", "7", "[.]", "{x: ., y: .}", ". + 1", "empty", "(., 1)", "tostring", "null", ".[0]?", "length?", "$x"])
    x = r.choice(["1", "null", "[1]", "{a: 1}", "(1, 2)", "$x", ".", "empty"])
    op = r.choice(["+=", "-=", "*=", "/=", "%=", "//="])
    return [
        ("path", "[path(%s)]" % p, None),
        ("vals", "[%s]" % p, None),
        ("law-getpath", "[path(%s) as $q | getpath($q)] == [%s]" % (p, p), None),
        # the same law ASSERTED (the specification is a transcription of the code, agreement alone would accept a getpath that refuses what the
        # access accepts): wherever p itself succeeds, getpath of every emitted path succeeds and returns p's outputs - or path(p) raises the
        # invalid-path error the property demands for computed values (inside p's own `?` it shows as fewer paths than outputs).  checks/c02.py: assert_laws
        ("law-asserted", LAW % (p, p), None),
        ("modify", "(%s) |= %s" % (p, f), MODIFY_DEF + "_m(%s; %s)" % (p, f)),
        ("assign", "(%s) = %s" % (p, x), ASSIGN_DEF + "_a(%s; %s)" % (p, x)),
        ("opassign", "(%s) %s %s" % (p, op, x), MODIFY_DEF + "%s as $z | _m(%s; . %s $z)" % (x, p, op[:-1])),
        ("del", "del(%s)" % p, "delpaths([path(%s)])" % p),
        ("paths", r.choice(["[paths(%s)]" % "type == \"number\"", "[paths]", "[paths] == [path(..)] - [[]]", "pick(%s)" % p, "to_entries", "with_entries(.)",
                            "[tostream]", "map_values(%s)" % f, "[tostream] == [path(def r: (.[]? | r), .; r) as $p | getpath($p) | reduce path(.[]?) as $q ([$p, .]; [$p + $q])]",
                            "to_entries == [keys[] as $k | {key: $k, value: .[$k]}]", "map_values(%s) == (.[] |= %s)" % (f, f)]), None),
    ]


def probe_empty_location(rep, work, vh):
    """Open finding F-C02-empty-array-location (exact witness): two empty arrays count as one location."""
    w = next((k for k in rep.known if k["id"] == "F-C02-empty-array-location"), None)
    if not w:
        return
    recs = evalfam.replay(work, vh, [{"id": 0, "src": w["witness"]["query"], "inputs": [jqgen.V(w["witness"]["input"])]}], tag="probe")
    run = (recs[0].get("runs") or [{}])[0] if recs else {}
    if run.get("err") is None and [jqgen.unV(x) for x in run.get("out", [])] == w["witness"]["got"]:
        rep.known_finding(w["id"], "%r on %s returns %s instead of an invalid path error" % (w["witness"]["query"], json.dumps(w["witness"]["input"]), json.dumps(w["witness"]["got"])))


def run(tier, seed, replay):
    rep = vc.Report(PROP, tier, seed)
    rep.assumptions += ["container identity in path tracking is decided by provenance (navigated / constructed); cases where the model cannot know it are out of model",
                        "Heap.tla abstracts Go slices as (address, offset, length, capacity) views and maps as association lists"]
    vh, _ = vc.build()
    work = vc.Work(PROP)
    try:
        prelude = evalfam.make_prelude(work, vh)
        if replay:
            evalfam.replay_file(rep, work, vh, prelude, replay)
            return rep.finish(min_decided=0)
        r = random.Random(seed)
        quick = tier == "quick"
        # --- design level
        res = vc.tlc(work.dir, "Heap.tla", "HeapRepaired.cfg", workers=vc.NCPU, timeout=3000, xss="256m", xmx="8g")
        rep.add_tlc(res)
        if not res.ok():
            raise vc.ToolError("Heap.tla (HeapRepaired) does not hold:\n" + vc.tlc_error_text(res))
        rep.cov["heap_states"] = res.distinct
        neg = vc.tlc(work.dir, "Heap.tla", "HeapPinned.cfg", workers=4, timeout=600, xss="256m")
        if not any("Invariant %s is violated" % i in neg.out for i in ("I1", "I2", "I3")):
            raise vc.ToolError("negative control: Heap.tla with the pre-repair switches must violate I1/I2/I3:\n" + vc.tlc_error_text(neg)[:600])
        # --- conformance
        uni = jqgen.input_universe()
        heapin = [jqgen.V(x) for x in ([0, 1, 2, 3], [0, 1], {"a": {"b": 1}}, {"a": [0, 1, 2], "b": {"x": {"b": 1}}}, [[0, 1], {"a": [2]}, 3], {"x": [1, 2, 3], "a": {"x": {"c": 1}}})]
        gen, gres = evalfam.tlc_generate(work, "GenPaths.tla", seed, {"VERIF_N2": "300" if quick else "4000", "VERIF_NH": "400" if quick else "6000"})
        rep.add_tlc(gres)
        d1 = [g for g in gen if g["d"] == 1]
        rep.cov["tlc_enumerated_depth1_path_expressions"] = len(d1)
        if quick:
            keep = [g for g in d1 if "[] |" in g["p"] or "{} |" in g["p"] or "select(false)" in g["p"]][:250]     # computed empty containers: the invalid-path boundary
            keep += r.sample([g for g in d1 if " as [" in g["p"] or " as {" in g["p"]], 250)                      # destructuring bindings inside path expressions
            d1 = keep + r.sample(d1, 600)
        cases, pairs = [], []
        # null-valued keys / elements, nested: deleting or updating a member that EXISTS and holds null is not the same as a missing one
        nullish = [jqgen.V(x) for x in ({"a": None, "b": 1}, {"a": {"b": None}, "b": None}, [None, 1, None], {"a": [None], "b": {"a": None}}, [{"a": None}, None])]

        lawcases = set()
        stringy = [jqgen.V(x) for x in ("abc", "é日本", "", "a", ["ab", "c"], {"a": "xyz"}, "ab")]

        def add(src, inputs, ref=None):
            cases.append({"id": len(cases), "src": CTX + src, "inputs": inputs})
            if ref:
                cases.append({"id": len(cases), "src": CTX + ref, "inputs": inputs})
                pairs.append((len(cases) - 2, len(cases) - 1))

        for g in d1 + [g for g in gen if g["d"] == 2]:
            fs = forms(g["p"], r)
            for kind, src, ref in (fs if not quick else [fs[0], fs[1], fs[2], fs[3]] + r.sample(fs[4:], 2)):
                add(src, r.sample(uni, 1 if quick else 3) + [r.choice(nullish)] + (r.sample(stringy, 2) if kind == "law-asserted" else []), ref)
                if kind == "law-asserted" and ("reduce " in g["p"] or "foreach " in g["p"]):
                    continue      # reduce / foreach are not path expressions of the property's grammar (jq 1.6 and gojq reject navigation from their state)
                if kind == "law-asserted" or (kind == "paths" and any(m in src for m in ("[paths] == ", "[tostream] == ", "to_entries == ", ") == (.[] |= "))):
                    lawcases.add(len(cases) - 1 - (1 if ref else 0))        # (the definitional equalities of the `paths` forms are asserted as well)
        for g in [g for g in gen if g["d"] == 0]:
            ins = r.sample(heapin, 2 if quick else 4)
            add("%s |= %s" % (g["p"], g["f"]), ins, MODIFY_DEF + "_m(%s; %s)" % (g["p"], g["f"]))
            if r.randrange(3) == 0:
                add("%s = %s" % (g["p"], g["f"]), ins, ASSIGN_DEF + "_a(%s; %s)" % (g["p"], g["f"]))
                add("del(%s)" % g["p"], ins, "delpaths([path(%s)])" % g["p"])
        for _ in range(300 if quick else 5000):
            p = jqgen.Gen(r).pathexpr(r.choice([1, 2, 2, 3]))
            for kind, src, ref in r.sample(forms(p, r), 3):
                add(src, r.sample(uni, 2), ref)
        # updates whose body deletes (empty) NESTED in updates that delete, recursively, repeatedly in one program and over several inputs of one
        # compiled query: every `|=` keeps its own list of paths to delete
        nested = [".[] |= (if type == \"object\" then (.c |= empty) else empty end)", "walk(select(. != 1))", "walk(if type == \"number\" then empty else . end)", ".. |= (if type == \"array\" then (.[0] |= empty) else . end)",
                  "(.a, .b) |= ((.x, .c)? |= empty)", ".[] |= ((.[]? |= empty) | select(length > 0))", "map_values(map_values(empty)?)", "map_values(if type == \"object\" then map_values(select(. != 1)) else empty end)",
                  ".[] |= (.[]? |= (.[]? |= empty))", "(.[] | select(type == \"object\")) |= with_entries(select(.value != 2))", ".[] |= (if type == \"number\" then empty else (.[]? |= select(. != 3)) end)",
                  "(.[] |= empty), (.[] |= (.[]? |= empty))", "[(.[] |= empty), (.[]? |= select(type != \"number\"))]", "reduce (1, 2) as $i (.; .[] |= (if type == \"number\" then empty else (.[]? |= empty) end))",
                  "def d: .[]? |= (d | select(. != 1 and . != [])); d", "to_entries |= map(select(.value != 1)) | .[] |= (.value |= (.[]? |= empty))", "del(.[] | select(. == 1)) | .[] |= (.[]? |= empty)",
                  ".[] |= (.. |= (numbers |= empty))?", "path(..) as $p | getpath($p) |= (.[]? |= empty)", "[paths] as $ps | reduce $ps[] as $p (.; getpath($p) |= (if type == \"number\" then empty else . end))?"]
        nestin = [jqgen.V(x) for x in ({"a": 1, "b": {"c": 2, "d": 3}}, {"a": 1, "b": {"c": 1, "d": 2}, "e": 3}, [1, [1, 2], {"c": 1, "x": 2}, 3], {"a": {"x": 1, "c": 2}, "b": {"c": 3}}, [[1, 2, 3], [4, [5, 6]], 7], {"k": [1, {"c": [2, 3]}], "m": 1},
                                           [{"c": 1}, {"c": 2, "d": [3, 3]}, 1, 2, 3, 4, 5, 6, 7, 8, 9], [[[1, 2], [3]], [[4]], 5], {}, [], 1)]
        # one `|=` whose paths write below an element, then through a SLICE covering it with a body that duplicates the element, then into one of the
        # copies: the copies stay independent (the value handed to the body is released from in-place updating together with everything below it)
        dupf = ["if type == \"array\" then [.[0], .[0]] else 5 end", "if type == \"array\" then . + . else 5 end", "if type == \"array\" then [.[0], .[0], .[0]] else (. // 1) + 1 end",
                "if type == \"array\" then [.[]?, .[]?] else [.] end", "if type == \"array\" then {a: .[0], b: .[0]} else 7 end", "if type == \"array\" then [., .] else 0 end"]
        dupp = ["(.[0].x, .[0:1], .[0].y)", "(.[0].x, .[0:1], .[1].y)", "(.[0].x, .[:1], .[1].x, .[0].y)", "(.[0][0], .[0:1], .[0][1], .[1][1])", "(.[1].x, .[0:2], .[3].y, .[1].y)", "(.[0].x, .[0:1], .[0:1], .[0][0].y?)",
                "(.[0].x.z?, .[0:1], .[0].x, .[1].x)", "(.a[0].x, .a[0:1], .a[0].y, .a[1].y)", "(.[0].x, .[0:2][0:1], .[0].y)", "(.[-1].x?, .[-1:], .[-1].y?, .[0].y?)"]
        dupin = [jqgen.V(x) for x in ([{"x": 0, "y": 0}, 7], [{"x": 0, "y": 0}, {"x": 1, "y": 1}, 2], [[0, 1], [2, 3]], {"a": [{"x": 0, "y": 0}, 7]}, [{"x": {"z": 0}, "y": 0}], [{"x": 0, "y": 0}])]
        for pth in dupp:
            for f in (dupf if not quick else r.sample(dupf, 3)):
                add("%s |= (%s)" % (pth, f), dupin, MODIFY_DEF + "_m(%s; %s)" % (pth, f))
        for q in nested:
            add(q, nestin, None)
            add("(%s), (%s)" % (q, q), r.sample(nestin, 4), None)
        counters = evalfam.check_cases(rep, work, vh, prelude, cases, timeout=900 if quick else 3000)
        rep.cov["verdicts"] = counters
        probe_empty_location(rep, work, vh)
        # the asserted law on the real code
        nlaw = 0
        for rec in evalfam.replay(work, vh, [cases[i] for i in sorted(lawcases)], tag="laws"):
            for run_ in rec.get("runs", []):
                if run_.get("long") or run_.get("panic"):
                    continue
                out = [jqgen.unV(x) for x in run_["out"]]
                if run_.get("err") is None and out in ([True], ["p-fails"], ["invalid-path"], ["invalid-path-suppressed"]):
                    nlaw += 1
                    continue
                if run_.get("err") is not None and "(try [" not in rec["src"]:
                    continue          # a definitional equality whose sides both fail on this input (wrong type): nothing to compare
                fid = evalfam.match_known(rep, rec, run_, None, {})
                if fid:
                    rep.known_finding(fid, "%r on %s" % (rec["src"], evalfam.show(run_["in"])))
                    continue
                rep.violation("path/getpath law fails on the real code: where the access succeeds, getpath of the emitted paths does not return its outputs: %r on %s gives %s err=%s" % (
                    rec["src"][len(CTX):], evalfam.show(run_["in"]), out, run_.get("err")), {"family": "eval", "case": {"src": rec["src"], "input": run_["in"]}, "actual": run_, "expected": [True]})
        rep.cov["asserted_getpath_law_runs_holding"] = nlaw
        # --- second equality, on the real code alone: update form == explicit defining reduction
        recs = {rec["id"]: rec for rec in evalfam.replay(work, vh, [cases[i] for pr in pairs for i in pr], tag="pairs")}
        npairs = 0
        for a, b in pairs:
            ra, rb = recs.get(a), recs.get(b)
            if not ra or not rb or "runs" not in ra or "runs" not in rb:
                continue
            for j, (x, y) in enumerate(zip(ra["runs"], rb["runs"])):
                if x.get("long") or y.get("long") or x.get("panic") or y.get("panic"):
                    continue
                npairs += 1
                ex, ey = x.get("err"), y.get("err")
                same_err = (ex is None) == (ey is None) and (ex is None or ex.get("k") == ey.get("k") and (ex["v"].get("t") == "opaque" or ey["v"].get("t") == "opaque" or ex["v"] == ey["v"]))
                if x["out"] != y["out"] or not same_err:
                    rep.violation("update operator differs from its defining reduction on the real code: %r gives %s err=%s but %r gives %s err=%s (input %s)" % (
                        ra["src"], [jqgen.unV(v) for v in x["out"]], ex, rb["src"], [jqgen.unV(v) for v in y["out"]], ey, evalfam.show(x["in"])),
                        {"family": "eval", "case": {"src": ra["src"], "input": x["in"]}, "actual": x, "expected": y})
        rep.cov["update_vs_explicit_reduction_pairs"] = npairs
        rep.cov["rule"] = ("path expressions: GenPaths.tla depth<=1 (quick: 700 sampled, thorough: all) + depth-2 samples + random jqgen path expressions; overlapping path tuples x update bodies; "
                           "x inputs; forms path/values/getpath-law/|=/=/op=/del/paths...; non-trivial = spec result has an output or error")
        rep.cov["exhaustive"] = not quick
        return rep.finish()
    finally:
        work.cleanup()
