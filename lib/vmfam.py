"""The "vm" family: the real compiler's bytecode and the real interpreter's recorded step
trace, validated state by state by TLC against VM.tla (ValidateVM.tla), with refinement to JqSem."""
import glob
import os

import jqgen
import vcheck as vc


def record(work, vh, cases, tag="vm", maxsteps=3000, maxnext=60):
    return vc.run_restartable([vh, "vm", "-maxsteps", str(maxsteps), "-maxnext", str(maxnext)], cases, work, tag)


class _Agg:
    """Aggregate of several TLC runs, with the interface of vcheck.TlcResult that the callers use."""
    def __init__(self):
        self.rc, self.out, self.wall, self.generated, self.distinct, self.timeout = 0, "", 0.0, 0, 0, False

    def add(self, res):
        self.rc = self.rc or res.rc
        self.out += res.out
        self.wall += res.wall
        self.generated += res.generated
        self.distinct += res.distinct
        self.timeout = self.timeout or res.timeout

    def ok(self):
        return self.rc == 0 and "Error:" not in self.out


def validate(work, recs, prelude, tag="vm", maxsteps=3000, timeout=1800, workers=None, chunk=1200):
    """Returns ({id: verdict}, TlcResult-like). recs must carry code/steps/next.  The records are validated in chunks (one TLC run
    each, a few in parallel): one run over tens of thousands of recorded traces does not fit the JVM."""
    import concurrent.futures as cf
    import json as _json
    # chunks are bounded in records AND in bytes; a single recorded trace above 1 MiB (thousands of steps over a wide or deep value) gets no
    # verdict (out of model, counted by the caller): one such batch kept TLC busy for half an hour
    chunks, cur, size = [], [], 0
    for rec in recs:
        n = len(_json.dumps(rec, separators=(",", ":")))
        if n > (1 << 20):
            continue
        if cur and (len(cur) >= chunk or size + n > (48 << 20)):
            chunks.append(cur)
            cur, size = [], 0
        cur.append(rec)
        size += n
    chunks.append(cur)
    par = 1 if len(chunks) == 1 else min(4, len(chunks))
    w = workers or max(2, vc.NCPU // par)

    def one(k):
        tpath = work.path("%s.valid%d.ndjson" % (tag, k))
        vc.write_ndjson(tpath, chunks[k])
        outp = work.path("%s.verdicts%d" % (tag, k), "v")
        res = vc.tlc(work.dir, "ValidateVM.tla", "ValidateVM.cfg",
                     env={"VERIF_TRACE": tpath, "VERIF_OUT": outp, "VERIF_PRELUDE": prelude, "VERIF_MAXSTEPS": str(maxsteps)},
                     workers=w, timeout=timeout, xmx="8g" if par == 1 else "6g")
        vs = {}
        for f in glob.glob(outp + ".*"):
            for v in vc.read_ndjson(f):
                vs[v["id"]] = v
        if not os.environ.get("VERIF_KEEP"):
            os.remove(tpath)
        return vs, res

    agg, allvs = _Agg(), {}
    with cf.ThreadPoolExecutor(max_workers=par) as ex:
        for vs, res in ex.map(one, range(len(chunks))):
            allvs.update(vs)
            agg.add(res)
    return allvs, agg


def check(report, work, vh, prelude, cases, family="vm", tag="vm", maxsteps=3000, on_verdict=None):
    """Record + validate; generic classification. Returns (recs, verdicts, counters)."""
    recs = record(work, vh, cases, tag=tag, maxsteps=maxsteps)
    counters = {}

    def bump(k):
        counters[k] = counters.get(k, 0) + 1

    usable = []
    for rec in recs:
        report.count("evaluations")
        if "fatal" in rec:
            bump("real_fatal")
            report.violation("the process dies of a runtime fatal error running %r: %s" % (rec.get("src"), rec["fatal"]), {"family": family, "case": {"src": rec.get("src"), "input": {"t": "null"}}, "actual": {"fatal": rec["fatal"]}})
        elif rec.get("hang"):
            bump("real_hang")
            report.violation("the run does not return and does not react to its cancelled context: %r on %s (mask=%s cancel=%s)" % (rec["src"], jqgen.unV(rec["input"]), rec.get("mask"), rec.get("cancel")),
                             {"family": family, "case": {"src": rec["src"], "input": rec["input"], "mask": rec.get("mask") or 0, "cancel": rec.get("cancel") or 0}, "actual": {"hang": True}})
        elif "panic" in rec:
            bump("real_panic")
            report.violation("panic: %s in %r on %s (mask=%s cancel=%s)" % (rec["panic"], rec["src"], jqgen.unV(rec["input"]), rec.get("mask", 0), rec.get("cancel", 0)),
                             {"family": family, "case": {"src": rec["src"], "input": rec["input"], "mask": rec.get("mask", 0), "cancel": rec.get("cancel", 0)},
                              "actual": {"panic": rec["panic"]}})
        elif "perr" in rec:
            bump("parse_error")
        elif "cerr" in rec:
            bump("compile_error")
        else:
            if rec.get("resumed"):
                bump("resumed_after_false")
                report.violation("Next returned %s after it had returned false: %r on %s" % (rec["resumed"][:2], rec["src"], jqgen.unV(rec["input"])),
                                 {"family": family, "case": {"src": rec["src"], "input": rec["input"], "cancel": rec.get("cancel", 0)}, "actual": {"resumed": rec["resumed"]}})
            usable.append(rec)
    vs, res = validate(work, usable, prelude, tag=tag, maxsteps=maxsteps)
    report.add_tlc(res)
    if not res.ok():
        vc.log("ValidateVM: TLC reported:\n" + vc.tlc_error_text(res)[:1500])
        counters["tlc_error"] = 1
        import re as _re
        if _re.search(r"Semantic errors|\*\*\* Errors: \d|Parse Error|Fatal errors while parsing|Could not find module", res.out) or (usable and not vs):
            raise vc.ToolError("ValidateVM.tla produced no verdict at all (the specification does not load or failed on the first record):\n" + vc.tlc_error_text(res)[:1500])
    for rec in usable:
        v = vs.get(rec["id"])
        if v is None:
            bump("no_verdict")
            report.count("out_of_model")
            continue
        bump(v["v"] + ("/" + v["ref"] if v["v"] == "ok" and v.get("ref") not in (None, "ok") else ""))
        if on_verdict:
            on_verdict(rec, v)
        if v["v"] == "ok":
            report.count("traces_validated_against_impl")
            if len(rec["next"]) > 0:
                report.nontrivial([rec["src"], rec["input"], rec.get("mask", 0), rec.get("cancel", 0)])
            report.sample({"query": rec["src"], "input": jqgen.unV(rec["input"]), "mask": rec.get("mask", 0), "cancel": rec.get("cancel", 0),
                           "vm_steps": v["steps"], "next_results": len(rec["next"])})
        elif v["v"] in ("oom", "cut"):
            report.count("out_of_model")
        elif v["v"] in ("drift", "drift-len"):
            vc.log("SPEC-DRIFT: recorded VM trace rejected at step %s for %r on %s: %s" % (v.get("n"), rec["src"], jqgen.unV(rec["input"]), {k: x for k, x in v.items() if k not in ("id", "out")}))
            report.count("out_of_model")
            report.count("spec_drift")
    return recs, vs, counters
