"""Seeded generators of jq programs (source text) and JSON values (tagged encoding).

The generators only produce text; what a program MEANS is decided by the TLA+
specification from the AST the real parser returns for that text.
"""
import random

# ---------------------------------------------------------------------------
# values (tagged encoding, DESIGN 2.3)

def V(x):
    """Python value -> tagged model value. ints, dyadic floats, str, list, dict, None, bool."""
    if x is None:
        return {"t": "null"}
    if x is True or x is False:
        return {"t": "bool", "b": x}
    if isinstance(x, int):
        if abs(x) < 2 ** 30:
            return {"t": "num", "n": x}
        return {"t": "big", "neg": x < 0, "d": [int(c) for c in str(abs(x))]}
    if isinstance(x, float):
        if x != x:
            return {"t": "float", "f": "nan"}
        if x in (float("inf"), float("-inf")):
            return {"t": "float", "f": "inf" if x > 0 else "-inf"}
        if x == int(x):
            return V(int(x))
        d = 2
        while d <= 4096:
            if x * d == int(x * d):
                return {"t": "frac", "n": int(x * d), "d": d}
            d *= 2
        return {"t": "float", "f": repr(x)}
    if isinstance(x, str):
        return {"t": "str", "s": [ord(c) for c in x]}
    if isinstance(x, list):
        return {"t": "arr", "a": [V(e) for e in x]}
    if isinstance(x, dict):
        return {"t": "obj", "o": [[[ord(c) for c in k], V(x[k])] for k in sorted(x)]}
    raise TypeError(x)


def unV(v):
    """tagged -> Python (for messages / jq literals); opaque floats as strings."""
    t = v["t"]
    if t == "null":
        return None
    if t == "bool":
        return v["b"]
    if t == "num":
        return v["n"]
    if t == "big":
        n = int("".join(map(str, v["d"])))
        return -n if v["neg"] else n
    if t == "frac":
        return v["n"] / v["d"]
    if t == "float":
        return {"nan": float("nan"), "inf": float("inf"), "-inf": float("-inf")}.get(v["f"], v["f"])
    if t == "str":
        return "".join(chr(c) for c in v["s"])
    if t == "arr":
        return [unV(e) for e in v["a"]]
    if t == "obj":
        return {"".join(chr(c) for c in k): unV(e) for k, e in v["o"]}
    return "<%s>" % t


SMALL_INPUTS = [
    None, True, False, 0, 1, -2, 3, 1.5, "a", "", "ab",
    [], [0], [1, 2], [3, 1, 2], [[1], [2, 3]], [None, False, 0], ["a", "b"], [1, "a", None],
    {}, {"a": 1}, {"a": 1, "b": 2}, {"a": [1, 2], "b": {"c": 3}}, {"a": None, "b": False},
    {"a": {"b": {"c": 1}}, "d": [0, [1]]}, [{"a": 1}, {"a": 2, "b": 0}], [{"a": [1]}, 3],
    {"a": "x", "b": [{"a": 1}, {"b": 2}]}, [[], {}, [[]]], {"b": 1, "a": {"a": 2}},
]


def input_universe():
    return [V(x) for x in SMALL_INPUTS]


def rand_value(r, depth=2):
    k = r.randrange(10 if depth > 0 else 6)
    if k == 0:
        return None
    if k == 1:
        return r.choice([True, False])
    if k in (2, 3):
        return r.choice([0, 1, 2, 3, -1, 5, 10, -7, 100])
    if k == 4:
        return r.choice(["", "a", "b", "ab", "abc", "x y", "é", "日本"])
    if k == 5:
        return r.choice([0.5, 1.5, -2.25, 2, 7])
    if k in (6, 7):
        return [rand_value(r, depth - 1) for _ in range(r.randrange(4))]
    return {r.choice(["a", "b", "c", "d"]): rand_value(r, depth - 1) for _ in range(r.randrange(4))}


# ---------------------------------------------------------------------------
# programs

class Gen:
    """Random programs of the core grammar (C01) with knobs for other families."""

    def __init__(self, r, paths=False, builtins=None):
        self.r = r
        self.vars, self.labels, self.funcs = [], [], []   # funcs: (name, arity, kinds)
        self.builtins = builtins or []

    def pick(self, *xs):
        return self.r.choice(xs)

    def atom(self):
        r = self.r
        n = r.randrange(24)
        if n < 4:
            return "."
        if n < 7:
            return self.pick(".a", ".b", ".[0]", ".[1]", ".[-1]", ".c", '.["a"]')
        if n < 8:
            return ".[]"
        if n < 11:
            return self.pick("0", "1", "2", "3", "-1", "10")
        if n < 12:
            return self.pick("null", "true", "false")
        if n < 14:
            return self.pick('"a"', '"b"', '"x"', '""')
        if n < 15:
            return "empty"
        if n < 17 and self.vars:
            return r.choice(self.vars)
        if n < 18 and self.labels:
            return "break " + r.choice(self.labels)
        if n < 21 and self.funcs:
            name, ar = r.choice(self.funcs)
            if ar == 0:
                return name
            return name + "(" + "; ".join(self.expr(1) for _ in range(ar)) + ")"
        if n < 22:
            return self.pick("[]", "{}", "[1,2]", '{"a":1}')
        if n < 23:
            return self.pick(".[1:]", ".[:1]", ".[1:2]", ".a?", ".[]?", "..")
        return self.pick("error", "length", "keys", "not", "type", "add", "first", "last", "reverse", "tostring", "tojson")

    def expr(self, d):
        if d <= 0:
            return self.atom()
        r = self.r
        e = lambda: self.expr(d - 1)
        k = r.randrange(34)
        if k == 0:
            return e() + " | " + e()
        if k == 1:
            return "(" + e() + ", " + e() + ")"
        if k == 2:
            return "(" + e() + " // " + e() + ")"
        if k in (3, 4):
            return "(" + e() + " " + self.pick("+", "-", "*", "/", "%", "==", "!=", "<", "<=", ">", ">=") + " " + e() + ")"
        if k == 5:
            return "(" + e() + " " + self.pick("and", "or") + " " + e() + ")"
        if k == 6:
            return "[" + e() + "]"
        if k == 7:
            return "(" + e() + ")" + self.pick(".a", ".b", "[0]", "[1]", "[-1]", "[1:]", "[:2]", '["a"]')
        if k == 8:
            return "(" + e() + ")[]" + self.pick("", "?")
        if k == 9:
            return "(" + e() + ")[" + e() + "]"
        if k == 10:
            return "try (" + e() + ") catch (" + e() + ")"
        if k == 11:
            return "try (" + e() + ")"
        if k == 12:
            return "(" + e() + ")?"
        if k == 13:
            s = "if " + e() + " then " + e()
            if r.randrange(3) == 0:
                s += " elif " + e() + " then " + e()
            if r.randrange(4) > 0:
                s += " else " + e()
            return s + " end"
        if k == 14:
            v = "$v%d" % len(self.vars)
            src = e()
            self.vars.append(v)
            b = e()
            self.vars.pop()
            return "(" + src + " as " + v + " | " + b + ")"
        if k == 15:
            # destructuring, possibly with ?//
            a, b = "$p%d" % len(self.vars), "$q%d" % len(self.vars)
            pats = [self.pick("[%s]" % a, "[%s, %s]" % (a, b), "{a: %s}" % a, "{%s}" % "$a", "{a: [%s]}" % a, "{a: %s, b: %s}" % (a, b), a)]
            names = {a, b, "$a"}
            for _ in range(self.pick(0, 0, 1, 2)):
                pats.append(self.pick("[%s]" % b, "{b: %s}" % b, b, "{a: %s}" % a, "[%s, %s]" % (b, a), a))
            src = e()
            used = [n for n in (a, b, "$a") if any(n in p for p in pats)]
            self.vars.extend(used)
            body = e()
            for _ in used:
                self.vars.pop()
            body = "[" + ", ".join(used) + "], " + body if r.randrange(2) else body
            return "(" + src + " as " + " ?// ".join(pats) + " | " + body + ")"
        if k == 16:
            v = "$v%d" % len(self.vars)
            src, init = e(), e()
            self.vars.append(v)
            u = e()
            self.vars.pop()
            return "reduce (" + src + ") as " + v + " (" + init + "; " + u + ")"
        if k == 17:
            v = "$v%d" % len(self.vars)
            src, init = e(), e()
            self.vars.append(v)
            u = e()
            x = e() if r.randrange(2) else None
            self.vars.pop()
            return "foreach (" + src + ") as " + v + " (" + init + "; " + u + ("; " + x if x else "") + ")"
        if k == 18:
            l = "$l%d" % len(self.labels)
            self.labels.append(l)
            b = e()
            self.labels.pop()
            return "(label " + l + " | " + b + ")"
        if k == 19:
            # def with a filter parameter and/or a $value parameter
            name = "f%d" % len(self.funcs)
            kind = r.randrange(4)
            if kind == 0:
                self.funcs.append(("p", 0))
                body = e()
                self.funcs.pop()
                sig, ar = name + "(p)", 1
            elif kind == 1:
                self.vars.append("$a")
                body = e()
                self.vars.pop()
                sig, ar = name + "($a)", 1
            elif kind == 2:
                self.vars.append("$a")
                self.funcs.append(("g", 0))
                body = e()
                self.funcs.pop()
                self.vars.pop()
                sig, ar = name + "($a; g)", 2
            else:
                # recursion guarded by a depth test
                self.funcs.append((name, 0))
                body = "if (type == \"number\" and . < 3) then (" + self.pick(".+1", ".+1, .+2", ".*2+1") + " | " + name + ") else " + e() + " end"
                self.funcs.pop()
                sig, ar = name, 0
            self.funcs.append((name, ar))
            rest = e()
            self.funcs.pop()
            return "(def " + sig + ": " + body + "; " + rest + ")"
        if k == 20:
            return "(" + e() + " | " + self.pick("error", "not", "length", "keys", "type", "tostring", "tojson", "add", "reverse", "sort", "unique", "min", "max", "first", "last", "flatten", "to_entries", "floor", "abs", "explode", "ascii_downcase", "tonumber", "isnan", "transpose") + ")"
        if k == 21:
            return "{" + self.pick("a", "b", '"c"', "(" + e() + ")") + ": " + e() + self.pick("", ", b: " + self.expr(d - 1), ", a: 1") + "}"
        if k == 22:
            return '"' + self.pick("x", "", "a b") + "\\(" + e() + ")" + self.pick("", "y", "\\(" + self.expr(d - 1) + ")") + '"'
        if k == 23:
            f1 = self.pick("map", "select", "first", "last", "isempty", "any", "all", "recurse", "sort_by", "group_by", "unique_by", "min_by", "max_by", "add", "map_values", "with_entries", "paths", "del", "path", "limit(2;", "until(. == null or (type != \"number\") or . > 3;", "range", "has", "contains", "index", "join", "split", "startswith", "ltrimstr", "getpath", "flatten", "error", "nth(1;", "skip(1;", "IN", "in", "inside", "indices", "bsearch", "splits_none")
            if f1 == "splits_none":
                return e()
            if f1.endswith(";"):
                return f1 + " " + e() + ")"
            return f1 + "(" + e() + ")"
        if k == 24:
            return "-(" + e() + ")"
        if k == 25:
            op = self.pick("=", "|=", "+=", "-=", "*=", "//=")
            return "(" + self.pathexpr(d - 1) + " " + op + " " + e() + ")"
        if k == 26:
            return self.pick("path", "del", "paths", "[path", "pick") .replace("[path", "path") + "(" + self.pathexpr(d - 1) + ")"
        if k == 27:
            return self.pick("limit(%d; %s)" % (self.pick(0, 1, 2, 3), e()), "first(%s)" % e(), "[limit(3; repeat(%s))]" % e(), "isempty(%s)" % e(), "[range(%s)]" % self.pick("3", "1;4", "0;10;3", "5;0;-2", e()))
        if k == 28:
            return "setpath(" + self.pick('["a"]', "[0]", '["a","b"]', "[1,0]", "[]", '["a",0]') + "; " + e() + ")"
        if k == 29:
            return self.pick("getpath", "delpaths", "has", "contains", "inside", "index", "indices", "join", "flatten", "bsearch", "split", "ltrimstr", "rtrimstr", "startswith", "endswith") + "(" + e() + ")"
        return self.atom()

    def pathexpr(self, d):
        r = self.r
        if d <= 0:
            return self.pick(".", ".a", ".b", ".[0]", ".[1]", ".[]", ".[1:]", ".[:1]", ".a.b", ".a[0]", ".[-1]", "..", ".a?", ".[]?", "empty", "first", "last", '.["a"]')
        p = lambda: self.pathexpr(d - 1)
        k = r.randrange(16)
        if k == 0:
            return p() + " | " + p()
        if k == 1:
            return "(" + p() + ", " + p() + ")"
        if k == 2:
            return "(" + p() + " // " + p() + ")"
        if k == 3:
            return "(" + p() + ")" + self.pick(".a", ".b", "[0]", "[1]", "[]", "[1:]", "[:2]", "[]?", ".a?", "[-1]")
        if k == 4:
            return "select(" + self.expr(1) + ")"
        if k == 5:
            return "(" + p() + " | select(" + self.pick(". != null", "type == \"number\"", ". == 1", "true", "false", ".a", "length > 1") + "))"
        if k == 6:
            return "if " + self.expr(1) + " then " + p() + " else " + p() + " end"
        if k == 7:
            return self.pick("first", "last") + "(" + p() + ")"
        if k == 8:
            return "limit(" + self.pick("1", "2", "0") + "; " + p() + ")"
        if k == 9:
            return "getpath(" + self.pick('["a"]', "[0]", '["a","b"]', "[1]", "[]", '["a",0]', '["b"]') + ")"
        if k == 10:
            return "recurse(" + p() + ")" if r.randrange(2) else "recurse"
        if k == 11:
            return "(" + p() + ")?"
        if k == 12:
            return "(" + self.expr(1) + " as $pv | " + p() + ")"
        if k == 13:
            return self.pick("error", "empty", "(.[] | select(type == \"number\"))", "(.. | select(type == \"number\"))", ".[0]", "last(.[])", "(.a, .a)")
        if k == 14:
            return "(" + p() + " | " + self.pick("[.]", "{a: .}", "1", "null", ". + 1", "tostring") + self.pick("", " | .[0]", " | .a") + ")"
        return self.pathexpr(0)


def program(r, depth, paths=False):
    g = Gen(r)
    if paths:
        return g.pathexpr(depth)
    return g.expr(depth)
