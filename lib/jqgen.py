"""Seeded generators of jq programs (source text) and JSON values (tagged encoding).

The generators only produce text; what a program MEANS is decided by the TLA+
specification from the AST the real parser returns for that text.
"""
import random

# ---------------------------------------------------------------------------
# values (tagged encoding, DESIGN 2.3)

def V(x):
    """Python value -> tagged model value. ints, dyadic floats, str, list, dict, None, bool."""
    if x is None:
        return {"t": "null"}
    if x is True or x is False:
        return {"t": "bool", "b": x}
    if isinstance(x, int):
        if abs(x) < 2 ** 30:
            return {"t": "num", "n": x}
        return {"t": "big", "neg": x < 0, "d": [int(c) for c in str(abs(x))]}
    if isinstance(x, float):
        if x != x:
            return {"t": "float", "f": "nan"}
        if x in (float("inf"), float("-inf")):
            return {"t": "float", "f": "inf" if x > 0 else "-inf"}
        if x == int(x):
            return V(int(x))
        d = 2
        while d <= 4096:
            if x * d == int(x * d):
                return {"t": "frac", "n": int(x * d), "d": d}
            d *= 2
        return {"t": "float", "f": repr(x)}
    if isinstance(x, str):
        return {"t": "str", "s": [ord(c) for c in x]}
    if isinstance(x, list):
        return {"t": "arr", "a": [V(e) for e in x]}
    if isinstance(x, dict):
        return {"t": "obj", "o": [[[ord(c) for c in k], V(x[k])] for k in sorted(x)]}
    raise TypeError(x)


def float_atoms(vh, texts):
    """Model values of the float64 nearest to each decimal text, as the harness encodes every recorded double (vlib.EncFloat): doubles of
    magnitude >= 2^53 carry their exact integer value, so the model can follow toInt / % on them."""
    import json
    import subprocess
    return json.loads(subprocess.run([vh, "floatatoms"] + [str(t) for t in texts], check=True, capture_output=True, text=True).stdout)


def unV(v):
    """tagged -> Python (for messages / jq literals); opaque floats as strings."""
    t = v["t"]
    if t == "null":
        return None
    if t == "bool":
        return v["b"]
    if t == "num":
        return v["n"]
    if t == "big":
        n = int("".join(map(str, v["d"])))
        return -n if v["neg"] else n
    if t == "frac":
        return v["n"] / v["d"]
    if t == "float":
        return {"nan": float("nan"), "inf": float("inf"), "-inf": float("-inf")}.get(v["f"], v["f"])
    if t == "str":
        return "".join(chr(c) for c in v["s"])
    if t == "arr":
        return [unV(e) for e in v["a"]]
    if t == "obj":
        return {"".join(chr(c) for c in k): unV(e) for k, e in v["o"]}
    return "<%s>" % t


SMALL_INPUTS = [
    None, True, False, 0, 1, -2, 3, 1.5, "a", "", "ab",
    [], [0], [1, 2], [3, 1, 2], [[1], [2, 3]], [None, False, 0], ["a", "b"], [1, "a", None],
    {}, {"a": 1}, {"a": 1, "b": 2}, {"a": [1, 2], "b": {"c": 3}}, {"a": None, "b": False},
    {"a": {"b": {"c": 1}}, "d": [0, [1]]}, [{"a": 1}, {"a": 2, "b": 0}], [{"a": [1]}, 3],
    {"a": "x", "b": [{"a": 1}, {"b": 2}]}, [[], {}, [[]]], {"b": 1, "a": {"a": 2}},
]


def input_universe():
    return [V(x) for x in SMALL_INPUTS]


def rand_value(r, depth=2):
    k = r.randrange(10 if depth > 0 else 6)
    if k == 0:
        return None
    if k == 1:
        return r.choice([True, False])
    if k in (2, 3):
        return r.choice([0, 1, 2, 3, -1, 5, 10, -7, 100])
    if k == 4:
        return r.choice(["", "a", "b", "ab", "abc", "x y", "é", "日本"])
    if k == 5:
        return r.choice([0.5, 1.5, -2.25, 2, 7])
    if k in (6, 7):
        return [rand_value(r, depth - 1) for _ in range(r.randrange(4))]
    return {r.choice(["a", "b", "c", "d"]): rand_value(r, depth - 1) for _ in range(r.randrange(4))}


# ---------------------------------------------------------------------------
# programs

class Gen:
    """Random programs of the core grammar (C01) with knobs for other families."""

    def __init__(self, r, paths=False, builtins=None):
        self.r = r
        self.vars, self.labels, self.funcs = [], [], []   # funcs: (name, arity, kinds)
        self.builtins = builtins or []

    def pick(self, *xs):
        return self.r.choice(xs)

    def atom(self):
        r = self.r
        n = r.randrange(24)
        if n < 4:
            return "."
        if n < 7:
            return self.pick(".a", ".b", ".[0]", ".[1]", ".[-1]", ".c", '.["a"]')
        if n < 8:
            return ".[]"
        if n < 11:
            return self.pick("0", "1", "2", "3", "-1", "10")
        if n < 12:
            return self.pick("null", "true", "false")
        if n < 14:
            return self.pick('"a"', '"b"', '"x"', '""')
        if n < 15:
            return "empty"
        if n < 17 and self.vars:
            return r.choice(self.vars)
        if n < 18 and self.labels:
            return "break " + r.choice(self.labels)
        if n < 21 and self.funcs:
            name, ar = r.choice(self.funcs)
            if ar == 0:
                return name
            return name + "(" + "; ".join(self.expr(1) for _ in range(ar)) + ")"
        if n < 22:
            return self.pick("[]", "{}", "[1,2]", '{"a":1}')
        if n < 23:
            return self.pick(".[1:]", ".[:1]", ".[1:2]", ".a?", ".[]?", "..")
        return self.pick("error", "length", "keys", "not", "type", "add", "first", "last", "reverse", "tostring", "tojson")

    def expr(self, d):
        if d <= 0:
            return self.atom()
        r = self.r
        e = lambda: self.expr(d - 1)
        k = r.randrange(34)
        if k == 0:
            return e() + " | " + e()
        if k == 1:
            return "(" + e() + ", " + e() + ")"
        if k == 2:
            return "(" + e() + " // " + e() + ")"
        if k in (3, 4):
            return "(" + e() + " " + self.pick("+", "-", "*", "/", "%", "==", "!=", "<", "<=", ">", ">=") + " " + e() + ")"
        if k == 5:
            return "(" + e() + " " + self.pick("and", "or") + " " + e() + ")"
        if k == 6:
            return "[" + e() + "]"
        if k == 7:
            return "(" + e() + ")" + self.pick(".a", ".b", "[0]", "[1]", "[-1]", "[1:]", "[:2]", '["a"]')
        if k == 8:
            return "(" + e() + ")[]" + self.pick("", "?")
        if k == 9:
            return "(" + e() + ")[" + e() + "]"
        if k == 10:
            return "try (" + e() + ") catch (" + e() + ")"
        if k == 11:
            return "try (" + e() + ")"
        if k == 12:
            return "(" + e() + ")?"
        if k == 13:
            s = "if " + e() + " then " + e()
            if r.randrange(3) == 0:
                s += " elif " + e() + " then " + e()
            if r.randrange(4) > 0:
                s += " else " + e()
            return s + " end"
        if k == 14:
            v = "$v%d" % len(self.vars)
            src = e()
            self.vars.append(v)
            b = e()
            self.vars.pop()
            return "(" + src + " as " + v + " | " + b + ")"
        if k == 15:
            # destructuring, possibly with ?//
            a, b = "$p%d" % len(self.vars), "$q%d" % len(self.vars)
            pats = [self.pick("[%s]" % a, "[%s, %s]" % (a, b), "{a: %s}" % a, "{%s}" % "$a", "{a: [%s]}" % a, "{a: %s, b: %s}" % (a, b), a,
                              "{$a, b: [%s]}" % a, "{$a: [%s]}" % b, "[%s, [%s]]" % (a, b), "{$a, $b}".replace("$b", b) if False else "{$a, b: %s}" % b)]
            names = {a, b, "$a"}
            for _ in range(self.pick(0, 0, 1, 2)):
                pats.append(self.pick("[%s]" % b, "{b: %s}" % b, b, "{a: %s}" % a, "[%s, %s]" % (b, a), a))
            src = e() if r.randrange(3) else self.pick("(.[]?, .)", "([1,[2]], {a:3,b:[4]}, {b:5}, 6)", "(.., 1)", "({a:1,b:2}, [3], {b:[7]})")
            used = [n for n in (a, b, "$a") if any(n in p for p in pats)]
            self.vars.extend(used)
            body = e()
            for _ in used:
                self.vars.pop()
            body = "[" + ", ".join(used) + "], " + body if r.randrange(2) else body
            return "(" + src + " as " + " ?// ".join(pats) + " | " + body + ")"
        if k == 16:
            v = "$v%d" % len(self.vars)
            src, init = e(), e()
            self.vars.append(v)
            u = e()
            self.vars.pop()
            return "reduce (" + src + ") as " + v + " (" + init + "; " + u + ")"
        if k == 17:
            v = "$v%d" % len(self.vars)
            src, init = e(), e()
            self.vars.append(v)
            u = e()
            x = e() if r.randrange(2) else None
            self.vars.pop()
            return "foreach (" + src + ") as " + v + " (" + init + "; " + u + ("; " + x if x else "") + ")"
        if k == 18:
            l = "$l%d" % len(self.labels)
            self.labels.append(l)
            b = e()
            self.labels.pop()
            return "(label " + l + " | " + b + ")"
        if k == 19:
            # def with a filter parameter and/or a $value parameter
            name = "f%d" % len(self.funcs)
            kind = r.randrange(4)
            if kind == 0:
                self.funcs.append(("p", 0))
                body = e()
                self.funcs.pop()
                sig, ar = name + "(p)", 1
            elif kind == 1:
                self.vars.append("$a")
                body = e()
                self.vars.pop()
                sig, ar = name + "($a)", 1
            elif kind == 2:
                self.vars.append("$a")
                self.funcs.append(("g", 0))
                body = e()
                self.funcs.pop()
                self.vars.pop()
                sig, ar = name + "($a; g)", 2
            else:
                # recursion guarded by a depth test
                self.funcs.append((name, 0))
                body = "if (type == \"number\" and . < 3) then (" + self.pick(".+1", ".+1, .+2", ".*2+1") + " | " + name + ") else " + e() + " end"
                self.funcs.pop()
                sig, ar = name, 0
            self.funcs.append((name, ar))
            rest = e()
            self.funcs.pop()
            return "(def " + sig + ": " + body + "; " + rest + ")"
        if k == 20:
            return "(" + e() + " | " + self.pick("error", "not", "length", "keys", "type", "tostring", "tojson", "add", "reverse", "sort", "unique", "min", "max", "first", "last", "flatten", "to_entries", "floor", "abs", "explode", "ascii_downcase", "tonumber", "isnan", "transpose") + ")"
        if k == 21:
            return "{" + self.pick("a", "b", '"c"', "(" + e() + ")") + ": " + e() + self.pick("", ", b: " + self.expr(d - 1), ", a: 1") + "}"
        if k == 22:
            return '"' + self.pick("x", "", "a b") + "\\(" + e() + ")" + self.pick("", "y", "\\(" + self.expr(d - 1) + ")") + '"'
        if k == 23:
            f1 = self.pick("map", "select", "first", "last", "isempty", "any", "all", "recurse", "sort_by", "group_by", "unique_by", "min_by", "max_by", "add", "map_values", "with_entries", "paths", "del", "path", "limit(2;", "until(. == null or (type != \"number\") or . > 3;", "range", "has", "contains", "index", "join", "split", "startswith", "ltrimstr", "getpath", "flatten", "error", "nth(1;", "skip(1;", "IN", "in", "inside", "indices", "bsearch", "splits_none")
            if f1 == "splits_none":
                return e()
            if f1.endswith(";"):
                return f1 + " " + e() + ")"
            return f1 + "(" + e() + ")"
        if k == 24:
            return "-(" + e() + ")"
        if k == 25:
            op = self.pick("=", "|=", "+=", "-=", "*=", "//=")
            return "(" + self.pathexpr(d - 1) + " " + op + " " + e() + ")"
        if k == 26:
            return self.pick("path", "del", "paths", "[path", "pick") .replace("[path", "path") + "(" + self.pathexpr(d - 1) + ")"
        if k == 27:
            return self.pick("limit(%d; %s)" % (self.pick(0, 1, 2, 3), e()), "first(%s)" % e(), "[limit(3; repeat(%s))]" % e(), "isempty(%s)" % e(), "[range(%s)]" % self.pick("3", "1;4", "0;10;3", "5;0;-2", e()))
        if k == 28:
            return "setpath(" + self.pick('["a"]', "[0]", '["a","b"]', "[1,0]", "[]", '["a",0]') + "; " + e() + ")"
        if k == 29:
            return self.pick("getpath", "delpaths", "has", "contains", "inside", "index", "indices", "join", "flatten", "bsearch", "split", "ltrimstr", "rtrimstr", "startswith", "endswith") + "(" + e() + ")"
        return self.atom()

    def pathexpr(self, d):
        r = self.r
        if d <= 0:
            return self.pick(".", ".a", ".b", ".[0]", ".[1]", ".[]", ".[1:]", ".[:1]", ".a.b", ".a[0]", ".[-1]", "..", ".a?", ".[]?", "empty", "first", "last", '.["a"]')
        p = lambda: self.pathexpr(d - 1)
        k = r.randrange(16)
        if k == 0:
            return p() + " | " + p()
        if k == 1:
            return "(" + p() + ", " + p() + ")"
        if k == 2:
            return "(" + p() + " // " + p() + ")"
        if k == 3:
            return "(" + p() + ")" + self.pick(".a", ".b", "[0]", "[1]", "[]", "[1:]", "[:2]", "[]?", ".a?", "[-1]")
        if k == 4:
            return "select(" + self.expr(1) + ")"
        if k == 5:
            return "(" + p() + " | select(" + self.pick(". != null", "type == \"number\"", ". == 1", "true", "false", ".a", "length > 1") + "))"
        if k == 6:
            return "if " + self.expr(1) + " then " + p() + " else " + p() + " end"
        if k == 7:
            return self.pick("first", "last") + "(" + p() + ")"
        if k == 8:
            return "limit(" + self.pick("1", "2", "0") + "; " + p() + ")"
        if k == 9:
            return "getpath(" + self.pick('["a"]', "[0]", '["a","b"]', "[1]", "[]", '["a",0]', '["b"]') + ")"
        if k == 10:
            return "recurse(" + p() + ")" if r.randrange(2) else "recurse"
        if k == 11:
            return "(" + p() + ")?"
        if k == 12:
            return "(" + self.expr(1) + " as $pv | " + p() + ")"
        if k == 13:
            return self.pick("error", "empty", "(.[] | select(type == \"number\"))", "(.. | select(type == \"number\"))", ".[0]", "last(.[])", "(.a, .a)")
        if k == 14:
            return "(" + p() + " | " + self.pick("[.]", "{a: .}", "1", "null", ". + 1", "tostring") + self.pick("", " | .[0]", " | .a") + ")"
        return self.pathexpr(0)


def program(r, depth, paths=False):
    g = Gen(r)
    if paths:
        return g.pathexpr(depth)
    return g.expr(depth)


# ---------------------------------------------------------------------------
# C04: programs biased towards the preconditions of the compiler's rewrites

def c04_program(r, depth=2):
    g = Gen(r)
    e = lambda d=1: g.expr(d)
    lit = lambda: r.choice(["1", "-1", "0", "null", "true", "false", '"a"', "[]", "{}", "[1]", "-(1)", "+1", "1.5", "-0", '"x\\(1)"'])
    near = lambda: r.choice([".", ".a", "$x", "(1,2)", "empty", "1+1", "[.]", '"a"+"b"', "error", "..", "first", "break $l", "label $m | .", "label $m | 1", "$__loc__" if False else "2"])
    k = r.randrange(24)
    if k >= 22:
        k = 16
    if k == 0:   # literal arrays of every shape, including ones that only look constant
        xs = [r.choice([lit(), lit(), near()]) for _ in range(r.randrange(1, 4))]
        s = "[" + ", ".join(xs) + "]"
    elif k == 1:  # literal objects incl. duplicated keys, computed keys
        kvs = []
        for _ in range(r.randrange(1, 4)):
            key = r.choice(["a", "b", '"a"', '"c d"', "(" + near() + ")", '"\\(1)"', "$x", "a"])
            if key == "$x":
                kvs.append("$x")
            else:
                kvs.append(key + ": " + r.choice([lit(), lit(), near(), "{a: 1}", "[1, 2]"]))
        s = "{" + ", ".join(kvs) + "}"
    elif k == 2:  # signed literals, unary on terms with suffixes
        s = r.choice(["-1", "-(1)", "-1.5", "+1", "-(-1)", "-.", "-.a", "-[1][0]", "- 1 + 2", "-1[0]?", "-(1,2)", "-$x", "-(.a)?", "[-1, -2]", "{a: -1}", ".[-1]", ".[-1:]", ".[:-1]"])
    elif k == 3:  # constant and near-constant index / slice paths
        s = r.choice([".a", '."a"', '.["a"]', ".[0]", ".[-1]", ".[1:2]", ".[1:]", ".[:1]", ".[(0)]", '.[("a")]', ".[0,1]", ".[$x]", ".[1:$x]", ".[-1:]", '.["a","b"]', ".[1.5]", ".[null:1]", '."a\\(1)"', ".a.b", ".a[0]", ".[0].a", ".a[1:]", ".a?", ".[0]?", ".[]?"])
    elif k == 16:  # literals WITH suffixes in index position (must not be folded), constant indices applied to fresh values inside path expressions
        idx = r.choice(['.["abc"[1:]]', '.["ab"[0:1]]', '.["a"[0:]]', '.["a"?]', '.["ab"[]]?', '.[1[0]?]', '.[-1[0]]?', '.[("abc"[1:])]', '.["a" | ascii_downcase]', '.["a", "b"[0:]]', '.a["bc"[1:]]', '."a"["b"?]', '.[null[0]]', '.[[0][0]]', '.[{}.a]'])
        fresh = r.choice(["null", "1", "[]", "{}", '"s"', "(.b // null)", "(.a | not)", "[.]", "{a: .}", "(.a | values)", "(null, .)", "$x", ".[0]?", "(.. | nulls)", "first(null, 1)"])
        ci = r.choice([".a", ".[0]", ".[1:]", '."a"', '.["a"]', ".[-1]", ".a.b", ".[0][1]", ".[:1]", ".a[0]", '.["a"]["b"]'])
        s = r.choice([idx, "(" + idx + " = 9)", "try " + idx + ' catch "caught"', "[path(" + fresh + " | " + ci + ")]", "path(" + fresh + " | " + ci + ")", "(" + fresh + " | " + ci + ") = 3",
                      "try path(" + fresh + " | " + ci + ') catch "invalid"', "try ((" + fresh + " | " + ci + ') |= 3) catch "invalid"', "del(" + fresh + " | " + ci + ")?", "[paths(" + fresh + " | " + ci + ")]?"])
    elif k == 4:  # constant paths on the left of =
        p = r.choice([".a", ".a.b", ".[0]", ".a[0]", ".[1:2]", ".[0][1]", '.["a"]', ".[$x]", ".a[$x]", ".[(0)]", "(.a)", "(.a).b", ".a[1:]", ".[-1]", ".a[-1]", ".[1:][0]", ".[:1][0]", ".a?", ".[]", ".. ", ".[0,1]"])
        s = "(" + p + " = " + r.choice([lit(), near(), "(1,2)", ".", ".a"]) + ")"
    elif k == 5:  # arguments that compile to 0 / 1 / 2 instructions
        f = r.choice(["g", "h", "select", "map", "first", "isempty", "recurse", "path", "limit(1;", "has", "getpath", "tojson|length|h", "error", "any", "add", "range", "join", "index", "ltrimstr", "flatten", "in", "inside", "contains", "min_by", "sort_by", "group_by", "with_entries", "del", "to_entries|map", "splits_no"])
        a = r.choice([".", "1", "null", ".a", "$x", "empty", "..", "label $m | .", "break $l", "[]", "{}", '"a"', "(1,2)", ".[]", "-1", "[.]", ".[0]", "not", "error"])
        if f == "splits_no":
            s = a
        elif "|" in f:
            f1, f2 = f.split("|")[0], f.split("|")[-1]
            s = f1 + " | " + f2 + "(" + a + ")"
        elif f.endswith(";"):
            s = f + " " + a + ")"
        else:
            s = f + "(" + a + ")"
    elif k == 6 and r.randrange(2):  # branches that are PIPELINES of constants (a rewrite meant for single constants must not fire on them)
        cp = lambda: r.choice(["1|2|3", '"a"|length|5', "{}|.a|1", "null|not|7", "[1]|.[0]|2", "1|2", "1", ".", "$x", "1|.|3", "(1,2)|3|4", '"a"|"b"|"c"'])
        s = r.choice(["if %s then %s else %s end", "if %s then %s elif . then %s else 4 end", "[.[]? | if %s then %s else %s end]", "{a: 7, b: (if %s then %s else %s end)}", "if %s then %s else %s end | . + 1"]) % (
            r.choice([".", "true", "false", ".a", "$x == 2"]), cp(), cp())
    elif k == 6:  # if with constant branches / conditions
        s = "if " + r.choice([".", ".a", "true", "null", "1", "(true,false)", "empty", ". == 1", "$x"]) + " then " + r.choice([lit(), near()]) + r.choice(["", " elif . then " + lit()]) + r.choice(["", " else " + lit(), " else " + near(), " else . end | 1 | if . then 2"]) + " end"
    elif k == 7 and r.randrange(2):  # destructuring bindings of the identity inside path expressions and updates
        pat = r.choice(["[$y]", "{a: $y}", "[$y, $z]", "{a: [$y]}", "{$a}", "[$y] ?// $y", "{(\"a\", \"b\"): $y}", "$y"])
        src_ = r.choice([".", ".", ".", ".a", "(., empty)", ".[0]?"])
        body = r.choice([".[1]", ".a", ".[0]", ".b", "$y", ".[$y]?", "select(. != null) | .[0]?", "."])
        s = r.choice(["[path(%s as %s | %s)]", "(%s as %s | %s) |= 9", "try path(%s as %s | %s) catch \"invalid\"", "del(%s as %s | %s)?", "(%s as %s | %s) = 1", "[paths(%s as %s | %s)]?"]) % (src_, pat, body)
    elif k == 7:  # bindings whose source is identity / one instruction
        s = r.choice([". as $y | $y", ". as [$y] | $y", ".a as $y | $y, .", "1 as $y | [$y, .]", ". as {a: $y} | $y", ". as $y | . as $z | [$y, $z]", "(.a, .b) as $y | $y", ". as [$y] ?// $y | $y", "$x as $y | $y + 1", "empty as $y | 1", ". as $y | reduce .[]? as $z ($y; .)", "[.[]? as $y | $y]"])
    elif k in (8, 9):  # self calls in and out of tail position
        body = r.choice([
            "if . < 3 then .+1 | f else . end", "if . < 3 then (.+1 | f), . else . end", "if . < 3 then ., (.+1 | f) else empty end",
            "if . >= 3 then . elif . == 1 then .+2 | f else .+1 | f end", "(select(. < 3) | .+1 | f) // .", ". as $y | if $y < 3 then $y+1 | f else $y end",
            "if . < 3 then .+1 | f | . else . end", "if . < 3 then try (.+1 | f) catch 0 else . end", "if . < 3 then (.+1 | f) | not else . end",
            "if . < 3 then [.+1 | f] else . end", "if . < 3 then label $m | (.+1 | f) else . end", "def k: if . < 3 then .+1 | k else . end; k",
            "if . < 3 then .+1 | (f, f) else . end", "if . < 3 then (.+1, .+2) | f else . end", "if . < 2 then reduce (.+1 | f) as $z (0; . + $z) else . end",
            "if . < 3 then (.+1 | f) as $z | $z else . end", "if . < 3 then .+1 | f else . end | tostring | length",
            # helpers nested in f that call f back (not self calls), with and without parameters / local variables
            "def u(p): p | f; . as $v | if $v > 3 then $v + $x else u($v + 1) end", "def u: select(. >= 0) | . + 1 | f; . as $v | if $v > 3 then $v + $x else u end",
            "def u: .+1 | f; if . > 3 then . else u end", "def u($p): $p | f; . as $v | if . > 3 then [$v, $x] else u(.+1) end",
            "def u(p): def w: p | f; w; if . > 3 then . + $x else u(.+1) end", "def u: def w: .+1 | f; w; . as $v | if . > 3 then $v else u end",
            ". as $v | def u: if . > 3 then $v else .+1 | f end; u", "def u(p): if . > 3 then . else p | u(p) end; . as $v | u(.+1) | $v + . + $x",
        ])
        sig = r.choice(["f", "f", "f", "f($u)", "f(u)"])
        call = {"f": "f", "f($u)": "f(1)", "f(u)": "f(.)"}[sig]
        body = body.replace("| f", "| " + call).replace("(f, f)", "(%s, %s)" % (call, call))
        s = "def " + sig + ": " + body + "; " + r.choice(["0", "1", ".", "(0, 2)"]) + " | (try (" + call + ") catch \"e\")"
    elif k == 10:  # jumps to jumps, dead dup/pop, push/const fusions
        s = r.choice(["if . then (if .a then 1 else 2 end) else 3 end", "(if . then 1 end | 2)", "(if . then [.] end | 1) + 10", ". as $y | (if .c then $y end | 1) + 10",
                      "(1 | 2)", "(. | 1)", "($x | 1)", "([.] | 1)", "(.a | null)", "{a: (. | 1)}", "[(if . then $x end | 2), 3]", "((., 1) | 2)", "(.a, .) | 3",
                      "if . then . else . end | 1", "(try . catch .) | 1", "(. // .) | 1", "1 as $y | 2", "[., 1] | .[1]", "(if . then 1 else . end, 2) | 3"])
    elif k == 11:
        s = r.choice(["try error catch .", "try error(1) catch ., 2", ".[]?", ".a?", "..?", "(.a.b)?", "try (1, error, 2) catch 3", "[.[]? | try (if . == 1 then error else . end) catch 9]"])
    elif k == 12:
        s = "reduce " + r.choice([".[]?", "range(3)", "empty", "(1,2)", "."]) + " as " + r.choice(["$y", "[$y]", "{a: $y}"]) + " (" + r.choice(["0", ".", "[]", "null"]) + "; " + r.choice([". + 1", "[., $y]", "$y", ".", "empty", "(., 1)"]) + ")"
    elif k == 13:
        s = "foreach " + r.choice([".[]?", "range(3)", "(1,2)"]) + " as $y (" + r.choice(["0", "."]) + "; " + r.choice([". + 1", "$y", "."]) + r.choice(["", "; [., $y]", "; ."]) + ")"
    elif k == 14:
        s = "(" + r.choice([".a", ".[0]", ".[]", ".a[1:]", "..", ".[1:]"]) + " " + r.choice(["|=", "+=", "-=", "*=", "//="]) + " " + r.choice([lit(), near(), ". + 1", "empty"]) + ")"
    elif k == 15:
        s = r.choice(["[paths]", "[path(..)]", "[path(.a[]?)]", "path(.a[0].b)", "[path(first(.[]?))]", "del(.a)", "del(.[0])", "del(.[0,1]?)", "to_entries", "with_entries(.)", "[tostream]", "[limit(2; .[]?)]", "first(.[]?, 1)", "isempty(.[]?)"])
    else:
        s = e(depth)
    return "2 as $x | def g(p): [p, p]; def h($a): $a, .; label $l | " + s


def scope_program(r):
    """Lexical scoping: a definition, variable or label made INSIDE one sub-query of a construct must be invisible in its sibling
    sub-queries.  Every construct with several sub-queries gets a shadowing `def f` / `as $v` / `def g(p)` in one of them and
    uses of the outer f / $v / g in the others."""
    templates = [
        ("reduce %s as $z (%s; %s)", 3), ("foreach %s as $z (%s; %s; %s)", 4), ("foreach %s as $z (%s; %s)", 3), ("if %s then %s else %s end", 3), ("if %s then %s elif %s then %s else %s end", 5),
        ("try %s catch %s", 2), ("(%s | %s)", 2), ("(%s, %s)", 2), ("(%s // %s)", 2), ("(%s and %s)", 2), ("(%s + %s)", 2), ("(%s == %s)", 2), ("{(%s): %s}", 2), ("{a: %s, b: %s}", 2), ("[%s, %s]", 2),
        ("h(%s; %s)", 2), ("(%s as $w | %s)", 2), ("(label $m | %s, %s)", 2), ("(%s as [$p] ?// $p | %s)", 2), ("((%s) |= %s)", 2), ("((%s) = %s)", 2), ("((%s) += %s)", 2), ('"\\(%s) \\(%s)"', 2),
        ("[limit(%s; %s)]", 2), ("[path(%s), %s]", 2), ("(.[%s:%s])", 2), ("(.[%s]?, %s)", 2), ("((%s)?, %s)", 2), ("[range(%s; %s)]", 2), ("first(%s, %s)", 2), ("[%s | select(%s)]", 2),
        ("(%s | h(%s; %s))", 3), ("[.[]? | %s, %s]", 2), ("(def k: %s; k, %s)", 2), ("(def k(q): q, %s; k(%s))", 2), ("(reduce %s as $z (%s; %s) | %s)", 4), ("[(%s | tojson), (%s | tojson)]", 2),
    ]
    t, n = r.choice(templates)
    inner = lambda: r.choice(['def f: "inner"; f', 'def f: "inner"; 1', '"shadow" as $v | $v', 'def g(p): "inner-g"; g(1)', '(def f: "inner"; f)', '(def f: "inner"; def g: f; g)', '("shadow" as $v | $v)', '(def f: "inner"; 1) ', '(def g(p): "inner-g"; g(1))', '(def f(a): "inner1"; f(0))',
                              '(def f: "inner"; . as $v | f)', '("shadow" as $v | def f: $v; f)', '(def f: def f: "inner2"; f; f)', '(label $f | "lab")', '(. as [$v] | $v)', '(def h(a; b): "inner-h"; h(1; 2))'])
    use = lambda: r.choice(["f", "f", "$v", "g(1)", "f", "[f, $v]", "(f | length)", "h(f; $v)", "0", "1", ".", ".a?", "empty", "(1, 2)", "null", '"s"', "[]"])
    holes = [use() for _ in range(n)]
    holes[r.randrange(n)] = inner()
    if r.randrange(3) == 0:
        holes[r.randrange(n)] = inner()
    return 'def f: "outer"; def g(p): ["G", p]; def h(a; b): [a, b]; "V" as $v | ' + t % tuple(holes)


def bindpath_programs():
    """Destructuring bindings inside path expressions and updates: complete product over sources, patterns, bodies and path consumers."""
    out = []
    for src_ in [".", ".a", "(., empty)", ".[0]?", "(.[0:2])", "first(., 1)"]:
        for pat in ["[$y]", "{a: $y}", "[$y, $z]", "{a: [$y]}", "{$a}", "[$y] ?// $y", "{(\"a\", \"b\"): $y}", "$y", "[[$y]]", "{a: {b: $y}}"]:
            for body in [".[1]", ".a", ".[0]", ".b", "$y", ".[$y]?", "select(. != null) | .[0]?", ".", ".[1:]", ".a.b"]:
                if "$y" in body and "$y" not in pat:
                    continue
                for form in ["[path(%s as %s | %s)]", "(%s as %s | %s) |= 9", "try path(%s as %s | %s) catch \"invalid\"", "del(%s as %s | %s)?", "(%s as %s | %s) = 1", "[paths(%s as %s | %s)]?",
                             "try ((%s as %s | %s) += 1) catch \"invalid\"", "[path(.. | %s as %s | %s)?] | length"]:
                    out.append(form % (src_, pat, body))
    return out


def lookalike_programs():
    """Array and object literals whose instruction sequence LOOKS like a list of constants (fork / const / jump / const ...) but is
    not one: control constructs over constants piped into a constant.  Complete enumeration over a small alphabet."""
    leaves = ["1", "[1]", ".", "$x", '"s"', "empty"]
    tails = ["2", "null", ".", "[.]"]
    forms = ["[((%a, %b) | %k)]", "[(((%a, %b)) | %k)]", "{a: [((%a, %b) | %k)]}", "[((%a // %b) | %k)]", "[((%a, %b, %a) | %k)]", "[(if . then %a else %b end | %k)]", "[((%a, %b) | %k | %k)]", "[(%a, %b) | %k]", "[(%a, %b) | %k, 3]", "[3, ((%a, %b) | %k)]", "[(%a // %b) | %k]", "[if . then %a else %b end | %k]", "[(%a, %b, %a) | %k]", "[((%a, %b) | %k), ((%b, %a) | %k)]",
             "{a: ((%a, %b) | %k)}", "{(%a | tostring): ((%a, %b) | %k)}", "[(%a, %b) | %k | %k]", "[(%a | %k), %b]", "[%a, (%b | %k)]", "[(try %a catch %b) | %k]", "[(%a, %b) as $z | %k]", "[first(%a, %b) | %k]",
             "[[(%a, %b) | %k]]", "[(%a, (%b | %k))]", "[((%a, %b) | %k)?]", "[(%a, %b) | (%k, %k)]", "{a: [(%a, %b) | %k], b: [%a, %b]}"]
    out = []
    for f in forms:
        for a in leaves:
            for b in leaves:
                for k in tails:
                    out.append("1 as $x | " + f.replace("%a", a).replace("%b", b).replace("%k", k))
    return out


def constfold_programs():
    """Literals a constant folder may precompute, where the folded value must equal the value built at run time: objects with DUPLICATED keys
    (the last one wins, also when it is null or false), in every spelling of the key, nested and inside arrays; and update operators whose
    left-hand side LOOKS like a constant path but carries a suffix that is not an index (`?`, `[]`, slices, string interpolation)."""
    vals = ["1", "null", "false", "0", '""', "[]", "{}", "true", "[null]", "{a: null}"]
    out = []
    for a in vals:
        for b in vals:
            if a == b:
                continue
            out += ["{a: %s, a: %s}" % (a, b), "{a: %s, b: 2, a: %s}" % (a, b), '{a: %s, "a": %s}' % (a, b), "{c: {a: %s, a: %s}}" % (a, b), "[{a: %s, a: %s} | .a]" % (a, b), "[{a: %s, a: %s}, {a: %s}]" % (a, b, a),
                    "{a: %s, a: %s, a: %s}" % (a, b, a), "{a: %s, a: %s} | keys, length, .a" % (a, b), '{a: %s, ("a"): %s}' % (a, b), '{"a": %s, a: %s, b: {a: %s, a: %s}}' % (b, a, a, b), "{a: %s, @text \"a\": %s}" % (a, b)]
    paths = [".a?", ".a??", ".[0]?", '."a"?', '.["a"]?', ".a?.b", ".a.b?", ".a?.b?", ".a[0]?", ".[0]?.a", ".a[]?", ".a[]", ".[]?", ".a[1:]?", ".[1:]?", '."a\\(1)"', '."a\\(1)"?', ".a?[0]", "(.a)?", "(.a?)", ".[0]?[1]?", ".a | .b?", ".a? // .b", "..?", ".a?.[0]"]
    rhs = ["5", "(1, 2)", "null", ".", "empty"]
    for pth in paths:
        for x in rhs:
            out += ["%s = %s" % (pth, x), "[.[]? | (%s = %s)]" % (pth, x), "(%s) |= %s" % (pth, x), "try (%s = %s) catch \"caught\"" % (pth, x), "(%s) += %s" % (pth, x if x != "empty" else "1"), "del(%s)" % pth, "[path(%s)]" % pth]
    return out


def scope_programs():
    """The complete, deterministic core of scope_program: every construct x every position of ONE shadowing definition (three kinds)
    with uses of the outer names in all sibling positions."""
    templates = [
        ("reduce %s as $z (%s; %s)", 3), ("foreach %s as $z (%s; %s; %s)", 4), ("foreach %s as $z (%s; %s)", 3), ("if %s then %s else %s end", 3), ("if %s then %s elif %s then %s else %s end", 5),
        ("try %s catch %s", 2), ("(%s | %s)", 2), ("(%s, %s)", 2), ("(%s // %s)", 2), ("(%s and %s)", 2), ("(%s + %s)", 2), ("(%s == %s)", 2), ("{(%s): %s}", 2), ("{a: %s, b: %s}", 2), ("[%s, %s]", 2),
        ("h(%s; %s)", 2), ("(%s as $w | %s)", 2), ("(label $m | %s, %s)", 2), ("(%s as [$p] ?// $p | %s)", 2), ("((%s) |= %s)", 2), ("((%s) = %s)", 2), ("((%s) += %s)", 2), ('"\\(%s) \\(%s)"', 2),
        ("[limit(%s; %s)]", 2), ("[path(%s), %s]", 2), ("(.[%s:%s])", 2), ("(.[%s]?, %s)", 2), ("((%s)?, %s)", 2), ("[range(%s; %s)]", 2), ("first(%s, %s)", 2), ("[%s | select(%s)]", 2),
        ("(%s | h(%s; %s))", 3), ("[.[]? | %s, %s]", 2), ("(def k: %s; k, %s)", 2), ("(def k(q): q, %s; k(%s))", 2), ("(reduce %s as $z (%s; %s) | %s)", 4), ("[(%s | tojson), (%s | tojson)]", 2),
    ]
    inners = ['(def f: "inner"; f)', '(def f: "inner"; 1)', '("shadow" as $v | $v)', '(def g(p): "inner-g"; g(1))', '(def f(a): "inner1"; f(0))', '(def h(a; b): "inner-h"; h(1; 2))', '(label $f | "lab")',
              # the same WITHOUT parentheses (a parenthesised query opens a scope of its own in the compiler; a bare one relies on the construct around it)
              'def f: "inner"; f', 'def f: "inner"; 1', '"shadow" as $v | $v', 'def g(p): "inner-g"; g(1)', 'def f: "inner"; def g(p): f; g(0)', 'label $f | "lab"']
    out = []
    for t, n in templates:
        for pos in range(n):
            for k, inner in enumerate(inners):
                use = ["[f, $v]", "[g(1), f]", "[h(f; $v), f]"][k % 3]
                if t.startswith(("[limit", "(.[", "[range")):
                    use = ["(f | length)", "($v | length)", "(g(1) | length)"][k % 3]
                holes = [use] * n
                holes[pos] = inner
                out.append('def f: "outer"; def g(p): ["G", p]; def h(a; b): [a, b]; "V" as $v | ' + t % tuple(holes))
    return out


def rebind_program(r):
    """The same NAME bound again while an earlier binding of it is still needed: labels, variables, functions (with and without
    parameters, same and different arities), reduce/foreach variables, pattern variables - nested and in sequence, with generators
    pending on the left so that the earlier binding is re-entered after the later one was made."""
    g = lambda: r.choice(["(1, 2)", "1", "(., 1)", "range(2)", "empty", "(1, empty, 2)"])
    t = r.choice([
        "[label $x | (1, break $x, 2) | label $x | (., break $x, 3)]", "[label $x | (1, break $x) | label $x | .]", "[label $x | (%s, break $x) | (label $x | (., (10 | break $x))), (20 | break $x), 30]" % g(),
        "[label $x | label $x | (1, break $x, 2)]", "[label $x | (label $x | 1, break $x, 2), 3, break $x, 4]", "[label $a | label $b | (1, break $a, 2)]", "[label $a | (label $b | (1, break $b, 2)), 3, break $a]",
        "[label $x | %s | ., (label $x | (., break $x)), (if . == 2 then break $x else 7 end)]" % g(), "[range(3) | label $x | (., break $x, 9)]", "[label $x | range(3) | label $x | (., break $x, 9)]",
        "def f(x): x; def f(x): x + 1; [f(1)]", "def f: 1; def f: 2; def g(x): 1; def g(x): 2; [f, g(.)]", "def f(x): \"old\"; def f(x): if . > 0 then . - 1 | f(x) else x end; [2 | f(\"new\", \"newer\")]",
        "def f: 1; def f(a): 2; def f(a; b): 3; [f, f(0), f(0; 0)]", "def f(a): 1; def g: f(0); def f(a): 2; [g, f(0)]", "def f($a; $a): $a; [f(1; 2)]", "def f(a; a): a; [f(1; 2)]", "def f($a): def f($a): $a + 1; f($a * 10); [f(1)]",
        "[1 as $x | ($x, $x + 10) | 2 as $x | [., $x]]", "[%s as $x | %s as $x | $x]" % (g(), g()), "[%s as $x | ($x | (10 as $x | $x)), $x]" % g(), "[. as [$a] | (1, 2) as $a | $a]", "[[1] as [$a] | [2] as [$a] | $a]",
        "[%s as $x | (def f: $x; %s as $x | [f, $x])]" % (g(), g()), "[reduce (1, 2) as $x (0; reduce (10, 20) as $x (.; . + $x))]", "[foreach (1, 2) as $x (0; . + $x; foreach (10, 20) as $x (.; . + $x; [$x, .]))]",
        "[1 as $x | reduce (2, 3) as $x (0; . + $x) | ., $x]", "[%s as [$a, $b] ?// $a | [$a, $b] | (. as [$b] | $b), $a]" % r.choice(["[1, 2]", "3", "([1], 2)"]), "[(1, 2) as $x | label $x | ($x, break $x, 5)]",
        "[label $x | 1 as $x | ($x, break $x)]", "def x: 5; [1 as $x | label $x | (x, $x, break $x)]", "[%s as $x | %s as $y | %s as $x | [$x, $y]]" % (g(), g(), g()),
        "[limit(3; label $x | repeat(label $x | (1, break $x)))]", "[label $x | (1, 2) | (label $x | ., break $x), (select(. == 2) | break $x)]",
    ])
    return t


def alias_program(r):
    """One value extended / sliced / updated several times by sibling alternatives while earlier results are still alive: a result that
    shares memory with its operand shows as a WRONG VALUE SEQUENCE (no histories needed).  Meant for array inputs of length 3, 5, 6, 7
    (spare capacity after a decoder-style build) and for slices of them."""
    a = lambda: r.choice([".", ".[:2]", ".[1:]", ".[:1]", "$x", "$x[:1]", "$x[1:2]", ".a", ".a[:2]", "[.[]?]", "(.[:2] + [0])"])
    b = lambda: r.choice(["[4]", "[5]", "[\"a\"]", ".", ".[:1]", "[[1]]", "[null]", "$x"])
    return ". as $x | " + r.choice([
        "[%s + (%s, %s)]" % (a(), b(), b()), "(%s + %s), ." % (a(), b()), "[%s + (%s, %s)], $x" % (a(), b(), b()), "[%s | (. + %s, . + %s)]" % (a(), b(), b()), "[%s + %s, %s + %s], ." % (a(), b(), a(), b()),
        "[(.[0:2], .[1:3]) + %s], ." % b(), "[limit(2; repeat(%s + %s))]" % (a(), b()), "%s as $p | ($p + %s), ., ($p + %s), ., $p" % (a(), b(), b()), "[%s as $p | $p + (%s, %s) | length], ." % (a(), b(), b()),
        "reduce (1, 2) as $i (%s; . + [$i]) | (. + [3], . + [4]), $x" % a(), "[foreach (1, 2, 3) as $i (%s; . + [$i]; .)], ." % a(), "[%s | (.[0] = 9, .[1] = 8, .)], ." % a(), "[(%s | .[0] = 9), (%s | .[0])]" % (a(), a()),
        "[%s + %s | (., .[:2] + [7], .)]" % (a(), b()), "([%s, %s] | add), ." % (a(), b()), "[%s | ., (. + %s), ., (. - [1]), .]" % (a(), b()), "[[%s, %s] | (.[0] + .[1]), (.[1] + .[0]), .]" % (a(), a()),
        "{p: (%s + %s), q: (%s + %s), r: .}" % (a(), b(), a(), b()), "[.[:2] as $p | .[2:] as $q | ($p + $q), ($q + $p), $p, $q]", "[%s | sort, reverse, (. + %s), .]" % (a(), b()), "[path(..)] as $ps | [%s + %s], ($ps | length)" % (a(), b()),
    ])


def join_program(r):
    """Control constructs whose branches END in a one-instruction value (variable load, constant, identity) and whose join point
    is followed by an instruction that replaces or drops the top of the stack - the shapes on which a peephole rewrite must know
    that the join point is reached from several places."""
    leaf = lambda: r.choice(["$x", "$y", "$x", "$y", ".", "1", '"s"', ".a", "null", "[1]", "$__loc__.line", "-1", "empty", "(1, 2)"])
    cond = lambda: r.choice(["true", "false", ".", ".a", "$x == 1", "(true, false)", "null", ". == null"])
    a, b, c = leaf(), leaf(), leaf()
    ctrl = r.choice([
        "if %s then %s else %s end" % (cond(), a, b), "if %s then %s elif %s then %s else %s end" % (cond(), a, cond(), b, c), "if %s then %s end" % (cond(), a),
        "(%s // %s)" % (a, b), "(try %s catch %s)" % (a, b), "(%s, %s)" % (a, b), "(%s as [$p] ?// $p | %s)" % (a, b), "(label $m | %s, break $m, %s)" % (a, b),
        "(%s)?" % a, "(%s | if %s then %s else %s end)" % (c, cond(), a, b), "first(%s, %s)" % (a, b), "(%s and %s)" % (a, b), "(%s or %s)" % (a, b),
        "(reduce %s as $z (%s; %s))" % (c, a, b), "(foreach %s as $z (%s; %s; %s))" % (c, a, b, leaf()), "(if %s then %s else %s end, %s)" % (cond(), a, b, c),
    ])
    tail = r.choice([" | 1", ' | "k"', " | null", " | []", " | {}", " | empty", " | ., 1", " as $z | 2", " as $z | $z", " | $x", " | not", " | -1", " | [.]", "", " | (1, 2)", " | $__loc__.line"])
    obs = r.choice(["{a: (%s)}", "{a: 1, b: (%s), c: 2}", "[{k: (%s)}]", "{(\"k\"): (%s), z: .}", "[1, {a: (%s)}, 2]", "{a: {b: (%s)}}", "[%s]", "%s", "{a: [(%s)]}", "({a: (%s)} | .a)"])
    return "1 as $x | 2 as $y | " + obs % (ctrl + tail)


CONTEXT = "2 as $x | def g(p): [p, p]; def h($a): $a, .; label $l | "


def strip_context(src, r):
    """Half of the time, give the program the smallest context that closes it (the definitions that precede a
    program change the bytecode layout, and some faults only show for particular layouts)."""
    if not src.startswith(CONTEXT) or r.randrange(2):
        return src
    body = src[len(CONTEXT):]
    ctx = ""
    if "$x" in body:
        ctx += "2 as $x | "
    if "g(" in body:
        ctx += "def g(p): [p, p]; "
    if "h(" in body:
        ctx += "def h($a): $a, .; "
    if "$l" in body:
        ctx += "label $l | "
    return ctx + body


# ---------------------------------------------------------------------------
# C11: the value universe (every type and nesting shape; integers of any size; dyadic fractions below 2^53)

def order_universe(size=200):
    scal = [None, False, True, 0, 1, -1, 2, 10, -10, 100, 2 ** 31, 2 ** 53 - 1, 2 ** 53, 2 ** 53 + 1, -(2 ** 53) - 1, 2 ** 63 - 1, 2 ** 63, -(2 ** 63), -(2 ** 63) - 1,
            2 ** 64 + 1, -(2 ** 70), 10 ** 30, 10 ** 30 + 1, 0.5, -0.5, 1.5, 2.25, -2.75, 0.125, 1023.5, 9.5, 10.5, 10 ** 400, -(10 ** 400), 10 ** 309, -(10 ** 309) - 1,
            "", "a", "A", "ab", "b", "aa", "é", "日本", "\u0000", "a\u0000", "~", " ", "10", "9", "\U0001F600", "é", "z"]
    arrs = [[], [None], [[]], [1], [1, 2], [2, 1], [1, [2]], ["a"], [[], []], [{}], [1, 1], [1.5], [False], [True, None], [0], [[1]], [[1], 0], [1, 2, 3], [1, 2, 2], ["a", 1],
            [None, None], [2 ** 64 + 1], [[[]]], [{"a": 1}], [{"a": 1}, 2], ["", ""], [0.5, 1]]
    objs = [{}, {"a": 1}, {"a": 2}, {"b": 1}, {"a": 1, "b": 2}, {"a": 1, "b": 1}, {"a": {"b": 1}}, {"": 0}, {"a": None}, {"a": [1]}, {"é": 1}, {"a": 1, "c": 0}, {"b": 0, "c": 0},
            {"A": 1}, {"aa": 1}, {"a": {}}, {"a": []}, {"a": "a"}, {"a": 1.5}, {"a": 2 ** 64 + 1}, {"a": False}, {"a": True}, {"a": {"a": {"a": 1}}}, {"a": 1, "b": {"c": 2}}, {"10": 1, "9": 1}]
    vals = scal + arrs + objs
    # nested combinations to reach the requested size (deterministic)
    base = list(vals)
    k = 0
    for a in base:
        for b in base[(k * 13) % 17::29]:
            if len(vals) >= size:
                break
            for cand in ([a, b], {"k": a}, {"a": a, "b": b}, [[a], b]):
                if cand not in vals and len(vals) < size:
                    vals.append(cand)
            k += 1
    return [V(x) for x in vals[:size]]


SUB_UNIVERSE = [None, True, 1, 1.5, "a", [], [1], {"a": 1}]


# ---------------------------------------------------------------------------
# C05: programs that build results sharing structure with their input (update / delete / add / sort / slice heavy)

def c05_program(r):
    g = Gen(r)
    p = lambda: g.pathexpr(r.choice([0, 1, 1, 2]))
    k = r.randrange(28)
    v = r.choice(["$v0", "$v1", ".", ".x", ".a", ".p", ".q", ".r", ".c"])
    if k == 0:
        return "%s + %s" % (v, r.choice(['["x"]', "[1,2]", v, '{"z":1}', "null"]))
    if k == 1:
        return "[.[]?] as $xs | ($xs + [\"a\"]), ($xs + [\"b\"])"
    if k == 2:
        return "%s |= %s" % (p(), r.choice([". + 1", "[.]", "{x: .}", "empty", "7", "map(. + 1)?", ".[0]?", "tostring"]))
    if k == 3:
        return "del(%s)" % p()
    if k == 4:
        return "%s = %s" % (p(), r.choice(["1", "$v0", "[$v1]", ".", "(1,2)"]))
    if k == 5:
        return "%s %s %s" % (p(), r.choice(["+=", "-=", "*=", "//="]), r.choice(["1", "[1]", "$v0", '"s"']))
    if k == 6:
        return "to_entries, with_entries(.value |= [.]), [paths], [tostream] | ., length"
    if k == 7:
        return "[.[]?] | sort, sort_by(.), unique, group_by(type), reverse, (. - [1]), flatten, add?"
    if k == 8:
        return "%s[%s]" % (v, r.choice(["1:", ":2", "1:3", "0:1", "2:4"])) + r.choice(["", " + [\"x\"]", " |= . + [9]", " | . + . ", " | sort", " | map(. )"])
    if k == 9:
        return "reduce (.[]?, 1, 2) as $e (%s; . + [$e])" % r.choice(["[]", v, ".p?", "$v0"])
    if k == 10:
        return "[.[]? | %s]" % r.choice([". + [1]?", ".[1:]?", "{a: .}", "[., .]", ". as $e | $e"])
    if k == 11:
        return "limit(3; repeat(%s))" % r.choice([". + [1]?", "[.]", "{a: .}", ".[1:]?"])
    if k == 12:
        return "getpath(%s), setpath(%s; %s), delpaths([%s])" % (r.choice(['["a"]', '["p",0]', '["r",1]', "[0]"]), r.choice(['["a","b"]', '["p",1]', "[0]", '["r",1,"k"]']), v, r.choice(['["a"]', '["p",0]', "[0]", '["q",1]']))
    if k == 13:
        return "[.[]?] | transpose?, (map([.]) | add), (to_entries | map(.value)), (. as $a | $a | .[0] = 9 | ., $a)"
    if k == 14:
        return ". as $o | (%s |= 5) | ., $o" % p()
    if k == 15:
        return "[limit(4; .[]?, .., $v0)] | ., (.[0] = 1), (.[1:] + [2])"
    if k == 16:
        return "(%s) as $s | ($s | .[0]? = 1), $s, ($s + $s)?" % v
    if k == 17:
        return ".p? + [\"x\"], .q? + [\"y\"], (.p? | . + . ), .r?"
    if k == 18:
        return "[.p?, .q?] | add, (.[0] + [\"x\"]), .[1]"
    if k == 19:
        return "(.p? // [])[:2] + [\"x\"], (.r? // [])[:1] + [\"y\", \"z\"], .r?"
    if k == 20:
        return "first(%s | . + [1]?), last(%s | [.] )" % (v, v)
    if k == 21:
        return "%s * %s" % (r.choice([".", "{a: {b: 1}}", "$v0"]), r.choice(["{a: {c: 2}}", ".", "$v1"]))
    if k == 22:
        return "map_values(. + 1)?, map(.)?, (keys? as $k | $k), add?, any?, all?"
    if k == 23:
        return "tojson, tostring, @json, (tojson | fromjson), ([.] | join(\",\"))?"
    if k in (24, 25):
        # a path that goes THROUGH a slice and then deeper, updated in place
        sl = r.choice([".[1:3]", ".[:2]", ".[1:]", ".a[:2]", ".c[0:1]", ".p[1:]", ".r[1:4]", ".q[:2]", ".[0][1:]"])
        deep = r.choice(["[0]", "[1]", "[0].x", "[1].a", "[0][0]", "[-1]"])
        upd = r.choice(["|= . + 10", "|= [.]", "= 5", "+= 1", "|= {n: .}", "|= tostring"])
        base = r.choice(["", "", "$v0 | ", ". as $orig | "])
        tail = " | ., $orig" if base.startswith(". as") else ""
        return "%s(%s%s %s)?%s" % (base, sl, deep, upd, tail)
    return g.expr(3)
