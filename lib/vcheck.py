"""Common machinery of the /verif checks (python3, standard library only).

Pipeline of every check (DESIGN 2.1): build the harness from /repo's working
tree -> generate cases (TLC and/or seeded generators) -> replay on the real
code (harness `vh`) -> validate with TLC against the TLA+ specification ->
classify (VIOLATION / KNOWN-FINDING / undecided) -> write evidence.

Exit codes: 0 held on everything explored, 1 VIOLATION, 2 tool trouble / vacuous run.
"""
import concurrent.futures as cf
import atexit
import hashlib
import json
import os
import re
import shutil
import subprocess
import sys
import tempfile
import time

VERIF = os.path.dirname(os.path.dirname(os.path.abspath(__file__)))
REPO = os.environ.get("VERIF_REPO", "/repo")
SPEC = os.path.join(VERIF, "spec")
BUILD = os.path.join(VERIF, "build")
GOENV = dict(os.environ, GOFLAGS="-mod=mod", GOPROXY="off")
GOENV.pop("GOSUMDB", None)       # measured: GOSUMDB=off breaks the offline toolchain switch
GOENV.pop("GOTOOLCHAIN", None)
NCPU = os.cpu_count() or 4


class ToolError(Exception):
    """Something in the machinery (not the code under test) failed: exit 2."""


def log(*a):
    print(*a, file=sys.stderr, flush=True)


def sh(cmd, cwd=None, env=None, timeout=None, check=True, input=None):
    p = subprocess.run(cmd, cwd=cwd, env=env, timeout=timeout, input=input,
                       stdout=subprocess.PIPE, stderr=subprocess.PIPE, text=True)
    if check and p.returncode != 0:
        raise ToolError("command failed (%d): %s\n%s\n%s" % (p.returncode, " ".join(cmd), p.stdout[-2000:], p.stderr[-4000:]))
    return p


def run_restartable(cmd_prefix, cases, work, tag, timeout=3600):
    """Run a `vh` batch command (runBatch in the harness): `cmd_prefix -in <cases> -out <file>`.

    The harness exits with status 3 right after reporting a case that hangs inside the real code; the command is then
    restarted on the cases that have not been reported.  If the process dies of a Go runtime FATAL error (stack overflow,
    concurrent map writes: cannot be recovered in-process) the unreported cases are bisected until the single case that
    kills the process is found; its record is {"id":.., "fatal": <first lines of the runtime's message>}.
    Returns the records in case order."""
    byid = {}
    t0 = time.time()
    counter = [0]

    def attempt(todo):
        counter[0] += 1
        if counter[0] > 400:
            raise ToolError("too many restarts of the harness (%d)" % counter[0])
        cpath, opath = work.path("%s.%d.cases.ndjson" % (tag, counter[0])), work.path("%s.%d.out.ndjson" % (tag, counter[0]))
        write_ndjson(cpath, todo)
        if os.path.exists(opath):
            os.remove(opath)
        p = sh(cmd_prefix + ["-in", cpath, "-out", opath], timeout=max(60, timeout - (time.time() - t0)), check=False)
        got = []
        if os.path.exists(opath):
            try:
                got = read_ndjson(opath)
            except Exception:
                got = []          # a torn last line after a crash
                with open(opath) as f:
                    for line in f:
                        try:
                            got.append(json.loads(line))
                        except Exception:
                            pass
        for r in got:
            byid[r["id"]] = r
        for pth in (cpath, opath):
            if os.path.exists(pth) and not os.environ.get("VERIF_KEEP"):
                os.remove(pth)
        return p

    def process(todo):
        while todo:
            p = attempt(todo)
            rest = [c for c in todo if c["id"] not in byid]
            if p.returncode == 0:
                if rest:
                    raise ToolError("harness did not report cases %s" % [c["id"] for c in rest[:5]])
                return
            if p.returncode == 3 and len(rest) < len(todo):
                todo = rest
                continue
            fatal = "fatal error:" in p.stderr or "goroutine stack exceeds" in p.stderr or "runtime: " in p.stderr
            if not fatal:
                raise ToolError("harness failed (%d): %s\n%s" % (p.returncode, " ".join(cmd_prefix), p.stderr[-3000:]))
            if len(rest) == 1:
                msg = [l for l in p.stderr.splitlines() if l.startswith(("fatal error:", "runtime:", "panic:"))][:3]
                byid[rest[0]["id"]] = {"id": rest[0]["id"], "src": rest[0].get("src"), "fatal": " / ".join(msg) or p.stderr[:300]}
                return
            if not rest:
                return
            mid = len(rest) // 2
            process(rest[:mid])
            process(rest[mid:])
            return

    process(list(cases))
    missing = [c["id"] for c in cases if c["id"] not in byid]
    if missing:
        raise ToolError("harness did not report cases %s" % missing[:5])
    return [byid[c["id"]] for c in cases]


# ---------------------------------------------------------------------------
# build

def build(race=False):
    """Build the harness (with -tags verif) and cmd/gojq from the repository's working tree.

    The tree is /repo, or $VERIF_REPO (a scratch worktree used when trying mutations): in that case a private
    copy of the harness module and a private output directory are used so that nothing shared is touched."""
    hdir = os.path.join(VERIF, "harness")
    outdir = BUILD
    if os.path.realpath(REPO) != "/repo":
        tag = hashlib.sha1(os.path.realpath(REPO).encode()).hexdigest()[:10]
        outdir = os.path.join(BUILD, "alt-" + tag)
        atexit.register(shutil.rmtree, outdir, True)       # thrown away when the check process ends
        alt = os.path.join(outdir, "harness")
        shutil.rmtree(alt, ignore_errors=True)
        shutil.copytree(hdir, alt)
        hdir = alt
        modfile = os.path.join(hdir, "go.mod")
        txt = re.sub(r"replace github.com/itchyny/gojq => .*", "replace github.com/itchyny/gojq => %s" % os.path.realpath(REPO), open(modfile).read())
        open(modfile, "w").write(txt)
    os.makedirs(outdir, exist_ok=True)
    shutil.copyfile(os.path.join(REPO, "go.sum"), os.path.join(hdir, "go.sum"))
    vh = os.path.join(outdir, "vh-race" if race else "vh")
    cmd = ["go", "build", "-tags", "verif"] + (["-race"] if race else []) + ["-o", vh, "./cmd/vh"]
    sh(cmd, cwd=hdir, env=GOENV, timeout=900)
    gojq = os.path.join(outdir, "gojq")
    sh(["go", "build", "-o", gojq, "./cmd/gojq"], cwd=REPO, env=GOENV, timeout=900)
    return vh, gojq


def repo_head():
    try:
        return sh(["git", "-C", REPO, "rev-parse", "HEAD"]).stdout.strip()
    except Exception:
        return "unknown"


# ---------------------------------------------------------------------------
# work directories

class Work:
    def __init__(self, prop):
        base = os.environ.get("VERIF_WORK", os.path.join(VERIF, "work"))
        os.makedirs(base, exist_ok=True)
        self.dir = tempfile.mkdtemp(prefix=prop + "-", dir=base)

    def path(self, *names):
        p = os.path.join(self.dir, *names)
        os.makedirs(os.path.dirname(p), exist_ok=True)
        return p

    def cleanup(self):
        if not os.environ.get("VERIF_KEEP"):
            shutil.rmtree(self.dir, ignore_errors=True)


def write_ndjson(path, recs):
    with open(path, "w") as f:
        for r in recs:
            f.write(json.dumps(r, separators=(",", ":")))
            f.write("\n")


def read_ndjson(path):
    out = []
    with open(path) as f:
        for line in f:
            line = line.strip()
            if line:
                out.append(json.loads(line))
    return out


# ---------------------------------------------------------------------------
# TLC

TLC_CP = "/opt/veriftools/tla/tla2tools.jar:/opt/veriftools/tla/CommunityModules-deps.jar"
_STATS = re.compile(r"(\d+) states generated, (\d+) distinct states found")


class TlcResult:
    def __init__(self, rc, out, wall):
        self.rc, self.out, self.wall = rc, out, wall
        m = _STATS.findall(out)
        self.generated = int(m[-1][0]) if m else 0
        self.distinct = int(m[-1][1]) if m else 0
        self.timeout = rc == 124
        self.violation = "is violated" in out or "Invariant " in out and "violated" in out
        self.error = ("Error:" in out) and not self.violation

    def ok(self):
        return self.rc == 0 and "Error:" not in self.out


def tlc(workdir, module, cfg, env=None, workers=1, timeout=600, xss="1g", xmx="3g", extra=()):
    """Run TLC on spec/<module> with spec/<cfg>; private metadir; returns TlcResult."""
    meta = tempfile.mkdtemp(prefix="meta-", dir=workdir)
    e = dict(os.environ)
    e.update(env or {})
    cmd = ["timeout", str(timeout), "java", "-Xss" + xss, "-Xmx" + xmx, "-XX:+UseParallelGC", "-cp", TLC_CP,
           "tlc2.TLC", "-noGenerateSpecTE", "-metadir", meta, "-workers", str(workers)] + list(extra) + ["-config", cfg, module]
    t0 = time.time()
    p = subprocess.run(cmd, cwd=SPEC, env=e, stdout=subprocess.PIPE, stderr=subprocess.STDOUT, text=True)
    shutil.rmtree(meta, ignore_errors=True)
    return TlcResult(p.returncode, p.stdout, time.time() - t0)


def tlc_error_text(res):
    keep = [l for l in res.out.splitlines() if not re.match(r"^(Linting|Parsing|Semantic|TLC2|Running|Starting|Computing|Finished comp)", l)]
    return "\n".join(keep[:40])


def validate_sharded(work, recs, module, cfg, env, tag="v", shards=None, timeout=600, per_shard_min=40):
    """Validate trace records with a TLC trace spec that writes one verdict line per record.

    The records are split into shards run by parallel JVMs. A shard on which TLC
    fails (spec evaluation error, timeout) is bisected; a single record that TLC
    cannot evaluate gets the verdict {"tlc": "error"|"timeout"} (undecided, counted).
    Returns (verdicts aligned with recs, stats).
    """
    n = len(recs)
    if n == 0:
        return [], {"states": 0, "generated": 0, "tlc_wall": 0.0, "tlc_runs": 0}
    if shards is None:
        shards = max(1, min(NCPU, n // per_shard_min))
    bounds = [(i * n // shards, (i + 1) * n // shards) for i in range(shards)]
    verdicts = [None] * n
    stats = {"states": 0, "generated": 0, "tlc_wall": 0.0, "tlc_runs": 0}
    counter = [0]

    def run_range(lo, hi, tmo):
        counter[0] += 1
        k = "%s%d_%d_%d" % (tag, counter[0], lo, hi)
        tpath, vpath = work.path(k + ".trace.ndjson"), work.path(k + ".verdict.ndjson")
        write_ndjson(tpath, recs[lo:hi])
        e = dict(env)
        e.update({"VERIF_TRACE": tpath, "VERIF_OUT": vpath})
        res = tlc(work.dir, module, cfg, env=e, timeout=tmo)
        stats["tlc_wall"] += res.wall
        stats["tlc_runs"] += 1
        good = os.path.exists(vpath) and not res.timeout
        vs = None
        if good:
            try:
                vs = read_ndjson(vpath)
                good = len(vs) == hi - lo
            except Exception:
                good = False
        for p in (tpath, vpath):
            if os.path.exists(p) and not os.environ.get("VERIF_KEEP"):
                os.remove(p)
        if good:
            stats["states"] += res.distinct
            stats["generated"] += res.generated
            return vs
        if re.search(r"Semantic errors|\*\*\* Errors: \d|Parse Error|Fatal errors while parsing|Could not find module", res.out):
            # the specification does not load: no record can be evaluated, bisecting would only waste time
            raise ToolError("the trace specification %s does not load:\n%s" % (module, tlc_error_text(res)[:1500]))
        if hi - lo == 1:
            why = "timeout" if res.timeout else "error"
            log("TLC could not evaluate record id=%s (%s): %s" % (recs[lo].get("id"), why, tlc_error_text(res)[:600]))
            return [{"id": recs[lo].get("id"), "tlc": why}]
        mid = (lo + hi) // 2
        sub_t = max(60, tmo // 2)
        return run_range(lo, mid, sub_t) + run_range(mid, hi, sub_t)

    with cf.ThreadPoolExecutor(max_workers=min(NCPU, shards)) as ex:
        futs = {ex.submit(run_range, lo, hi, timeout): (lo, hi) for lo, hi in bounds if hi > lo}
        for fu in cf.as_completed(futs):
            lo, hi = futs[fu]
            verdicts[lo:hi] = fu.result()
    return verdicts, stats


# ---------------------------------------------------------------------------
# known findings, verdicts, evidence

def load_known():
    p = os.path.join(VERIF, "known_findings.json")
    if not os.path.exists(p):
        return []
    return json.load(open(p)).get("findings", [])


class Report:
    """Collects what a check run found and turns it into stdout lines, replay files, evidence and an exit code."""

    def __init__(self, prop, tier, seed, level="model_checking"):
        self.prop, self.tier, self.seed, self.level = prop, tier, seed, level
        self.t0 = time.time()
        self.violations = []      # (what, replay record)
        self.known_hits = {}      # finding id -> count
        self.cov = {"evaluations": 0, "distinct_nontrivial": 0, "states": 0, "transitions": 0,
                    "traces_validated_against_impl": 0, "out_of_model": 0, "samples": []}
        self.assumptions = []
        self.notes = []
        self._distinct = set()
        self.known = [k for k in load_known() if prop in k.get("properties", []) and k.get("status") == "open"]

    def add_tlc(self, res_or_stats):
        if isinstance(res_or_stats, dict):
            self.cov["states"] += res_or_stats.get("states", 0)
            self.cov["transitions"] += res_or_stats.get("generated", 0)
        else:
            self.cov["states"] += res_or_stats.distinct
            self.cov["transitions"] += res_or_stats.generated

    def count(self, key, n=1):
        self.cov[key] = self.cov.get(key, 0) + n

    def nontrivial(self, obj):
        h = hashlib.sha1(json.dumps(obj, sort_keys=True).encode()).hexdigest()
        if h not in self._distinct:
            self._distinct.add(h)
            self.cov["distinct_nontrivial"] = len(self._distinct)

    def sample(self, obj, limit=5):
        if len(self.cov["samples"]) < limit:
            self.cov["samples"].append(obj)

    def known_finding(self, fid, what):
        self.known_hits[fid] = self.known_hits.get(fid, 0) + 1
        if self.known_hits[fid] == 1:
            print("KNOWN-FINDING: property=%s %s [%s]" % (self.prop, what, fid), flush=True)

    def violation(self, what, replay):
        d = os.path.join(VERIF, "replay", self.prop)
        os.makedirs(d, exist_ok=True)
        n = len(self.violations) + 1
        path = os.path.join(d, "%s-%s-%d-%d.json" % (self.tier, self.seed, int(self.t0), n))
        rec = {"property": self.prop, "what": what, "seed": self.seed, "tier": self.tier,
               "repo_head": repo_head(), "how": "bin/check %s --replay %s" % (self.prop, path)}
        rec.update(replay)
        if len(self.violations) < 20:
            with open(path, "w") as f:
                json.dump(rec, f, indent=1)
            print("VIOLATION property=%s replay=%s" % (self.prop, path), flush=True)
            log("  " + what[:400])
        self.violations.append(what)

    def finish(self, min_decided=1):
        wall = time.time() - self.t0
        cov = self.cov
        cov["known_findings_hit"] = self.known_hits
        ev = {"property_id": self.prop, "tier": self.tier, "seed": self.seed, "level": self.level,
              "coverage": cov, "assumptions": self.assumptions, "wall_s": round(wall, 2),
              "violations": len(self.violations), "notes": self.notes, "repo_head": repo_head()}
        # evidence describes runs against /repo itself; a run aimed at another tree (VERIF_REPO: trying a seeded change) keeps its record apart
        edir = os.path.join(VERIF, "evidence") if os.path.realpath(REPO) == "/repo" else os.path.join(BUILD, "evidence-other-tree")
        os.makedirs(edir, exist_ok=True)
        with open(os.path.join(edir, self.prop + ".json"), "w") as f:
            json.dump(ev, f, indent=1)
        log("[%s %s seed=%s] evaluations=%d decided=%d oom=%d states=%d violations=%d known=%s wall=%.1fs" % (
            self.prop, self.tier, self.seed, cov["evaluations"], cov["traces_validated_against_impl"],
            cov.get("out_of_model", 0), cov["states"], len(self.violations), self.known_hits, wall))
        if self.violations:
            return 1
        if cov["traces_validated_against_impl"] < min_decided:
            log("vacuous run: nothing was decided")
            return 2
        return 0


def get_seed():
    try:
        return int(os.environ.get("VERIF_SEED", "1"))
    except ValueError:
        return 1
