"""The "eval" family: programs x inputs replayed on the real gojq and validated
by TLC against JqSem.tla (ValidateEval.tla).  Shared by C01, C02, C03, C11, C13 ...
"""
import json
import os

import jqgen
import vcheck as vc


def make_prelude(work, vh):
    p = work.path("prelude.ndjson")
    vc.sh([vh, "prelude", "-out", p, os.path.join(vc.REPO, "builtin.jq"), os.path.join(vc.SPEC, "prelude_spec.jq")])
    return p


def tlc_generate(work, module, seed, env, timeout=600):
    """Run a generator spec (Gen.cfg); returns the records it wrote and the TLC result."""
    out = work.path(module + ".gen.ndjson")
    e = dict(env)
    e["VERIF_OUT"] = out
    res = vc.tlc(work.dir, module, "Gen.cfg", env=e, timeout=timeout, extra=["-seed", str(seed)])
    if not os.path.exists(out) or not res.ok():
        raise vc.ToolError("generator %s failed:\n%s" % (module, vc.tlc_error_text(res)))
    return vc.read_ndjson(out), res


def replay(work, vh, cases, tag="t", budget="1s", maxout=400):
    return vc.run_restartable([vh, "eval", "-budget", budget, "-maxout", str(maxout), "-j", str(vc.NCPU)], cases, work, tag)


def show(v):
    try:
        return json.dumps(jqgen.unV(v))
    except Exception:
        return str(v)


def match_known(report, rec, run, rv, predicates):
    """Is this mismatch one of the listed open findings?  Returns the finding id or None."""
    for k in report.known:
        c = k.get("classifier", {})
        if c.get("kind") == "exact":
            w = k.get("witness", {})
            if w.get("query") == rec["src"] and w.get("input") == jqgen.unV(run["in"]):
                return k["id"]
        elif c.get("kind") == "predicate":
            f = predicates.get(c.get("impl"))
            if f and f(rec, run, rv):
                return k["id"]
    return None


def check_cases(report, work, vh, prelude, cases, predicates=None, family="eval", tag="t", timeout=900, per_shard_min=60, accept=None):
    """Replay cases, validate, classify.  Updates the report.  Returns the per-verdict counters.

    accept(rec, run, rv) may downgrade a mismatch to undecided (return a reason string) for
    behaviours the property explicitly leaves open; it must be narrow and is reported in evidence."""
    predicates = predicates or {}
    recs = replay(work, vh, cases, tag=tag)
    counters = {}

    def bump(k):
        counters[k] = counters.get(k, 0) + 1

    good = []
    for rec in recs:
        if "fatal" in rec:
            report.violation("the process dies of a runtime fatal error running %r: %s" % (rec["src"], rec["fatal"]),
                             {"family": family, "case": {"src": rec["src"], "input": {"t": "null"}}, "actual": {"fatal": rec["fatal"]}})
            bump("fatal")
        elif rec.get("hang"):
            report.violation("a run of %r does not return and does not react to its cancelled context" % rec["src"],
                             {"family": family, "case": {"src": rec["src"], "input": rec.get("input", {"t": "null"})}, "actual": {"hang": True}})
            bump("hang")
        elif "panic" in rec and "runs" not in rec:
            report.violation("panic in Parse/Compile of %r: %s" % (rec["src"], rec["panic"]),
                             {"family": family, "case": {"src": rec["src"]}, "actual": {"panic": rec["panic"]}})
            bump("panic")
        elif "perr" in rec:
            bump("parse_error")
        elif "cerr" in rec:
            bump("compile_error")
        elif '"bytes"' in json.dumps([run["in"] for run in rec.get("runs", [])]):
            bump("go_only_input")
            report.count("out_of_model", len(rec["runs"]))
            report.count("evaluations", len(rec["runs"]))
            for run in rec["runs"]:
                if run.get("panic"):
                    report.violation("panic running %r: %s" % (rec["src"], run["panic"]), {"family": family, "case": {"src": rec["src"], "input": run["in"]}, "actual": run})
        else:
            good.append(rec)
    verdicts, stats = vc.validate_sharded(work, good, "ValidateEval.tla", "ValidateEval.cfg",
                                          {"VERIF_PRELUDE": prelude}, tag=tag, timeout=timeout, per_shard_min=per_shard_min)
    report.add_tlc(stats)
    mism = []
    names = {c["id"]: c.get("name") for c in cases if c.get("name")}
    oom_by = {}
    for rec, v in zip(good, verdicts):
        if "tlc" in v:
            bump("tlc_" + v["tlc"])
            if rec["id"] in names:
                oom_by[names[rec["id"]]] = oom_by.get(names[rec["id"]], 0) + len(rec["runs"])
            report.count("out_of_model", len(rec["runs"]))
            report.count("evaluations", len(rec["runs"]))
            continue
        for run, rv in zip(rec["runs"], v["runs"]):
            report.count("evaluations")
            bump(rv["v"])
            if rv["v"] == "agree":
                report.count("traces_validated_against_impl")
                if rv.get("n", 0) > 0 or rv.get("e") != "none":
                    report.nontrivial([rec["src"], run["in"]])
                report.sample({"query": rec["src"], "input": jqgen.unV(run["in"]),
                               "outputs": [jqgen.unV(x) for x in run["out"]][:6], "error": run.get("err", None)})
            elif rv["v"] in ("oom", "long"):
                report.count("out_of_model")
                if rec["id"] in names:
                    oom_by[names[rec["id"]]] = oom_by.get(names[rec["id"]], 0) + 1
            elif rv["v"] in ("mismatch", "panic"):
                mism.append((rec, run, rv))
    if oom_by:
        d = report.cov.setdefault("out_of_model_by_name", {})
        for k, n in oom_by.items():
            d[k] = d.get(k, 0) + n
    # classification of disagreements: re-execute once (determinism), then known findings
    if mism:
        extra = {c["id"]: {k: v for k, v in c.items() if k not in ("id", "src", "inputs")} for c in cases}
        again = replay(work, vh, [dict(extra.get(rec["id"], {}), id=i, src=rec["src"], inputs=[run["in"]]) for i, (rec, run, rv) in enumerate(mism)], tag=tag + "r")
        for (rec, run, rv), rec2 in zip(mism, again):
            run2 = rec2.get("runs", [{}])[0]
            same = run2.get("out") == run["out"] and run2.get("err") == run.get("err") and run2.get("panic") == run.get("panic")
            if not same:
                bump("nondeterministic")
                report.violation("non-deterministic result for %r on %s" % (rec["src"], show(run["in"])),
                                 {"family": family, "case": {"src": rec["src"], "input": run["in"]}, "actual": [run, run2]})
                continue
            fid = match_known(report, rec, run, rv, predicates)
            if fid:
                bump("known")
                report.known_finding(fid, "%r on %s" % (rec["src"], show(run["in"])))
                continue
            why = accept(rec, run, rv) if accept else None
            if why:
                bump("accepted:" + why)
                report.count("out_of_model")
                continue
            if rv["v"] == "panic":
                what = "panic running %r on %s: %s" % (rec["src"], show(run["in"]), run.get("panic"))
            else:
                what = "%r on %s: real outputs %s err=%s; specification %s err=%s" % (
                    rec["src"], show(run["in"]), [jqgen.unV(x) for x in run["out"]], run.get("err"),
                    [jqgen.unV(x) for x in rv["exp"]["o"]], rv["exp"]["e"])
            report.violation(what, {"family": family, "case": {"src": rec["src"], "input": run["in"]},
                                    "actual": {"out": run["out"], "err": run.get("err"), "panic": run.get("panic")},
                                    "expected": rv.get("exp")})
    return counters


def replay_file(report, work, vh, prelude, path, predicates=None):
    """bin/check <id> --replay <file>: re-run the single recorded case and re-validate it."""
    rec = json.load(open(path))
    case = rec["case"]
    c = check_cases(report, work, vh, prelude, [{"id": 0, "src": case["src"], "inputs": [case["input"]]}], predicates, tag="replay")
    vc.log("replay:", c)
    return c


def regression_cases():
    """The witnesses of every REPAIRED finding (known_findings.json, status fixed) that is a plain (query, input) pair: permanent cases
    of the evaluation checks, so that the return of a repaired defect is a violation like any other."""
    out = []
    for k in vc.load_known():
        w = k.get("witness") or {}
        if k.get("status") == "fixed" and isinstance(w.get("query"), str) and "input" in w and "rep" not in w and "cfi" not in w["query"]:
            try:
                out.append({"src": w["query"], "inputs": [jqgen.V(w["input"])], "name": k["id"]})
            except Exception:
                pass
    return out


# ---------------------------------------------------------------------------
# the corpus: queries of cli/test.yaml that take plain JSON inputs

def corpus_cases(work, vh, allow_flags=("-c", "-r", "-n", "-e", "-j", "-S", "--tab", "-s")):
    out = work.path("corpus.ndjson")
    vc.sh([vh, "corpus", "-in", os.path.join(vc.REPO, "cli", "test.yaml"), "-out", out])
    cases = []
    dec = json.JSONDecoder()
    for t in vc.read_ndjson(out):
        args = t.get("args") or []
        if not all(isinstance(a, str) for a in args):
            continue
        flags = [a for a in args if a.startswith("-") and len(a) > 1 and not a[1:2].isdigit()]
        qs = [a for a in args if a not in flags]
        if len(qs) != 1 or any(f not in allow_flags for f in flags) or "env" in t or "-s" in flags:
            continue
        inputs = []
        txt = t.get("input") or ""
        if "-n" in flags:
            inputs = [None]
        else:
            ok, i = True, 0
            while True:
                while i < len(txt) and txt[i] in " \t\r\n":
                    i += 1
                if i >= len(txt):
                    break
                try:
                    v, i = dec.raw_decode(txt, i)
                    inputs.append(v)
                except Exception:
                    ok = False
                    break
            if not ok or not inputs:
                continue
        try:
            enc = [jqgen.V(x) for x in inputs[:4]]
        except Exception:
            continue
        cases.append({"src": qs[0], "inputs": enc, "name": t.get("name")})
    return cases
