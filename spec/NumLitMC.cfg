SPECIFICATION Spec
CONSTANTS
  MaxLen = 5
INVARIANT JsonGrammar
INVARIANT LexerGrammar
INVARIANT PrintLaws
CHECK_DEADLOCK FALSE
