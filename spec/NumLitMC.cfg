SPECIFICATION Spec
CONSTANTS
  MaxLen = 6
INVARIANT JsonGrammar
INVARIANT LexerGrammar
INVARIANT PrintLaws
CHECK_DEADLOCK FALSE
