------------------------------ MODULE GenPaths ------------------------------
(***************************************************************************)
(* Enumeration of PATH EXPRESSIONS of the path-safe grammar (C02) as text:  *)
(* depth <= 1 exhaustively, depth 2 by seeded sampling; and the universe of  *)
(* overlapping path tuples x update bodies that Heap.tla explores (ancestor, *)
(* descendant, sibling, overlapping-slice paths in every order).             *)
(***************************************************************************)
EXTENDS Integers, Sequences, FiniteSets, TLC, Json, IOUtils, SequencesExt

Atoms == {".", ".a", ".b", ".[0]", ".[1]", ".[-1]", ".[]", ".[1:]", ".[:1]", ".[0:2]", "..", ".a?", ".[]?", "empty", "error", "first", "last",
          ".a.b", ".a[0]", ".[0].a", "getpath([\"a\",\"b\"])", "getpath([0])", "getpath([])", ".[\"a\"]", ".[1.5]", ".[:1.5]", "$x", "1", "null", "[.]", "{a: .}",
          "([] | .[])", "({} | .[])", "([.[]? | empty] | .[])", "([] | .[]?)", "([] | .[0])", "({} | .a)", "(map(select(false))? | .[])", "([.a[]? | select(. == \"none\")] | .[])"}
Un(p) == { "(" \o p \o ").a", "(" \o p \o ")[0]", "(" \o p \o ")[]", "(" \o p \o ")[1:]", "(" \o p \o ")[:1]", "(" \o p \o ")?", "(" \o p \o ")[]?",
           "first(" \o p \o ")", "last(" \o p \o ")", "limit(1; " \o p \o ")", "limit(2; " \o p \o ")", "recurse(" \o p \o ")",
           "(" \o p \o " | select(. != null))", "(" \o p \o " | select(type == \"number\"))", "(" \o p \o " | select(.a?))",
           "(" \o p \o " | getpath([\"a\"]))", "(" \o p \o " | ..)", "(. as $y | " \o p \o ")", "(" \o p \o " | . as $y | $y)",
           "(" \o p \o " | null)", "(" \o p \o " | 1)", "(" \o p \o " | [.] | .[0])", "(" \o p \o " | {a: .} | .a)", "(" \o p \o " | tostring)",
           "if . then " \o p \o " else empty end", "(try " \o p \o " catch .)", "(" \o p \o " | if type == \"array\" then .[0] else . end)",
           \* bindings composed with paths: destructuring patterns (with the identity and with other sources) must not contribute to the path
           "(. as [$y] | " \o p \o ")", "(. as {a: $y} | " \o p \o ")", "(" \o p \o " | . as [$y] | .[1])", "(" \o p \o " | . as {a: [$y]} | .b)", "(" \o p \o " | . as [$y] ?// $y | .a)",
           "(" \o p \o " | . as [$y, $z] | select($y != null))", "(.a as [$y] | " \o p \o ")", "(" \o p \o " as {a: $y} | .b)", "(" \o p \o " | . as $y | . as [$z] | .[0])",
           "(" \o p \o " | . as {$a} | .a)", "(" \o p \o " | . as {\"a\": $y} | .a)", "(" \o p \o " | . as {(\"a\", \"b\"): $y} | .b)", "reduce . as [$y] (.; " \o p \o ")" }
Bin(p, q) == { p \o " | " \o q, "(" \o p \o ", " \o q \o ")", "(" \o p \o " // " \o q \o ")", "if " \o p \o " then " \o q \o " else . end",
               "(" \o p \o " as $y | " \o q \o ")", "(" \o p \o ")[" \o q \o "]?" }
Depth1 == Atoms \cup UNION {Un(p) : p \in Atoms} \cup UNION {Bin(p, q) : p \in Atoms, q \in Atoms}
N2 == atoi(IOEnv.VERIF_N2)
Pick(Sx) == RandomElement(Sx)
S2 == [i \in 1..N2 |-> IF RandomElement(1..2) = 1 THEN Pick(Un(Pick(Depth1))) ELSE Pick(Bin(Pick(Depth1), Pick(Depth1)))]

\* overlapping path tuples (as in Heap.tla: keys a b x, indices 0 1 2, slices [0:1] [1:9] [0:2]) and update bodies
Elems == {".a", ".b", ".x", ".[0]", ".[1]", ".[2]", ".[0:1]", ".[1:9]", ".[0:2]"}
HPaths == Elems \cup {p \o q : p \in Elems, q \in Elems} \cup {".a.x.b", ".a.x.c"}
Bodies == {".", "7", "[.]", "{x: ., y: .}", ".[0]?", "empty", "(., 1)", "(if type == \"object\" then {x: ., y: .} else . + 1 end)?", "map(. + 1)?"}
NH == atoi(IOEnv.VERIF_NH)
SH == [i \in 1..NH |-> LET k == RandomElement(2..3)
                           ps == [j \in 1..k |-> Pick(HPaths)]
                       IN [lhs |-> "(" \o ps[1] \o ", " \o ps[2] \o (IF k = 3 THEN ", " \o ps[3] ELSE "") \o ")", f |-> Pick(Bodies)]]

AllD1 == SetToSeq(Depth1)
Out == [i \in 1..Len(AllD1) |-> [d |-> 1, p |-> AllD1[i]]] \o [i \in 1..N2 |-> [d |-> 2, p |-> S2[i]]]
         \o [i \in 1..NH |-> [d |-> 0, p |-> SH[i].lhs, f |-> SH[i].f]]
VARIABLE done
Init == done = ndJsonSerialize(IOEnv.VERIF_OUT, Out)
Next == UNCHANGED done
=============================================================================
