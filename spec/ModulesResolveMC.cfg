CONSTANTS MaxMain = 0 MaxSub1 = 0 MaxSub2 = 0
INIT Init
NEXT Next
CHECK_DEADLOCK FALSE
INVARIANTS Agrees SkippedOnlyMisses Bounded SearchFirst
