------------------------------- MODULE CodeWF -------------------------------
(***************************************************************************)
(* A static verifier for gojq bytecode (the output of compiler.go after all *)
(* rewrites), evaluated by TLC on the REAL compiler's code for every         *)
(* program and every optimisation configuration (C04):                       *)
(*   W1 every jump / fork / call / pushpc target is a valid pc               *)
(*   W2 call, callrec and pushpc targets are opscope instructions            *)
(*   W3 every variable operand [id, ix] names a scope that some opscope      *)
(*      establishes, and ix is below that scope's variable count             *)
(*   W4 a callrec (frame-reusing self call) is followed, through jumps, by   *)
(*      the opret of a function: it really is a tail call                    *)
(*   W5 the code ends with opret and starts with an opscope                  *)
(*   W6 a callrec targets the opscope of the innermost function whose body    *)
(*      contains it (functions nest as scope ... ret): it is a SELF call       *)
(* CodeWF(code) is the sequence of violated rules (with the pc), empty = ok. *)
(***************************************************************************)
EXTENDS Integers, Sequences, FiniteSets

HasF(r, fld) == fld \in DOMAIN r
TargetOps == {"jump", "jumpifnot", "fork", "forktrybegin", "forkalt", "pushpc", "callrec"}
VarOps == {"load", "store", "append", "forklabel"}

CodeWF(code) ==
  LET N == Len(code)
      ScopePcs == {i \in 1..N : code[i].op = "scope"}
      IdOk(id, ix) == \E i \in ScopePcs : code[i].v.id = id /\ ix < code[i].v.cnt
      Target(i) == IF HasF(code[i], "v") /\ HasF(code[i].v, "n") THEN code[i].v.n + 1 ELSE 0
      RECURSIVE Follow(_, _)
      Follow(j, fuel) == IF fuel = 0 \/ j > N THEN 0 ELSE IF code[j].op = "jump" THEN Follow(code[j].v.n + 1, fuel - 1)
                     ELSE IF code[j].op = "nop" THEN Follow(j + 1, fuel - 1) ELSE j
      Bad(i) ==
        LET c == code[i] IN
        IF c.op \in TargetOps \/ (c.op = "call" /\ HasF(c.v, "n")) THEN
           (IF ~(Target(i) >= 1 /\ Target(i) <= N) THEN <<[rule |-> "W1", pc |-> i - 1]>>
            ELSE IF c.op \in {"call", "callrec", "pushpc"} /\ code[Target(i)].op # "scope" THEN <<[rule |-> "W2", pc |-> i - 1]>>
            ELSE IF c.op = "callrec" /\ (LET j == Follow(i + 1, N) IN j = 0 \/ code[j].op # "ret") THEN <<[rule |-> "W4", pc |-> i - 1]>>
            ELSE <<>>)
        ELSE IF c.op \in VarOps THEN (IF IdOk(c.v.id, c.v.ix) THEN <<>> ELSE <<[rule |-> "W3", pc |-> i - 1]>>)
        ELSE <<>>
      \* innermost enclosing function (pc of its opscope) of every instruction: scope pushes, ret pops
      RECURSIVE Encl(_, _)
      Encl(i, st) == IF i > N THEN <<>>
                     ELSE IF code[i].op = "scope" THEN <<i>> \o Encl(i + 1, <<i>> \o st)
                     ELSE IF code[i].op = "ret" THEN <<IF Len(st) > 0 THEN st[1] ELSE 0>> \o Encl(i + 1, IF Len(st) > 0 THEN Tail(st) ELSE st)
                     ELSE <<IF Len(st) > 0 THEN st[1] ELSE 0>> \o Encl(i + 1, st)
      encl == Encl(1, <<>>)
      W6(i) == IF code[i].op = "callrec" /\ Target(i) >= 1 /\ Target(i) <= N /\ encl[i] # Target(i) THEN <<[rule |-> "W6", pc |-> i - 1]>> ELSE <<>>
      RECURSIVE All(_)
      All(i) == IF i > N THEN <<>> ELSE Bad(i) \o W6(i) \o All(i + 1)
  IN (IF N = 0 \/ code[N].op # "ret" \/ code[1].op \notin {"scope", "store", "push", "jump"} THEN <<[rule |-> "W5", pc |-> 0]>> ELSE <<>>) \o All(1)
=============================================================================
