------------------------------- MODULE CodeWF -------------------------------
(***************************************************************************)
(* A static verifier for gojq bytecode (the output of compiler.go after all *)
(* rewrites), evaluated by TLC on the REAL compiler's code for every         *)
(* program and every optimisation configuration (C04):                       *)
(*   W1 every jump / fork / call / pushpc target is a valid pc               *)
(*   W2 call, callrec and pushpc targets are opscope instructions            *)
(*   W3 every variable operand [id, ix] names a scope that some opscope      *)
(*      establishes, and ix is below that scope's variable count             *)
(*   W4 a callrec (frame-reusing self call) is followed, through jumps, by   *)
(*      the opret of a function: it really is a tail call                    *)
(*   W5 the code ends with opret and starts with an opscope                  *)
(*   W6 a callrec targets the opscope of the innermost function whose body    *)
(*      contains it (functions nest as scope ... ret): it is a SELF call       *)
(*   W7 stack discipline: inside every function (scope ... ret) the height of  *)
(*      the data stack relative to the function's entry is the same on every   *)
(*      control-flow path reaching an instruction (fall through, jump,         *)
(*      jumpifnot, the resumption points of the fork instructions), and it is  *)
(*      0 at the function's ret.  A rewrite that is only valid when an          *)
(*      instruction is reached from its textual predecessor (the peephole       *)
(*      fusions of optimizeCodeOps) breaks this at a join point even when no    *)
(*      output shows it.                                                       *)
(* CodeWF(code) is the sequence of violated rules (with the pc), empty = ok. *)
(***************************************************************************)
EXTENDS Integers, Sequences, FiniteSets

HasF(r, fld) == fld \in DOMAIN r
TargetOps == {"jump", "jumpifnot", "fork", "forktrybegin", "forkalt", "pushpc", "callrec"}
VarOps == {"load", "store", "append", "forklabel"}

CodeWF(code) ==
  LET N == Len(code)
      ScopePcs == {i \in 1..N : code[i].op = "scope"}
      IdOk(id, ix) == \E i \in ScopePcs : code[i].v.id = id /\ ix < code[i].v.cnt
      Target(i) == IF HasF(code[i], "v") /\ HasF(code[i].v, "n") THEN code[i].v.n + 1 ELSE 0
      RECURSIVE Follow(_, _)
      Follow(j, fuel) == IF fuel = 0 \/ j > N THEN 0 ELSE IF code[j].op = "jump" THEN Follow(code[j].v.n + 1, fuel - 1)
                     ELSE IF code[j].op = "nop" THEN Follow(j + 1, fuel - 1) ELSE j
      Bad(i) ==
        LET c == code[i] IN
        IF c.op \in TargetOps \/ (c.op = "call" /\ HasF(c.v, "n")) THEN
           (IF ~(Target(i) >= 1 /\ Target(i) <= N) THEN <<[rule |-> "W1", pc |-> i - 1]>>
            ELSE IF c.op \in {"call", "callrec", "pushpc"} /\ code[Target(i)].op # "scope" THEN <<[rule |-> "W2", pc |-> i - 1]>>
            ELSE IF c.op = "callrec" /\ (LET j == Follow(i + 1, N) IN j = 0 \/ code[j].op # "ret") THEN <<[rule |-> "W4", pc |-> i - 1]>>
            ELSE <<>>)
        ELSE IF c.op \in VarOps THEN (IF IdOk(c.v.id, c.v.ix) THEN <<>> ELSE <<[rule |-> "W3", pc |-> i - 1]>>)
        ELSE <<>>
      \* innermost enclosing function (pc of its opscope) of every instruction: scope pushes, ret pops
      RECURSIVE Encl(_, _)
      Encl(i, st) == IF i > N THEN <<>>
                     ELSE IF code[i].op = "scope" THEN <<i>> \o Encl(i + 1, <<i>> \o st)
                     ELSE IF code[i].op = "ret" THEN <<IF Len(st) > 0 THEN st[1] ELSE 0>> \o Encl(i + 1, IF Len(st) > 0 THEN Tail(st) ELSE st)
                     ELSE <<IF Len(st) > 0 THEN st[1] ELSE 0>> \o Encl(i + 1, st)
      encl == Encl(1, <<>>)
      W6(i) == IF code[i].op = "callrec" /\ Target(i) >= 1 /\ Target(i) <= N /\ encl[i] # Target(i) THEN <<[rule |-> "W6", pc |-> i - 1]>> ELSE <<>>
      \* W7: heights[i] = set of relative stack heights with which instruction i can be reached
      Eff(i) == LET c == code[i] IN
                CASE c.op \in {"push", "dup", "load", "pushpc"} -> 1
                  [] c.op \in {"pop", "store", "append", "jumpifnot", "callpc", "pathend"} -> -1
                  [] c.op = "object" -> 1 - 2 * c.v.n
                  [] c.op = "call" /\ HasF(c.v, "argc") /\ ~HasF(c.v, "n") -> 0 - c.v.argc                       \* native: input and arguments replaced by the result
                  [] c.op = "call" /\ HasF(c.v, "n") /\ Target(i) >= 1 /\ Target(i) <= N /\ code[Target(i)].op = "scope" -> 0 - code[Target(i)].v.argc
                                                                                                              \* function: input and closures replaced by the output
                  [] OTHER -> 0
      Succs(i) == LET c == code[i]  t == Target(i) IN            \* successor pcs inside the same function
                  CASE c.op \in {"ret", "backtrack", "callrec"} -> {}
                    [] c.op = "call" /\ HasF(c.v, "native") /\ c.v.native = "_break" -> {}       \* always raises
                    [] c.op = "jump" -> {t}
                    [] c.op \in {"jumpifnot", "fork", "forktrybegin", "forkalt"} -> {i + 1, t}
                    [] OTHER -> {i + 1}
      \* the resumption point of a fork is entered with the height the fork instruction saw, the others with height + effect
      Out(i, h, j) == IF code[i].op \in {"fork", "forktrybegin", "forkalt"} THEN h ELSE h + Eff(i)
      Start == [i \in 1..N |-> IF code[i].op = "scope" THEN {0} ELSE {}]
      preds == [j \in 1..N |-> IF code[j].op = "scope" THEN {} ELSE {k \in 1..N : j \in Succs(k)}]
      Cap(S) == {h \in S : h >= -64 /\ h <= 64}
      \* one sweep in pc order (forward edges settle in a single sweep), repeated until nothing changes (backward jumps)
      RECURSIVE Sweep(_, _)
      Sweep(H, j) == IF j > N THEN H
                     ELSE LET new == UNION {{Out(i, h, j) : h \in H[i]} : i \in preds[j]} IN
                          Sweep(IF new \subseteq H[j] THEN H ELSE [H EXCEPT ![j] = Cap(H[j] \cup new)], j + 1)
      RECURSIVE Fix(_, _)
      Fix(H, fuel) == LET H2 == Sweep(H, 1) IN IF H2 = H \/ fuel = 0 THEN H ELSE Fix(H2, fuel - 1)
      heights == IF \A i \in 1..N : Target(i) <= N /\ (code[i].op = "object" => HasF(code[i].v, "n")) THEN Fix(Start, 40) ELSE Start
      W7(i) == IF Cardinality(heights[i]) > 1 THEN <<[rule |-> "W7", pc |-> i - 1]>>
               ELSE IF code[i].op = "ret" /\ heights[i] # {} /\ encl[i] # 0 /\ heights[i] # {0 - code[encl[i]].v.argc} THEN <<[rule |-> "W7ret", pc |-> i - 1]>>
               ELSE <<>>
      RECURSIVE All(_)
      All(i) == IF i > N THEN <<>> ELSE Bad(i) \o W6(i) \o W7(i) \o All(i + 1)
  IN (IF N = 0 \/ code[N].op # "ret" \/ code[1].op \notin {"scope", "store", "push", "jump"} THEN <<[rule |-> "W5", pc |-> 0]>> ELSE <<>>) \o All(1)
=============================================================================
