CONSTANTS PRE = 3 CUT = 5 NBH = 16 BUFSZ = 8 THRESH = 4 MINREAD = 2 FIXRA = TRUE FIXCR = FALSE MAXDOCS = 2
INIT Init
NEXT Next
INVARIANTS FileCorrect
CHECK_DEADLOCK FALSE
VIEW View
