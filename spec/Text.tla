------------------------------- MODULE Text -------------------------------
(***************************************************************************)
(* Strings are sequences of Unicode code points (TLC has no character       *)
(* access on its own strings).  This module holds what the natives need:    *)
(* searching/trimming, UTF-8 lengths, the compact JSON text of a value       *)
(* (encoder.go) and the number grammar of tonumber/literals (lexer.go        *)
(* scanNumber + parseNumber).                                                *)
(***************************************************************************)
EXTENDS JsonValue

RECURSIVE FindCp(_, _, _)
\* 1-based position of the first occurrence of sep in s at or after position from; 0 if none. sep non-empty.
FindCp(s, sep, from) ==
  IF Len(sep) = 0 THEN (IF from <= Len(s) + 1 THEN from ELSE 0)
  ELSE IF from + Len(sep) - 1 > Len(s) THEN 0
  ELSE IF SubSeq(s, from, from + Len(sep) - 1) = sep THEN from
  ELSE FindCp(s, sep, from + 1)

TrimPrefix(s, t) == IF Len(t) <= Len(s) /\ SubSeq(s, 1, Len(t)) = t THEN SubSeq(s, Len(t) + 1, Len(s)) ELSE s
TrimSuffix(s, t) == IF Len(t) <= Len(s) /\ SubSeq(s, Len(s) - Len(t) + 1, Len(s)) = t THEN SubSeq(s, 1, Len(s) - Len(t)) ELSE s

\* unicode.IsSpace
IsSpaceCp(c) == c \in {9, 10, 11, 12, 13, 32, 133, 160, 5760, 8232, 8233, 8239, 8287, 12288} \/ (c >= 8192 /\ c <= 8202)
RECURSIVE TrimLeftSpace(_)
TrimLeftSpace(s) == IF Len(s) > 0 /\ IsSpaceCp(s[1]) THEN TrimLeftSpace(Tail(s)) ELSE s
RECURSIVE TrimRightSpace(_)
TrimRightSpace(s) == IF Len(s) > 0 /\ IsSpaceCp(s[Len(s)]) THEN TrimRightSpace(SubSeq(s, 1, Len(s) - 1)) ELSE s

ValidRune(r) == r >= 0 /\ r <= 1114111 /\ ~(r >= 55296 /\ r <= 57343)
Utf8Size(c) == IF c < 128 THEN 1 ELSE IF c < 2048 THEN 2 ELSE IF c < 65536 THEN 3 ELSE 4
RECURSIVE Utf8LenI(_, _, _)
Utf8LenI(s, i, acc) == IF i > Len(s) THEN acc ELSE Utf8LenI(s, i + 1, acc + Utf8Size(s[i]))
Utf8Len(s) == Utf8LenI(s, 1, 0)

\* decimal text ---------------------------------------------------------------
DigitCp(d) == 48 + d
DigitsCp(ds) == [i \in 1..Len(ds) |-> DigitCp(ds[i])]
IntTextZ(z) == IF ZIsZero(z) THEN <<48>> ELSE (IF z.neg THEN <<45>> ELSE <<>>) \o DigitsCp(z.d)
IntText(v) == IntTextZ(ToZ(v))
RECURSIVE Log2(_)
Log2(d) == IF d <= 1 THEN 0 ELSE 1 + Log2(d \div 2)
RECURSIVE ZPow5(_)
ZPow5(k) == IF k = 0 THEN ZFromInt(1) ELSE ZMul(ZFromInt(5), ZPow5(k - 1))
PadLeftZeros(ds, k) == IF Len(ds) >= k THEN ds ELSE [i \in 1..(k - Len(ds)) |-> 0] \o ds
\* n/d, d = 2^k: exact decimal expansion (what strconv 'f' -1 prints for such a double)
FracText(n, d) ==
  LET a == Abs(n)
      ip == a \div d
      r == a % d
      k == Log2(d)
      fd == PadLeftZeros(ZMul(ZFromInt(r), ZPow5(k)).d, k)
  IN (IF n < 0 THEN <<45>> ELSE <<>>) \o IntTextZ(ZFromInt(ip)) \o <<46>> \o DigitsCp(fd)

MaxFloatText == <<49,46,55,57,55,54,57,51,49,51,52,56,54,50,51,49,53,55,101,43,51,48,56>>   \* 1.7976931348623157e+308
NullText == <<110,117,108,108>>
\* text of a number; ok = FALSE for opaque doubles
NumText(v) ==
  CASE IsInt(v) -> [ok |-> TRUE, s |-> IntText(v)]
    [] v.t = "frac" -> [ok |-> TRUE, s |-> FracText(v.n, v.d)]
    [] v.f = "nan" -> [ok |-> TRUE, s |-> NullText]
    [] v.f = "inf" -> [ok |-> TRUE, s |-> MaxFloatText]
    [] v.f = "-inf" -> [ok |-> TRUE, s |-> <<45>> \o MaxFloatText]
    [] OTHER -> [ok |-> FALSE, s |-> <<>>]
\* JSON text of a boolean or a (non-opaque) number
ScalarText(v) == IF v.t = "bool" THEN (IF v.b THEN <<116,114,117,101>> ELSE <<102,97,108,115,101>>) ELSE NumText(v).s

HexDigit(n) == IF n < 10 THEN 48 + n ELSE 87 + n
EscapeCp(c) ==
  CASE c = 34 -> <<92, 34>>
    [] c = 92 -> <<92, 92>>
    [] c = 8 -> <<92, 98>>
    [] c = 12 -> <<92, 102>>
    [] c = 10 -> <<92, 110>>
    [] c = 13 -> <<92, 114>>
    [] c = 9 -> <<92, 116>>
    [] c < 32 \/ c = 127 -> <<92, 117, 48, 48, HexDigit(c \div 16), HexDigit(c % 16)>>
    [] OTHER -> <<c>>
RECURSIVE EscapeStr(_, _)
EscapeStr(s, i) == IF i > Len(s) THEN <<>> ELSE EscapeCp(s[i]) \o EscapeStr(s, i + 1)
QuoteStr(s) == <<34>> \o EscapeStr(s, 1) \o <<34>>

RECURSIVE JsonText(_)
\* compact JSON text: [ok |-> BOOLEAN, s |-> code points]
JsonText(v) ==
  CASE v.t = "null" -> [ok |-> TRUE, s |-> NullText]
    [] v.t = "bool" -> [ok |-> TRUE, s |-> ScalarText(v)]
    [] IsNumber(v) -> NumText(v)
    [] v.t = "str" -> [ok |-> TRUE, s |-> QuoteStr(v.s)]
    [] v.t = "arr" ->
         LET RECURSIVE F(_)
             F(i) == IF i > Len(v.a) THEN [ok |-> TRUE, s |-> <<>>]
                     ELSE LET x == JsonText(v.a[i])  r == F(i + 1) IN
                          [ok |-> x.ok /\ r.ok, s |-> (IF i > 1 THEN <<44>> ELSE <<>>) \o x.s \o r.s]
             b == F(1)
         IN [ok |-> b.ok, s |-> <<91>> \o b.s \o <<93>>]
    [] v.t = "obj" ->
         LET RECURSIVE F(_)
             F(i) == IF i > Len(v.o) THEN [ok |-> TRUE, s |-> <<>>]
                     ELSE LET x == JsonText(v.o[i][2])  r == F(i + 1) IN
                          [ok |-> x.ok /\ r.ok, s |-> (IF i > 1 THEN <<44>> ELSE <<>>) \o QuoteStr(v.o[i][1]) \o <<58>> \o x.s \o r.s]
             b == F(1)
         IN [ok |-> b.ok, s |-> <<123>> \o b.s \o <<125>>]
    [] OTHER -> [ok |-> FALSE, s |-> <<>>]

\* number grammar -------------------------------------------------------------
IsDigitCp(c) == c >= 48 /\ c <= 57
RECURSIVE TakeDigits(_, _)
TakeDigits(s, i) == IF i <= Len(s) /\ IsDigitCp(s[i]) THEN TakeDigits(s, i + 1) ELSE i    \* first non-digit position
DigitVals(s, i, j) == [k \in 1..(j - i) |-> s[i + k - 1] - 48]
RECURSIVE SmallNat(_, _, _)
SmallNat(ds, i, acc) == IF i > Len(ds) THEN acc ELSE SmallNat(ds, i + 1, acc * 10 + ds[i])
RECURSIVE ZPow10(_)
ZPow10(k) == IF k = 0 THEN ZFromInt(1) ELSE ZMul(ZFromInt(10), ZPow10(k - 1))

\* tonumber / number literal: [k |-> "ok", v |-> value] | [k |-> "bad"] | [k |-> "oom"]
\* (lexer.validNumber: [+-] ( digits [. digits*] | . digits+ ) [ (e|E) [+-] digits+ ] ; parseNumber)
ParseNumber(s) ==
  LET p0 == IF Len(s) > 0 /\ s[1] \in {43, 45} THEN 2 ELSE 1
      neg == Len(s) > 0 /\ s[1] = 45
      p1 == TakeDigits(s, p0)                    \* integer digits s[p0..p1-1]
      hasDot == p1 <= Len(s) /\ s[p1] = 46
      p2 == IF hasDot THEN TakeDigits(s, p1 + 1) ELSE p1     \* fraction digits s[p1+1..p2-1]
      hasExp == p2 <= Len(s) /\ s[p2] \in {101, 69}
      p3 == IF hasExp THEN (IF p2 + 1 <= Len(s) /\ s[p2 + 1] \in {43, 45} THEN p2 + 2 ELSE p2 + 1) ELSE p2
      eneg == hasExp /\ p2 + 1 <= Len(s) /\ s[p2 + 1] = 45
      p4 == IF hasExp THEN TakeDigits(s, p3) ELSE p2         \* exponent digits s[p3..p4-1]
      intds == DigitVals(s, p0, p1)
      frds == IF hasDot THEN DigitVals(s, p1 + 1, p2) ELSE <<>>
      exds == IF hasExp THEN DigitVals(s, p3, p4) ELSE <<>>
      wellformed == /\ (Len(intds) > 0 \/ (hasDot /\ Len(frds) > 0))
                    /\ (hasExp => Len(exds) > 0)
                    /\ p4 = Len(s) + 1
  IN IF ~wellformed THEN [k |-> "bad"]
     ELSE IF ~hasDot /\ ~hasExp THEN [k |-> "ok", v |-> FromZ(MkZ(neg, intds))]
     ELSE IF Len(exds) > 3 \/ Len(intds) + Len(frds) > 18 THEN [k |-> "oom"]
     ELSE LET m == MkZ(FALSE, intds \o frds)
              ex == (IF eneg THEN 0 - SmallNat(exds, 1, 0) ELSE SmallNat(exds, 1, 0)) - Len(frds)
          IN IF ZIsZero(m) THEN [k |-> "ok", v |-> Num(0)]       \* -0.0 prints as -0: callers treat zero as 0 (see Encoder)
             ELSE IF ex >= 0 THEN
                  (IF ex > 20 THEN [k |-> "oom"]
                   ELSE LET z == ZMul(m, ZPow10(ex)) IN
                        \* a double holds it exactly only below 2^53
                        IF Len(z.d) <= 15 THEN [k |-> "ok", v |-> FromZ(MkZ(neg, z.d))] ELSE [k |-> "oom"])
             ELSE \* m / 10^k, k = -ex: dyadic iff 5^k divides m
                  LET k == 0 - ex IN
                  IF k > 12 THEN [k |-> "oom"]
                  ELSE LET q == ZDivMod(m, ZPow5(k)) IN
                       IF ~ZIsZero(q.r) THEN [k |-> "oom"]
                       ELSE IF ~ZIsSmall(q.q) \/ ZToInt(q.q) >= 33554432 THEN [k |-> "oom"]
                       ELSE LET n == ZToInt(q.q)
                                d == ZToInt(ZPow2(k))
                                r == ReduceFrac(n, d)
                            IN IF r.d > 4096 THEN [k |-> "oom"]
                               ELSE [k |-> "ok", v |-> MkFrac(IF neg THEN 0 - n ELSE n, d)]
=============================================================================
