------------------------------ MODULE RegexMC ------------------------------
(***************************************************************************)
(* Design-level model checking for C14.                                     *)
(*                                                                         *)
(* The state machine is the ENVIRONMENT protocol gojq relies on: the loop   *)
(* of Regexp.allMatches in package regexp (pos, prevMatchEnd, "an empty match right *)
(* after a previous match is ignored", "after an empty match move one rune  *)
(* forward") driven by an ARBITRARY engine: in every step the engine may    *)
(* answer "no match" or any leftmost match [lo, hi) at or after pos, on     *)
(* rune boundaries, with group 1 (named w) around the whole match - the     *)
(* shape the property's gsub law asks for - and group 2 (named n) any       *)
(* sub-span of it or unmatched.  So TLC visits, for every subject over the  *)
(* alphabet (1-, 2-, 3- and 4-byte characters) up to MaxLen code points,    *)
(* EVERY list of global matches any regex could produce, and every prefix   *)
(* of it.                                                                   *)
(*                                                                         *)
(* On every state the functions of Regex.tla (funcMatch's conversion, the   *)
(* builtin.jq reductions) are applied to the matches delivered so far and   *)
(* the laws of the property are checked as invariants.  RegexMC_bytes.cfg    *)
(* replaces Regex!OffsetsInCodePoints by FALSE: the deviation "offsets are  *)
(* left in bytes" must violate SliceInv (negative control).                 *)
(***************************************************************************)
EXTENDS Regex, TLC

CONSTANTS Alphabet,      \* set of code points
          MaxLen,        \* subjects have at most MaxLen code points
          WithGroup2     \* TRUE: the engine also reports a second, optional group

VARIABLES subj,          \* the subject, code points
          phase,         \* "find" | "done"
          pos, prevEnd,  \* allMatches loop variables (byte offsets)
          raw,           \* raw matches delivered so far
          last           \* the engine's previous answer (<<>> = none yet)
vars == <<subj, phase, pos, prevEnd, raw, last>>

Subjects == UNION {[1..n -> Alphabet] : n \in 0..MaxLen}
B == Utf8Enc(subj)
BLen == Len(B)
Bounds == {Boundaries(B)[k] : k \in 1..Len(Boundaries(B))}
NameW == <<119>>
NameN == <<110>>
Names == IF WithGroup2 THEN <<NameW, NameN>> ELSE <<NameW>>

Init == /\ subj \in Subjects
        /\ phase = "find"
        /\ pos = 0
        /\ prevEnd = -1
        /\ raw = <<>>
        /\ last = <<>>

\* The engine is a deterministic leftmost matcher: if its previous answer started at or after the
\* position the search now starts from, nothing matches before it and it must answer the same again
\* (this happens exactly after an empty match found ahead of pos: it is found again, now AT pos,
\* and rejected as "empty right after the previous match").  Found by TLC: without this assumption
\* an empty match at offset k could be followed by a non-empty one at the same offset.
Forced == last # <<>> /\ last[1] >= pos

\* one iteration of the allMatches loop in which the engine found something
Find ==
  /\ phase = "find"
  /\ pos <= BLen
  /\ \E lo \in {x \in Bounds : x >= pos} :
     \E hi \in {x \in Bounds : x >= lo} :
     \E g \in (IF WithGroup2 THEN {<<-1, -1>>} \cup {<<a, b>> : a \in {x \in Bounds : x >= lo /\ x <= hi}, b \in {x \in Bounds : x >= lo /\ x <= hi}} ELSE {<<>>}) :
       /\ (WithGroup2 /\ g[1] >= 0) => g[1] <= g[2]
       /\ Forced => <<lo, hi, lo, hi>> \o g = last
       /\ LET m == <<lo, hi, lo, hi>> \o g
              accept == ~(hi = pos /\ lo = prevEnd)          \* an empty match right after a previous match is ignored
          IN /\ raw' = IF accept THEN Append(raw, m) ELSE raw
             /\ pos' = IF hi = pos
                       THEN (IF pos < BLen THEN pos + DecodeAt(B, pos + 1).w ELSE BLen + 1)     \* move one rune forward
                       ELSE hi
             /\ prevEnd' = hi
             /\ last' = m
  /\ UNCHANGED <<subj, phase>>

\* the engine finds nothing more, or the loop condition pos <= end fails
Stop == /\ phase = "find"
        /\ ~(Forced /\ pos <= BLen)
        /\ phase' = "done"
        /\ UNCHANGED <<subj, pos, prevEnd, raw, last>>

Next == Find \/ Stop
Spec == Init /\ [][Next]_vars

-----------------------------------------------------------------------------
V == Str(subj)
ReEmpty == Str(<<>>)
FlagsG == Str(<<FlagG>>)
\* what funcMatch is given by the environment in this state
Probe == [subj |-> subj,
          tab |-> << [pat |-> <<>>, ok |-> TRUE, names |-> Names, all |-> raw,
                      first |-> IF Len(raw) > 0 THEN <<raw[1]>> ELSE <<>>, test |-> Len(raw) > 0] >>]
Ms == MatchObjects(subj, raw, Names)
DeviationBytes == FALSE

StrW(c) == V1(ObjGet(c.o, NameW))                         \* str = .w
ConstR == <<8364, 82>>                                    \* str = "€R"
StrR(c) == V1(Str(ConstR))

\* declarative reference of gsub on BYTES: every accepted span replaced, the rest copied
RECURSIVE RefReplace(_, _, _, _)
RefReplace(i, from, rep, limit) ==
  IF i > Len(raw) \/ i > limit THEN ByteSlice(B, from, BLen)
  ELSE ByteSlice(B, from, raw[i][1]) \o rep \o RefReplace(i + 1, raw[i][2], rep, limit)

-----------------------------------------------------------------------------
(* Invariants                                                                *)
TypeOK == /\ phase \in {"find", "done"}
          /\ pos \in 0..(BLen + 1)
          /\ prevEnd \in -1..BLen

\* 1. slicing the subject by every reported (offset, length) gives the reported string
SliceInv == \A i \in 1..Len(Ms) : MatchSliceLaw(V, Ms[i])

\* 2. termination structure: at most length+1 matches, ordered, disjoint, strictly advancing
AdvanceInv == AdvancingLaw(V, Ms)

\* 3. gsub with a named group around the whole regex substituted back is the identity; so is sub (first match only)
GsubIdentityInv ==
  /\ ReGsub(V, ReEmpty, StrW, Null, Probe) = V1(V)
  /\ ReSub(V, ReEmpty, StrW, Null, Probe) = V1(V)
  /\ ReSub(V, ReEmpty, StrW, FlagsG, Probe) = V1(V)

\* 4. gsub/sub with a constant replacement equal the byte-level declarative replacement
GsubConstInv ==
  LET rep == Utf8Enc(ConstR) IN
  /\ ReGsub(V, ReEmpty, StrR, Null, Probe) = V1(Str(Utf8Dec(RefReplace(1, 0, rep, Len(raw)))))
  /\ ReSub(V, ReEmpty, StrR, Null, Probe) = V1(Str(Utf8Dec(RefReplace(1, 0, rep, 1))))

\* 5. the pieces of splits interleaved with the matches rebuild the subject; split/2 collects them
SplitsInv ==
  LET sp == ReSplits(V, ReEmpty, Null, Probe) IN
  /\ ~Failed(sp)
  /\ SplitsLaw(V, sp.o, Ms)
  /\ ReSplit(V, ReEmpty, Null, Probe) = V1(Arr(sp.o))

\* 6. test holds iff a match exists; match without g is the first global match
TestInv ==
  /\ ReTest(V, ReEmpty, Null, Probe) = V1(Bool(Len(ReMatch(V, ReEmpty, FlagsG, Probe).o) > 0))
  /\ ReMatch(V, ReEmpty, Null, Probe).o = SubSeq(ReMatch(V, ReEmpty, FlagsG, Probe).o, 1, IF Len(raw) > 0 THEN 1 ELSE 0)

\* 7. named captures surface in capture; scan lists the group strings (null for an unmatched group)
CaptureInv ==
  LET cs == ReCapture(V, ReEmpty, FlagsG, Probe).o
      sc == ReScan(V, ReEmpty, Null, Probe).o
      grp(i, j) == IF raw[i][2 * j + 1] < 0 THEN Null ELSE Str(Utf8Dec(ByteSlice(B, raw[i][2 * j + 1], raw[i][2 * j + 2])))
  IN /\ Len(cs) = Len(raw) /\ Len(sc) = Len(raw)
     /\ \A i \in 1..Len(raw) :
          /\ cs[i] = Obj(IF WithGroup2 THEN << <<NameN, grp(i, 2)>>, <<NameW, grp(i, 1)>> >> ELSE << <<NameW, grp(i, 1)>> >>)
          /\ sc[i] = Arr([j \in 1..Len(Names) |-> grp(i, j)])

\* 8. the byte walks of func.go agree with the code-point meaning (checked once per subject)
Idx == (0 - Len(subj) - 2)..(Len(subj) + 2)
PositionsInv ==
  (raw = <<>> /\ pos = 0 /\ phase = "find") =>
    /\ StringLengthImpl(B) = Len(subj)
    /\ ExplodeImpl(B) = subj
    /\ ValidUtf8(B)
    /\ Native("length", V, <<>>) = V1(Num(Len(subj)))
    /\ \A i \in Idx : V1(IndexStringImpl(B, i)) = IndexOf(V, Num(i))
    /\ \A i \in Idx : \A j \in Idx : V1(SliceStringImpl(B, TRUE, j, TRUE, i)) = SliceOf(V, Num(j), Num(i))
    /\ \A i \in Idx : /\ V1(SliceStringImpl(B, FALSE, 0, TRUE, i)) = SliceOf(V, Null, Num(i))
                      /\ V1(SliceStringImpl(B, TRUE, i, FALSE, 0)) = SliceOf(V, Num(i), Null)
    \* index / rindex / indices report exactly the code-point positions of the occurrences
    /\ \A t \in UNION {[1..n -> Alphabet] : n \in 1..2} :
         LET ix == Native("indices", V, <<Str(t)>>).o[1].a
             occ == {i \in 0..Len(subj) : i + Len(t) <= Len(subj) /\ SubSeq(subj, i + 1, i + Len(t)) = t}
         IN /\ FindLaw(V, Str(t), ix)
            /\ {ix[k].n : k \in 1..Len(ix)} = occ /\ Len(ix) = Cardinality(occ)
            /\ \A k \in 1..(Len(ix) - 1) : ix[k].n < ix[k + 1].n
            /\ Native("index", V, <<Str(t)>>) = V1(IF Len(ix) = 0 THEN Null ELSE ix[1])
            /\ Native("rindex", V, <<Str(t)>>) = V1(IF Len(ix) = 0 THEN Null ELSE ix[Len(ix)])

\* the loop variable strictly increases in every iteration: every behaviour is finite
Progress == [][phase = "find" /\ phase' = "find" => pos' > pos]_vars
=============================================================================
