---------------------------- MODULE ValidateParse ----------------------------
(***************************************************************************)
(* Trace specification of C09.  Every record is one text handed to the real *)
(* gojq.Parse by `vh c09parse`:                                             *)
(*   srcB bytes of the text          ok      accepted?                      *)
(*   ast  the gojq.Query it returned printed bytes of Query.String()        *)
(*   rt   what Parse(String()) gave  vars    re-spacings of the text        *)
(*   tn   what `tonumber` said about the text as a string                   *)
(* TLC computes what Lexer.tla / Grammar.tla prescribe and writes one        *)
(* verdict record per trace record:                                         *)
(*   acc   the specification accepts the text                               *)
(*   ast   (both accept) the real AST is the specified one                  *)
(*   pr    the real String() is the specified print of that AST             *)
(*   srt   on the specification, Parse(PrintQ(ast)) = ast                   *)
(*   ek/eo kind and offset of the specified parse error                     *)
(*   vars  per re-spacing: does it have the same token sequence             *)
(*   tn    lexer.validNumber of the text                                    *)
(*   spans token extents (for the re-spacing generator)                     *)
(***************************************************************************)
EXTENDS Grammar, TLC, Json, IOUtils

Trace == ndJsonDeserialize(IOEnv.VERIF_TRACE)
WantSpans == "VERIF_SPANS" \in DOMAIN IOEnv /\ IOEnv.VERIF_SPANS = "1"

\* the token the parse error is reported at (the lexer's last token when the parser looked past it)
ErrTok(T, i) == IF i >= Len(T) THEN T[Len(T)] ELSE T[i]
ErrKind(tk) ==
  CASE tk.t = "invalid" -> "invalid"
    [] tk.t = "badescape" -> "escape"
    [] tk.t = "unterminated" -> "unterminated"
    [] tk.t = "eof" /\ tk.x = "" -> "eof"
    [] OTHER -> "unexpected"

Has(rec, f) == f \in DOMAIN rec
NTok(T) == IF T[Len(T)].t = "eof" THEN Len(T) - 1 ELSE Len(T)

\* VERIF_MODE=vars: only the token comparison of the re-spacings (the texts themselves were validated before)
VarsOnly == "VERIF_MODE" \in DOMAIN IOEnv /\ IOEnv.VERIF_MODE = "vars"
VarsVerdict(rec) ==
  LET T == TokKeys(Lex(rec.srcB)) IN
  [id |-> rec.id, v |-> "vars", vars |-> [j \in 1..Len(rec.vars) |-> TokKeys(Lex(rec.vars[j].b)) = T]]

RecVerdict(rec) ==
  IF Has(rec, "panic") \/ ~Has(rec, "srcB") THEN [id |-> rec.id, v |-> "panic"]
  ELSE IF VarsOnly THEN VarsVerdict(rec)
  ELSE
    LET src == rec.srcB
        T == Lex(src)
        p == ParseTokens(T)
        base == [id |-> rec.id, v |-> "ok", acc |-> p.ok,
                 tn |-> ValidNumber(src),
                 vars |-> IF Has(rec, "vars")
                          THEN [j \in 1..Len(rec.vars) |-> TokKeys(Lex(rec.vars[j].b)) = TokKeys(T)]
                          ELSE <<>>,
                 spans |-> IF WantSpans THEN [j \in 1..NTok(T) |-> <<T[j].b, T[j].e>>] ELSE <<>>]
    IN IF p.ok THEN
         LET pr == PrintQ(p.n)
             srt == (LET r == Parse(pr) IN r.ok /\ r.n = p.n)
         IN
         base @@ [ast |-> IF Has(rec, "ast") THEN rec.ast = p.n ELSE TRUE,
                  pr |-> IF Has(rec, "printed") THEN rec.printed = pr ELSE TRUE,
                  srt |-> srt, ntok |-> NTok(T)]
       ELSE base @@ [ek |-> ErrKind(ErrTok(T, p.i)), eo |-> ErrTok(T, p.i).e, ntok |-> NTok(T)]

\* The verdicts are computed and written while TLC computes the (single) initial state.
VARIABLE done
Init == done = ndJsonSerialize(IOEnv.VERIF_OUT, [i \in 1..Len(Trace) |-> RecVerdict(Trace[i])])
Next == UNCHANGED done
=============================================================================
