CONSTANTS G = 3 SharedInput = TRUE SweepWritesShared = TRUE
CONSTANT Prog <- ProgDef
SPECIFICATION Spec
INVARIANTS NoRace NoForeignWrite CacheSound
PROPERTY Termination
