---- MODULE C15Probe ----
EXTENDS CliMC
ASSUME PrintT(<<"seqs", Cardinality(SeqsUpTo({1,2,3}, 2))>>)
ASSUME PrintT(<<"runsB", Cardinality(Runs(ValsB, StoppersB, 2))>>)
ASSUME PrintT(<<"flagseqs", Cardinality(FlagSeqs)>>)
ASSUME PrintT(<<"F", Cardinality(FamilyF)>>)
ASSUME PrintT(<<"B", Cardinality(FamilyB)>>)
ASSUME PrintT(<<"A", Cardinality(FamilyA)>>)
====
