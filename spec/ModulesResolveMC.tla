-------------------------- MODULE ModulesResolveMC --------------------------
(***************************************************************************)
(* Model checking of module resolution (module_loader.go: lookupModule) over  *)
(* every layout of ModulesTrees!Layouts: one behaviour = one lookup, one       *)
(* action = one os.Stat of the loop.  The loop finds exactly the file the       *)
(* property names: the first existing candidate in the order                   *)
(*   search-metadata directory, then the list in order;                       *)
(*   within a directory name.jq before name/<basename>.jq.                    *)
(***************************************************************************)
EXTENDS ModulesTrees

VARIABLES lay, ls
vars == <<lay, ls>>

C == LayoutCase(lay)
Sp == IF lay.search THEN ResolvePath(C, [b |-> "abs", s |-> <<"sx">>], NoDir) ELSE NoDir
BasesOf == Bases(C, Sp)

Init == /\ lay \in {l \in Layouts : LayoutOK(l)}
        /\ ls = LookupInit

StatNext == /\ ls.res.k = "run"
            /\ ls' = LookupStep(C, lay.name, ".jq", BasesOf, ls)
            /\ UNCHANGED lay

Next == StatNext

\* the loop's answer is the property's answer
Agrees == ls.res.k # "run" => ls.res = Resolve(C, lay.name, ".jq", Sp)

\* while running, nothing before the cursor exists (the loop skipped only misses)
SkippedOnlyMisses ==
  ls.res.k = "run" =>
     \A i \in 1..Len(BasesOf), j \in 1..2 :
        (i < ls.i \/ (i = ls.i /\ j < ls.j)) => Stat(C, Candidates(BasesOf[i], lay.name, ".jq")[j]) = "none"

Bounded == ls.i <= Len(BasesOf) + 1

\* the search directory of the metadata comes first when present
SearchFirst == (lay.search /\ ls.res.k = "found" /\ lay.k[4][1] # "absent") => ls.res.p.s[1] = "sx"
=============================================================================
