----------------------------- MODULE GrammarMC -----------------------------
(***************************************************************************)
(* Model checking of the parser / printer specification on its own.         *)
(* State machine: a text is built token by token from one alphabet of       *)
(* C09Universe (action Feed).  TLC visits every token sequence of at most   *)
(* MaxLen tokens and checks in each state, for the text written with blanks *)
(* and for the text with the tokens glued together:                         *)
(*   RoundTripRepaired  if the specification accepts the text with tree q,   *)
(*               then Parse(Print(q)) = q and printing is stable, for the   *)
(*               printer with both deviations of query.go repaired          *)
(*   RoundTripCode  the same for the printer as query.go has it, wherever   *)
(*               its output equals the repaired printer's                   *)
(*   RoundTripStrict (negative control, not in the default config): the     *)
(*               printer of query.go on every text - TLC finds `. . [ . ]`  *)
(*               and `import "" as a ;`                                     *)
(*   (the next two not for the alphabets of token PIECES - "strings",       *)
(*   "comments", "lexemes" - whose point is what gluing the pieces gives)   *)
(*   Separate    the blank-separated text lexes to exactly the tokens fed   *)
(*               (blanks separate and have no other effect)                 *)
(*   TokensOnly  two texts with the same token sequence get the same parse  *)
(*               result: checked between the spaced text and a re-spacing   *)
(*               with a comment and CR LF between the tokens                *)
(***************************************************************************)
EXTENDS Grammar, C09Universe, TLC

CONSTANTS Profile, MaxLen

VARIABLE toks          \* the token spellings fed so far

Init == toks = <<>>
Feed(t) == Len(toks) < MaxLen /\ toks' = Append(toks, t)
Next == \E i \in 1..Len(Alphabet(Profile)) : Feed(Alphabet(Profile)[i])
Spec == Init /\ [][Next]_toks

\* the law, for the printer with the given deviations, on an accepted parse result r
RoundTripOf(d, r) ==
  LET pr == PrintDev(d, r.n)
      r2 == Parse(pr)
  IN r2.ok /\ r2.n = r.n /\ PrintDev(d, r2.n) = pr

\* the repaired printer satisfies the property on the whole universe
RepairedOK(r) == r.ok => RoundTripOf({}, r)
\* the printer of query.go satisfies it wherever none of its two deviations shows
CodeOK(r) == r.ok => (PrintQ(r.n) = PrintRepaired(r.n) => RoundTripOf(CodeDeviations, r))

\* "# c\r\n" between the tokens, leading blanks, trailing comment without a line end
Respaced == <<32, 9>> \o JoinToks(toks, 1, <<32, 35, 32, 99, 13, 10>>) \o <<10, 35, 120>>

\* one evaluation of the shared parses per state; the named conjuncts are the invariants of the header
Checks ==
  LET T == Lex(Spaced(toks))
      a == ParseTokens(T)
      g == Parse(Glued(toks))
      b == Parse(Respaced)
  IN [RoundTripRepaired |-> RepairedOK(a) /\ RepairedOK(g),
      RoundTripCode |-> CodeOK(a) /\ CodeOK(g),
      Separate |-> Profile \in PieceProfiles \/ (Len(T) = Len(toks) + 1 /\ \A i \in 1..Len(toks) : T[i].s = toks[i]),
      TokensOnly |-> Profile \in PieceProfiles \/ (a.ok = b.ok /\ (a.ok => a.n = b.n))]

AllInvariants == LET c == Checks IN c.RoundTripRepaired /\ c.RoundTripCode /\ c.Separate /\ c.TokensOnly
RoundTripRepaired == Checks.RoundTripRepaired
RoundTripCode == Checks.RoundTripCode
Separate == Checks.Separate
TokensOnly == Checks.TokensOnly

\* negative control (GrammarMC_neg.cfg): the printer of query.go on every text; TLC must find the defects
RoundTripStrict == LET a == Parse(Spaced(toks)) IN a.ok => RoundTripOf(CodeDeviations, a)
=============================================================================
