----------------------------- MODULE GrammarMC -----------------------------
(***************************************************************************)
(* Model checking of the parser / printer specification on its own.         *)
(* State machine: a text is built token by token from one alphabet of       *)
(* C09Universe (action Feed).  TLC visits every token sequence of at most   *)
(* MaxLen tokens and checks in each state, for the text written with blanks *)
(* and for the text with the tokens glued together:                         *)
(*   RoundTrip   if the specification accepts the text with tree q, then     *)
(*               Parse(PrintQ(q)) = q and PrintQ(Parse(PrintQ(q))) =        *)
(*               PrintQ(q): printing a parsed query never changes it        *)
(*   NegDotBracket / NegEmptyImport (negative controls, not in the default  *)
(*               config): the law for the printer with one deviation on -   *)
(*               TLC finds `. . [ .a ]` and `import "" as a ;`              *)
(*   (the next two not for the alphabets of token PIECES - "strings",       *)
(*   "comments", "lexemes" - whose point is what gluing the pieces gives)   *)
(*   Separate    the blank-separated text lexes to exactly the tokens fed   *)
(*               (blanks separate and have no other effect)                 *)
(*   TokensOnly  two texts with the same token sequence get the same parse  *)
(*               result: checked between the spaced text and a re-spacing   *)
(*               with a comment and CR LF between the tokens                *)
(***************************************************************************)
EXTENDS Grammar, C09Universe, TLC

CONSTANTS Profile, MaxLen

VARIABLE toks          \* the token spellings fed so far

Init == toks = <<>>
Feed(t) == Len(toks) < MaxLen /\ toks' = Append(toks, t)
Next == \E i \in 1..Len(Alphabet(Profile)) : Feed(Alphabet(Profile)[i])
Spec == Init /\ [][Next]_toks

\* the law, for the printer with the given deviations, on an accepted parse result r
RoundTripOf(d, r) ==
  LET pr == PrintDev(d, r.n)
      r2 == Parse(pr)
  IN r2.ok /\ r2.n = r.n /\ PrintDev(d, r2.n) = pr

\* the printer of query.go satisfies the property on the whole universe
RoundTripOK(r) == r.ok => RoundTripOf(CodeDeviations, r)

\* "# c\r\n" between the tokens, leading blanks, trailing comment without a line end
Respaced == <<32, 9>> \o JoinToks(toks, 1, <<32, 35, 32, 99, 13, 10>>) \o <<10, 35, 120>>

\* one evaluation of the shared parses per state; the named conjuncts are the invariants of the header
Checks ==
  LET T == Lex(Spaced(toks))
      a == ParseTokens(T)
      g == Parse(Glued(toks))
      b == Parse(Respaced)
  IN [RoundTrip |-> RoundTripOK(a) /\ RoundTripOK(g),
      Separate |-> Profile \in PieceProfiles \/ (Len(T) = Len(toks) + 1 /\ \A i \in 1..Len(toks) : T[i].s = toks[i]),
      TokensOnly |-> Profile \in PieceProfiles \/ (a.ok = b.ok /\ (a.ok => a.n = b.n))]

AllInvariants == LET c == Checks IN c.RoundTrip /\ c.Separate /\ c.TokensOnly
RoundTrip == Checks.RoundTrip
Separate == Checks.Separate
TokensOnly == Checks.TokensOnly

\* negative controls (GrammarMC_neg.cfg, GrammarMC_neg2.cfg): with a deviation switched on TLC must find
\* the counterexample (`. . [ .a ]` in alphabet "terms", `import "" as a ;` in alphabet "modules")
NegDotBracket == LET a == Parse(Spaced(toks)) IN a.ok => RoundTripOf({"dotBracket"}, a)
NegEmptyImport == LET a == Parse(Spaced(toks)) IN a.ok => RoundTripOf({"emptyImport"}, a)
=============================================================================
