-------------------------------- MODULE Args --------------------------------
(***************************************************************************)
(* C16 - cli/flags.go parseFlags (the loop over argv, restricted to the     *)
(* flags of this property) and the part of cli/cli.go runInternal that      *)
(* turns the parsed options into $name bindings and $ARGS.                  *)
(*                                                                         *)
(* argv is a sequence of abstract tokens:                                   *)
(*    [k |-> "long", name |-> "arg" | "argjson" | "slurpfile" | "rawfile" |  *)
(*                           "args" | "jsonargs" | a boolean flag | unknown] *)
(*    [k |-> "short", letters |-> <<"n", "s", ...>>]      -ns                *)
(*    [k |-> "ddash"]                                      --                *)
(*    [k |-> "word", w |-> id]     anything that is not an option: a word,   *)
(*                                 "-" alone, "-1"                          *)
(* Parse state ps (the local variables of parseFlags + the flagopts fields): *)
(*    i, rest, maps (name -> <<name, value>> list per map flag), keys        *)
(*    (mapKeys, shared by the four maps), args, jsonargs (with Nil padding), *)
(*    pos (positionalVal: "none" | "args" | "jsonargs"), done (optsDone),    *)
(*    bools (set of boolean flags), err                                     *)
(***************************************************************************)
EXTENDS Integers, Sequences, FiniteSets

Nil == [nil |-> TRUE]
MapFlags == <<"arg", "argjson", "slurpfile", "rawfile">>        \* the order runInternal visits them
MapFlagSet == {"arg", "argjson", "slurpfile", "rawfile"}
PosFlagSet == {"args", "jsonargs"}
BoolLong == {"null-input", "slurp", "raw-input", "stream", "from-file", "compact-output"}
ShortOf == [n |-> "null-input", s |-> "slurp", R |-> "raw-input", f |-> "from-file", c |-> "compact-output"]

ParseInit == [i |-> 1, rest |-> <<>>, maps |-> [f \in MapFlagSet |-> <<>>], keys |-> {},
              args |-> <<>>, jsonargs |-> <<>>, pos |-> "none", done |-> FALSE, bools |-> {}, err |-> "none"]

Pad(q, n) == IF Len(q) >= n THEN q ELSE q \o [j \in 1..(n - Len(q)) |-> Nil]
PosVal(ps) == IF ps.pos = "args" THEN ps.args ELSE ps.jsonargs

\* one iteration of the loop -> [ps, ev]; ev says what the iteration did (for the ghost history of ArgsMC)
FlagStep(ps, argv) ==
  LET a == argv[ps.i]
      isOpt == ~ps.done /\ a.k # "word"
  IN
  IF ~isOpt THEN
       \* `if !ok`: not an option
       IF ps.pos # "none" /\ Len(ps.rest) > 0
       THEN [ps |-> IF ps.pos = "args" THEN [ps EXCEPT !.args = Append(@, a), !.i = @ + 1] ELSE [ps EXCEPT !.jsonargs = Append(@, a), !.i = @ + 1],
             ev |-> [e |-> "pos", mode |-> ps.pos, tok |-> a]]
       ELSE [ps |-> [ps EXCEPT !.rest = Append(@, a), !.i = @ + 1], ev |-> [e |-> "rest", tok |-> a]]
  ELSE IF a.k = "ddash" THEN [ps |-> [ps EXCEPT !.done = TRUE, !.i = @ + 1], ev |-> [e |-> "none"]]
  ELSE IF a.k = "short" THEN
       (IF \E j \in 1..Len(a.letters) : a.letters[j] \notin DOMAIN ShortOf
        THEN [ps |-> [ps EXCEPT !.err = "flag"], ev |-> [e |-> "none"]]
        ELSE [ps |-> [ps EXCEPT !.bools = @ \cup {ShortOf[a.letters[j]] : j \in 1..Len(a.letters)}, !.i = @ + 1], ev |-> [e |-> "none"]])
  ELSE \* long option
  CASE a.name \in BoolLong -> [ps |-> [ps EXCEPT !.bools = @ \cup {a.name}, !.i = @ + 1], ev |-> [e |-> "none"]]
    [] a.name \in PosFlagSet ->
         \* reflect.Slice with the positional tag: pad this slice up to the one filled so far, make it the target
         (LET padded == IF ps.pos = "none" THEN ps ELSE
                         IF a.name = "args" THEN [ps EXCEPT !.args = Pad(@, Len(PosVal(ps)))]
                         ELSE [ps EXCEPT !.jsonargs = Pad(@, Len(PosVal(ps)))]
          IN [ps |-> [padded EXCEPT !.pos = a.name, !.i = @ + 1], ev |-> [e |-> "none"]])
    [] a.name \in MapFlagSet ->
         (IF ps.i + 2 > Len(argv) THEN [ps |-> [ps EXCEPT !.err = "flag"], ev |-> [e |-> "none"]]       \* expected 2 arguments
          ELSE LET name == argv[ps.i + 1]
                   val == argv[ps.i + 2]
               IN [ps |-> IF name \in ps.keys THEN [ps EXCEPT !.i = @ + 3]
                          ELSE [ps EXCEPT !.keys = @ \cup {name}, !.maps[a.name] = Append(@, <<name, val>>), !.i = @ + 3],
                   ev |-> [e |-> "bind", flag |-> a.name, name |-> name, val |-> val]])
    [] OTHER -> [ps |-> [ps EXCEPT !.err = "flag"], ev |-> [e |-> "none"]]                             \* unknown flag

RECURSIVE ParseFlags(_, _)
ParseFlags(ps, argv) == IF ps.err # "none" \/ ps.i > Len(argv) THEN ps ELSE ParseFlags(FlagStep(ps, argv).ps, argv)

\* runInternal: positional := opts.Args; for i, v := range opts.JSONArgs { if v != nil { set or append } }
RECURSIVE MergePositional(_, _, _)
\* -> sequence of [mode, tok] (a Nil that nothing overwrites stays Nil)
MergePositional(positional, jsonargs, i) ==
  IF i > Len(jsonargs) THEN positional
  ELSE IF jsonargs[i] = Nil THEN MergePositional(positional, jsonargs, i + 1)
  ELSE IF i <= Len(positional) THEN MergePositional([positional EXCEPT ![i] = [mode |-> "jsonargs", tok |-> jsonargs[i]]], jsonargs, i + 1)
  ELSE MergePositional(Append(positional, [mode |-> "jsonargs", tok |-> jsonargs[i]]), jsonargs, i + 1)
Positional(ps) ==
  MergePositional([j \in 1..Len(ps.args) |-> IF ps.args[j] = Nil THEN Nil ELSE [mode |-> "args", tok |-> ps.args[j]]], ps.jsonargs, 1)

\* the named bindings in the order runInternal creates them: sequence of [flag, name, val]
Named(ps) ==
  LET Of(f) == [j \in 1..Len(ps.maps[f]) |-> [flag |-> f, name |-> ps.maps[f][j][1], val |-> ps.maps[f][j][2]]]
  IN Of("arg") \o Of("argjson") \o Of("slurpfile") \o Of("rawfile")

\* ---------------------------------------------------------------------------
\* the requirement: bindings in COMMAND-LINE order, the first binding of a name wins
RECURSIVE FirstWins(_, _, _)
FirstWins(binds, i, seen) ==
  IF i > Len(binds) THEN <<>>
  ELSE IF binds[i].name \in seen THEN FirstWins(binds, i + 1, seen)
  ELSE <<binds[i]>> \o FirstWins(binds, i + 1, seen \cup {binds[i].name})
=============================================================================
