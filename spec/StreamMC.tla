------------------------------ MODULE StreamMC ------------------------------
(***************************************************************************)
(* C16 - model checking of cli/stream.go (Stream.tla) as a state machine:   *)
(* one action per call prologue, one action per token.                      *)
(*                                                                         *)
(* Universe: every stream of at most MaxDocs documents with at most         *)
(* MaxNodes nodes in total (scalars 1, "a"; [] and {}; arrays; objects with *)
(* duplicate-free keys from {a, b} in EVERY order; any nesting), written    *)
(* compactly, separated by one line feed, and CUT AFTER EVERY BYTE k.       *)
(* The iterator wrapper of cli/inputs.go (jsonInputIter: the first error is *)
(* emitted once, then the input is over) is part of the machine.            *)
(*                                                                         *)
(* Checked in every reachable state: NoPanic, StackSync (jsonStream.states   *)
(* vs the decoder's tokenStack), PathShape, OutIsPrefix; at the end:        *)
(* Final = the emitted events are exactly the events complete before the    *)
(* cut, followed by one error iff the cut is not at a document boundary;    *)
(* for the uncut text the events equal ToStream of every document (members  *)
(* in document order) and FromStream rebuilds the documents.                *)
(***************************************************************************)
EXTENDS StreamUniverse

VARIABLES docs, cut, s, iter, pc, out, nerr
vars == <<docs, cut, s, iter, pc, out, nerr>>

Txt == SubSeq(TextOf(docs, 1), 1, cut)

Init ==
  /\ \E n \in 1..MaxNodes : docs \in Forests(n, MaxDocs)
  /\ cut \in 0..Len(TextOf(docs, 1))
  /\ s = StreamInit
  /\ iter = "open"          \* jsonInputIter.err: "open" (nil) | "err" | "eof"
  /\ pc = "idle"
  /\ out = <<>>
  /\ nerr = 0

\* jsonInputIter.Next -> jsonStream.next: the part before the loop
Call ==
  /\ pc = "idle"
  /\ IF iter # "open" THEN pc' = "done" /\ UNCHANGED <<s, iter>>
     ELSE s' = Prologue(Txt, s) /\ pc' = "loop" /\ UNCHANGED iter
  /\ UNCHANGED <<docs, cut, out, nerr>>

\* one iteration of the loop: one token
Tok ==
  /\ pc = "loop"
  /\ ~s.bad
  /\ LET x == LoopStep(Txt, s) IN
     /\ s' = x.s
     /\ CASE x.r = "cont" -> pc' = "loop" /\ UNCHANGED <<out, nerr, iter>>
          [] x.r = "event" -> pc' = "idle" /\ out' = Append(out, x.e) /\ UNCHANGED <<nerr, iter>>
          [] x.r = "end" -> pc' = "idle" /\ iter' = "eof" /\ UNCHANGED <<out, nerr>>
          [] OTHER -> pc' = "idle" /\ iter' = "err" /\ nerr' = nerr + 1 /\ UNCHANGED out     \* err (oom and panic cannot happen here)
  /\ UNCHANGED <<docs, cut>>

Done == pc = "done" /\ UNCHANGED vars
Next == Call \/ Tok \/ Done
Spec == Init /\ [][Next]_vars

\* ---------------------------------------------------------------------------
EndStates == {"ArrayEnd", "ObjectEnd", "ArrayEmptyEnd", "ObjectEmptyEnd"}
Contrib(st) == IF st \in {"ArrayStart", "ArrayValue", "ArrayEnd", "ObjectKey", "ObjectValue", "ObjectEnd"} THEN 1 ELSE 0
RECURSIVE SumContrib(_, _)
SumContrib(q, i) == IF i > Len(q) THEN 0 ELSE Contrib(q[i]) + SumContrib(q, i + 1)

NoPanic == ~s.bad
StackSync == pc = "idle" => Len(s.states) - (IF Top(s) \in EndStates THEN 1 ELSE 0) = Len(s.d.stk) + 1
PathShape == (pc = "idle" /\ iter = "open") => Len(s.path) = SumContrib(s.states, 1)

Full == AllEventEnds(docs, 1, 1)
FullEvents == [i \in 1..Len(Full.evs) |-> Full.evs[i].e]
OutIsPrefix == Len(out) <= Len(FullEvents) /\ out = SubSeq(FullEvents, 1, Len(out))

Final ==
  pc = "done" =>
    LET n == Cardinality({i \in 1..Len(Full.evs) : Full.evs[i].end <= cut}) IN
    /\ out = SubSeq(FullEvents, 1, n)                                    \* every event complete before the cut, in order
    /\ nerr = (IF cut = 0 \/ cut \in Full.clean THEN 0 ELSE 1)             \* then exactly one error (none at a boundary)
    /\ iter = (IF nerr = 0 THEN "eof" ELSE "err")
    /\ cut = Len(TextOf(docs, 1)) =>
         /\ out = ConcatAll([i \in 1..Len(docs) |-> ToStream(docs[i])], 1)  \* = tostream, members in document order
         /\ LET r == FromStream(out) IN r.ok /\ r.vs = [i \in 1..Len(docs) |-> Canon(docs[i])]

\* The same cuts read WITHOUT --stream (jsonInputIter over dec.Decode, JsonScan.tla AllDocs): every complete
\* document before the cut, then one error unless the cut is at a boundary.  Evaluated in the initial states.
DecodeFinal ==
  (pc = "idle" /\ iter = "open" /\ Len(out) = 0 /\ s = StreamInit) =>
    LET a == AllDocs(Txt, 1, <<>>)
        nd == Cardinality({i \in 1..Len(docs) : Full.ends[i] <= cut})
    IN /\ a.vs = [i \in 1..nd |-> Canon(docs[i])]
       /\ a.fin = (IF cut = 0 \/ cut \in Full.clean THEN "end" ELSE "err")

\* every behaviour ends (no deadlock before "done"): checked by TLC's deadlock check, Done stutters
=============================================================================
