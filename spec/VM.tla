-------------------------------- MODULE VM --------------------------------
(***************************************************************************)
(* The bytecode interpreter of gojq (execute.go) as a state machine, one    *)
(* transition per instruction, written from the code line by line.  It       *)
(* executes the REAL compiler's bytecode (dumped through the verif hook       *)
(* VerifDump).                                                               *)
(*                                                                         *)
(* State record vm:                                                         *)
(*   code, pc (1-based), bt (backtrack flag), err                            *)
(*   stack, paths, scopes   the three persistent stacks (PStack.tla)         *)
(*   values                 the register file (env.values)                   *)
(*   forks                  [pc, si, sl, ci, cl, pi, pl, offset, expdepth]   *)
(*   offset, expdepth, label                                                 *)
(*   callpc, index          locals of Next()                                 *)
(*   out                    what Next() has returned so far                  *)
(*   status  "run" | "unwind" (after `break loop`) | "yield" (Next returned  *)
(*           a value or an error) | "done" (Next returned false) |           *)
(*           "panic" (an action precondition failed: the Go code would        *)
(*           panic) | "oom" (a native the model does not decide)             *)
(*   steps                  instructions executed = polls of ctx.Done()      *)
(*   cancel                 0, or k: the context is cancelled from the k-th  *)
(*                          poll on (C07)                                    *)
(* Values on the stacks are model values plus the interpreter's own kinds:   *)
(*   [t |-> "pc", pc, si]  closure   [t |-> "pvs", xs]  pending path-values   *)
(*   [t |-> "iter", xs, e] native iterator   [t |-> "alloc"] allocator        *)
(***************************************************************************)
EXTENDS Builtins, PStack, TLC

\* --- helpers ----------------------------------------------------------------
RECURSIVE DeepOpaque(_)
DeepOpaque(v) == CASE v.t = "opaque" -> TRUE
                   [] v.t = "arr" -> \E i \in 1..Len(v.a) : DeepOpaque(v.a[i])
                   [] v.t = "obj" -> \E i \in 1..Len(v.o) : DeepOpaque(v.o[i][2])
                   [] OTHER -> FALSE
PV(p, v) == [path |-> p, value |-> v]
NoPath == [t |-> "nopath"]

InitVM(code, input, vars, cancel) ==
  LET RECURSIVE PushAll(_, _)
      PushAll(st, i) == IF i = 0 THEN st ELSE PushAll(PSPush(st, vars[i]), i - 1)
  IN [code |-> code, pc |-> 1, bt |-> FALSE, err |-> NoErr,
      stack |-> PushAll(PSPush(PSEmpty, input), Len(vars)), paths |-> PSEmpty, scopes |-> PSEmpty,
      values |-> <<>>, forks |-> <<>>, offset |-> 0, expdepth |-> 0, label |-> 0,
      callpc |-> Len(code), index |-> 0,
      out |-> <<>>, status |-> "run", fail |-> "", steps |-> 0, cancel |-> cancel]

PushFork(s, pc) ==
  LET f == [pc |-> pc, si |-> s.stack.index, sl |-> s.stack.limit,
            ci |-> s.scopes.index, cl |-> s.scopes.limit,
            pi |-> s.paths.index, pl |-> s.paths.limit,
            offset |-> s.offset, expdepth |-> s.expdepth]
  IN [s EXCEPT !.forks = Append(s.forks, f), !.stack = PSSave(s.stack),
               !.scopes = PSSave(s.scopes), !.paths = PSSave(s.paths)]

PopFork(s) ==
  LET f == s.forks[Len(s.forks)] IN
  [s EXCEPT !.forks = SubSeq(s.forks, 1, Len(s.forks) - 1), !.offset = f.offset, !.expdepth = f.expdepth,
            !.stack = PSRestore(s.stack, f.si, f.sl),
            !.scopes = PSRestore(s.scopes, f.ci, f.cl),
            !.paths = PSRestore(s.paths, f.pi, f.pl),
            !.pc = f.pc, !.bt = TRUE]

\* env.index: walk the static chain (outerindex) looking for scope id
RECURSIVE ScopeLookup(_, _, _, _)
ScopeLookup(s, id, i, fuel) ==
  IF i = 0 \/ fuel = 0 THEN -1
  ELSE LET sc == s.scopes.data[i].v IN IF sc.id = id THEN sc.offset ELSE ScopeLookup(s, id, sc.outer, fuel - 1)
RegBase(s, v) == ScopeLookup(s, v.id, s.scopes.index, 10000)
Grow(vals, n) == IF n <= Len(vals) THEN vals ELSE vals \o [k \in 1..(n - Len(vals)) |-> Null]

PopScope(s) ==   \* returns [s, pc, save]
  LET free == s.scopes.index > s.scopes.limit
      sc == PSTop(s.scopes)
      s1 == [s EXCEPT !.scopes = PSPop(s.scopes), !.offset = IF free THEN sc.offset ELSE s.offset]
  IN [s |-> s1, pc |-> sc.pc, save |-> sc.save]

Break(s) == [s EXCEPT !.status = "unwind"]
Adv(s) == [s EXCEPT !.pc = s.pc + 1]
Goto(s, pc) == [s EXCEPT !.pc = pc]
Panic(s, why) == [s EXCEPT !.status = "panic", !.fail = why]
Oom(s) == [s EXCEPT !.status = "oom"]
Push(s, v) == [s EXCEPT !.stack = PSPush(s.stack, v)]
Pop(s) == [s EXCEPT !.stack = PSPop(s.stack)]
Top(s) == PSTop(s.stack)
Fail(s, e) == Break([s EXCEPT !.err = e])

PathMode(s) == ~PSIsEmpty(s.paths) /\ s.expdepth = 0
IsValue(v) == v.t \in {"null", "bool", "num", "big", "frac", "float", "str", "arr", "obj", "opaque"}
\* pathIntact by VALUE (the code compares container addresses; see DESIGN M-identity):
\* "yes" | "no"
PathIntact(s, v) ==
  LET top == PSTop(s.paths) IN
  IF "value" \notin DOMAIN top THEN "panic"
  ELSE LET w == top.value IN
       IF ~IsValue(v) \/ ~IsValue(w) THEN "no"
       ELSE IF v.t = "opaque" \/ w.t = "opaque" THEN "oom"
       ELSE IF IsNumber(v) /\ IsNumber(w) THEN
            (IF ~(Known(v) /\ Known(w)) THEN "oom"
             ELSE IF v.t = "float" /\ v.f = "nan" /\ w.t = "float" /\ w.f = "nan" THEN "yes"
             ELSE IF CmpNum(v, w) = 0 THEN "yes" ELSE "no")
       ELSE IF v = w THEN "yes" ELSE "no"
PushPath(s, p, v) == [s EXCEPT !.paths = PSPush(s.paths, PV(p, v))]

RECURSIVE PopPathsI(_, _, _)
PopPathsI(st, acc, fuel) ==    \* returns [st, xs, ok]
  IF fuel = 0 \/ PSIsEmpty(st) THEN [st |-> st, xs |-> acc, ok |-> FALSE]
  ELSE LET p == PSTop(st) IN
       IF "path" \notin DOMAIN p THEN [st |-> st, xs |-> acc, ok |-> FALSE]
       ELSE IF p.path = NoPath THEN [st |-> PSPop(st), xs |-> acc, ok |-> TRUE]
       ELSE PopPathsI(PSPop(st), <<p.path>> \o acc, fuel - 1)

\* natives the compiler emits beyond the public ones
VMNative(name, x, args) ==
  CASE name = "_allocator" -> V1([t |-> "alloc"])
    [] name = "_setpath" -> SetPath(x, args[1], args[2])
    [] name = "_delpaths" -> DelPaths(x, args[1])
    [] name = "_getpath" -> Native("getpath", x, <<args[1]>>)       \* getpath + release from the allocator (Heap.tla)
    [] name = "_break" -> [o |-> <<>>, e |-> Brk(x)]
    [] OTHER -> Native(name, x, args)
IterNatives == {"_range"}

SliceKeyV(s, e) == Obj(<< <<CpOf(<<"e","n","d">>), e>>, <<CpOf(<<"s","t","a","r","t">>), s>> >>)

\* one instruction (status = "run", pc <= Len(code))
Exec(s) ==
  LET c == s.code[s.pc]
      op == c.op
  IN
  CASE op = "nop" -> Adv(s)
    [] op = "push" -> Adv(Push(s, c.v.val))
    [] op = "pop" -> IF PSIsEmpty(s.stack) THEN Panic(s, "pop on empty stack") ELSE Adv(Pop(s))
    [] op = "dup" -> IF PSIsEmpty(s.stack) THEN Panic(s, "dup on empty stack")
                     ELSE Adv(Push(Push(Pop(s), Top(s)), Top(s)))      \* v := pop(); push(v); push(v)
    [] op = "const" -> IF PSIsEmpty(s.stack) THEN Panic(s, "const on empty stack") ELSE Adv(Push(Pop(s), c.v.val))
    [] op = "load" ->
         LET b == RegBase(s, c.v) IN
         IF b < 0 THEN Panic(s, "env.index") ELSE Adv(Push(s, Grow(s.values, b + c.v.ix + 1)[b + c.v.ix + 1]))
    [] op = "store" ->
         LET b == RegBase(s, c.v) IN
         IF b < 0 THEN Panic(s, "env.index")
         ELSE IF PSIsEmpty(s.stack) THEN Panic(s, "store on empty stack")
         ELSE LET i == b + c.v.ix + 1 IN
              Adv([Pop(s) EXCEPT !.values = [Grow(s.values, i) EXCEPT ![i] = Top(s)]])
    [] op = "append" ->
         LET b == RegBase(s, c.v) IN
         IF b < 0 THEN Panic(s, "env.index")
         ELSE LET i == b + c.v.ix + 1 IN
              IF i > Len(s.values) \/ s.values[i].t # "arr" THEN Panic(s, "append to a non-array")
              ELSE Adv([Pop(s) EXCEPT !.values = [s.values EXCEPT ![i] = Arr(Append(s.values[i].a, Top(s)))]])
    [] op = "object" ->
         IF s.bt THEN Break(s) ELSE
         LET n == c.v.n
             RECURSIVE Build(_, _, _)
             Build(st, o, k) == IF k = 0 THEN [st |-> st, o |-> o, ok |-> "ok"]
                                ELSE IF PSDepth(st) < 2 THEN [st |-> st, o |-> o, ok |-> "panic"]
                                ELSE LET v == PSTop(st) st1 == PSPop(st) key == PSTop(st1) st2 == PSPop(st1) IN
                                     IF key.t = "opaque" THEN [st |-> st2, o |-> o, ok |-> "oom"]
                                     ELSE IF key.t # "str" THEN [st |-> st2, o |-> o, ok |-> "err"]
                                     ELSE Build(st2, IF ObjHas(o, key.s) THEN o ELSE ObjPut(o, key.s, v), k - 1)
             b == Build(s.stack, <<>>, n)
         IN CASE b.ok = "panic" -> Panic(s, "object: stack underflow")
              [] b.ok = "oom" -> Oom(s)
              [] b.ok = "err" -> Fail([s EXCEPT !.stack = b.st], ErrV(Opaque))
              [] OTHER -> Adv([s EXCEPT !.stack = PSPush(b.st, Obj(b.o))])
    [] op = "fork" ->
         IF s.bt THEN (IF s.err # NoErr THEN Break(s) ELSE [s EXCEPT !.pc = c.v.n + 1, !.bt = FALSE])
         ELSE Adv(PushFork(s, s.pc))
    [] op = "forktrybegin" ->
         IF s.bt THEN
            IF s.err = NoErr THEN Break(s)
            ELSE IF s.err.k = "w" THEN Break([s EXCEPT !.err = s.err.e])
            ELSE IF s.err.k \in {"brk", "halt"} THEN Break(s)
            ELSE IF PSIsEmpty(s.stack) THEN Panic(s, "forktrybegin: empty stack")
            ELSE [Push(Pop(s), s.err.v) EXCEPT !.pc = c.v.n + 1, !.bt = FALSE, !.err = NoErr]
         ELSE Adv(PushFork(s, s.pc))
    [] op = "forktryend" ->
         IF s.bt THEN Break(IF s.err # NoErr THEN [s EXCEPT !.err = [k |-> "w", e |-> s.err]] ELSE s)
         ELSE Adv(PushFork(s, s.pc))
    [] op = "forkalt" ->
         IF s.bt THEN (IF s.err = NoErr THEN Break(s) ELSE [s EXCEPT !.pc = c.v.n + 1, !.bt = FALSE, !.err = NoErr])
         ELSE Adv(PushFork(s, s.pc))
    [] op = "forklabel" ->
         IF s.bt THEN
            IF PSIsEmpty(s.stack) THEN Panic(s, "forklabel: pop on empty stack") ELSE
            LET lbl == Top(s) s1 == Pop(s) IN
            Break(IF s.err.k = "brk" /\ s.err.l = lbl THEN [s1 EXCEPT !.err = NoErr] ELSE s1)
         ELSE LET b == RegBase(s, c.v) IN
              IF b < 0 THEN Panic(s, "env.index") ELSE
              LET s1 == Pop(PushFork(Push(s, Num(s.label)), s.pc))
                  i == b + c.v.ix + 1
              IN Adv([s1 EXCEPT !.values = [Grow(s1.values, i) EXCEPT ![i] = Num(s.label)], !.label = s.label + 1])
    [] op = "backtrack" -> Break(s)
    [] op = "jump" -> Goto(s, c.v.n + 1)
    [] op = "jumpifnot" ->
         IF PSIsEmpty(s.stack) THEN Panic(s, "jumpifnot: empty stack")
         ELSE LET v == Top(s) IN
              IF v.t = "opaque" THEN Oom(s)
              ELSE IF IsValue(v) /\ ~Truthy(v) THEN Goto(Pop(s), c.v.n + 1) ELSE Adv(Pop(s))
    [] op = "index" \/ op = "indexarray" ->
         IF s.bt THEN Break(s)
         ELSE IF PSIsEmpty(s.stack) THEN Panic(s, "index: empty stack") ELSE
         LET v == Top(s) s1 == Pop(s) IN
         IF ~IsValue(v) THEN Panic(s, "index on an interpreter value")
         ELSE IF v.t = "opaque" THEN Oom(s)
         ELSE IF op = "indexarray" /\ v.t \notin {"null", "arr"} THEN Fail(s1, ErrV(Opaque))
         ELSE LET r == IndexOf(v, c.v.val) IN
              IF r.e = OOM THEN Oom(s)
              ELSE IF r.e # NoErr THEN Fail(s1, r.e)
              ELSE LET s2 == Push(s1, r.o[1]) IN
                   IF PathMode(s2) THEN
                      (LET ok == PathIntact(s2, v) IN
                       CASE ok = "panic" -> Panic(s, "pathIntact: top of paths is not a path value")
                         [] ok = "oom" -> Oom(s)
                         [] ok = "no" -> Fail(s2, ErrV(Opaque))
                         [] OTHER -> Adv(PushPath(s2, c.v.val, r.o[1])))
                   ELSE Adv(s2)
    [] op = "call" ->
         IF s.bt THEN Break(s)
         ELSE IF "n" \in DOMAIN c.v THEN [s EXCEPT !.pc = c.v.n + 1, !.callpc = s.pc, !.index = s.scopes.index]
         ELSE LET argc == c.v.argc IN
              IF PSDepth(s.stack) < argc + 1 THEN Panic(s, "call: stack underflow") ELSE
              LET x == Top(s)
                  RECURSIVE Args(_, _, _)
                  Args(st, k, acc) == IF k = 0 THEN [st |-> st, a |-> acc] ELSE Args(PSPop(st), k - 1, Append(acc, PSTop(st)))
                  a == Args(PSPop(s.stack), argc, <<>>)
                  name == c.v.native
                  bad == \E i \in 1..argc : ~IsValue(a.a[i]) /\ a.a[i].t # "alloc"
                  s1 == [s EXCEPT !.stack = a.st]
              IN IF ~IsValue(x) \/ bad THEN Panic(s, "native called on an interpreter value")
                 ELSE IF name # "error" /\ (DeepOpaque(x) \/ \E i \in 1..argc : a.a[i].t # "alloc" /\ DeepOpaque(a.a[i])) THEN Oom(s)
                 ELSE LET r == VMNative(name, x, a.a) IN
                      IF r.e = OOM THEN Oom(s)
                      ELSE IF name \in IterNatives THEN
                           (IF r.e # NoErr /\ Len(r.o) = 0 THEN Fail(s1, r.e)
                            ELSE Adv(Push(s1, [t |-> "iter", xs |-> r.o, e |-> r.e])))
                      ELSE IF r.e # NoErr THEN Fail(s1, r.e)
                      ELSE LET w == r.o[1]
                               s2 == Push(s1, w)
                           IN IF ~PathMode(s2) \/ name \notin {"_index", "_slice", "getpath"} THEN Adv(s2)
                              ELSE LET subj == IF name = "getpath" THEN x ELSE a.a[1]
                                       ok == PathIntact(s2, subj)
                                   IN CASE ok = "panic" -> Panic(s, "pathIntact: top of paths is not a path value")
                                        [] ok = "oom" -> Oom(s)
                                        [] ok = "no" -> Fail(s2, ErrV(Opaque))
                                        [] name = "_index" -> Adv(PushPath(s2, a.a[2], w))
                                        [] name = "_slice" -> Adv(PushPath(s2, SliceKeyV(a.a[3], a.a[2]), w))
                                        [] OTHER ->
                                             LET RECURSIVE PP(_, _)
                                                 PP(st, i) == IF i > Len(a.a[1].a) THEN st ELSE PP(PushPath(st, a.a[1].a[i], w), i + 1)
                                             IN Adv(PP(s2, 1))
    [] op = "callrec" -> [s EXCEPT !.pc = c.v.n + 1, !.callpc = 0, !.index = s.scopes.index]
    [] op = "pushpc" -> Adv(Push(s, [t |-> "pc", pc |-> c.v.n + 1, si |-> s.scopes.index]))
    [] op = "callpc" ->
         IF PSIsEmpty(s.stack) THEN Panic(s, "callpc: empty stack")
         ELSE LET x == Top(s) IN
              IF x.t # "pc" THEN Panic(s, "callpc on a non-closure") ELSE
              [Pop(s) EXCEPT !.pc = x.pc, !.callpc = s.pc, !.index = x.si]
    [] op = "scope" ->
         LET same == s.index = s.scopes.index
             ps == IF same /\ s.callpc = 0 THEN PopScope(s)
                   ELSE [s |-> s, pc |-> s.callpc, save |-> IF same THEN s.index ELSE s.scopes.index]
             s1 == ps.s
             outer0 == s.index
             outer == IF outer0 > 0 /\ s1.scopes.data[outer0].v.id = c.v.id THEN s1.scopes.data[outer0].v.outer ELSE outer0
             sc == [id |-> c.v.id, offset |-> s1.offset, pc |-> ps.pc, save |-> ps.save, outer |-> outer]
         IN IF same /\ s.callpc = 0 /\ PSIsEmpty(s.scopes) THEN Panic(s, "scope: popscope on empty scope stack")
            ELSE Adv([s1 EXCEPT !.scopes = PSPush(s1.scopes, sc), !.offset = s1.offset + c.v.cnt,
                                !.values = Grow(s1.values, s1.offset + c.v.cnt)])
    [] op = "ret" ->
         IF s.bt THEN Break(s)
         ELSE IF PSIsEmpty(s.scopes) THEN Panic(s, "ret: empty scope stack") ELSE
         LET ps == PopScope(s)
             s1 == [ps.s EXCEPT !.scopes.index = ps.save]
         IN IF PSIsEmpty(s1.scopes)
            THEN (IF PSIsEmpty(s1.stack) THEN Panic(s, "ret: empty stack")
                  ELSE [Pop(s1) EXCEPT !.out = Append(s1.out, Top(s1)), !.pc = ps.pc, !.bt = TRUE, !.status = "yield"])
            ELSE Goto(s1, ps.pc + 1)
    [] op = "iter" ->
         IF s.err # NoErr THEN Break(s)
         ELSE IF PSIsEmpty(s.stack) THEN Panic(s, "iter: empty stack") ELSE
         LET v == Top(s) s1 == [Pop(s) EXCEPT !.bt = FALSE] IN
         IF v.t = "iter" THEN
            \* native iterator: Next() on it
            (IF Len(v.xs) > 0 THEN
                Adv(Push(Pop(PushFork(Push(s1, [v EXCEPT !.xs = Tail(v.xs)]), s.pc)), v.xs[1]))
             ELSE IF v.e # NoErr THEN Fail(Pop(PushFork(Push(s1, [v EXCEPT !.e = NoErr]), s.pc)), v.e)
             ELSE Break(s1))
         ELSE IF v.t = "emptyiter" THEN Break(s1)
         ELSE IF v.t = "opaque" THEN Oom(s)
         ELSE IF v.t \notin {"pvs", "arr", "obj"} THEN Fail(Push(s1, [t |-> "emptyiter"]), ErrV(Opaque))
         ELSE LET ok == IF v.t = "pvs" \/ ~PathMode(s1) THEN "yes" ELSE PathIntact(s1, v)
                  xs == CASE v.t = "pvs" -> v.xs
                          [] v.t = "arr" -> [k \in 1..Len(v.a) |-> PV(Num(k - 1), v.a[k])]
                          [] OTHER -> [k \in 1..Len(v.o) |-> PV(Str(v.o[k][1]), v.o[k][2])]
              IN CASE ok = "panic" -> Panic(s, "pathIntact: top of paths is not a path value")
                   [] ok = "oom" -> Oom(s)
                   [] ok = "no" -> Fail(Push(s1, [t |-> "emptyiter"]), ErrV(Opaque))     \* the operand is replaced by an empty iterator for the re-execution on the next call
                   [] Len(xs) = 0 -> Break(s1)
                   [] OTHER ->
                        LET s2 == IF Len(xs) > 1 THEN Pop(PushFork(Push(s1, [t |-> "pvs", xs |-> Tail(xs)]), s.pc)) ELSE s1
                            s3 == Push(s2, xs[1].value)
                        IN Adv(IF PathMode(s3) THEN [s3 EXCEPT !.paths = PSPush(s3.paths, xs[1])] ELSE s3)
    [] op = "expbegin" -> Adv([s EXCEPT !.expdepth = s.expdepth + 1])
    [] op = "expend" -> Adv([s EXCEPT !.expdepth = s.expdepth - 1])
    [] op = "pathbegin" ->
         IF PSIsEmpty(s.stack) THEN Panic(s, "pathbegin: empty stack")
         ELSE Adv([s EXCEPT !.paths = PSPush(PSPush(s.paths, [t |-> "expd", n |-> s.expdepth]), PV(NoPath, Top(s))), !.expdepth = 0])
    [] op = "pathend" ->
         IF s.bt THEN Break(s)
         ELSE IF PSDepth(s.stack) < 2 THEN Panic(s, "pathend: stack underflow") ELSE
         LET s1 == Pop(s)
             v == Top(s1)
             s2 == Pop(s1)
             ok == IF PSIsEmpty(s.paths) THEN "panic" ELSE PathIntact(s2, v)
         IN CASE ok = "panic" -> Panic(s, "pathend: bad path stack")
              [] ok = "oom" -> Oom(s)
              [] ok = "no" -> Fail(s2, ErrV(Opaque))
              [] OTHER -> LET pp == PopPathsI(s2.paths, <<>>, 10000) IN
                          IF ~pp.ok \/ PSIsEmpty(pp.st) \/ "n" \notin DOMAIN PSTop(pp.st) THEN Panic(s, "poppaths: malformed path stack")
                          ELSE Adv([Push(s2, Arr(pp.xs)) EXCEPT !.paths = PSPop(pp.st), !.expdepth = PSTop(pp.st).n])
    [] OTHER -> Panic(s, "unknown opcode")

\* The whole machine.  One Step = one of: poll+instruction, unwind one fork, the next Next() call.
Step(s) ==
  CASE s.status = "run" ->
         IF s.pc > Len(s.code) THEN [s EXCEPT !.status = "unwind"]
         ELSE LET s0 == [s EXCEPT !.steps = s.steps + 1] IN
              IF s.cancel > 0 /\ s0.steps >= s.cancel
              THEN \* case <-ctx.Done(): pc, forks = len(codes), nil; return ctx.Err(), true
                   [s0 EXCEPT !.pc = Len(s.code) + 1, !.forks = <<>>, !.out = Append(s.out, [t |-> "ctxerr"]), !.bt = TRUE, !.status = "yield",
                              !.err = NoErr]      \* err is a local of Next(): a pending error is dropped with the call
              ELSE Exec(s0)
    [] s.status = "unwind" ->
         IF Len(s.forks) > 0 THEN [PopFork(s) EXCEPT !.status = "run"]
         ELSE IF s.err # NoErr THEN [s EXCEPT !.out = Append(s.out, [t |-> "error", e |-> s.err]), !.err = NoErr, !.bt = TRUE, !.status = "yield"]
         ELSE [s EXCEPT !.status = "done", !.bt = TRUE, !.pc = Len(s.code) + 1]
    [] s.status = "yield" -> [s EXCEPT !.status = "run", !.callpc = Len(s.code), !.index = 0]
    [] s.status = "done" -> s        \* NextCall on an exhausted iterator changes nothing
    [] OTHER -> s

Running(s) == s.status \in {"run", "unwind", "yield"}

\* invariants over a state -----------------------------------------------------------
NoPanic(s) == s.status # "panic"
ForksWithinStacks(s) ==
  \A i \in 1..Len(s.forks) : /\ s.forks[i].si <= Len(s.stack.data) /\ s.forks[i].ci <= Len(s.scopes.data)
                             /\ s.forks[i].pi <= Len(s.paths.data)
                             /\ s.stack.limit >= s.forks[i].si /\ s.scopes.limit >= s.forks[i].ci
StacksWF(s) == PSWF(s.stack) /\ PSWF(s.scopes) /\ PSWF(s.paths)

\* footprint (C20): what the iterator retains
FP(s) == [forks |-> Len(s.forks), stack_log |-> PSDepth(s.stack), stack_phys |-> Len(s.stack.data),
          scope_log |-> PSDepth(s.scopes), scope_phys |-> Len(s.scopes.data),
          path_log |-> PSDepth(s.paths), offset |-> s.offset]
=============================================================================
