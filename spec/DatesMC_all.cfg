CONSTANTS Block = 400 Stride = 1
INIT Init
NEXT Next
INVARIANT Laws
CHECK_DEADLOCK FALSE
