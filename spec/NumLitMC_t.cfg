SPECIFICATION Spec
CONSTANTS
  MaxLen = 7
INVARIANT JsonGrammar
INVARIANT LexerGrammar
INVARIANT PrintLaws
CHECK_DEADLOCK FALSE
