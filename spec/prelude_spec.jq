# Definitions the compiler emits as hand-written bytecode (compileAssign,
# compileModify, compileLast), stated as the jq reductions their comments and
# the property C02 give. Parsed by the real parser, evaluated by JqSem.tla.
def _assign(ps; $v): reduce path(ps) as $p (.; setpath($p; $v));
def _modify(ps; f):
  reduce path(ps) as $p ([., []];
    . as [$x, $d]
    | label $out
    | ((($x | getpath($p) | f) as $y | [($x | setpath($p; $y)), $d] | ., break $out),
       [$x, $d + [$p]]))
  | . as [$x, $d] | $x | delpaths($d);
def _last(g): reduce (g | [.]) as $x (null; $x) | if . == null then empty else .[0] end;
