CONSTANTS
  Block = 2
  Threshold = 12
  MaxNest = 9
  MaxIndent = 4
SPECIFICATION Spec
INVARIANT TypeOK
INVARIANT SliceOK
INVARIANT Refines
INVARIANT FlushAtBoundary
INVARIANT FewCopies
PROPERTY Terminates
CHECK_DEADLOCK FALSE
