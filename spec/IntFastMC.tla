----------------------------- MODULE IntFastMC -----------------------------
(***************************************************************************)
(* C10, design-level model checking of IntFast.tla on a W-bit machine.      *)
(*                                                                         *)
(* The carrier is TLC's integers, Go's int is the W-bit two's-complement    *)
(* word (W = 4, 6, 8).  The state is ONE gojq number in its Go              *)
(* representation (the accumulator) together with the mathematical value it *)
(* has to denote (ghost).  Every initial state is an operand of the         *)
(* universe; every step applies one operator of operator.go / func.go to    *)
(* the accumulator and an operand of the universe (both orders once the     *)
(* accumulator is a computed value), in every representation of either      *)
(* side.  So depth 1 is ALL ordered operand pairs x operators x             *)
(* representation pairs; deeper levels feed computed values (in particular  *)
(* *big.Int results that would fit an int, the "-0" json.Number) back into  *)
(* the operators.                                                           *)
(*                                                                         *)
(* Invariants: the accumulator denotes exactly the mathematical result (no  *)
(* wrap, no lost digit), a float appears iff the quotient is not integral,  *)
(* an error iff the divisor is zero, % has the sign of the dividend, the    *)
(* comparison of the accumulator with every operand (one more step kind) is *)
(* the mathematical one.  The exact results used as reference are computed with TLC's own    *)
(* arithmetic and independent characterisations (IndepOK), not with the     *)
(* model's words.                                                           *)
(***************************************************************************)
EXTENDS Integers, TLC

CONSTANTS W,          \* width of the machine word
          MaxDepth,   \* number of chained operator applications
          Bound,      \* computed values beyond +-Bound are not fed back
          Dense       \* TRUE: *big.Int / json.Number operands for every integer of the wide range;
                      \* FALSE: only those near 0, +-2^(W-1), +-2^W (the int operands are always all words)

ASSUME W \in 2..12 /\ MaxDepth \in 1..4 /\ Dense \in BOOLEAN

MinI == -(2^(W-1))
MaxI == 2^(W-1) - 1
IAbs(a) == IF a < 0 THEN -a ELSE a
IPlus(a, b) == a + b
IMinus(a, b) == a - b
ITimes(a, b) == a * b
ITQuo(a, b) == LET q == IAbs(a) \div IAbs(b) IN IF (a < 0) # (b < 0) THEN -q ELSE q
ITRem(a, b) == LET m == IAbs(a) % IAbs(b) IN IF a < 0 THEN -m ELSE m
ILess(a, b) == a < b
IWrap(x) == ((x - MinI) % (2^W)) + MinI

INSTANCE IntFast WITH MinInt <- MinI, MaxInt <- MaxI, Zero <- 0, MinusOne <- -1,
                      Plus <- IPlus, Minus <- IMinus, Times <- ITimes,
                      TQuo <- ITQuo, TRem <- ITRem, Less <- ILess, WrapW <- IWrap

(***************************************************************************)
(* Operand universe: every word in the three exact representations, the     *)
(* json.Number "-0", and the integers up to twice the word range (which do  *)
(* not fit an int) as *big.Int and json.Number.                             *)
(***************************************************************************)
Near(v, c) == IAbs(IAbs(v) - c) <= 3
Wide == IF Dense THEN (-(2^W))..(2^W)
        ELSE {v \in (-(2^W))..(2^W) : Near(v, 0) \/ Near(v, 2^(W-1)) \/ Near(v, 2^W) \/ Near(v, 2^(W \div 2))}
Operands == {GoInt(v) : v \in MinI..MaxI}
            \cup {GoBig(v) : v \in Wide}
            \cup {JNumOf(v) : v \in Wide}
            \cup {JNum(TRUE, 0)}

VARIABLES acc,    \* the number held, in its Go representation (or Float / error: terminal)
          exact,  \* ghost: the exact outcome acc has to realise
          depth,  \* operator applications so far
          ok,     \* the step that led here satisfied the independent characterisations
          last    \* ghost: the step that led here (for counterexamples only; not in the VIEW)
vars == <<acc, exact, depth, ok, last>>
View == <<acc, exact, depth, ok>>

Init == /\ acc \in Operands
        /\ exact = ExactZ(Val(acc))
        /\ depth = 0
        /\ ok = TRUE
        /\ last = [op |-> "init"]

(***************************************************************************)
(* Independent characterisations of the clauses of the property, evaluated  *)
(* on the MODELLED outcome res of `a op b` with TLC's own arithmetic.       *)
(***************************************************************************)
IndepOK(op, a, b, res) ==
  CASE op = "add" -> IsInteger(res) /\ Val(res) = a + b
    [] op = "sub" -> IsInteger(res) /\ Val(res) + b = a
    [] op = "mul" -> IsInteger(res) /\ Val(res) = a * b
    [] op = "div" -> IF b = 0 THEN res.rep = "err"
                     ELSE IF IsInteger(res) THEN Val(res) * b = a        \* exact quotient
                     ELSE res.rep = "float" /\ a % IAbs(b) # 0           \* only when b does not divide a
    [] op = "mod" -> IF b = 0 THEN res.rep = "err"
                     ELSE /\ IsInteger(res)
                          /\ LET m == Val(res) IN
                             /\ IAbs(m) < IAbs(b)
                             /\ (a - m) % IAbs(b) = 0
                             /\ (m = 0 \/ (m < 0) = (a < 0))             \* sign of the dividend

Apply(op, l, r) ==
  LET res == Binary(op, l, r) IN
  /\ acc' = res
  /\ exact' = ExactBinary(op, Val(l), Val(r))
  /\ ok' = (IndepOK(op, Val(l), Val(r), res) /\ WellFormed(res))
  /\ depth' = depth + 1
  /\ last' = [op |-> op, l |-> l, r |-> r]

ApplyUnary(op) ==
  LET res == Unary(op, acc) IN
  /\ acc' = res
  /\ exact' = ExactUnary(op, Val(acc))
  /\ ok' = (WellFormed(res) /\ IsInteger(res)
            /\ CASE op = "neg" -> Val(res) + Val(acc) = 0
                 [] op = "plus" -> res = acc
                 [] OTHER -> Val(res) = IAbs(Val(acc)))
  /\ depth' = depth + 1
  /\ last' = [op |-> op, l |-> acc]

(***************************************************************************)
(* compare.go: one step compares the accumulator with an operand; the       *)
(* outcome is the three-way result, terminal.  The six operators of         *)
(* operator.go are checked as projections in the same step.                 *)
(***************************************************************************)
Sign3(a, b) == IF a < b THEN -1 ELSE IF a = b THEN 0 ELSE 1
ApplyCompare(l, r) ==
  LET c == Compare(l, r) IN
  /\ acc' = [rep |-> "cmp", c |-> c]
  /\ exact' = [k |-> "cmp", c |-> Sign3(Val(l), Val(r))]
  /\ ok' = /\ Compare(r, l) = -c
           /\ \A op \in RelationOps : Relation(op, l, r) = ExactRelation(op, Val(l), Val(r))
  /\ depth' = depth + 1
  /\ last' = [op |-> "compare", l |-> l, r |-> r]

Live == depth < MaxDepth /\ IsInteger(acc) /\ IAbs(Val(acc)) <= Bound

Next == /\ Live
        /\ \/ \E op \in BinaryOps, x \in Operands : Apply(op, acc, x)
           \/ depth > 0 /\ \E op \in BinaryOps, x \in Operands : Apply(op, x, acc)
           \/ \E op \in UnaryOps : ApplyUnary(op)
           \/ \E x \in Operands : ApplyCompare(acc, x)

Spec == Init /\ [][Next]_vars

(***************************************************************************)
(* Invariants.                                                              *)
(***************************************************************************)
\* the outcome is the exact one: no wrap, no lost digit, float iff non-integral, error iff zero
\* divisor, comparison = the mathematical order
Exactness == IF exact.k = "cmp" THEN acc.rep = "cmp" /\ acc.c = exact.c ELSE Realises(acc, exact)
\* every modelled int is a word, every step met the independent characterisations
StepOK == ok /\ (acc.rep # "cmp" => WellFormed(acc))
=============================================================================
