------------------------------ MODULE GenC12 ------------------------------
(***************************************************************************)
(* C12, model -> code: writes the universe that MCEncoder.tla model-checks  *)
(* (every byte string of length <= 2 over the 24-byte alphabet, the number  *)
(* classes, the containers over them) as one value per line, so that the    *)
(* real encoders are run on exactly the values the laws were checked on.    *)
(***************************************************************************)
EXTENDS MCEncoder, Json, IOUtils

GenInit == /\ phase = 0 /\ part = 0
           /\ idx = IF ndJsonSerialize(IOEnv.VERIF_OUT, [i \in 1..NU |-> [v |-> USeq[i]]]) THEN NU ELSE 0
GenNext == UNCHANGED vars
=============================================================================
