INIT Init
NEXT Next
INVARIANT OrderLaws
INVARIANT SortLaws
CHECK_DEADLOCK FALSE
