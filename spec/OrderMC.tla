------------------------------ MODULE OrderMC ------------------------------
(***************************************************************************)
(* C11 on the specification: jq's value order Cmp (JsonValue.tla) is a      *)
(* total preorder on the NaN-free universe U, and the order-based natives    *)
(* of Builtins.tla obey their laws.  One initial state per universe value a  *)
(* (so TLC's workers share the work); the invariant quantifies the other      *)
(* values: all ordered TRIPLES of U are covered.                              *)
(*   Reflexive, Antisymmetric (Cmp = 0 <=> structurally equal: the model has *)
(*   ONE value per number), Converse (Cmp(a,b) = -Cmp(b,a)), Transitive,      *)
(*   operators are projections (Arith).                                       *)
(* A second family of states (j > 0) checks, for every array of length <= 3   *)
(* over the sub-universe SU with tagged keys: sort = stable ordered           *)
(* permutation, unique = sort without adjacent equals, group_by partitions     *)
(* the sorted input by key equality, min/max pick the first/last extreme,      *)
(* bsearch on a sorted array returns the index of an equal element or          *)
(* -1 - insertion point.                                                       *)
(***************************************************************************)
EXTENDS Builtins, TLC, Json, IOUtils

U == ndJsonDeserialize(IOEnv.VERIF_UNIVERSE)
SU == ndJsonDeserialize(IOEnv.VERIF_SUBUNIVERSE)
NU == Len(U)
NS == Len(SU)

VARIABLES i, arr
Init == \/ (i \in 1..NU /\ arr = <<>>)
        \/ (i = 0 /\ arr \in UNION {[1..n -> 1..NS] : n \in 0..3})
Next == UNCHANGED <<i, arr>>

OpB(op, a, b) == Arith(op, a, b).o[1].b
OrderLaws ==
  i > 0 =>
  LET a == U[i] IN
  /\ Cmp(a, a) = 0
  /\ \A j \in 1..NU :
       LET b == U[j]  c1 == Cmp(a, b) IN
       /\ c1 \in {-1, 0, 1}
       /\ c1 = 0 - Cmp(b, a)
       /\ (c1 = 0 <=> a = b)
       /\ OpB("_equal", a, b) = (c1 = 0) /\ OpB("_notequal", a, b) = (c1 # 0)
       /\ OpB("_less", a, b) = (c1 < 0) /\ OpB("_lesseq", a, b) = (c1 <= 0)
       /\ OpB("_greater", a, b) = (c1 > 0) /\ OpB("_greatereq", a, b) = (c1 >= 0)
       /\ \A k \in 1..NU : (c1 <= 0 /\ Cmp(b, U[k]) <= 0) => Cmp(a, U[k]) <= 0

\* arrays of tagged items: value = [key, position tag], key drives the order
Keys == [k \in 1..Len(arr) |-> SU[arr[k]]]
Vals == [k \in 1..Len(arr) |-> Arr(<<SU[arr[k]], Num(k)>>)]
Ordered(ks) == \A p \in 1..(Len(ks) - 1) : Cmp(ks[p], ks[p + 1]) <= 0
KeyOf(v) == v.a[1]
TagOf(v) == v.a[2].n
SortLaws ==
  i = 0 =>
  LET n == Len(arr)
      s == SortBy(Vals, Keys)
      u == UniqueBy(Vals, Keys)
      g == GroupBy(Vals, Keys)
      sk == [p \in 1..n |-> KeyOf(s[p])]
  IN
  /\ Len(s) = n /\ {TagOf(s[p]) : p \in 1..n} = 1..n                        \* a permutation
  /\ Ordered(sk)
  /\ \A p \in 1..n, q \in 1..n : (p < q /\ Cmp(sk[p], sk[q]) = 0) => TagOf(s[p]) < TagOf(s[q])      \* stable
  /\ u = SelectSeq(s, LAMBDA v : \A w \in {s[q] : q \in 1..n} : (Cmp(KeyOf(w), KeyOf(v)) = 0) => TagOf(v) <= TagOf(w))   \* first of each class
  /\ Len(u) = Cardinality({KeyOf(s[p]) : p \in 1..n})
  /\ (LET RECURSIVE Flat(_) Flat(p) == IF p > Len(g) THEN <<>> ELSE g[p].a \o Flat(p + 1) IN Flat(1) = s)             \* group_by partitions sort
  /\ \A p \in 1..Len(g) : Len(g[p].a) > 0 /\ \A x \in 1..Len(g[p].a) : Cmp(KeyOf(g[p].a[x]), KeyOf(g[p].a[1])) = 0
  /\ \A p \in 1..(Len(g) - 1) : Cmp(KeyOf(g[p].a[1]), KeyOf(g[p + 1].a[1])) < 0
  /\ (n > 0 => /\ MinMaxBy(Vals, Keys, TRUE) = s[1]                                         \* first minimal
               /\ LET mx == MinMaxBy(Vals, Keys, FALSE) IN
                  /\ Cmp(KeyOf(mx), sk[n]) = 0
                  /\ \A q \in 1..n : Cmp(Keys[q], KeyOf(mx)) = 0 => q <= TagOf(mx))          \* last maximal
  /\ (n = 0 => MinMaxBy(Vals, Keys, TRUE) = Null)
  /\ \A t \in 1..NS :                                                                      \* bsearch on the sorted keys
       LET r == Bsearch(sk, SU[t]).n IN
       IF \E p \in 1..n : Cmp(sk[p], SU[t]) = 0 THEN r >= 0 /\ Cmp(sk[r + 1], SU[t]) = 0
       ELSE r < 0 /\ LET ins == 0 - r - 1 IN
                     /\ \A p \in 1..ins : Cmp(sk[p], SU[t]) < 0
                     /\ \A p \in (ins + 1)..n : Cmp(sk[p], SU[t]) > 0
=============================================================================
