------------------------------ MODULE Outcome ------------------------------
(***************************************************************************)
(* C08: the protocol of OBSERVABLE OUTCOMES of the library and the command. *)
(* A use of the library is a walk through the phases                        *)
(*    Parse -> Compile -> Run -> Next* -> (Marshal / Preview of each value) *)
(* and each phase may only end in one of the outcomes below; a panic (Go     *)
(* panic recovered by the harness), a runtime fatal error or a hang is NOT   *)
(* an outcome.  The trace specification steps this machine over every        *)
(* recorded use (events in order) and over every recorded command            *)
(* invocation.                                                               *)
(*   parse    ok | err(offset, token): 0 <= offset <= len(src)                *)
(*   compile  ok | err (an error value)                                      *)
(*   next     value(kind in the supported Go types, marshals to valid JSON,  *)
(*            Preview does not fail) | err(error value, Error() does not      *)
(*            panic) | end                                                    *)
(*   command  exit status in {0,1,2,3,4,5} or a halt code in 0..255, stderr  *)
(*            without a Go stack trace; status 3 only when the query does    *)
(*            not parse/compile, 2 only for flag errors                       *)
(***************************************************************************)
EXTENDS Integers, Sequences, TLC, Json, IOUtils

Trace == ndJsonDeserialize(IOEnv.VERIF_TRACE)
Kinds == {"nil", "bool", "int", "float64", "big", "json.Number", "string", "array", "object"}

\* the library machine: state = phase; an event is legal in a phase and leads to the next phase
LibStep(ph, e, n) ==
  CASE ph = "parse" /\ e.e = "parse_ok" -> "compile"
    [] ph = "parse" /\ e.e = "parse_err" ->
         \* the Offset lies within the source (the Token is a rendering of the offending text - an invalid byte is
         \* shown as U+FFFD, a string literal unquoted - so its relation to the bytes is left to C17)
         IF e.offset >= 0 /\ e.offset <= n THEN "end" ELSE "bad:parse-error-position"
    [] ph = "compile" /\ e.e = "compile_ok" -> "run"
    [] ph = "compile" /\ e.e = "compile_err" -> "end"
    [] ph = "run" /\ e.e = "value" ->
         IF e.kind \in Kinds /\ e.json /\ e.preview THEN "run" ELSE "bad:value"
    [] ph = "run" /\ e.e = "error" -> IF e.msg THEN "run" ELSE "bad:error-value"
    [] ph = "run" /\ e.e = "end" -> "ended"
    [] ph = "run" /\ e.e = "budget" -> "end"
    [] ph = "ended" /\ e.e = "end" -> "ended"                      \* false is forever
    [] ph \in {"run", "ended", "end"} /\ e.e = "newrun" -> "run"     \* the next Run of the same Code
    [] e.e = "panic" -> "bad:panic"
    [] OTHER -> "bad:protocol"

RECURSIVE LibWalk(_, _, _, _)
LibWalk(ev, i, ph, n) ==
  IF i > Len(ev) THEN [ok |-> TRUE]
  ELSE LET nx == LibStep(ph, ev[i], n) IN
       IF nx \in {"compile", "run", "end", "ended"} THEN LibWalk(ev, i + 1, nx, n)
       ELSE [ok |-> FALSE, at |-> i, why |-> nx]

\* the command
CmdOK(r) ==
  IF r.timeout THEN [ok |-> TRUE, undecided |-> TRUE]
  ELSE IF r.trace THEN [ok |-> FALSE, why |-> "go-stack-trace-on-stderr"]
  ELSE IF ~(r.exit \in 0..255) THEN [ok |-> FALSE, why |-> "killed-or-status-out-of-range"]
  ELSE IF r.exit \in {0, 1, 2, 3, 4, 5} \/ r.halts THEN [ok |-> TRUE]
  ELSE [ok |-> FALSE, why |-> "undocumented-exit-status"]

Verdict(r) == [id |-> r.id] @@ (IF r.fam = "lib" THEN LibWalk(r.events, 1, "parse", r.n) ELSE CmdOK(r))

VARIABLE done
Init == done = ndJsonSerialize(IOEnv.VERIF_OUT, [k \in 1..Len(Trace) |-> Verdict(Trace[k])])
Next == UNCHANGED done
=============================================================================
