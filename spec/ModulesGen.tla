----------------------------- MODULE ModulesGen -----------------------------
(***************************************************************************)
(* Generator of C18 (model -> code).  For every case it writes                *)
(*   c : the case itself (when TLC enumerated it)                            *)
(*   p : Link(c)              what the property prescribes, with the table of  *)
(*                            every universe name at every site              *)
(*   i : Impl(c, SwCode)      the same from the code-level machine            *)
(* checks/c18.py turns the tables into probe programs: references to names     *)
(* that both agree on (rich programs exercising shadowing), and single          *)
(* references where the two differ or both hide the name.                     *)
(*  VERIF_MODE = trees   : every tree of ModulesTrees!Trees                   *)
(*               layouts : every layout of ModulesTrees!Layouts               *)
(*               file    : the skeleton cases of VERIF_TRACE (random trees)    *)
(*  VERIF_N    = 0 : all of them;  n > 0 : a seeded RandomSubset of n (quick)   *)
(***************************************************************************)
EXTENDS ModulesTrees, Json, IOUtils, SequencesExt, Randomization

Mode == IOEnv.VERIF_MODE
Want == atoi(IOEnv.VERIF_N)

Pick(set) == IF Want = 0 \/ Want >= Cardinality(set) THEN set ELSE RandomSubset(Want, set)

Enumerated == IF Mode = "trees" THEN SetToSeq({TreeCase(t) : t \in Pick(Trees)})
              ELSE SetToSeq({LayoutCase(l) : l \in Pick({x \in Layouts : LayoutOK(x)})})

FromFile == ndJsonDeserialize(IOEnv.VERIF_TRACE)

\* a table entry as one string: "-" (hidden), "self", or the tag of what the name resolves to
Compact(r) ==
  IF r.k # "ok" THEN r
  ELSE [k |-> "ok", v |-> r.v,
        tab |-> [x \in 1..Len(r.tab) |->
                   [f |-> r.tab[x].f, j |-> r.tab[x].j,
                    vis |-> [y \in 1..Len(r.tab[x].vis) |->
                               LET e == r.tab[x].vis[y] IN IF e.k \in {"f", "v"} THEN e.t ELSE e.k]]]]

Records ==
  IF Mode = "file"
  THEN [x \in 1..Len(FromFile) |-> [id |-> FromFile[x].id, p |-> Compact(Link(FromFile[x].c)), i |-> Compact(Impl(FromFile[x].c, SwCode))]]
  ELSE LET cs == Enumerated IN [x \in 1..Len(cs) |-> [id |-> x, c |-> cs[x], p |-> Compact(Link(cs[x])), i |-> Compact(Impl(cs[x], SwCode))]]

VARIABLE done
Init == done = ndJsonSerialize(IOEnv.VERIF_OUT, Records)
Next == UNCHANGED done
=============================================================================
