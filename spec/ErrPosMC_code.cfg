CONSTANTS PRE = 3 CUT = 5 NBH = 16 BUFSZ = 8 THRESH = 4 MINREAD = 2 FIXRA = TRUE FIXCR = TRUE MAXDOCS = 2
INIT Init
NEXT Next
INVARIANTS ErrAgree NoCleanEnd LineBaseInv PipeNeverDiscarded PipeCorrectOrD13 FileCorrectOrKnown FileSignature FileRefines
CHECK_DEADLOCK FALSE
VIEW View
