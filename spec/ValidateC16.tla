---------------------------- MODULE ValidateC16 ----------------------------
(***************************************************************************)
(* C16 - trace specification.  Every record is ONE invocation of the real   *)
(* cmd/gojq binary: the command line (abstract tokens + the bytes of every  *)
(* word), the files on disk, standard input, and what the process did       *)
(* (stdout parsed as a stream of JSON values, the number of `gojq: ` error  *)
(* reports on stderr, the exit status).  CliRun composes Args.tla           *)
(* (parseFlags, bindings), Inputs.tla (iterator stack, run loop, input /    *)
(* inputs), Stream.tla and JsonScan.tla into what the command must do; one  *)
(* verdict per record: agree | mismatch (with the expectation) | oom.       *)
(***************************************************************************)
EXTENDS Inputs, Args, TLC, Json, IOUtils

Trace == ndJsonDeserialize(IOEnv.VERIF_TRACE)

Exp(exit, out, nerr) == [k |-> "exp", exit |-> exit, out |-> out, nerr |-> nerr]
Undecided(why) == [k |-> "oom", why |-> why]

\* --- the jq text of a query (must equal the bytes the generator put on the command line / in the file) ---
Has(r, f) == f \in DOMAIN r
IsAscii(s) == \A i \in 1..Len(s) : s[i] < 128
RECURSIVE Render(_, _)
\* -> bytes, or <<0>> if the model cannot spell it
Render(e, words) ==
  CASE e.op = "dot" -> <<46>>
    [] e.op = "input" -> <<105, 110, 112, 117, 116>>
    [] e.op = "inputs" -> <<105, 110, 112, 117, 116, 115>>
    [] e.op = "empty" -> <<101, 109, 112, 116, 121>>
    [] e.op = "tostream" -> <<116, 111, 115, 116, 114, 101, 97, 109>>
    [] e.op = "lit" -> (LET x == JsonText(e.c) IN IF x.ok /\ IsAscii(x.s) THEN x.s ELSE <<0>>)
    [] e.op = "var" -> (IF e.n = "ARGS" THEN <<36, 65, 82, 71, 83>> ELSE IF Has(words, e.n) THEN <<36>> \o words[e.n] ELSE <<0>>)
    [] e.op = "comma" -> <<40>> \o Render(e.l, words) \o <<44>> \o Render(e.r, words) \o <<41>>
    [] e.op = "collect" -> <<91>> \o Render(e.b, words) \o <<93>>
    [] e.op = "try" -> <<40, 116, 114, 121, 32>> \o Render(e.b, words) \o <<32, 99, 97, 116, 99, 104, 32>> \o Render([op |-> "lit", c |-> e.h], words) \o <<41>>
    [] e.op = "first" -> <<102, 105, 114, 115, 116, 40>> \o Render(e.b, words) \o <<41>>
    [] e.op = "limit" -> <<108, 105, 109, 105, 116, 40>> \o IntText(Num(e.n)) \o <<59>> \o Render(e.b, words) \o <<41>>
    [] e.op = "drain" -> <<40>> \o Render(e.b, words) \o <<124, 101, 109, 112, 116, 121, 41>>
    [] e.op = "fromstream" -> <<102, 114, 111, 109, 115, 116, 114, 101, 97, 109, 40>> \o Render(e.b, words) \o <<41>>
    [] OTHER -> <<0>>

RECURSIVE VarsOf(_)
VarsOf(e) == CASE e.op = "var" -> {e.n}
               [] e.op = "comma" -> VarsOf(e.l) \cup VarsOf(e.r)
               [] e.op \in {"collect", "try", "first", "limit", "drain", "fromstream"} -> VarsOf(e.b)
               [] OTHER -> {}

\* --- values of bindings --------------------------------------------------
\* -> [k |-> "ok", v] | [k |-> "err"] | [k |-> "oom"]
StrVal(bytes) == LET u == Utf8Decode(bytes) IN IF u.ok THEN [k |-> "ok", v |-> Str(u.s)] ELSE [k |-> "oom"]
\* The text of --argjson / --jsonargs must be ONE JSON value (strict).  cli.go takes newJSONInputIter(text).Next():
\* the FIRST value of the text, whatever follows, and null for a blank text (lenient = what the code does; the
\* difference is the known finding F-C16-argjson-lenient).
JsonVal(bytes, strict) ==
  LET r == DecodeNext(bytes, 1) IN
  CASE r.k = "ok" -> IF strict /\ SkipWs(bytes, r.j) <= Len(bytes) THEN [k |-> "err"] ELSE [k |-> "ok", v |-> r.v]
    [] r.k = "end" -> IF strict THEN [k |-> "err"] ELSE [k |-> "ok", v |-> Null]
    [] r.k = "oom" -> [k |-> "oom"]
    [] OTHER -> [k |-> "err"]
SlurpVal(fs, f) == IF ~Has(fs, f) THEN [k |-> "err"]
                   ELSE LET a == AllDocs(fs[f], 1, <<>>) IN
                        CASE a.fin = "end" -> [k |-> "ok", v |-> Arr(a.vs)] [] a.fin = "oom" -> [k |-> "oom"] [] OTHER -> [k |-> "err"]
RawVal(fs, f) == IF ~Has(fs, f) THEN [k |-> "err"] ELSE StrVal(fs[f])

BindVal(b, rec, strict) ==
  IF b.val.k # "word" \/ b.name.k # "word" THEN [k |-> "oom"]
  ELSE CASE b.flag = "arg" -> StrVal(rec.words[b.val.w])
         [] b.flag = "argjson" -> JsonVal(rec.words[b.val.w], strict)
         [] b.flag = "slurpfile" -> SlurpVal(rec.fs, b.val.w)
         [] b.flag = "rawfile" -> RawVal(rec.fs, b.val.w)
PosVal1(p, rec, strict) ==
  IF p = Nil THEN [k |-> "ok", v |-> Null]
  ELSE IF p.tok.k # "word" THEN [k |-> "oom"]
  ELSE IF p.mode = "args" THEN StrVal(rec.words[p.tok.w]) ELSE JsonVal(rec.words[p.tok.w], strict)

\* the first binding that fails decides ("err" -> exit 5); "oom" anywhere -> undecided
RECURSIVE FirstBad(_, _)
FirstBad(vals, i) == IF i > Len(vals) THEN "ok" ELSE IF vals[i].k # "ok" THEN vals[i].k ELSE FirstBad(vals, i + 1)

RECURSIVE MkObj(_, _, _, _)
MkObj(names, vals, i, acc) == IF i > Len(names) THEN acc ELSE MkObj(names, vals, i + 1, ObjPut(acc, names[i], vals[i].v))

FileName(tok, rec) == IF rec.words[tok.w] = <<45>> THEN "-" ELSE tok.w

CliRun(rec, strict) ==
  LET ps == ParseFlags(ParseInit, rec.argv) IN
  IF ps.err # "none" THEN Exp(2, <<>>, 1)                                 \* flagParseError
  ELSE
  LET named == Named(ps)
      nvals == [i \in 1..Len(named) |-> BindVal(named[i], rec, strict)]
      pos == Positional(ps)
      pvals == [i \in 1..Len(pos) |-> PosVal1(pos[i], rec, strict)]
      bad == FirstBad(nvals \o pvals, 1)
  IN
  IF bad = "oom" THEN Undecided("binding")
  ELSE IF bad = "err" THEN Exp(5, <<>>, 1)
  ELSE IF \E i \in 1..Len(ps.rest) : ps.rest[i].k # "word" THEN Undecided("rest")
  ELSE
  LET fromfile == "from-file" \in ps.bools
      nnames == [i \in 1..Len(named) |-> Utf8Decode(rec.words[named[i].name.w])]
  IN
  IF \E i \in 1..Len(nnames) : ~nnames[i].ok THEN Undecided("name")
  ELSE IF fromfile /\ (Len(ps.rest) = 0 \/ ~Has(rec.fs, ps.rest[1].w)) THEN Exp(5, <<>>, 1)    \* no query file / cannot read it
  ELSE
  LET qw == IF Len(ps.rest) = 0 THEN "" ELSE ps.rest[1].w
      known == IF Len(ps.rest) = 0 THEN TRUE ELSE Has(rec.progs, qw)
  IN
  IF ~known THEN Undecided("query")
  ELSE
  LET prog == IF Len(ps.rest) = 0 THEN [op |-> "dot"] ELSE rec.progs[qw]
      text == IF Len(ps.rest) = 0 THEN <<46>> ELSE IF fromfile THEN rec.fs[qw] ELSE rec.words[qw]
      argsV == Obj(<< <<CpOf(<<"n","a","m","e","d">>), Obj(MkObj([i \in 1..Len(nnames) |-> nnames[i].s], nvals, 1, <<>>))>>,
                     <<CpOf(<<"p","o","s","i","t","i","o","n","a","l">>), Arr([i \in 1..Len(pvals) |-> pvals[i].v])>> >>)
      vars == [n \in {named[i].name.w : i \in 1..Len(named)} \cup {"ARGS"} |->
                 IF n = "ARGS" THEN argsV ELSE nvals[CHOOSE i \in 1..Len(named) : named[i].name.w = n].v]
      files == [i \in 1..(Len(ps.rest) - 1) |-> FileName(ps.rest[i + 1], rec)]
      m == [null |-> "null-input" \in ps.bools, slurp |-> "slurp" \in ps.bools, raw |-> "raw-input" \in ps.bools, stream |-> "stream" \in ps.bools]
  IN
  IF Render(prog, rec.words) # text THEN Undecided("render")                \* the generator and the model disagree on the query text
  ELSE IF ~(VarsOf(prog) \subseteq DOMAIN vars) THEN Exp(3, <<>>, 1)         \* compile error: variable not defined
  ELSE LET rs == Process(RunInit(m, files, rec.fs, rec.stdin), prog, vars) IN
       IF rs.oom THEN Undecided("value") ELSE Exp(IF rs.nerr > 0 THEN 5 ELSE 0, rs.out, rs.nerr)

Matches(e, rec) == e.k = "exp" /\ ~rec.outbad /\ ~rec.crash /\ e.exit = rec.exit /\ e.nerr = rec.nerr /\ e.out = rec.out

Verdict(rec) ==
  LET e == CliRun(rec, TRUE) IN
  IF e.k = "oom" THEN [id |-> rec.id, v |-> "oom", why |-> e.why]
  ELSE IF Matches(e, rec) THEN [id |-> rec.id, v |-> "agree", n |-> Len(e.out), nerr |-> e.nerr, exit |-> e.exit]
  ELSE LET l == CliRun(rec, FALSE) IN
       IF l # e /\ Matches(l, rec) THEN [id |-> rec.id, v |-> "lenient", exp |-> e]     \* differs from the requirement exactly as the lenient reading does
       ELSE [id |-> rec.id, v |-> "mismatch", exp |-> e]

VARIABLE done
Init == done = ndJsonSerialize(IOEnv.VERIF_OUT, [i \in 1..Len(Trace) |-> Verdict(Trace[i])])
Next == UNCHANGED done
=============================================================================
