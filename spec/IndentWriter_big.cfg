CONSTANTS
  Block = 3
  Threshold = 20
  MaxNest = 12
  MaxIndent = 6
SPECIFICATION Spec
INVARIANT TypeOK
INVARIANT SliceOK
INVARIANT Refines
INVARIANT FlushAtBoundary
INVARIANT FewCopies
PROPERTY Terminates
CHECK_DEADLOCK FALSE
