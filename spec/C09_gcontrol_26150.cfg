SPECIFICATION Spec
CONSTANTS
  Profile = "control"
  MaxLen = 4
INVARIANTS AllInvariants
CHECK_DEADLOCK FALSE
