---------------------------- MODULE ModulesTrees ----------------------------
(***************************************************************************)
(* The bounded universes of C18 that TLC enumerates:                        *)
(*                                                                         *)
(*  Trees    module trees of depth <= 2 over the files m1, m2 (imported by    *)
(*           the main query), m3 (imported by m1 and m2: diamonds), the data  *)
(*           files d1, d2 and an auto-included ~/.jq.  The name x is defined   *)
(*           by EVERY file (clashes between importer, module and transitive   *)
(*           module), x also with arity 1, y by m1 and m3, and the aliases a,  *)
(*           b and $d are used at every level.  A tree fixes the sequence of   *)
(*           import directives of main (<= MaxMain), m1 (<= MaxSub1) and m2    *)
(*           (<= MaxSub2).                                                  *)
(*  Layouts  file-system layouts for resolving ONE import: 3 search          *)
(*           directories + an optional `search` directory, each of the two     *)
(*           candidates per directory absent / a file / a directory.          *)
(***************************************************************************)
EXTENDS Modules

CONSTANTS MaxMain, MaxSub1, MaxSub2

SeqsUpTo(dom, n) == UNION {[1..k -> dom] : k \in 0..n}

Incl(m) == [k |-> "include", name |-> <<m>>, alias |-> ""]
Imp(m, a) == [k |-> "import", name |-> <<m>>, alias |-> a]
Data(d, a) == [k |-> "data", name |-> <<d>>, alias |-> a]

DirsOver(ms) == {Incl(m) : m \in ms} \cup {Imp(m, a) : m \in ms, a \in {"a", "b"}}
                \cup {Data(d, "d") : d \in {"d1", "d2"}}
MainDirs == DirsOver({"m1", "m2"})
SubDirs == DirsOver({"m3"})

Trees == [main : SeqsUpTo(MainDirs, MaxMain), m1 : SeqsUpTo(SubDirs, MaxSub1), m2 : SeqsUpTo(SubDirs, MaxSub2)]

D(name, cp, ar, tag) == [name |-> name, cp |-> cp, ar |-> ar, tag |-> tag, refs |-> <<>>]
Jq(p, imports, defs) == [p |-> p, k |-> "jq", mod |-> [imports |-> imports, defs |-> defs]]
Json(p, vals) == [p |-> p, k |-> "json", vals |-> vals]

F(n, ar) == [n |-> n, ar |-> ar, var |-> FALSE]
V(n) == [n |-> n, ar |-> 0, var |-> TRUE]
TreeUniv == << F("x", 0), F("x", 1), F("y", 0), F("z", 0), F("h", 0), F("w", 0),
               F("a::x", 0), F("a::x", 1), F("a::y", 0), F("a::z", 0),
               F("b::x", 0), F("b::x", 1), F("b::y", 0), F("b::z", 0),
               V("$d"), V("$d::d") >>

TreeCase(t) ==
  [root |-> "/R", cwd |-> <<"cwd">>, home |-> <<"home">>, exe |-> <<"bin">>, defaults |-> FALSE,
   lib |-> << [b |-> "abs", s |-> <<"lib">>], [b |-> "home", s |-> <<".jq">>] >>,
   fs |-> << Jq(<<"home", ".jq">>, <<>>, << D("h", <<104>>, 0, "H.h"), D("x", <<120>>, 0, "H.x") >>),
             Jq(<<"lib", "m1.jq">>, t.m1, << D("x", <<120>>, 0, "m1.x"), D("x", <<120>>, 1, "m1.x1"), D("y", <<121>>, 0, "m1.y") >>),
             Jq(<<"lib", "m2.jq">>, t.m2, << D("x", <<120>>, 0, "m2.x"), D("z", <<122>>, 0, "m2.z") >>),
             Jq(<<"lib", "m3.jq">>, <<>>, << D("x", <<120>>, 0, "m3.x"), D("y", <<121>>, 0, "m3.y") >>),
             Json(<<"lib", "d1.json">>, <<"d1.0", "d1.1">>),
             Json(<<"lib", "d2.json">>, <<"d2.0">>) >>,
   main |-> [imports |-> t.main, defs |-> << D("w", <<119>>, 0, "main.w"), D("x", <<120>>, 0, "main.x") >>, refs |-> <<>>],
   univ |-> TreeUniv]

-----------------------------------------------------------------------------
\* layouts: name "m" (candidates D/m.jq, D/m/m.jq) or "a/b" (D/a/b.jq, D/a/b/b.jq)
Names == {<<"m">>, <<"a", "b">>}
SearchDirs == <<"s1", "s2", "s3">>
Kinds == {"absent", "file", "dir"}
\* lay.k[d][j]: kind of candidate j in directory d (1..3 = the list, 4 = the `search` directory)
Layouts == [name : Names, search : BOOLEAN, k : [1..4 -> [1..2 -> Kinds]]]
LayoutOK(lay) == lay.search \/ \A j \in 1..2 : lay.k[4][j] = "absent"

DirName(d) == IF d = 4 THEN "sx" ELSE SearchDirs[d]
CandSegs(lay, d, j) == LET n == lay.name IN
  IF j = 1 THEN <<DirName(d)>> \o FrontOf(n) \o <<LastOf(n) \o ".jq">>
  ELSE <<DirName(d)>> \o n \o <<LastOf(n) \o ".jq">>

LayoutFs(lay) ==
  LET all == {<<d, j>> \in (1..4) \X (1..2) : lay.k[d][j] # "absent"}
      entry(x) == IF lay.k[x[1]][x[2]] = "dir" THEN [p |-> CandSegs(lay, x[1], x[2]), k |-> "dir"]
                  ELSE Jq(CandSegs(lay, x[1], x[2]), <<>>,
                          << D("which", <<119, 104, 105, 99, 104>>, 0, JoinStr(CandSegs(lay, x[1], x[2]), "/")) >>)
      RECURSIVE ToSeq(_)
      ToSeq(xs) == IF xs = {} THEN <<>> ELSE LET x == CHOOSE y \in xs : \A z \in xs : y[1] < z[1] \/ (y[1] = z[1] /\ y[2] <= z[2])
                                           IN <<entry(x)>> \o ToSeq(xs \ {x})
  IN ToSeq(all)

LayoutImport(lay) ==
  IF lay.search THEN [k |-> "import", name |-> lay.name, alias |-> "m", search |-> [b |-> "abs", s |-> <<"sx">>]]
  ELSE [k |-> "import", name |-> lay.name, alias |-> "m"]

LayoutCase(lay) ==
  [root |-> "/R", cwd |-> <<"cwd">>, home |-> <<"home">>, exe |-> <<"bin">>, defaults |-> FALSE,
   lib |-> [i \in 1..3 |-> [b |-> "abs", s |-> <<SearchDirs[i]>>]],
   fs |-> LayoutFs(lay),
   main |-> [imports |-> <<LayoutImport(lay)>>, defs |-> <<>>,
             refs |-> << [n |-> "m::which", ar |-> 0, var |-> FALSE, head |-> FALSE] >>]]
=============================================================================
