\* thorough 1: family B with <= 3 documents x <= 2 events (full alphabet), family A with <= 2 documents x <= 1 event
CONSTANTS
  MaxDocs = 3
  MaxEv = 2
  MaxDocsA = 2
  MaxEvA = 1
  Rich = TRUE
  Side = FALSE
INIT MCInit
NEXT Next
INVARIANTS TypeOK StdoutIsRenderedOutputs StderrIsDiagnostics EndState StatusBookkeeping HaltStops AllInputsProcessed StatusTable
PROPERTIES NothingAfterHalt StdoutOnlyGrows ExitSetOnce
CHECK_DEADLOCK TRUE
