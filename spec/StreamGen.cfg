CONSTANTS
  MaxNodes = 3
  MaxDocs = 3
INIT Init
NEXT Next
CHECK_DEADLOCK FALSE
