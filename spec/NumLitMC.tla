------------------------------ MODULE NumLitMC ------------------------------
(***************************************************************************)
(* C10, design-level model checking of NumLit.tla: the scanner reads one    *)
(* code point per step; TLC visits EVERY text over the alphabet up to MaxLen *)
(* and checks in every state that                                           *)
(*  - the JSON number automaton (run incrementally) accepts exactly the     *)
(*    texts of the declarative grammar;                                     *)
(*  - lexer.go's scanNumber/validNumber accept exactly the declarative      *)
(*    grammar of `tonumber`, which contains every JSON number;              *)
(*  - the printing laws keep emitted numbers inside the JSON grammar:       *)
(*    textual negation/abs of a json.Number, the canonical integer text,    *)
(*    the saturated infinities.                                             *)
(***************************************************************************)
EXTENDS NumLit, TLC

CONSTANTS MaxLen

\*            -     +     .    0   1   9    e     E    a
Alphabet == {Minus, PlusC, Dot, 48, 49, 57, LowE, UpE, 97}

VARIABLES text,   \* the code points read so far
          jst     \* state of the JSON number automaton after reading them
vars == <<text, jst>>

Init == text = <<>> /\ jst = "start"
Read(c) == /\ Len(text) < MaxLen
           /\ text' = Append(text, c)
           /\ jst' = JStep(jst, c)
Next == \E c \in Alphabet : Read(c)
Spec == Init /\ [][Next]_vars

\* the incremental automaton is the batch one, and it is the declarative grammar
JsonGrammar == /\ jst = JFinal(text)
               /\ (jst \in JAccepting) <=> JsonNumberDecl(text)

\* lexer.go validNumber = the grammar of tonumber; every JSON number can be re-read by tonumber
LexerGrammar == /\ ValidNumber(text) <=> ToNumberDecl(text)
                /\ QueryNumber(text) <=> QueryNumberDecl(text)
                /\ SignedIntegerShape(text) => ValidNumber(text) /\ IsJsonNumber(CanonSigned(text))
                /\ IsJsonNumber(text) => ValidNumber(text)

\* what the encoders emit for a number stays a JSON number
PrintLaws ==
  IsJsonNumber(text) =>
    /\ IsJsonNumber(NegText(text)) /\ NegText(NegText(text)) = text
    /\ IsJsonNumber(AbsText(text)) /\ AbsText(AbsText(text)) = AbsText(text)
    /\ LET p == Parse(text) q == Parse(NegText(text)) IN
       q.neg = ~p.neg /\ [q EXCEPT !.neg = p.neg] = p              \* same digits, opposite sign
    /\ IntegerShape(text) => /\ IsJsonNumber(CanonInt(text))
                             /\ StripLead(Parse(CanonInt(text)).ip) = StripLead(Parse(text).ip)

ASSUME Constants ==
             /\ IsJsonNumber(MaxFloatText) /\ ShapeE(MaxFloatText)
             /\ IsJsonNumber(<<Minus>> \o MaxFloatText)
             /\ ~IsJsonNumber(NullText)
             /\ Pow2_52 = ZPow2(52).d
=============================================================================
