----------------------------- MODULE ErrPosLemma -----------------------------
(***************************************************************************)
(* C17: ReportAt (the report computed from a neighbourhood of the offending  *)
(* byte of a run-length encoded text, as used on inputs of realistic size)   *)
(* equals getLineByOffset on the expanded contents - for every text of       *)
(* TextsRLE, every window [a, b) and every offset (also <= 0 and > length),  *)
(* with scaled PRE / CUT / NBH.  One initial state per text.                 *)
(***************************************************************************)
EXTENDS ErrPos, TLC, SequencesExt, IOUtils
CONSTANTS MAXREP
Sym == { <<97>>, <<10>>, <<13>>, <<195, 169>>, <<227, 129, 130>> }       \* a LF CR e-acute hiragana-a
Units == Sym \cup { x \o y : x \in Sym, y \in Sym }
\* the texts are sharded over JVMs by the first unit: VERIF_SHARD = k, VERIF_NSHARD = n
UnitSeq == SetToSeq(Units)
Shard == atoi(IOEnv.VERIF_SHARD)
NShard == atoi(IOEnv.VERIF_NSHARD)
MyUnits == { UnitSeq[i] : i \in { j \in 1..Len(UnitSeq) : j % NShard = Shard } }
TextsRLE == { << [u |-> u1, n |-> n1], [u |-> u2, n |-> n2] >> : u1 \in MyUnits, u2 \in Units, n1 \in 1..MAXREP, n2 \in 1..MAXREP }
VARIABLE t
Init == t \in TextsRLE
Next == UNCHANGED t
LemmaInv == \A a \in 0..TLen(t) : \A b \in a..TLen(t) : \A off \in (-1)..(b - a + 2) : ReportAtLemma(t, a, b, off)
\* the counting operators against their definitions on the expanded text
Exp == Slice(t, 0, TLen(t))
CountInv == \A p \in 0..TLen(t) :
  /\ PLF(t, p) = Cardinality({ i \in 1..p : Exp[i] = LF })
  /\ PT(t, p) = Cardinality({ i \in 1..p : Exp[i] = LF \/ (Exp[i] = CR /\ (i = Len(Exp) \/ Exp[i + 1] # LF)) })
  /\ ByteAt(t, p) = (IF p < Len(Exp) THEN Exp[p + 1] ELSE -1)
  /\ LET starts == { i \in 1..Len(Exp) : ~IsCont(Exp[i]) } IN
     ByteOfRune(t, p) = (IF p < Cardinality(starts) THEN (CHOOSE i \in starts : Cardinality({ j \in starts : j < i }) = p) - 1 ELSE Len(Exp))
=============================================================================
