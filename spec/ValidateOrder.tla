--------------------------- MODULE ValidateOrder ---------------------------
(* Trace spec: the matrices of gojq.Compare over all ordered pairs of the universe, one matrix per pair of Go
   number representations, must equal Cmp of the specification pointwise.  With the laws OrderMC.tla checks on
   the specification for all triples, pointwise conformance on pairs gives the total preorder on the real code. *)
EXTENDS Builtins, TLC, Json, IOUtils
U == ndJsonDeserialize(IOEnv.VERIF_UNIVERSE)
M == ndJsonDeserialize(IOEnv.VERIF_TRACE)
N == Len(U)
C == [i \in 1..N |-> [j \in 1..N |-> Cmp(U[i], U[j])]]          \* the specified order, computed once
BadPairs(m) == {p \in (1..N) \X (1..N) : m.rows[p[1]][p[2]] # C[p[1]][p[2]]}
Bad(m) == IF "panic" \in DOMAIN m THEN << <<0, 0, 0, 0>> >>
          ELSE LET bp == BadPairs(m) IN
               IF bp = {} THEN <<>>
               ELSE LET p == CHOOSE q \in bp : TRUE IN << <<p[1], p[2], m.rows[p[1]][p[2]], C[p[1]][p[2]]>> >>
VARIABLE done
Init == done = ndJsonSerialize(IOEnv.VERIF_OUT, [k \in 1..Len(M) |-> [reps |-> M[k].reps, bad |-> Bad(M[k])]])
Next == UNCHANGED done
=============================================================================
