--------------------------- MODULE ValidateOrder ---------------------------
(* Trace spec: the matrices of gojq.Compare over all ordered pairs of the universe, one matrix per pair of Go
   number representations, must equal Cmp of the specification pointwise.  With the laws OrderMC.tla checks on
   the specification for all triples, pointwise conformance on pairs gives the total preorder on the real code. *)
EXTENDS Builtins, TLC, Json, IOUtils
U == ndJsonDeserialize(IOEnv.VERIF_UNIVERSE)
M == ndJsonDeserialize(IOEnv.VERIF_TRACE)
Bad(m) == IF "panic" \in DOMAIN m THEN << <<0, 0, 0, 0>> >>
          ELSE LET RECURSIVE F(_, _, _)
                   F(i, j, acc) == IF i > Len(U) \/ Len(acc) >= 5 THEN acc
                                   ELSE IF j > Len(U) THEN F(i + 1, 1, acc)
                                   ELSE LET c == Cmp(U[i], U[j]) IN
                                        F(i, j + 1, IF m.rows[i][j] = c THEN acc ELSE Append(acc, <<i, j, m.rows[i][j], c>>))
               IN F(1, 1, <<>>)
VARIABLE done
Init == done = ndJsonSerialize(IOEnv.VERIF_OUT, [k \in 1..Len(M) |-> [reps |-> M[k].reps, bad |-> Bad(M[k])]])
Next == UNCHANGED done
=============================================================================
