----------------------------- MODULE ErrPosTrace -----------------------------
(***************************************************************************)
(* C17 trace specification.  Every record is one execution of the real      *)
(* gojq binary (or of gojq.Parse) on an input with one fault:               *)
(*   text   run-length encoded bytes of the faulty input                    *)
(*   kind   "json" | "yaml" | "query" | "lib"                               *)
(*   tr     "file" (seekable: file argument or redirected stdin) | "pipe"    *)
(*          | "whole" (query text, module file, YAML: the whole text is kept)*)
(*   cb     pipe: the write boundaries (a Read never crosses one)           *)
(*   err    the fault by construction: [k |-> "syntax", p] | [k |-> "eof"]   *)
(*   env    what the decoder of the environment reported for the same bytes: *)
(*          json: vals (value ends) and err; yaml: err (index); query: the   *)
(*          ParseError (off, tok)                                           *)
(*   obs    the report parsed from stderr: fmt "multi" | "single" | "none",  *)
(*          name, line, ex (quoted bytes), col (index of the caret)          *)
(* Verdict per record (v):                                                  *)
(*   agree            obs = TrueReport (the ideal report) and Correct        *)
(*   agree_window     obs = the report of the window the code keeps, Correct *)
(*   known_d13 / known_tok / known_yaml / known_stream   obs is what the implementation-level *)
(*                    model predicts, the property fails, and the scenario   *)
(*                    lies in the structural class of that finding           *)
(*   correct_not_impl Correct, differs from the implementation model inside  *)
(*                    a class where that model deviates from the ideal       *)
(*   mismatch         anything else: contradiction between code and spec     *)
(*   env_disagree / oom   not decided (generator or alphabet assumption)     *)
(***************************************************************************)
EXTENDS ErrPos, TLC, Json, IOUtils

Trace == ndJsonDeserialize(IOEnv.VERIF_TRACE)

Has(r, f) == f \in DOMAIN r
ObsLine(o) == IF o.fmt = "multi" THEN o.line ELSE 1
\* does the observation print report r (jsonParseError: the single-line form iff line <= 1)?
SameJson(o, r) == o.ex = r.ex /\ o.col = r.col /\ (IF r.line > 1 THEN o.fmt = "multi" /\ o.line = r.line ELSE o.fmt = "single")
\* queryParseError / yamlParseError: the form is decided by the name and the text, the line is printed in the multi form
SameWhole(o, r, multi) == o.ex = r.ex /\ o.col = r.col /\ (IF multi THEN o.fmt = "multi" /\ o.line = r.line ELSE o.fmt = "single")
Pub(r) == [line |-> r.line, ex |-> r.ex, col |-> r.col]
ObsRec(o) == [line |-> ObsLine(o), ex |-> o.ex, col |-> o.col]

SameErr(a, b) == a.k = b.k /\ (a.k = "syntax" => a.p = b.p)

JsonVerdict(rec) ==
  LET t == rec.text
      N == TLen(t)
      err == rec.err
      o == rec.obs
  IN IF ~SameErr(rec.env.err, err) THEN [v |-> "env_disagree"]
     ELSE IF o.fmt = "none" THEN [v |-> "mismatch", why |-> "no report"]
     ELSE IF Width(o.ex) < 0 THEN [v |-> "oom"]
     ELSE
       LET view == IF rec.tr = "pipe" THEN ViewPipe(t, rec.env.vals, err, rec.cb)
                   ELSE IF rec.tr = "whole" THEN [a |-> 0, b |-> N, off |-> IF err.k = "syntax" THEN err.p + 1 ELSE N + 1, lbase |-> 0]
                   ELSE ViewFile(t, err)
           impl == ReportOfView(t, view)
           tru == TrueReport(t, err)
           corr == Correct(t, err, ObsRec(o))
           d13 == LoneCRSkipped(t, view)
           info == [view |-> view, impl |-> Pub(impl), true |-> Pub(tru), correct |-> corr]
       IN IF Width(impl.ex) < 0 \/ Width(tru.ex) < 0 THEN [v |-> "oom"]
          ELSE IF SameJson(o, tru) /\ o.name = rec.name THEN
            (IF corr THEN [v |-> "agree", line |-> tru.line, col |-> tru.col, exlen |-> Len(tru.ex)] ELSE [v |-> "spec_error", info |-> info])
          ELSE IF corr /\ o.name = rec.name THEN
            (IF SameJson(o, impl) THEN [v |-> "agree_window", line |-> impl.line, col |-> impl.col, exlen |-> Len(impl.ex)]
             ELSE IF d13 \/ (rec.tr = "pipe" /\ view.a > 0) THEN [v |-> "correct_not_impl", info |-> info]
             ELSE [v |-> "mismatch", why |-> "report differs from the specification (excerpt rule)", info |-> info])
          ELSE IF o.name = rec.name /\ D13Signature(t, err, ObsRec(o)) THEN [v |-> "known_d13", info |-> info]
          ELSE [v |-> "mismatch", why |-> IF SameJson(o, impl) THEN "the code's window report violates the property outside the known classes"
                                          ELSE "report differs from the specification", info |-> info]

\* YAML: the index comes from go-yaml (environment) and counts CHARACTERS; yamlParseError.Error uses it as
\* a byte offset (D16).  impl = the report for "byte offset = index"; ideal = for the byte of that character.
YamlVerdict(rec) ==
  LET t == rec.text
      N == TLen(t)
      o == rec.obs
  IN IF rec.env.err.k # "syntax" THEN [v |-> "env_disagree"]
     ELSE IF o.fmt = "none" THEN [v |-> "mismatch", why |-> "no report"]
     \* the index is go-yaml's for ITS error: when the command reports another error (go-yaml decides differently between one read and several
     \* for a byte order mark inside a stream) the logged index says nothing about it
     ELSE IF Has(rec.env, "msg") /\ Has(o, "msg") /\ o.msg # rec.env.msg THEN [v |-> "env_disagree"]
     ELSE LET p == rec.env.err.p
              \* go-yaml does not count a byte order mark at the very start of the stream (every later U+FEFF is a character like any other)
              bom == N >= 3 /\ ByteAt(t, 0) = 239 /\ ByteAt(t, 1) = 187 /\ ByteAt(t, 2) = 191
              pb == ByteOfRune(t, IF bom THEN p + 1 ELSE p)
              impl == ReportAt(t, 0, N, p + 1)
              ideal == ReportAt(t, 0, N, pb + 1)
              byc == Has(rec, "err") /\ rec.err.k = "syntax"       \* offending byte known by construction
              e == IF pb >= N THEN [k |-> "eof"] ELSE [k |-> "syntax", p |-> pb]
              corr == Correct(t, e, ObsRec(o))
          IN IF Width(o.ex) < 0 \/ Width(impl.ex) < 0 \/ Width(ideal.ex) < 0 THEN [v |-> "oom"]
             ELSE IF byc /\ rec.err.p # pb THEN [v |-> "env_disagree"]
             ELSE IF SameWhole(o, ideal, TRUE) /\ o.name = rec.name /\ corr
                  THEN [v |-> "agree", line |-> ideal.line, col |-> ideal.col, exlen |-> Len(ideal.ex)]
             ELSE IF SameWhole(o, impl, TRUE) /\ o.name = rec.name /\ pb # p
                  THEN [v |-> "known_yaml", info |-> [index |-> p, byte |-> pb, impl |-> Pub(impl), true |-> Pub(ideal), correct |-> corr]]
             ELSE [v |-> "mismatch", why |-> "yaml report", info |-> [index |-> p, byte |-> pb, impl |-> Pub(impl), true |-> Pub(ideal)]]

\* --stream: the positions come from the token API of encoding/json (environment, logged), whose
\* SyntaxError.Offset does not follow the scanner's convention (D15); seekable inputs below BUFSZ*3/4 only
StreamVerdict(rec) ==
  LET t == rec.text
      N == TLen(t)
      err == rec.err
      o == rec.obs
      ee == rec.env.err
  IN IF ee.k \notin {"syntax", "eof"} \/ ee.k # err.k THEN [v |-> "env_disagree"]
     ELSE IF o.fmt = "none" THEN [v |-> "mismatch", why |-> "no report"]
     ELSE LET tru == TrueReport(t, err)
              impl == ReportOfView(t, ViewFile(t, ee))
              corr == Correct(t, err, ObsRec(o))
              info == [impl |-> Pub(impl), true |-> Pub(tru), correct |-> corr, envp |-> IF ee.k = "syntax" THEN ee.p ELSE -1]
          IN IF Width(o.ex) < 0 \/ Width(impl.ex) < 0 \/ Width(tru.ex) < 0 THEN [v |-> "oom"]
             ELSE IF SameJson(o, tru) /\ o.name = rec.name /\ corr THEN [v |-> "agree", line |-> tru.line, col |-> tru.col, exlen |-> Len(tru.ex)]
             ELSE IF SameJson(o, impl) /\ o.name = rec.name /\ ~SameErr(ee, err) THEN [v |-> "known_stream", info |-> info]
             ELSE [v |-> "mismatch", why |-> "--stream report", info |-> info]

\* queries: library part (Offset/Token identify the offending bytes) and command part
QueryVerdict(rec) ==
  LET t == rec.text
      N == TLen(t)
      o == rec.obs
      pe == rec.env.err
  IN IF pe.k # "parse" THEN [v |-> "env_disagree"]
     ELSE
       LET p == pe.off - Len(pe.tok)                      \* first byte of the token the library names
           tokOk == p >= 0 /\ Slice(t, p, pe.off) = pe.tok
           err == rec.err
           libOk == tokOk /\ (IF err.k = "eof" THEN Len(pe.tok) = 0 /\ pe.off = N ELSE p = err.p /\ Len(pe.tok) > 0)
           stringStart == Has(rec, "cls") /\ rec.cls = "stringstart"
       IN IF rec.kind = "lib" THEN
            (IF libOk THEN [v |-> "agree", line |-> 0, col |-> p, exlen |-> Len(pe.tok)]
             ELSE IF stringStart THEN [v |-> "known_tok", info |-> [off |-> pe.off, tok |-> pe.tok]]
             ELSE [v |-> "mismatch", why |-> "ParseError Offset/Token do not identify the offending token", info |-> [off |-> pe.off, tok |-> pe.tok]])
          ELSE IF o.fmt = "none" THEN [v |-> "mismatch", why |-> "no report"]
          ELSE
            LET r == ReportAt(t, 0, N, p + 1)              \* queryParseError.Error: offset = Offset - len(Token) + 1
                multi == rec.name # "<arg>" \/ TermsIn(t, 0, N) > 0 \/ ByteAt(t, N - 1) \in {CR, LF}
                corr == Correct(t, err, ObsRec(o))
                nameOk == IF multi THEN o.name = rec.name ELSE TRUE
            IN IF Width(o.ex) < 0 \/ Width(r.ex) < 0 THEN [v |-> "oom"]
               ELSE IF SameWhole(o, r, multi) /\ nameOk THEN
                 (IF corr /\ libOk THEN [v |-> "agree", line |-> r.line, col |-> r.col, exlen |-> Len(r.ex)]
                  ELSE IF stringStart /\ ~libOk THEN [v |-> "known_tok", info |-> [off |-> pe.off, tok |-> pe.tok, correct |-> corr]]
                  ELSE [v |-> "mismatch", why |-> "query report follows the library offsets but misses the offending byte", info |-> [off |-> pe.off, tok |-> pe.tok, impl |-> Pub(r)]])
               ELSE [v |-> "mismatch", why |-> "query report", info |-> [off |-> pe.off, tok |-> pe.tok, impl |-> Pub(r)]]

RecVerdict(rec) ==
  LET v == CASE rec.kind = "json" -> JsonVerdict(rec)
             [] rec.kind = "jsonstream" -> StreamVerdict(rec)
             [] rec.kind = "yaml" -> YamlVerdict(rec)
             [] rec.kind \in {"query", "lib"} -> QueryVerdict(rec)
  IN [id |-> rec.id] @@ v

VARIABLE done
Init == done = ndJsonSerialize(IOEnv.VERIF_OUT, [i \in 1..Len(Trace) |-> RecVerdict(Trace[i])])
Next == UNCHANGED done
=============================================================================
