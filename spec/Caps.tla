-------------------------------- MODULE Caps --------------------------------
(***************************************************************************)
(* C19: compile options as capabilities.  The state of a compilation is the *)
(* set of options given; what a query can observe is a function of (query,   *)
(* input, options) only.  GateTable says, per probing construct and option   *)
(* set, the class of outcome (value / compile error / runtime error); the    *)
(* functions below define what each option grants:                           *)
(*   EnvObject(pairs)   WithEnvironLoader: each "k=v" pair is split at the   *)
(*                      FIRST "=", pairs without "=" or with an empty key are *)
(*                      dropped, a later pair for the same key wins           *)
(*   VarsOutcome(n, k)  WithVariables names n, k values given to Run          *)
(*   Serving(regs, ar)  overlapping WithFunction registrations of one name:   *)
(*                      the LATEST registration whose arity range covers ar    *)
(* The input iterator (input draws one value per call, in order) is part of   *)
(* JqSem.Eval (its `inputs` argument and store component).                     *)
(***************************************************************************)
EXTENDS JsonValue, TLC, Json, IOUtils

Options == {"ModuleLoader", "EnvironLoader", "Variables", "Function", "InputIter"}
Probes == {"env", "$ENV", "input", "inputs", "import", "include", "modulemeta", "$var", "custom", "now"}
\* outcome class of a probe under an option set
Gate(probe, opts) ==
  CASE probe \in {"env", "$ENV"} -> "value"                                  \* {} without the loader
    [] probe \in {"input", "inputs"} -> IF "InputIter" \in opts THEN "value" ELSE "compile-error"
    [] probe \in {"import", "include"} -> IF "ModuleLoader" \in opts THEN "value" ELSE "compile-error"
    [] probe = "modulemeta" -> IF "ModuleLoader" \in opts THEN "value" ELSE "runtime-error"
    [] probe = "$var" -> IF "Variables" \in opts THEN "value" ELSE "compile-error"
    [] probe = "custom" -> IF "Function" \in opts THEN "value" ELSE "compile-error"
    [] OTHER -> "value"
\* no option grants more than its own capability: removing an option never turns another probe's outcome
Monotone == \A p \in Probes, o1 \in SUBSET Options, o2 \in SUBSET Options :
              (o1 \subseteq o2 /\ Gate(p, o1) = "value") => Gate(p, o2) = "value"
OnlyOwn == \A p \in Probes, o \in SUBSET Options, x \in Options :
              Gate(p, o) # Gate(p, o \ {x}) =>
                x = (CASE p \in {"input", "inputs"} -> "InputIter" [] p \in {"import", "include", "modulemeta"} -> "ModuleLoader"
                       [] p = "$var" -> "Variables" [] p = "custom" -> "Function" [] OTHER -> "none")

RECURSIVE FindEq(_, _)
FindEq(s, i) == IF i > Len(s) THEN 0 ELSE IF s[i] = 61 THEN i ELSE FindEq(s, i + 1)
RECURSIVE EnvFold(_, _, _)
EnvFold(pairs, i, o) ==
  IF i > Len(pairs) THEN o
  ELSE LET s == pairs[i]  e == FindEq(s, 1) IN
       IF e <= 1 THEN EnvFold(pairs, i + 1, o)
       ELSE EnvFold(pairs, i + 1, ObjPut(o, SubSeq(s, 1, e - 1), Str(SubSeq(s, e + 1, Len(s)))))
EnvObject(pairs) == Obj(EnvFold(pairs, 1, <<>>))

VarsOutcome(n, k) == IF k = n THEN "bound-in-order" ELSE IF k < n THEN "error-too-few" ELSE "error-too-many"
\* regs: sequence of [min, max, tag]; the registration serving arity ar ("none" if no range covers it)
RECURSIVE ServingI(_, _, _)
ServingI(regs, ar, i) == IF i = 0 THEN "none" ELSE IF regs[i].min <= ar /\ ar <= regs[i].max THEN regs[i].tag ELSE ServingI(regs, ar, i - 1)
Serving(regs, ar) == ServingI(regs, ar, Len(regs))

\* trace validation of the option records
Trace == ndJsonDeserialize(IOEnv.VERIF_TRACE)
Verdict(r) ==
  [id |-> r.id] @@
  (CASE r.k = "env" -> [ok |-> r.got = EnvObject(r.pairs) /\ r.got2 = EnvObject(r.pairs)]
     [] r.k = "vars" -> [ok |-> r.outcome = VarsOutcome(r.n, r.given)]
     [] r.k = "serving" -> [ok |-> \A a \in 0..r.maxar : r.served[a + 1] = Serving(r.regs, a)]
     [] r.k = "gate" -> [ok |-> r.outcome = Gate(r.probe, {x \in Options : x \in {r.opts[j] : j \in 1..Len(r.opts)}})]
     [] OTHER -> [ok |-> FALSE])
VARIABLE done
Init == done = (Monotone /\ OnlyOwn /\ ndJsonSerialize(IOEnv.VERIF_OUT, [k \in 1..Len(Trace) |-> Verdict(Trace[k])]))
Next == UNCHANGED done
MCOK == done
=============================================================================
