CONSTANTS MaxMain = 2 MaxSub1 = 1 MaxSub2 = 1
INIT Init
NEXT Next
CHECK_DEADLOCK FALSE
