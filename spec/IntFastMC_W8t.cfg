SPECIFICATION Spec
CONSTANTS
  W = 8
  MaxDepth = 1
  Bound = 1024
  Dense = TRUE
VIEW View
INVARIANT Exactness
INVARIANT StepOK
CHECK_DEADLOCK FALSE
