----------------------------- MODULE PStackMC -----------------------------
(***************************************************************************)
(* Model-checks the persistent stack (PStack.tla = stack.go) against an     *)
(* abstract machine of immutable lists: every sequence of                   *)
(*   push / pop / save (a fork is pushed) / restore (the last fork is       *)
(*   popped) / setindex (opret: index := an ancestor block)                 *)
(* up to MaxOps operations, MaxForks pending forks.                          *)
(* Invariants: the concrete contents equal the abstract list; the contents   *)
(* reachable from every pending fork's saved index equal its snapshot (a     *)
(* saved prefix is never overwritten); limit >= every saved index.           *)
(* The switch BugIgnoreLimit makes push write at index+1 (the mutation      *)
(* `max(s.index, s.limit)` -> `s.index`): TLC then reports SavedIntact       *)
(* violated - the negative control of this model.                            *)
(***************************************************************************)
EXTENDS PStack, TLC

CONSTANTS Vals, MaxOps, MaxForks, BugIgnoreLimit

VARIABLES s, abs, forks, n
vars == <<s, abs, forks, n>>

Push0(st, v) == IF BugIgnoreLimit
                THEN LET ni == st.index + 1  b == [v |-> v, next |-> st.index]
                     IN [st EXCEPT !.data = IF ni <= Len(st.data) THEN [st.data EXCEPT ![ni] = b] ELSE Append(st.data, b), !.index = ni]
                ELSE PSPush(st, v)

Init == s = PSEmpty /\ abs = <<>> /\ forks = <<>> /\ n = 0
Push(v) == n < MaxOps /\ s' = Push0(s, v) /\ abs' = <<v>> \o abs /\ UNCHANGED forks /\ n' = n + 1
Pop == n < MaxOps /\ ~PSIsEmpty(s) /\ s' = PSPop(s) /\ abs' = Tail(abs) /\ UNCHANGED forks /\ n' = n + 1
Save == n < MaxOps /\ Len(forks) < MaxForks
        /\ forks' = Append(forks, [index |-> s.index, limit |-> s.limit, snap |-> abs])
        /\ s' = PSSave(s) /\ UNCHANGED abs /\ n' = n + 1
Restore == n < MaxOps /\ Len(forks) > 0
           /\ LET f == forks[Len(forks)] IN
              s' = PSRestore(s, f.index, f.limit) /\ abs' = f.snap
           /\ forks' = SubSeq(forks, 1, Len(forks) - 1) /\ n' = n + 1
\* opret: scopes.index := saveindex, an ancestor of the current top (here: k blocks down)
SetIndex(k) == n < MaxOps /\ k <= Len(abs) /\ k > 0
               /\ LET RECURSIVE Down(_, _)
                      Down(i, j) == IF j = 0 THEN i ELSE Down(s.data[i].next, j - 1)
                  IN s' = [s EXCEPT !.index = Down(s.index, k)]
               /\ abs' = SubSeq(abs, k + 1, Len(abs)) /\ UNCHANGED forks /\ n' = n + 1
Next == (\E v \in Vals : Push(v)) \/ Pop \/ Save \/ Restore \/ (\E k \in 1..2 : SetIndex(k))
Spec == Init /\ [][Next]_vars

Refines == PSContents(s) = abs
SavedIntact == \A i \in 1..Len(forks) : PSContentsI(s, forks[i].index) = forks[i].snap
LimitCovers == \A i \in 1..Len(forks) : s.limit >= forks[i].index
WF == PSWF(s)
\* restoring in LIFO order always gives back the snapshot (action property)
RestoreExact == [][Len(forks') < Len(forks) => abs' = forks[Len(forks)].snap /\ PSContents(s') = abs']_vars
=============================================================================
