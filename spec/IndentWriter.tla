--------------------------- MODULE IndentWriter ---------------------------
(***************************************************************************)
(* C12 - cli/encoder.go as a machine over its bytes.Buffer.                 *)
(*                                                                          *)
(* The command's encoder appends to a reusable buffer e.w and hands the     *)
(* buffer to the output stream (flush) only                                 *)
(*   - at the end of encode(), when more than Threshold (8 KiB) bytes are   *)
(*     pending, and                                                         *)
(*   - at the end of marshal().                                             *)
(* writeIndentInternal(n) writes n indent characters by writing a constant  *)
(* block of Block (32 spaces / 16 tabs) characters and then DOUBLING: it    *)
(* appends a copy of the last l bytes of the buffer itself,                 *)
(*     for n -= l; n > 0; n, l = n-l, l*2 { if n < l { l = n }              *)
(*         e.w.Write(e.w.Bytes()[e.w.Len()-l:]) }                           *)
(* which is correct only if those l bytes are still in the buffer and are   *)
(* all indent characters - i.e. if no flush can happen inside an indent     *)
(* and the loop arithmetic never reaches back beyond what it wrote.         *)
(*                                                                          *)
(* The machine executes the operation sequence CliEvents(v, ...) of         *)
(* Encoder.tla one buffer write at a time, with Block and Threshold scaled  *)
(* down, for every value of a family of small but deep / wide shapes and    *)
(* every indentation.  Invariants: the slice expression is in range and     *)
(* copies indent characters only; at every operation boundary the bytes     *)
(* handed out plus the bytes pending are exactly Render(operations done);   *)
(* at the end the stream holds exactly CliBytes(v).                         *)
(***************************************************************************)
EXTENDS Encoder, TLC, SequencesExt

CONSTANTS Block,         \* len(spaces): 32, and 16 for tabs, in the code
          Threshold,     \* 8 * 1024 in the code
          MaxNest,       \* deepest chain of containers
          MaxIndent      \* largest --indent explored (9 in the command)

\* shapes ---------------------------------------------------------------------
One == VInt(FALSE, <<1>>)
KeyA == <<97>>
RECURSIVE Chain(_, _)
\* k containers nested, alternating array / object every `alt` levels (0: arrays only)
Chain(k, alt) == IF k = 0 THEN One
                 ELSE IF alt > 0 /\ k % alt = 0 THEN VObj(<< <<KeyA, Chain(k - 1, alt)>> >>)
                 ELSE VArr(<<Chain(k - 1, alt)>>)
Wide(n, x) == VArr([i \in 1..n |-> x])
Shapes == {Chain(k, alt) : k \in 0..MaxNest, alt \in {0, 2}}
            \cup {Wide(n, One) : n \in 0..5}
            \cup {Wide(3, Chain(k, 0)) : k \in 1..3}
            \cup {VArr(<<Chain(k, 2), One, VObj(<< <<KeyA, One>>, <<<<98>>, Wide(2, One)>> >>)>>) : k \in 1..4}
            \cup {VArr(<<VStr(<<255, 10>>), VNull, VBool(TRUE), VArr(<<>>), VObj(<<>>)>>)}
Cases == SetToSeq(Shapes \X (-1..MaxIndent) \X BOOLEAN)          \* <<value, e.indent, e.tab>>
\* createMarshaler never builds tab with an indent other than 1 or -1
RealCase(c) == c[3] => c[2] \in {-1, 1}
Ops == [i \in 1..Len(Cases) |-> CliEvents(Cases[i][1], Cases[i][2], NoPalette, 0)]

VARIABLES ci,     \* which case (fixed in Init)
          k,      \* index of the next operation of Ops[ci]
          pc,     \* "op": between operations | "ind": in writeIndent after '\n' | "loop": in the for of writeIndentInternal | "done"
          n, l,   \* the variables of writeIndentInternal
          buf,    \* e.w (bytes pending)
          out     \* what the io.Writer has received
vars == <<ci, k, pc, n, l, buf, out>>

ops == Ops[ci]
tab == Cases[ci][3]
ch == IndentChar(tab)

Init == /\ ci \in {i \in 1..Len(Cases) : RealCase(Cases[i])}
        /\ k = 1 /\ pc = "op" /\ n = 0 /\ l = 0 /\ buf = <<>> /\ out = <<>>

\* write / writeByte / encodeString: append
DoWrite == /\ pc = "op" /\ k <= Len(ops) /\ ops[k].op = "w"
           /\ buf' = buf \o ops[k].b
           /\ k' = k + 1 /\ UNCHANGED <<ci, pc, n, l, out>>

\* writeIndent: e.w.WriteByte('\n'); if n := e.depth; n > 0 { writeIndentInternal(n, spaces) }
DoNewline == /\ pc = "op" /\ k <= Len(ops) /\ ops[k].op = "nl"
             /\ buf' = Append(buf, LF)
             /\ IF ops[k].n > 0 THEN pc' = "ind" /\ n' = ops[k].n /\ k' = k ELSE pc' = "op" /\ n' = n /\ k' = k + 1
             /\ UNCHANGED <<ci, l, out>>

\* writeIndentInternal: if l := len(spaces); n <= l { WriteString(spaces[:n]) } else { WriteString(spaces); for n -= l; ...
DoBlock == /\ pc = "ind"
           /\ IF n <= Block
              THEN buf' = buf \o Rep(n, ch) /\ pc' = "op" /\ k' = k + 1 /\ n' = 0 /\ l' = 0
              ELSE buf' = buf \o Rep(Block, ch) /\ pc' = "loop" /\ k' = k /\ n' = n - Block /\ l' = Block
           /\ UNCHANGED <<ci, out>>

\* one iteration of the for: if n < l { l = n }; e.w.Write(e.w.Bytes()[e.w.Len()-l:]); n, l = n-l, l*2
CopyLen == IF n < l THEN n ELSE l
DoDouble == /\ pc = "loop"
            /\ IF n > 0
               THEN /\ buf' = buf \o SubSeq(buf, Len(buf) - CopyLen + 1, Len(buf))
                    /\ n' = n - CopyLen /\ l' = CopyLen * 2 /\ pc' = "loop" /\ k' = k
               ELSE /\ pc' = "op" /\ k' = k + 1 /\ n' = 0 /\ l' = 0 /\ buf' = buf
            /\ UNCHANGED <<ci, out>>

\* the end of encode(): if e.w.Len() > 8*1024 { return e.flush() }
DoCheck == /\ pc = "op" /\ k <= Len(ops) /\ ops[k].op = "chk"
           /\ IF Len(buf) > Threshold THEN out' = out \o buf /\ buf' = <<>> ELSE UNCHANGED <<out, buf>>
           /\ k' = k + 1 /\ UNCHANGED <<ci, pc, n, l>>

\* marshal: cmp.Or(e.encode(v), e.flush())
DoFinalFlush == /\ pc = "op" /\ k = Len(ops) + 1
                /\ out' = out \o buf /\ buf' = <<>> /\ pc' = "done"
                /\ UNCHANGED <<ci, k, n, l>>

Next == DoWrite \/ DoNewline \/ DoBlock \/ DoDouble \/ DoCheck \/ DoFinalFlush
Spec == Init /\ [][Next]_vars /\ WF_vars(Next)

\* invariants ------------------------------------------------------------------
TypeOK == /\ pc \in {"op", "ind", "loop", "done"} /\ k \in 1..(Len(ops) + 1) /\ n >= 0 /\ l >= 0
          /\ \A i \in 1..Len(buf) : IsByte(buf[i])

\* the slice e.w.Bytes()[e.w.Len()-l:] is within the buffer and holds indent characters only:
\* nothing that was already flushed, and nothing but indentation, is ever copied
SliceOK == pc = "loop" /\ n > 0 =>
             /\ CopyLen <= Len(buf)
             /\ \A j \in (Len(buf) - CopyLen + 1)..Len(buf) : buf[j] = ch

\* refinement of the function-level specification, at every operation boundary and inside an indent
Written == out \o buf
Refines == CASE pc = "op" -> Written = Render(SubSeq(ops, 1, k - 1), tab)
             [] pc = "ind" -> Written = Render(SubSeq(ops, 1, k - 1), tab) \o <<LF>>
             [] pc = "loop" -> Written = Render(SubSeq(ops, 1, k - 1), tab) \o <<LF>> \o Rep(ops[k].n - n, ch)
             [] pc = "done" -> /\ buf = <<>>
                               /\ out = CliBytes(Cases[ci][1], [indent |-> Cases[ci][2], tab |-> tab], NoPalette)

\* the buffer is handed out only between values: a flush never splits an indent (or any token)
FlushAtBoundary == pc \in {"ind", "loop"} => Len(buf) > 0 /\ (buf[Len(buf)] = LF \/ buf[Len(buf)] = ch)

\* the doubling loop needs about log2(n / Block) copies
FewCopies == pc = "loop" => l <= 2 * (ops[k].n - n)

Terminates == <>(pc = "done")
=============================================================================
