---- MODULE PStackMC_TTrace_1790386101 ----
EXTENDS Sequences, TLCExt, PStackMC, Toolbox, Naturals, TLC

_expression ==
    LET PStackMC_TEExpression == INSTANCE PStackMC_TEExpression
    IN PStackMC_TEExpression!expression
----

_trace ==
    LET PStackMC_TETrace == INSTANCE PStackMC_TETrace
    IN PStackMC_TETrace!trace
----

_inv ==
    ~(
        TLCGet("level") = Len(_TETrace)
        /\
        forks = (<<[index |-> 1, limit |-> 0, snap |-> <<1>>]>>)
        /\
        s = ([index |-> 1, data |-> <<[v |-> 2, next |-> 0]>>, limit |-> 1])
        /\
        abs = (<<2>>)
        /\
        n = (4)
    )
----

_init ==
    /\ n = _TETrace[1].n
    /\ s = _TETrace[1].s
    /\ abs = _TETrace[1].abs
    /\ forks = _TETrace[1].forks
----

_next ==
    /\ \E i,j \in DOMAIN _TETrace:
        /\ \/ /\ j = i + 1
              /\ i = TLCGet("level")
        /\ n  = _TETrace[i].n
        /\ n' = _TETrace[j].n
        /\ s  = _TETrace[i].s
        /\ s' = _TETrace[j].s
        /\ abs  = _TETrace[i].abs
        /\ abs' = _TETrace[j].abs
        /\ forks  = _TETrace[i].forks
        /\ forks' = _TETrace[j].forks

\* Uncomment the ASSUME below to write the states of the error trace
\* to the given file in Json format. Note that you can pass any tuple
\* to `JsonSerialize`. For example, a sub-sequence of _TETrace.
    \* ASSUME
    \*     LET J == INSTANCE Json
    \*         IN J!JsonSerialize("PStackMC_TTrace_1790386101.json", _TETrace)

=============================================================================

 Note that you can extract this module `PStackMC_TEExpression`
  to a dedicated file to reuse `expression` (the module in the 
  dedicated `PStackMC_TEExpression.tla` file takes precedence 
  over the module `PStackMC_TEExpression` below).

---- MODULE PStackMC_TEExpression ----
EXTENDS Sequences, TLCExt, PStackMC, Toolbox, Naturals, TLC

expression == 
    [
        \* To hide variables of the `PStackMC` spec from the error trace,
        \* remove the variables below.  The trace will be written in the order
        \* of the fields of this record.
        n |-> n
        ,s |-> s
        ,abs |-> abs
        ,forks |-> forks
        
        \* Put additional constant-, state-, and action-level expressions here:
        \* ,_stateNumber |-> _TEPosition
        \* ,_nUnchanged |-> n = n'
        
        \* Format the `n` variable as Json value.
        \* ,_nJson |->
        \*     LET J == INSTANCE Json
        \*     IN J!ToJson(n)
        
        \* Lastly, you may build expressions over arbitrary sets of states by
        \* leveraging the _TETrace operator.  For example, this is how to
        \* count the number of times a spec variable changed up to the current
        \* state in the trace.
        \* ,_nModCount |->
        \*     LET F[s \in DOMAIN _TETrace] ==
        \*         IF s = 1 THEN 0
        \*         ELSE IF _TETrace[s].n # _TETrace[s-1].n
        \*             THEN 1 + F[s-1] ELSE F[s-1]
        \*     IN F[_TEPosition - 1]
    ]

=============================================================================



Parsing and semantic processing can take forever if the trace below is long.
 In this case, it is advised to uncomment the module below to deserialize the
 trace from a generated binary file.

\*
\*---- MODULE PStackMC_TETrace ----
\*EXTENDS IOUtils, PStackMC, TLC
\*
\*trace == IODeserialize("PStackMC_TTrace_1790386101.bin", TRUE)
\*
\*=============================================================================
\*

---- MODULE PStackMC_TETrace ----
EXTENDS PStackMC, TLC

trace == 
    <<
    ([forks |-> <<>>,s |-> [index |-> 0, data |-> <<>>, limit |-> 0],abs |-> <<>>,n |-> 0]),
    ([forks |-> <<>>,s |-> [index |-> 1, data |-> <<[v |-> 1, next |-> 0]>>, limit |-> 0],abs |-> <<1>>,n |-> 1]),
    ([forks |-> <<[index |-> 1, limit |-> 0, snap |-> <<1>>]>>,s |-> [index |-> 1, data |-> <<[v |-> 1, next |-> 0]>>, limit |-> 1],abs |-> <<1>>,n |-> 2]),
    ([forks |-> <<[index |-> 1, limit |-> 0, snap |-> <<1>>]>>,s |-> [index |-> 0, data |-> <<[v |-> 1, next |-> 0]>>, limit |-> 1],abs |-> <<>>,n |-> 3]),
    ([forks |-> <<[index |-> 1, limit |-> 0, snap |-> <<1>>]>>,s |-> [index |-> 1, data |-> <<[v |-> 2, next |-> 0]>>, limit |-> 1],abs |-> <<2>>,n |-> 4])
    >>
----


=============================================================================

---- CONFIG PStackMC_TTrace_1790386101 ----
CONSTANTS
    Vals = { 1 , 2 }
    MaxOps = 9
    MaxForks = 3
    BugIgnoreLimit = TRUE

INVARIANT
    _inv

CHECK_DEADLOCK
    \* CHECK_DEADLOCK off because of PROPERTY or INVARIANT above.
    FALSE

INIT
    _init

NEXT
    _next

CONSTANT
    _TETrace <- _trace

ALIAS
    _expression
=============================================================================
\* Generated on Sat Sep 26 01:28:22 UTC 2026