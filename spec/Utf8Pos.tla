------------------------------ MODULE Utf8Pos ------------------------------
(***************************************************************************)
(* UTF-8 as Go sees it (unicode/utf8): a Go string is a BYTE sequence, the  *)
(* regexp package reports BYTE offsets, `for i, r := range s` and           *)
(* `[]rune(s)` decode it rune by rune.  jq positions are CODE POINTS.       *)
(* This module is the bridge: encoder, Go's decoder (every byte that does   *)
(* not start a well-formed sequence decodes to U+FFFD of width 1), and the  *)
(* byte <-> code-point position maps that func.go computes with             *)
(* len([]rune(s[:b])) and with `range` loops.                               *)
(***************************************************************************)
EXTENDS Integers, Sequences

RuneError == 65533
MaxRune == 1114111
IsScalar(c) == c >= 0 /\ c <= MaxRune /\ ~(c >= 55296 /\ c <= 57343)

\* utf8.AppendRune (invalid runes are written as U+FFFD)
EncCp(c0) ==
  LET c == IF IsScalar(c0) THEN c0 ELSE RuneError IN
  IF c < 128 THEN <<c>>
  ELSE IF c < 2048 THEN <<192 + (c \div 64), 128 + (c % 64)>>
  ELSE IF c < 65536 THEN <<224 + (c \div 4096), 128 + ((c \div 64) % 64), 128 + (c % 64)>>
  ELSE <<240 + (c \div 262144), 128 + ((c \div 4096) % 64), 128 + ((c \div 64) % 64), 128 + (c % 64)>>

RECURSIVE EncFrom(_, _)
EncFrom(s, i) == IF i > Len(s) THEN <<>> ELSE EncCp(s[i]) \o EncFrom(s, i + 1)
\* the bytes of the Go string that holds the code points s
Utf8Enc(s) == EncFrom(s, 1)

IsContByte(b) == b >= 128 /\ b <= 191
\* utf8.DecodeRune on the bytes b[i..hi] (1-based, inclusive): [r |-> rune, w |-> width]; the accept ranges of utf8.first
DecodeAtN(b, i, hi) ==
  LET n == hi - i + 1
      b0 == b[i]
      bad == [r |-> RuneError, w |-> 1]
      lo2 == CASE b0 = 224 -> 160 [] b0 = 240 -> 144 [] OTHER -> 128       \* second byte lower bound
      hi2 == CASE b0 = 237 -> 159 [] b0 = 244 -> 143 [] OTHER -> 191       \* second byte upper bound
  IN IF b0 < 128 THEN [r |-> b0, w |-> 1]
     ELSE IF b0 < 194 \/ b0 > 244 THEN bad
     ELSE IF b0 < 224 THEN
          (IF n >= 2 /\ IsContByte(b[i + 1]) THEN [r |-> (b0 - 192) * 64 + (b[i + 1] - 128), w |-> 2] ELSE bad)
     ELSE IF b0 < 240 THEN
          (IF n >= 3 /\ b[i + 1] >= lo2 /\ b[i + 1] <= hi2 /\ IsContByte(b[i + 2])
           THEN [r |-> (b0 - 224) * 4096 + (b[i + 1] - 128) * 64 + (b[i + 2] - 128), w |-> 3] ELSE bad)
     ELSE (IF n >= 4 /\ b[i + 1] >= lo2 /\ b[i + 1] <= hi2 /\ IsContByte(b[i + 2]) /\ IsContByte(b[i + 3])
           THEN [r |-> (b0 - 240) * 262144 + (b[i + 1] - 128) * 4096 + (b[i + 2] - 128) * 64 + (b[i + 3] - 128), w |-> 4] ELSE bad)
DecodeAt(b, i) == DecodeAtN(b, i, Len(b))

RECURSIVE DecRange(_, _, _, _)
\* []rune(s[lo-1:hi]) for 1-based inclusive byte indices lo..hi (a sequence cut at hi is decoded as Go decodes the cut string)
DecRange(b, i, hi, acc) == IF i > hi THEN acc ELSE LET d == DecodeAtN(b, i, hi) IN DecRange(b, i + d.w, hi, Append(acc, d.r))
\* []rune(s)
Utf8Dec(b) == DecRange(b, 1, Len(b), <<>>)

\* s[lo:hi] of a Go string (0-based byte offsets, hi exclusive)
ByteSlice(b, lo, hi) == SubSeq(b, lo + 1, hi)
\* []rune(s[lo:hi])
DecSlice(b, lo, hi) == DecRange(b, lo + 1, hi, <<>>)
RECURSIVE CountRange(_, _, _, _)
CountRange(b, i, hi, acc) == IF i > hi THEN acc ELSE CountRange(b, i + DecodeAtN(b, i, hi).w, hi, acc + 1)
\* len([]rune(s[:off])): the code-point position of byte offset off (funcMatch)
RuneCountTo(b, off) == CountRange(b, 1, off, 0)

\* the byte offsets at which `for i := range s` stops, followed by len(s): <<0, w1, w1+w2, ..., len>>
RECURSIVE RangeStarts(_, _)
RangeStarts(b, i) == IF i > Len(b) THEN <<Len(b)>> ELSE <<i - 1>> \o RangeStarts(b, i + DecodeAt(b, i).w)
Boundaries(b) == RangeStarts(b, 1)
BoundarySet(b) == LET bs == Boundaries(b) IN {bs[k] : k \in 1..Len(bs)}
IsBoundary(b, off) == off \in BoundarySet(b)

\* valid UTF-8 <=> re-encoding the decoded runes gives the bytes back
ValidUtf8(b) == Utf8Enc(Utf8Dec(b)) = b
=============================================================================
