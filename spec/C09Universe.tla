---------------------------- MODULE C09Universe ----------------------------
(***************************************************************************)
(* The finite universes of C09 that are explored exhaustively, written once *)
(* and shared by the model-checking module (GrammarMC) and the case         *)
(* generator (GenOps): token alphabets (token spellings as bytes).  Every   *)
(* sequence of at most MaxLen tokens of one alphabet is a text; it is       *)
(* written once with single blanks between the tokens and once with the     *)
(* tokens glued together (maximal munch then decides what the tokens are).  *)
(***************************************************************************)
EXTENDS Integers, Sequences

\* terms with every suffix form, numbers next to dots (the spacing rules of Index.writeTo)
Alpha_terms == <<
    <<46>>,   \* .
    <<46,46>>,   \* ..
    <<46,97>>,   \* .a
    <<49>>,   \* 1
    <<49,46>>,   \* 1.
    <<46,53>>,   \* .5
    <<97>>,   \* a
    <<97,49>>,   \* a1
    <<34,115,34>>,   \* "s"
    <<91>>,   \* [
    <<93>>,   \* ]
    <<63>>,   \* ?
    <<45>>,   \* -
    <<58>>,   \* :
    <<64,102>>,   \* @f
    <<36,120>>    \* $x
  >>

\* binding constructs and what delimits them
Alpha_binding == <<
    <<46>>,   \* .
    <<97>>,   \* a
    <<36,120>>,   \* $x
    <<97,115>>,   \* as
    <<124>>,   \* |
    <<44>>,   \* ,
    <<100,101,102>>,   \* def
    <<58>>,   \* :
    <<59>>,   \* ;
    <<108,97,98,101,108>>,   \* label
    <<116,114,121>>,   \* try
    <<99,97,116,99,104>>,   \* catch
    <<43>>,   \* +
    <<40>>,   \* (
    <<41>>,   \* )
    <<63,47,47>>,   \* ?//
    <<91>>,   \* [
    <<93>>    \* ]
  >>

\* control terms
Alpha_control == <<
    <<46>>,   \* .
    <<49>>,   \* 1
    <<105,102>>,   \* if
    <<116,104,101,110>>,   \* then
    <<101,108,105,102>>,   \* elif
    <<101,108,115,101>>,   \* else
    <<101,110,100>>,   \* end
    <<114,101,100,117,99,101>>,   \* reduce
    <<102,111,114,101,97,99,104>>,   \* foreach
    <<97,115>>,   \* as
    <<36,120>>,   \* $x
    <<40>>,   \* (
    <<41>>,   \* )
    <<59>>,   \* ;
    <<124>>,   \* |
    <<43>>,   \* +
    <<116,114,121>>,   \* try
    <<98,114,101,97,107>>    \* break
  >>

\* object construction, keys of every kind, patterns
Alpha_objects == <<
    <<123>>,   \* {
    <<125>>,   \* }
    <<97>>,   \* a
    <<105,102>>,   \* if
    <<58>>,   \* :
    <<44>>,   \* ,
    <<34,115,34>>,   \* "s"
    <<40>>,   \* (
    <<41>>,   \* )
    <<46>>,   \* .
    <<36,120>>,   \* $x
    <<36,95,95,108,111,99,95,95>>,   \* $__loc__
    <<124>>,   \* |
    <<97,115>>,   \* as
    <<91>>,   \* [
    <<93>>,   \* ]
    <<64,102>>,   \* @f
    <<43>>    \* +
  >>

\* operators and their maximal-munch neighbours
Alpha_operators == <<
    <<49>>,   \* 1
    <<46,97>>,   \* .a
    <<124>>,   \* |
    <<124,61>>,   \* |=
    <<61>>,   \* =
    <<61,61>>,   \* ==
    <<47,47>>,   \* //
    <<47,47,61>>,   \* //=
    <<47>>,   \* /
    <<63>>,   \* ?
    <<63,47,47>>,   \* ?//
    <<45>>,   \* -
    <<45,61>>,   \* -=
    <<97,110,100>>,   \* and
    <<111,114>>,   \* or
    <<60>>,   \* <
    <<60,61>>,   \* <=
    <<33,61>>    \* !=
  >>

\* program header: module, import, include, metadata
Alpha_modules == <<
    <<109,111,100,117,108,101>>,   \* module
    <<105,109,112,111,114,116>>,   \* import
    <<105,110,99,108,117,100,101>>,   \* include
    <<34,115,34>>,   \* "s"
    <<34,34>>,   \* ""
    <<97,115>>,   \* as
    <<97>>,   \* a
    <<36,120>>,   \* $x
    <<123>>,   \* {
    <<125>>,   \* }
    <<58>>,   \* :
    <<59>>,   \* ;
    <<49>>,   \* 1
    <<44>>,   \* ,
    <<100,101,102>>,   \* def
    <<46>>,   \* .
    <<110,117,108,108>>,   \* null
    <<91>>    \* [
  >>

\* pieces of string literals and interpolations (texts are the glued sequences: scanString, inString mode)
Alpha_strings == <<
    <<34>>,   \* "
    <<92,40>>,   \* \(
    <<40>>,   \* (
    <<41>>,   \* )
    <<97>>,   \* a
    <<49>>,   \* 1
    <<92,34>>,   \* \"
    <<92,92>>,   \* \\
    <<32>>,   \* blank
    <<35>>,   \* #
    <<10>>,   \* LF
    <<43>>,   \* +
    <<46>>,   \* .
    <<92,110>>    \* \n
  >>

\* pieces of comments and line ends (skipComment, backslash continuation, NUL)
Alpha_comments == <<
    <<35>>,   \* #
    <<10>>,   \* LF
    <<13>>,   \* CR
    <<92>>,   \* \
    <<32>>,   \* blank
    <<49>>,   \* 1
    <<43>>,   \* +
    <<0>>,   \* NUL
    <<97>>,   \* a
    <<34>>    \* "
  >>

\* single bytes the token switch of lexer.Lex looks at (texts are the glued sequences: maximal munch)
Alpha_lexemes == <<
    <<97>>,   \* a
    <<58>>,   \* :
    <<49>>,   \* 1
    <<36>>,   \* $
    <<64>>,   \* @
    <<46>>,   \* .
    <<101>>,   \* e
    <<45>>,   \* -
    <<43>>,   \* +
    <<61>>,   \* =
    <<47>>,   \* /
    <<63>>,   \* ?
    <<124>>,   \* |
    <<60>>,   \* <
    <<33>>,   \* !
    <<37>>,   \* %
    <<95>>,   \* _
    <<69>>    \* E
  >>

Profiles == <<"terms", "binding", "control", "objects", "operators", "modules", "strings", "comments", "lexemes">>
Alphabet(p) ==
  CASE p = "terms" -> Alpha_terms
    [] p = "binding" -> Alpha_binding
    [] p = "control" -> Alpha_control
    [] p = "objects" -> Alpha_objects
    [] p = "operators" -> Alpha_operators
    [] p = "modules" -> Alpha_modules
    [] p = "strings" -> Alpha_strings
    [] p = "comments" -> Alpha_comments
    [] p = "lexemes" -> Alpha_lexemes

\* alphabets whose elements are pieces of tokens rather than tokens
PieceProfiles == {"strings", "comments", "lexemes"}

RECURSIVE JoinToks(_, _, _)
JoinToks(ts, i, sep) ==
  IF i > Len(ts) THEN <<>>
  ELSE (IF i > 1 THEN sep ELSE <<>>) \o ts[i] \o JoinToks(ts, i + 1, sep)
Spaced(ts) == JoinToks(ts, 1, <<32>>)
Glued(ts) == JoinToks(ts, 1, <<>>)
=============================================================================
