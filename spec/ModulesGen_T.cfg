CONSTANTS MaxMain = 3 MaxSub1 = 1 MaxSub2 = 1
INIT Init
NEXT Next
CHECK_DEADLOCK FALSE
