------------------------------ MODULE JsonScan ------------------------------
(***************************************************************************)
(* C16 - the JSON text scanner the gojq command reads its input with        *)
(* (encoding/json Decoder as used by cli/inputs.go: dec.UseNumber(),        *)
(* dec.Decode(&v) for whole documents; the scalar part of dec.Token() for   *)
(* --stream).  Input text is a sequence of BYTES (0..255), positions are     *)
(* 1-based.                                                                 *)
(*                                                                         *)
(*   ScanValue(t, i)  scans ONE value starting at the first non-blank byte  *)
(*                    at or after i:                                        *)
(*        [k |-> "ok",  v |-> value, j |-> index of the byte after it]      *)
(*        [k |-> "err", at |-> i]   syntax error at byte i                   *)
(*        [k |-> "eof"]             the text ends inside the value           *)
(*        [k |-> "oom"]             a value the model does not compute       *)
(*                                  (non-dyadic fraction, surrogate escape,  *)
(*                                  invalid UTF-8: Go substitutes U+FFFD)    *)
(*   DecodeNext(t, i) what dec.Decode returns at offset i: "end" (io.EOF,   *)
(*                    only blanks left) or the ScanValue result.             *)
(*                                                                         *)
(* The scanner is the one of the Go decoder: a value ends as soon as its    *)
(* last byte is seen (`]`, `}`, closing quote, last letter of a literal) or, *)
(* for a number, at the first byte that cannot continue it (or at the end   *)
(* of the text).  Documents therefore need no separator unless two would    *)
(* fuse (`1 2`): `1"a"[2]truefalse` is five documents, `12x` is the document *)
(* 12 followed by a syntax error.                                           *)
(***************************************************************************)
EXTENDS Text

Ws(c) == c \in {32, 9, 13, 10}
RECURSIVE SkipWs(_, _)
SkipWs(t, i) == IF i <= Len(t) /\ Ws(t[i]) THEN SkipWs(t, i + 1) ELSE i

OkR(v, j) == [k |-> "ok", v |-> v, j |-> j]
ErrR(i) == [k |-> "err", at |-> i]
EofR == [k |-> "eof"]
OomR == [k |-> "oom"]

SetMin(S) == CHOOSE x \in S : \A y \in S : x <= y

\* UTF-8 ------------------------------------------------------------------------
\* the character starting at byte i: [n |-> length, cp |-> code point];
\* n = 0 invalid encoding, n = -1 the text ends inside the character
Cont(t, i) == t[i] >= 128 /\ t[i] <= 191
Utf8At(t, i) ==
  LET c == t[i]
      need == IF c < 128 THEN 1 ELSE IF c >= 194 /\ c <= 223 THEN 2 ELSE IF c >= 224 /\ c <= 239 THEN 3
              ELSE IF c >= 240 /\ c <= 244 THEN 4 ELSE 0
  IN IF need = 0 THEN [n |-> 0, cp |-> 0]
     ELSE IF need = 1 THEN [n |-> 1, cp |-> c]
     ELSE IF \E m \in 1..(need - 1) : i + m <= Len(t) /\ ~Cont(t, i + m) THEN [n |-> 0, cp |-> 0]
     ELSE IF i + need - 1 > Len(t) THEN [n |-> -1, cp |-> 0]
     ELSE LET cp == CASE need = 2 -> (c - 192) * 64 + (t[i + 1] - 128)
                      [] need = 3 -> (c - 224) * 4096 + (t[i + 1] - 128) * 64 + (t[i + 2] - 128)
                      [] need = 4 -> (c - 240) * 262144 + (t[i + 1] - 128) * 4096 + (t[i + 2] - 128) * 64 + (t[i + 3] - 128)
          IN IF (need = 3 /\ cp < 2048) \/ (need = 4 /\ (cp < 65536 \/ cp > 1114111)) \/ ~ValidRune(cp)
             THEN [n |-> 0, cp |-> 0] ELSE [n |-> need, cp |-> cp]

RECURSIVE Utf8DecodeI(_, _, _)
Utf8DecodeI(t, i, acc) ==
  IF i > Len(t) THEN [ok |-> TRUE, s |-> acc]
  ELSE LET u == Utf8At(t, i) IN IF u.n <= 0 THEN [ok |-> FALSE, s |-> acc] ELSE Utf8DecodeI(t, i + u.n, Append(acc, u.cp))
\* bytes -> code points; ok = FALSE when the bytes are not valid UTF-8
Utf8Decode(t) == Utf8DecodeI(t, 1, <<>>)

\* literals ---------------------------------------------------------------------
RECURSIVE ScanLit(_, _, _, _, _)
\* t[i..] must spell w[p..]
ScanLit(t, i, w, p, v) ==
  IF p > Len(w) THEN OkR(v, i)
  ELSE IF i > Len(t) THEN EofR
  ELSE IF t[i] # w[p] THEN ErrR(i)
  ELSE ScanLit(t, i + 1, w, p + 1, v)

\* numbers: -? (0 | [1-9][0-9]*) (. [0-9]+)? ([eE] [+-]? [0-9]+)?  ----------------
ScanNumber(t, i) ==
  LET n == Len(t)
      At(p) == IF p <= n THEN t[p] ELSE -1
      Stop(p) == IF p > n THEN EofR ELSE ErrR(p)
      p0 == IF t[i] = 45 THEN i + 1 ELSE i
  IN IF ~IsDigitCp(At(p0)) THEN Stop(p0)
     ELSE LET p1 == IF At(p0) = 48 THEN p0 + 1 ELSE TakeDigits(t, p0)
              hasDot == At(p1) = 46
          IN IF hasDot /\ ~IsDigitCp(At(p1 + 1)) THEN Stop(p1 + 1)
             ELSE LET p2 == IF hasDot THEN TakeDigits(t, p1 + 1) ELSE p1
                      hasExp == At(p2) \in {101, 69}
                      p3 == IF hasExp /\ At(p2 + 1) \in {43, 45} THEN p2 + 2 ELSE p2 + 1
                  IN IF hasExp /\ ~IsDigitCp(At(p3)) THEN Stop(p3)
                     ELSE LET p4 == IF hasExp THEN TakeDigits(t, p3) ELSE p2
                              r == ParseNumber(SubSeq(t, i, p4 - 1))
                          IN IF r.k = "ok" THEN OkR(r.v, p4) ELSE OomR

\* strings ----------------------------------------------------------------------
HexVal(c) == IF c >= 48 /\ c <= 57 THEN c - 48 ELSE IF c >= 97 /\ c <= 102 THEN c - 87 ELSE IF c >= 65 /\ c <= 70 THEN c - 55 ELSE -1
SimpleEsc(e) == CASE e = 34 -> 34 [] e = 92 -> 92 [] e = 47 -> 47 [] e = 98 -> 8 [] e = 102 -> 12
                  [] e = 110 -> 10 [] e = 114 -> 13 [] e = 116 -> 9 [] OTHER -> -1

RECURSIVE ScanString(_, _, _)
\* i: the byte after the opening quote; -> [k |-> "ok", s |-> code points, j] | err | eof | oom
ScanString(t, i, acc) ==
  IF i > Len(t) THEN EofR
  ELSE LET c == t[i] IN
    IF c = 34 THEN [k |-> "ok", s |-> acc, j |-> i + 1]
    ELSE IF c < 32 THEN ErrR(i)
    ELSE IF c = 92 THEN
      (IF i + 1 > Len(t) THEN EofR
       ELSE LET e == t[i + 1] IN
         IF e = 117 THEN
           LET bad == {m \in 1..4 : i + 1 + m > Len(t) \/ HexVal(t[i + 1 + m]) = -1} IN
           IF bad # {} THEN (LET m == SetMin(bad) IN IF i + 1 + m > Len(t) THEN EofR ELSE ErrR(i + 1 + m))
           ELSE LET cp == HexVal(t[i + 2]) * 4096 + HexVal(t[i + 3]) * 256 + HexVal(t[i + 4]) * 16 + HexVal(t[i + 5]) IN
                IF ~ValidRune(cp) THEN
                   \* surrogate halves: the rest of the string decides between a pair and U+FFFD; not modelled,
                   \* but an unterminated string is an error whatever the escapes mean
                   (LET r == ScanString(t, i + 6, acc) IN IF r.k = "ok" THEN OomR ELSE r)
                ELSE ScanString(t, i + 6, Append(acc, cp))
         ELSE IF SimpleEsc(e) = -1 THEN ErrR(i + 1)
         ELSE ScanString(t, i + 2, Append(acc, SimpleEsc(e))))
    ELSE LET u == Utf8At(t, i) IN
         IF u.n = -1 THEN EofR
         ELSE IF u.n = 0 THEN (LET r == ScanString(t, i + 1, acc) IN IF r.k = "ok" THEN OomR ELSE r)
         ELSE ScanString(t, i + u.n, Append(acc, u.cp))

\* values -----------------------------------------------------------------------
RECURSIVE ScanValue(_, _), ScanElems(_, _, _), ScanMembers(_, _, _)

ScanValue(t, i0) ==
  LET i == SkipWs(t, i0) IN
  IF i > Len(t) THEN EofR
  ELSE LET c == t[i] IN
    CASE c = 91 -> (LET j == SkipWs(t, i + 1) IN
                    IF j > Len(t) THEN EofR ELSE IF t[j] = 93 THEN OkR(EmptyArr, j + 1) ELSE ScanElems(t, j, <<>>))
      [] c = 123 -> (LET j == SkipWs(t, i + 1) IN
                     IF j > Len(t) THEN EofR ELSE IF t[j] = 125 THEN OkR(EmptyObj, j + 1) ELSE ScanMembers(t, j, <<>>))
      [] c = 34 -> (LET s == ScanString(t, i + 1, <<>>) IN IF s.k = "ok" THEN OkR(Str(s.s), s.j) ELSE s)
      [] c = 45 \/ IsDigitCp(c) -> ScanNumber(t, i)
      [] c = 116 -> ScanLit(t, i, <<116, 114, 117, 101>>, 1, True)
      [] c = 102 -> ScanLit(t, i, <<102, 97, 108, 115, 101>>, 1, False)
      [] c = 110 -> ScanLit(t, i, <<110, 117, 108, 108>>, 1, Null)
      [] OTHER -> ErrR(i)

\* the elements of an array from the first byte of an element on
ScanElems(t, i, acc) ==
  LET r == ScanValue(t, i) IN
  IF r.k # "ok" THEN r
  ELSE LET j == SkipWs(t, r.j) IN
       IF j > Len(t) THEN EofR
       ELSE IF t[j] = 44 THEN ScanElems(t, j + 1, Append(acc, r.v))
       ELSE IF t[j] = 93 THEN OkR(Arr(Append(acc, r.v)), j + 1)
       ELSE ErrR(j)

\* the members of an object from the first byte of a key on; acc is the (sorted) member list: a repeated key replaces
ScanMembers(t, i0, acc) ==
  LET i == SkipWs(t, i0) IN
  IF i > Len(t) THEN EofR
  ELSE IF t[i] # 34 THEN ErrR(i)
  ELSE LET s == ScanString(t, i + 1, <<>>) IN
    IF s.k # "ok" THEN s
    ELSE LET c == SkipWs(t, s.j) IN
      IF c > Len(t) THEN EofR
      ELSE IF t[c] # 58 THEN ErrR(c)
      ELSE LET r == ScanValue(t, c + 1) IN
        IF r.k # "ok" THEN r
        ELSE LET j == SkipWs(t, r.j)  acc2 == ObjPut(acc, s.s, r.v) IN
             IF j > Len(t) THEN EofR
             ELSE IF t[j] = 44 THEN ScanMembers(t, j + 1, acc2)
             ELSE IF t[j] = 125 THEN OkR(Obj(acc2), j + 1)
             ELSE ErrR(j)

\* dec.Decode at offset i
DecodeNext(t, i) == LET j == SkipWs(t, i) IN IF j > Len(t) THEN [k |-> "end"] ELSE ScanValue(t, j)

\* every document of a text, declaratively: the values, how the text ends ("end" clean, "err" malformed, "oom")
RECURSIVE AllDocs(_, _, _)
AllDocs(t, i, acc) ==
  LET r == DecodeNext(t, i) IN
  CASE r.k = "ok" -> AllDocs(t, r.j, Append(acc, r.v))
    [] r.k = "end" -> [vs |-> acc, fin |-> "end"]
    [] r.k = "oom" -> [vs |-> acc, fin |-> "oom"]
    [] OTHER -> [vs |-> acc, fin |-> "err"]
=============================================================================
