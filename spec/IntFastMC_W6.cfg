SPECIFICATION Spec
CONSTANTS
  W = 6
  MaxDepth = 1
  Bound = 256
  Dense = TRUE
VIEW View
INVARIANT Exactness
INVARIANT StepOK
CHECK_DEADLOCK FALSE
