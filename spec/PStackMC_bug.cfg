CONSTANTS Vals = {1, 2} MaxOps = 9 MaxForks = 3 BugIgnoreLimit = TRUE
SPECIFICATION Spec
INVARIANTS Refines SavedIntact LimitCovers WF
PROPERTY RestoreExact
CHECK_DEADLOCK FALSE
