----------------------------- MODULE LexerNumMC -----------------------------
(***************************************************************************)
(* Model checking of the number scanner of lexer.go on its own.             *)
(* State machine: a text over the alphabet {0 1 9 . e E + - a _} is fed     *)
(* byte by byte (action Feed); st is the state of the scanner automaton     *)
(* (Lexer!NumDelta) started the way lexer.Lex starts it: a digit enters     *)
(* scanNumber in state Lead, a '.' followed by a digit enters it in state   *)
(* Float.  TLC visits every text of at most MaxLen bytes and checks         *)
(*   DfaIsScanner   the automaton and the recursive transcription of        *)
(*                  scanNumber agree on "the whole text is one number"      *)
(*   ScannerIsRegex that verdict is membership in the regular expression    *)
(*                  D+ (. D* )? ([eE] [+-]? D+)?  |  . D+ ([eE] [+-]? D+)?  *)
(*                  stated declaratively (existence of split points)        *)
(*   TonumberIsRegex lexer.validNumber (what `tonumber` accepts) is         *)
(*                  [+-]? followed by the same expression                   *)
(*   PrefixToken    when the scanner stops inside the text with a token,    *)
(*                  the token is in the expression, is followed by a byte   *)
(*                  that cannot continue a number or start an identifier,   *)
(*                  and no longer prefix of the text is in the expression   *)
(*                  unless the scanner reports an invalid token             *)
(***************************************************************************)
EXTENDS Lexer, TLC

CONSTANT MaxLen

Alphabet == {48, 49, 57, 46, 101, 69, 43, 45, 97, 95}

VARIABLES w, st

Init == w = <<>> /\ st = "Start"

\* how lexer.Lex enters the scanner
Delta(s, ch) ==
  CASE s = "Start" -> IF IsDigit(ch) THEN "Lead" ELSE IF ch = 46 THEN "Dot" ELSE "NoNumber"
    [] s = "Dot" -> IF IsDigit(ch) THEN "Float" ELSE "NoNumber"
    [] OTHER -> NumDelta(s, ch)

Feed(ch) == Len(w) < MaxLen /\ w' = Append(w, ch) /\ st' = Delta(st, ch)
Next == \E ch \in Alphabet : Feed(ch)
Spec == Init /\ [][Next]_<<w, st>>

----------------------------------------------------------------------------
\* the recursive transcription: is the whole text one number token
ScanWhole(s) ==
  IF Len(s) = 0 THEN FALSE
  ELSE IF IsDigit(s[1]) THEN ScanNumber(s, 1, "Lead") = Len(s)
  ELSE s[1] = 46 /\ Len(s) >= 2 /\ IsDigit(s[2]) /\ ScanNumber(s, 1, "Float") = Len(s)

\* the regular expression, declaratively; positions are 1-based, a..b inclusive
Digits(s, a, b) == \A p \in a..b : IsDigit(s[p])
ExpAt(s, j) ==      \* s[j+1..] is [eE] [+-]? D+
  /\ j + 1 <= Len(s) /\ s[j + 1] \in {101, 69}
  /\ LET d == IF j + 2 <= Len(s) /\ s[j + 2] \in {43, 45} THEN j + 3 ELSE j + 2
     IN d <= Len(s) /\ Digits(s, d, Len(s))
InRegex(s) ==
  \E i \in 0..Len(s) :          \* s[1..i] integer digits
    /\ Digits(s, 1, i)
    /\ \E j \in i..Len(s) :     \* s[i+1..j] is empty or '.' D*
         /\ (j = i \/ (s[i + 1] = 46 /\ Digits(s, i + 2, j)))
         /\ (i >= 1 \/ j >= i + 2)
         /\ (j = Len(s) \/ ExpAt(s, j))
Rest(s) == SubSeq(s, 2, Len(s))
InSignedRegex(s) == IF Len(s) > 0 /\ s[1] \in {43, 45} THEN InRegex(Rest(s)) ELSE InRegex(s)

DfaIsScanner == (st \in {"Lead", "Float", "Exp"}) = ScanWhole(w)
ScannerIsRegex == ScanWhole(w) = InRegex(w)
TonumberIsRegex == ValidNumber(w) = InSignedRegex(w)

\* the token the scanner cuts from the front of the text (0: none, negative: invalid token)
FirstToken(s) ==
  IF Len(s) = 0 THEN 0
  ELSE IF IsDigit(s[1]) THEN ScanNumber(s, 1, "Lead")
  ELSE IF s[1] = 46 /\ Len(s) >= 2 /\ IsDigit(s[2]) THEN ScanNumber(s, 1, "Float")
  ELSE 0
PrefixToken ==
  LET k == FirstToken(w) IN
  /\ k > 0 => /\ InRegex(SubSeq(w, 1, k))
              /\ k < Len(w) => ~IsDigit(w[k + 1]) /\ ~IsIdentStart(w[k + 1])
              /\ \A m \in (k + 1)..Len(w) : ~InRegex(SubSeq(w, 1, m))
  /\ k < 0 => ~InRegex(SubSeq(w, 1, 0 - k))     \* an invalid token is never a number
=============================================================================
