SPECIFICATION Spec
CONSTANTS
  W = 10
  MaxDepth = 1
  Bound = 4096
VIEW View
INVARIANT Exactness
INVARIANT StepOK
CHECK_DEADLOCK FALSE
