SPECIFICATION Spec
CONSTANTS
  W = 10
  MaxDepth = 1
  Bound = 4096
  Dense = FALSE
VIEW View
INVARIANT Exactness
INVARIANT StepOK
CHECK_DEADLOCK FALSE
