CONSTANTS SliceSharesCap = FALSE InPlaceSlice = TRUE InPlaceEscaped = TRUE EscapeFix = TRUE
INIT Init
NEXT Next
INVARIANT I3
INVARIANT I1
INVARIANT I2
CHECK_DEADLOCK FALSE
