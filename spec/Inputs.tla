------------------------------- MODULE Inputs -------------------------------
(***************************************************************************)
(* C16 - the input side of the gojq command: cli/inputs.go (per-format      *)
(* readers, filesInputIter, the slurp wrappers, nullInputIter),             *)
(* cli/cli.go createInputIter + process, and compiler.go funcInput /        *)
(* builtin.jq inputs, which pull from the SAME iterator as the main loop.   *)
(*                                                                         *)
(* Everything is a function of explicit state records, structured like the *)
(* code; InputsMC.tla drives them as a state machine (one action per         *)
(* main-loop pull, one per query run) and ValidateC16.tla uses them as the   *)
(* oracle for runs of the real binary.                                      *)
(*                                                                         *)
(*   item     [k |-> "val", v] | [k |-> "err"] | [k |-> "none"] | [k |-> "oom"]*)
(*   reader   [text, pos, err, st]      one per-format iterator over a text   *)
(*   it       the iterator stack: [fmt, single, fnames, cur, ferr, slurp,     *)
(*            sdone, fs, stdin, used, log]                                    *)
(*   log      ghost: every item any consumer obtained, in order, with who     *)
(***************************************************************************)
EXTENDS Stream

ValItem(v) == [k |-> "val", v |-> v]
ErrItem == [k |-> "err"]
NoneItem == [k |-> "none"]
OomItem == [k |-> "oom"]

\* ---------------------------------------------------------------------------
\* per-format readers (newJSONInputIter, newStreamInputIter, newRawInputIter, newReadAllIter)
NoReader == [none |-> TRUE]
NewReader(text) == [text |-> text, pos |-> 1, err |-> FALSE, st |-> StreamInit]

RECURSIVE FindByte(_, _, _)
FindByte(t, i, b) == IF i > Len(t) THEN 0 ELSE IF t[i] = b THEN i ELSE FindByte(t, i + 1, b)

StrOfBytes(bs) == LET u == Utf8Decode(bs) IN IF u.ok THEN ValItem(Str(u.s)) ELSE OomItem

\* -> [item, r]
ReaderNext(fmt, r) ==
  IF r.err THEN [item |-> NoneItem, r |-> r]
  ELSE
  CASE fmt = "json" ->                                  \* jsonInputIter.Next over dec.Decode
         (LET x == DecodeNext(r.text, r.pos) IN
          CASE x.k = "ok" -> [item |-> ValItem(x.v), r |-> [r EXCEPT !.pos = x.j]]
            [] x.k = "end" -> [item |-> NoneItem, r |-> [r EXCEPT !.err = TRUE]]
            [] x.k = "oom" -> [item |-> OomItem, r |-> [r EXCEPT !.err = TRUE]]
            [] OTHER -> [item |-> ErrItem, r |-> [r EXCEPT !.err = TRUE]])      \* the error is emitted once, then the input is over
    [] fmt = "stream" ->                                \* jsonInputIter.Next over jsonStream.next
         (LET x == StreamNext(r.text, r.st) IN
          CASE x.r = "event" -> [item |-> ValItem(x.e), r |-> [r EXCEPT !.st = x.s]]
            [] x.r = "end" -> [item |-> NoneItem, r |-> [r EXCEPT !.err = TRUE]]
            [] x.r = "err" -> [item |-> ErrItem, r |-> [r EXCEPT !.err = TRUE]]
            [] OTHER -> [item |-> OomItem, r |-> [r EXCEPT !.err = TRUE]])
    [] fmt = "raw" ->                                   \* rawInputIter.Next: ReadString('\n'), TrimSuffix "\n"
         (LET q == FindByte(r.text, r.pos, 10) IN
          IF q # 0 THEN [item |-> StrOfBytes(SubSeq(r.text, r.pos, q - 1)), r |-> [r EXCEPT !.pos = q + 1]]
          ELSE IF r.pos > Len(r.text) THEN [item |-> NoneItem, r |-> [r EXCEPT !.err = TRUE]]
          ELSE [item |-> StrOfBytes(SubSeq(r.text, r.pos, Len(r.text))), r |-> [r EXCEPT !.err = TRUE, !.pos = Len(r.text) + 1]])
    [] fmt = "readall" ->                               \* readAllIter.Next
         [item |-> StrOfBytes(r.text), r |-> [r EXCEPT !.err = TRUE]]

\* ---------------------------------------------------------------------------
\* createInputIter.  m = [null, slurp, raw, stream]; files = the file arguments ("-" = standard input);
\* fs = record name |-> bytes (a name not in its domain does not exist); stdin = bytes
FmtOf(m) == CASE m.raw /\ m.slurp -> "readall" [] m.raw -> "raw" [] m.stream -> "stream" [] OTHER -> "json"
IterInit(m, files, fs, stdin) ==
  [fmt |-> FmtOf(m), single |-> Len(files) = 0, fnames |-> files,
   cur |-> IF Len(files) = 0 THEN NewReader(stdin) ELSE NoReader,
   ferr |-> FALSE, slurp |-> m.slurp, rawslurp |-> m.raw /\ m.slurp, sdone |-> FALSE,
   fs |-> fs, stdin |-> stdin, used |-> FALSE, log |-> <<>>]

RECURSIVE FilesNext(_)
\* filesInputIter.Next -> [item, it]
FilesNext(it) ==
  IF it.ferr THEN [item |-> NoneItem, it |-> it]
  ELSE IF "none" \in DOMAIN it.cur THEN
     (IF Len(it.fnames) = 0 THEN [item |-> NoneItem, it |-> [it EXCEPT !.ferr = TRUE]]
      ELSE LET f == Head(it.fnames)
               it1 == [it EXCEPT !.fnames = Tail(@)]
           IN IF f = "-" THEN
                 \* standard input a second time: everything was read the first time (small inputs; see checks/c16.md)
                 FilesNext([it1 EXCEPT !.cur = NewReader(IF it.used THEN <<>> ELSE it.stdin), !.used = TRUE])
              ELSE IF f \notin DOMAIN it.fs THEN [item |-> ErrItem, it |-> it1]      \* os.Open failed: reported, next file
              ELSE FilesNext([it1 EXCEPT !.cur = NewReader(it.fs[f])]))
  ELSE LET x == ReaderNext(it.fmt, it.cur) IN
       IF x.item.k # "none" THEN [item |-> x.item, it |-> [it EXCEPT !.cur = x.r]]
       ELSE FilesNext([it EXCEPT !.cur = NoReader])

BaseNext(it) ==
  IF it.single THEN LET x == ReaderNext(it.fmt, it.cur) IN [item |-> x.item, it |-> [it EXCEPT !.cur = x.r]]
  ELSE FilesNext(it)

RECURSIVE SlurpLoop(_, _)
\* slurpInputIter.Next / slurpRawInputIter.Next: the loop
SlurpLoop(it, vs) ==
  LET x == BaseNext(it) IN
  CASE x.item.k = "none" ->
         [item |-> IF it.rawslurp THEN ValItem(Str(ConcatAll([i \in 1..Len(vs) |-> vs[i].s], 1))) ELSE ValItem(Arr(vs)),
          it |-> [x.it EXCEPT !.sdone = TRUE]]
    [] x.item.k = "val" -> SlurpLoop(x.it, Append(vs, x.item.v))
    [] OTHER -> [item |-> x.item, it |-> [x.it EXCEPT !.sdone = TRUE]]      \* an error ends the slurp: nothing else is delivered

\* the iterator createInputIter returns: Next()
IterNext(it) ==
  IF ~it.slurp THEN BaseNext(it)
  ELSE IF it.sdone THEN [item |-> NoneItem, it |-> it]
  ELSE SlurpLoop(it, <<>>)

\* Next() called by `who` ("main" loop or "query"), with the ghost log
Pull(it, who) ==
  LET x == IterNext(it) IN
  [item |-> x.item, it |-> IF x.item.k = "none" THEN x.it ELSE [x.it EXCEPT !.log = Append(@, [by |-> who, item |-> x.item])]]

\* ---------------------------------------------------------------------------
\* The query, in a small language whose every form has a fixed jq text (lib side: checks/c16.py render()):
\*   dot `.`   input   inputs   empty   lit(c)   var(n) `$n`   comma(l, r) `l, r`   collect(b) `[b]`
\*   try(b, h) `try b catch h` (h a literal)   first(b)   limit(n, b)   drain(b) `(b | empty)`
\*   tostream   fromstream(b)
\* Ev(e, v, vars, it, n): run e on v, stop as soon as n outputs exist (label/break of first/limit).
\*   -> [o |-> outputs, err |-> "none" | "err" | "oom", it]
\* Evaluation order is jq's: left to right, depth first; there is no pipe, so no suspended generator
\* has effects pending while another runs.
Inf == 1000000
EvR(o, err, it) == [o |-> o, err |-> err, it |-> it]

RECURSIVE InputsLoop(_, _, _)
\* builtin.jq: def inputs: try repeat(input) catch if . == "break" then empty else error end;
InputsLoop(it, n, acc) ==
  LET x == Pull(it, "query") IN
  CASE x.item.k = "none" -> EvR(acc, "none", x.it)             \* funcInput: "break", swallowed by inputs
    [] x.item.k = "err" -> EvR(acc, "err", x.it)                \* the parse error is raised in the query
    [] x.item.k = "oom" -> EvR(acc, "oom", x.it)
    [] OTHER -> IF Len(acc) + 1 >= n THEN EvR(Append(acc, x.item.v), "none", x.it) ELSE InputsLoop(x.it, n, Append(acc, x.item.v))

RECURSIVE Ev(_, _, _, _, _)
Ev(e, v, vars, it, n) ==
  CASE e.op = "dot" -> EvR(<<v>>, "none", it)
    [] e.op = "lit" -> EvR(<<e.c>>, "none", it)
    [] e.op = "empty" -> EvR(<<>>, "none", it)
    [] e.op = "var" -> (IF e.n \in DOMAIN vars THEN EvR(<<vars[e.n]>>, "none", it) ELSE EvR(<<>>, "oom", it))
    [] e.op = "input" ->                                  \* compiler.go funcInput
         (LET x == Pull(it, "query") IN
          CASE x.item.k = "val" -> EvR(<<x.item.v>>, "none", x.it)
            [] x.item.k = "oom" -> EvR(<<>>, "oom", x.it)
            [] OTHER -> EvR(<<>>, "err", x.it))               \* past the end: error "break"; a parse error: that error
    [] e.op = "inputs" -> InputsLoop(it, n, <<>>)
    [] e.op = "comma" ->
         (LET a == Ev(e.l, v, vars, it, n) IN
          IF a.err # "none" \/ Len(a.o) >= n THEN a
          ELSE LET b == Ev(e.r, v, vars, a.it, n - Len(a.o)) IN EvR(a.o \o b.o, b.err, b.it))
    [] e.op = "collect" ->
         (LET a == Ev(e.b, v, vars, it, Inf) IN IF a.err # "none" THEN EvR(<<>>, a.err, a.it) ELSE EvR(<<Arr(a.o)>>, "none", a.it))
    [] e.op = "try" ->
         (LET a == Ev(e.b, v, vars, it, n) IN IF a.err = "err" THEN EvR(Append(a.o, e.h), "none", a.it) ELSE a)
    [] e.op = "first" -> Ev(e.b, v, vars, it, 1)
    [] e.op = "limit" -> (IF e.n <= 0 THEN EvR(<<>>, "none", it) ELSE Ev(e.b, v, vars, it, IF e.n < n THEN e.n ELSE n))
    [] e.op = "drain" -> (LET a == Ev(e.b, v, vars, it, Inf) IN EvR(<<>>, a.err, a.it))
    [] e.op = "tostream" -> (LET q == ToStream(v) IN EvR(IF Len(q) > n THEN SubSeq(q, 1, n) ELSE q, "none", it))
    [] e.op = "fromstream" ->                              \* emits every value completed before an error of its argument
         (IF n # Inf THEN EvR(<<>>, "oom", it)
          ELSE LET a == Ev(e.b, v, vars, it, Inf)
                   f == FromStream(a.o)
               IN IF ~f.ok THEN EvR(<<>>, "oom", a.it) ELSE EvR(f.vs, a.err, a.it))

\* ---------------------------------------------------------------------------
\* cli.go process: the main loop.  Run state: [it, ndone, out, nerr, oom]
\*   m.null: the loop iterates over nullInputIter (one null) while input/inputs still read `it`
RunInit(m, files, fs, stdin) == [it |-> IterInit(m, files, fs, stdin), null |-> m.null, ndone |-> FALSE, out |-> <<>>, nerr |-> 0, oom |-> FALSE]

\* iter.Next() of the main loop -> [item, rs]
MainNext(rs) ==
  IF rs.null THEN (IF rs.ndone THEN [item |-> NoneItem, rs |-> rs] ELSE [item |-> ValItem(Null), rs |-> [rs EXCEPT !.ndone = TRUE]])
  ELSE LET x == Pull(rs.it, "main") IN [item |-> x.item, rs |-> [rs EXCEPT !.it = x.it]]

\* code.Run(v) + printValues: the outputs up to the first error are printed, an error is reported once
RunQuery(rs, prog, vars, v) ==
  LET a == Ev(prog, v, vars, rs.it, Inf) IN
  [rs EXCEPT !.it = a.it, !.out = @ \o a.o, !.nerr = IF a.err = "err" THEN @ + 1 ELSE @, !.oom = @ \/ a.err = "oom"]

RECURSIVE Process(_, _, _)
\* the whole loop -> final run state
Process(rs, prog, vars) ==
  LET x == MainNext(rs) IN
  CASE x.item.k = "none" -> x.rs
    [] x.item.k = "err" -> Process([x.rs EXCEPT !.nerr = @ + 1], prog, vars)       \* printed, `continue`
    [] x.item.k = "oom" -> [x.rs EXCEPT !.oom = TRUE]
    [] OTHER -> LET r == RunQuery(x.rs, prog, vars, x.item.v) IN IF r.oom THEN r ELSE Process(r, prog, vars)

\* ---------------------------------------------------------------------------
\* the requirement, declaratively: the items the whole input denotes, in stream order
RECURSIVE ReaderAll(_, _, _)
ReaderAll(fmt, r, acc) == LET x == ReaderNext(fmt, r) IN IF x.item.k = "none" THEN acc ELSE ReaderAll(fmt, x.r, Append(acc, x.item))

RECURSIVE SourcesItems(_, _, _, _, _)
\* sources in argument order; each source: its values, then one error if it is malformed, then nothing more of it
SourcesItems(fmt, files, fs, stdin, used) ==
  IF Len(files) = 0 THEN <<>>
  ELSE LET f == Head(files) IN
       IF f = "-" THEN ReaderAll(fmt, NewReader(IF used THEN <<>> ELSE stdin), <<>>) \o SourcesItems(fmt, Tail(files), fs, stdin, TRUE)
       ELSE IF f \notin DOMAIN fs THEN <<ErrItem>> \o SourcesItems(fmt, Tail(files), fs, stdin, used)
       ELSE ReaderAll(fmt, NewReader(fs[f]), <<>>) \o SourcesItems(fmt, Tail(files), fs, stdin, used)

RECURSIVE FirstNonVal(_, _)
FirstNonVal(items, i) == IF i > Len(items) THEN 0 ELSE IF items[i].k # "val" THEN i ELSE FirstNonVal(items, i + 1)

AllItems(m, files, fs, stdin) ==
  LET base == IF Len(files) = 0 THEN ReaderAll(FmtOf(m), NewReader(stdin), <<>>) ELSE SourcesItems(FmtOf(m), files, fs, stdin, FALSE)
  IN IF ~m.slurp THEN base
     ELSE LET b == FirstNonVal(base, 1) IN
          IF b # 0 THEN <<base[b]>>
          ELSE IF m.raw THEN <<ValItem(Str(ConcatAll([i \in 1..Len(base) |-> base[i].v.s], 1)))>>
          ELSE <<ValItem(Arr([i \in 1..Len(base) |-> base[i].v]))>>
=============================================================================
