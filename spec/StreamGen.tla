------------------------------ MODULE StreamGen ------------------------------
(***************************************************************************)
(* C16 - generator: writes the text of every stream of the StreamMC          *)
(* universe (StreamUniverse.tla) as ndjson {t: bytes, n: documents}; the     *)
(* check replays each, whole and cut after every byte, on the real binary.   *)
(***************************************************************************)
EXTENDS StreamUniverse, Json, IOUtils, SequencesExt

VARIABLE gdone
Init == gdone = ndJsonSerialize(IOEnv.VERIF_OUT, SetToSeq({[t |-> TextOf(f, 1), n |-> Len(f)] : f \in AllStreams}))
Next == UNCHANGED gdone
=============================================================================
