CONSTANTS
  Deep = FALSE
  Wide = FALSE
INIT Init
NEXT Next
INVARIANTS NoOom ExactlyOnceInOrder AllConsumed NullOnce Laws SlurpLaw OracleAgrees
CHECK_DEADLOCK TRUE
