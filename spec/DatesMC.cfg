CONSTANTS Block = 400 Stride = 37
INIT Init
NEXT Next
INVARIANT Laws
CHECK_DEADLOCK FALSE
