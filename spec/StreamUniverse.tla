---------------------------- MODULE StreamUniverse ----------------------------
(***************************************************************************)
(* C16 - the universe of StreamMC.tla / StreamGen.tla: every stream of at   *)
(* most MaxDocs documents with at most MaxNodes nodes in total.  Scalars 1   *)
(* and "a", the empty containers, arrays, objects whose (duplicate-free)    *)
(* keys are drawn from {a, b} in EVERY order, any nesting.  Text: compact,  *)
(* documents separated by one line feed.                                    *)
(***************************************************************************)
EXTENDS Stream, TLC

CONSTANTS MaxNodes, MaxDocs

Scalars == {Num(1), Str(<<97>>)}
Keys == {<<97>>, <<98>>}
Leaves == Scalars \cup {EmptyArr, EmptyObj}
Sep == <<10>>

InjSeqs(l) == {ks \in [1..l -> Keys] : \A i, j \in 1..l : i # j => ks[i] # ks[j]}

RECURSIVE Forests(_, _), Trees(_)
\* the sequences of at most m documents with exactly n nodes in total
Forests(n, m) ==
  IF n = 0 THEN {<<>>} ELSE IF m = 0 THEN {}
  ELSE UNION {{<<d>> \o f : d \in Trees(k), f \in Forests(n - k, m - 1)} : k \in 1..n}
Trees(n) ==
  IF n = 1 THEN Leaves
  ELSE {Arr(f) : f \in Forests(n - 1, n)}
       \cup UNION {{Obj([i \in 1..Len(f) |-> <<ks[i], f[i]>>]) : ks \in InjSeqs(Len(f))} : f \in Forests(n - 1, Cardinality(Keys))}

RECURSIVE TextOf(_, _)
TextOf(f, i) == IF i > Len(f) THEN <<>> ELSE JsonText(f[i]).s \o (IF i < Len(f) THEN Sep ELSE <<>>) \o TextOf(f, i + 1)

RECURSIVE AllEventEnds(_, _, _)
\* events of all documents with their completing byte; the last byte of each document; the clean cut positions
AllEventEnds(f, i, off) ==
  IF i > Len(f) THEN [evs |-> <<>>, clean |-> {}, ends |-> <<>>]
  ELSE LET x == EventEnds(f[i], <<>>, off)
           r == AllEventEnds(f, i + 1, x.next + Len(Sep))
       IN [evs |-> x.evs \o r.evs,
           ends |-> <<x.next - 1>> \o r.ends,                         \* the last byte of each document
           clean |-> {c \in (x.next - 1)..(x.next - 1 + Len(Sep)) : i < Len(f) \/ c = x.next - 1} \cup r.clean]

AllStreams == UNION {Forests(n, MaxDocs) : n \in 1..MaxNodes}
=============================================================================
