-------------------------------- MODULE Cli --------------------------------
(***************************************************************************)
(* C15 - the gojq command prints exactly what the library yields, with the  *)
(* documented statuses.                                                     *)
(*                                                                          *)
(* The module has four parts, in the order of the code:                     *)
(*                                                                          *)
(*  1. ParseArgs      cli/flags.go parseFlags, restricted to the flags of   *)
(*                    the property (-r -j --raw-output0 -c --tab --indent n *)
(*                    -e -n -s, long/short/clustered/--name=value spellings,*)
(*                    `--`, unknown flags, missing/invalid arguments)       *)
(*  2. OutText        cli/cli.go createMarshaler + printValues terminators, *)
(*                    cli/marshaler.go rawMarshaler, cli/encoder.go encoder *)
(*                    (indent writer: compact / --indent n / --tab)         *)
(*  3. the machine    cli/cli.go run, runInternal, process, printValues and *)
(*                    the error types of cli/error.go and error.go, one     *)
(*                    action per code-level step                            *)
(*  4. the property   what C15 states, as a function of the scenario alone  *)
(*                    (Expected), and the invariants that tie the machine   *)
(*                    to it                                                 *)
(*                                                                          *)
(* The library is an oracle: a scenario says, for every input the command   *)
(* feeds to the query, which sequence of events Iter.Next() yields:         *)
(*     [k |-> "val",  v |-> value]                                          *)
(*     [k |-> "err",  msg |-> code points of err.Error()]  (c |-> ExitCode  *)
(*                    if the error type has one)                            *)
(*     [k |-> "halt", v |-> value, c |-> code]     halt / halt_error        *)
(*     [k |-> "dbg", v |-> value], [k |-> "stderr", v |-> value]            *)
(*                    a call of the command's `debug` / `stderr` function   *)
(*                    during Next() (no yield: a message on stderr)         *)
(* The machine is deterministic once the scenario is fixed.                 *)
(*                                                                          *)
(* A scenario:                                                              *)
(*   [ args  |-> <<token, ...>>,       the command line (see ParseArgs)     *)
(*     query |-> "ok"|"parse"|"compile"  class of the query text            *)
(*     docs  |-> <<events, ...>>,      per well-formed document on stdin:   *)
(*                                     what the library yields on it        *)
(*     bad   |-> BOOLEAN,              a malformed tail follows the docs    *)
(*     onull |-> events,               what the library yields on null (-n) *)
(*     oslurp|-> events ]              ... and on the array of all documents *)
(*                                     (-s); only the one in use matters    *)
(***************************************************************************)
EXTENDS Text, TLC

-----------------------------------------------------------------------------
(* 1. cli/flags.go: parseFlags on the flags of the property                 *)
(*                                                                          *)
(* Tokens (TLC has no character access, so argv is structured; the driver   *)
(* renders each token to its text):                                         *)
(*   [k |-> "long",   name |-> "tab"]               --tab                   *)
(*   [k |-> "longeq", name |-> "indent", int |-> TRUE, n |-> 3]  --indent=3 *)
(*   [k |-> "longeq", name |-> "tab", int |-> FALSE, n |-> 0]    --tab=x    *)
(*   [k |-> "short",  fl |-> <<"r","c">>]           -rc                     *)
(*   [k |-> "int",    n |-> 3]                      3   (or -1)             *)
(*   [k |-> "pos"]                                  the query text          *)
(*   [k |-> "dd"]                                   --                      *)
(***************************************************************************)
DefaultOpts == [r |-> FALSE, j |-> FALSE, z |-> FALSE, c |-> FALSE, tab |-> FALSE,
                indset |-> FALSE, ind |-> 0, e |-> FALSE, n |-> FALSE, s |-> FALSE]

BoolLong == {"raw-output", "raw-output0", "join-output", "compact-output", "tab",
             "exit-status", "null-input", "slurp"}
\* the struct tags of flagopts: kind of the field a long name selects
LongKind(name) == IF name \in BoolLong THEN "bool" ELSE IF name = "indent" THEN "int" ELSE "none"
\* short:"x" tags
ShortLong(ch) == CASE ch = "r" -> "raw-output" [] ch = "j" -> "join-output" [] ch = "c" -> "compact-output"
                   [] ch = "e" -> "exit-status" [] ch = "n" -> "null-input" [] ch = "s" -> "slurp"
                   [] OTHER -> "none"

SetBool(o, name) ==
  CASE name = "raw-output" -> [o EXCEPT !.r = TRUE]
    [] name = "raw-output0" -> [o EXCEPT !.z = TRUE]
    [] name = "join-output" -> [o EXCEPT !.j = TRUE]
    [] name = "compact-output" -> [o EXCEPT !.c = TRUE]
    [] name = "tab" -> [o EXCEPT !.tab = TRUE]
    [] name = "exit-status" -> [o EXCEPT !.e = TRUE]
    [] name = "null-input" -> [o EXCEPT !.n = TRUE]
    [] name = "slurp" -> [o EXCEPT !.s = TRUE]
SetIndent(o, n) == [o EXCEPT !.indset = TRUE, !.ind = n]

FlagErr(class) == [ok |-> FALSE, err |-> class]

RECURSIVE ShortCluster(_, _, _)
\* label L of parseFlags: the letters of -abc one by one; all short flags of the subset are boolean
ShortCluster(fl, i, o) ==
  IF i > Len(fl) THEN [ok |-> TRUE, o |-> o]
  ELSE IF ShortLong(fl[i]) = "none" THEN FlagErr("unknown")
  ELSE ShortCluster(fl, i + 1, SetBool(o, ShortLong(fl[i])))

RECURSIVE PF(_, _, _, _, _)
\* the for loop of parseFlags: i = index, o = options so far, rest = positional arguments, done = after `--`
PF(args, i, o, rest, done) ==
  IF i > Len(args) THEN [ok |-> TRUE, o |-> o, rest |-> rest]
  ELSE LET a == args[i] IN
    IF done THEN PF(args, i + 1, o, Append(rest, a), done)
    ELSE CASE a.k = "dd" -> PF(args, i + 1, o, rest, TRUE)
           [] a.k = "long" ->
                (CASE LongKind(a.name) = "bool" -> PF(args, i + 1, SetBool(o, a.name), rest, done)
                   [] LongKind(a.name) = "int" ->          \* case reflect.Pointer: the next argument, whatever it is
                        IF i + 1 > Len(args) THEN FlagErr("noarg")
                        ELSE IF args[i + 1].k = "int" THEN PF(args, i + 2, SetIndent(o, args[i + 1].n), rest, done)
                        ELSE FlagErr("badarg")              \* strconv.Atoi fails on every other token
                   [] OTHER -> FlagErr("unknown"))
           [] a.k = "longeq" ->
                (CASE LongKind(a.name) = "bool" -> FlagErr("boolarg")
                   [] LongKind(a.name) = "int" -> IF a.int THEN PF(args, i + 1, SetIndent(o, a.n), rest, done) ELSE FlagErr("badarg")
                   [] OTHER -> FlagErr("unknown"))
           [] a.k = "short" ->
                LET r == ShortCluster(a.fl, 1, o) IN
                IF r.ok THEN PF(args, i + 1, r.o, rest, done) ELSE r
           [] OTHER -> PF(args, i + 1, o, Append(rest, a), done)    \* "int" (also negative: `-1` is not a flag), "pos"

ParseArgs(args) == PF(args, 1, DefaultOpts, <<>>, FALSE)

-----------------------------------------------------------------------------
(* 2. rendering: createMarshaler, rawMarshaler, encoder, terminators        *)
(***************************************************************************)
\* createMarshaler: compact beats tab beats --indent n beats the default 2
IndentOf(o) == IF o.c THEN -1 ELSE IF o.tab THEN 1 ELSE IF o.indset THEN o.ind ELSE 2
Raw(o) == o.r \/ o.z \/ o.j

IndentText(n, tab) == [i \in 1..n |-> IF tab THEN 9 ELSE 32]
\* encoder.writeIndent, called only when e.indent >= 0
NewLine(ind, tab, depth) == IF ind >= 0 THEN <<10>> \o IndentText(depth, tab) ELSE <<>>

RECURSIVE Enc(_, _, _, _)
\* cli/encoder.go encode: text (code points) of v at nesting depth `depth` (in indentation units)
Enc(v, ind, tab, depth) ==
  CASE v.t = "null" -> NullText
    [] v.t = "bool" -> ScalarText(v)
    [] IsNumber(v) -> (IF v.t = "float" /\ "txt" \in DOMAIN v THEN v.txt ELSE NumText(v).s)      \* txt: the library encoder's text of a double (logged primitive)
    [] v.t = "str" -> QuoteStr(v.s)
    [] v.t = "arr" ->
         LET d2 == depth + ind
             RECURSIVE F(_)
             F(i) == IF i > Len(v.a) THEN <<>>
                     ELSE (IF i > 1 THEN <<44>> ELSE <<>>) \o NewLine(ind, tab, d2) \o Enc(v.a[i], ind, tab, d2) \o F(i + 1)
         IN <<91>> \o F(1) \o (IF Len(v.a) > 0 THEN NewLine(ind, tab, depth) ELSE <<>>) \o <<93>>
    [] v.t = "obj" ->
         LET d2 == depth + ind
             RECURSIVE F(_)
             F(i) == IF i > Len(v.o) THEN <<>>
                     ELSE (IF i > 1 THEN <<44>> ELSE <<>>) \o NewLine(ind, tab, d2) \o QuoteStr(v.o[i][1]) \o <<58>>
                          \o (IF ind >= 0 THEN <<32>> ELSE <<>>) \o Enc(v.o[i][2], ind, tab, d2) \o F(i + 1)
         IN <<123>> \o F(1) \o (IF Len(v.o) > 0 THEN NewLine(ind, tab, depth) ELSE <<>>) \o <<125>>

\* gojq.Marshal (the library's compact encoder), used for the messages on stderr; doubles through their logged text
CompactText(v) == Enc(v, -1, FALSE, 0)

RECURSIVE Renderable(_)
\* values whose text the model decides (opaque doubles, invalid UTF-8 are out of model)
Renderable(v) ==
  CASE v.t \in {"null", "bool", "num", "big", "frac", "str"} -> TRUE
    [] v.t = "float" -> v.f \in {"nan", "inf", "-inf"} \/ "txt" \in DOMAIN v
    [] v.t = "arr" -> \A i \in 1..Len(v.a) : Renderable(v.a[i])
    [] v.t = "obj" -> \A i \in 1..Len(v.o) : Renderable(v.o[i][2])
    [] OTHER -> FALSE

HasNul(v) == v.t = "str" /\ \E i \in 1..Len(v.s) : v.s[i] = 0
\* rawMarshaler.marshal with checkNul = cli.outputRaw0: the only way marshal fails
MarshalFails(v, o) == o.z /\ HasNul(v)
Body(v, o) == IF Raw(o) /\ v.t = "str" THEN v.s ELSE Enc(v, IndentOf(o), o.tab, 0)
\* printValues: NUL under --raw-output0, else nothing under -j, else newline
Terminator(o) == IF o.z THEN <<0>> ELSE IF o.j THEN <<>> ELSE <<10>>
OutText(v, o) == Body(v, o) \o Terminator(o)

RECURSIVE RenderAll(_, _)
RenderAll(vs, o) == IF vs = <<>> THEN <<>> ELSE OutText(Head(vs), o) \o RenderAll(Tail(vs), o)

-----------------------------------------------------------------------------
(* diagnostics: what goes to stderr.  Texts whose tail belongs to another   *)
(* property (C17 positions, Go's %q) are classes: a fixed prefix followed by *)
(* the rest of the line / of the stream.                                    *)
(***************************************************************************)
Exact(s) == [k |-> "exact", s |-> s]
Line(p) == [k |-> "line", p |-> p]     \* p, any text without a newline, newline
Rest(p) == [k |-> "rest", p |-> p]     \* p, then anything up to the end of stderr (always the last diagnostic)

TGojq == <<103,111,106,113,58,32>>                                                               \* "gojq: "
TUnknownFlag == <<117,110,107,110,111,119,110,32,102,108,97,103,32,96>>                          \* "unknown flag `"
TBoolArg == <<98,111,111,108,101,97,110,32,102,108,97,103,32,96>>                                \* "boolean flag `"
TNoArg == <<101,120,112,101,99,116,101,100,32,97,114,103,117,109,101,110,116,32,102,111,114,32,102,108,97,103,32,96>>   \* "expected argument for flag `"
TBadArg == <<105,110,118,97,108,105,100,32,97,114,103,117,109,101,110,116,32,102,111,114,32,102,108,97,103,32,96>>      \* "invalid argument for flag `"
TIndentMany == <<116,111,111,32,109,97,110,121,32,105,110,100,101,110,116,97,116,105,111,110,32,99,111,117,110,116,58,32>>   \* "too many indentation count: "
TIndentNeg == <<110,101,103,97,116,105,118,101,32,105,110,100,101,110,116,97,116,105,111,110,32,99,111,117,110,116,58,32>>   \* "negative indentation count: "
TInvalidQuery == <<105,110,118,97,108,105,100,32,113,117,101,114,121,58,32>>                     \* "invalid query: "
TCompileError == <<99,111,109,112,105,108,101,32,101,114,114,111,114,58,32>>                     \* "compile error: "
TInvalidJson == <<105,110,118,97,108,105,100,32,106,115,111,110,58,32,60,115,116,100,105,110,62>>      \* "invalid json: <stdin>" (then ":line" or a newline: C17)
TErrorColon == <<101,114,114,111,114,58,32>>                                                     \* "error: "
TNulChar == <<99,97,110,110,111,116,32,111,117,116,112,117,116,32,97,32,115,116,114,105,110,103,32,99,111,110,116,97,105,110,105,110,103,32,78,85,76,32,99,104,97,114,97,99,116,101,114,58,32>>   \* "cannot output a string containing NUL character: "

FlagDiag(class) == Line(TGojq \o (CASE class = "unknown" -> TUnknownFlag [] class = "boolarg" -> TBoolArg
                                    [] class = "noarg" -> TNoArg [] class = "badarg" -> TBadArg))
IndentDiag(n) == Exact(TGojq \o (IF n > 9 THEN TIndentMany ELSE TIndentNeg) \o IntText(Num(n)) \o <<10>>)
QueryDiag(class) == IF class = "parse" THEN Rest(TGojq \o TInvalidQuery) ELSE Line(TGojq \o TCompileError)
InputDiag == Rest(TGojq \o TInvalidJson)
NulDiag == Line(TGojq \o TNulChar)
\* process: fmt.Fprintf(cli.errStream, "%s: %s\n", name, e)
ErrDiag(ev) == Exact(TGojq \o ev.msg \o <<10>>)
\* process, *gojq.HaltError branch: nothing for null, a string raw, anything else as compact JSON and a newline
HaltDiag(ev) == IF ev.v.t = "null" THEN <<>>
                ELSE IF ev.v.t = "str" THEN <<Exact(ev.v.s)>>
                ELSE <<Exact(CompactText(ev.v) \o <<10>>)>>

\* cli.funcDebug: ["DEBUG:",v] compact and a newline; cli.funcStderr: v raw (string) or compact, no newline
TDebug == <<68,69,66,85,71,58>>                                                                  \* "DEBUG:"
IsSide(ev) == ev.k \in {"dbg", "stderr"}
SideDiag(ev) == IF ev.k = "dbg" THEN Exact(CompactText(Arr(<<Str(TDebug), ev.v>>)) \o <<10>>)
                ELSE Exact(IF ev.v.t = "str" THEN ev.v.s ELSE CompactText(ev.v))
DbgEv(v) == [k |-> "dbg", v |-> v]
SerrEv(v) == [k |-> "stderr", v |-> v]

\* error.go exitCodeError.Error(): the text of the error `error(v)` raises
ErrorText(v) == TErrorColon \o (IF v.t = "str" THEN v.s ELSE CompactText(v))
\* events of the oracle
ValEv(v) == [k |-> "val", v |-> v]
ErrEv(v) == [k |-> "err", msg |-> ErrorText(v), v |-> v]   \* error(v): exitCodeError{v, 5} (v is only for the driver)
HaltEv(v, c) == [k |-> "halt", v |-> v, c |-> c]         \* halt = HaltEv(Null, 0); halt_error = HaltEv(., 5)
\* emptyError.ExitCode: the error's own ExitCode() if it has one, else exitCodeDefaultErr
ErrCode(ev) == IF "c" \in DOMAIN ev THEN ev.c ELSE 5

-----------------------------------------------------------------------------
(* 3. the machine                                                           *)
(***************************************************************************)
VARIABLES
  sc,          \* the scenario (never changes)
  exp,         \* Expected(sc) (never changes; part 4)
  pc,          \* where the command is: "flags" "options" "parse" "compile" "loop" "values" "finish" "done"
  opts,        \* the parsed flagopts / cli fields
  inputs,      \* what the input iterator will still return: <<[k |-> "val", ev |-> events] | [k |-> "err"], ...>>
  events,      \* what the current run's Iter will still yield
  stdout,      \* code points written to cli.outStream
  stderr,      \* diagnostics written to cli.errStream, in order
  outvals,     \* history: the values marshalled to stdout so far
  lastStatus,  \* cli.exitCodeError: -1 = nil (no --exit-status), else its code 4 / 1 / 0
  err,         \* process's local `err`: [k |-> "none"] or [k |-> "err", c |-> exit code it carries]
  halted,      \* the loop was left through the HaltError branch
  exit         \* the process status, -1 while running

vars == <<sc, exp, pc, opts, inputs, events, stdout, stderr, outvals, lastStatus, err, halted, exit>>

NoErr == [k |-> "none"]
ErrWith(c) == [k |-> "err", c |-> c]

\* cli.createInputIter + `if opts.InputNull { iter = newNullInputIter() }`, cli/inputs.go:
\* what successive iter.Next() calls return
InputItems(s, o) ==
  IF o.n THEN << [k |-> "val", ev |-> s.onull] >>                                    \* nullInputIter: null once, stdin is not read
  ELSE IF o.s THEN (IF s.bad THEN << [k |-> "err"] >>                              \* slurpInputIter: the error instead of the array
                    ELSE << [k |-> "val", ev |-> s.oslurp] >>)                      \* ... or one array, also for 0 documents
  ELSE [i \in 1..Len(s.docs) |-> [k |-> "val", ev |-> s.docs[i]]]                  \* jsonInputIter: each document,
       \o (IF s.bad THEN << [k |-> "err"] >> ELSE <<>>)                            \* one error at the malformed tail, then the end

Terminate(code, diag) ==
  /\ stderr' = stderr \o diag
  /\ exit' = code
  /\ pc' = "done"

\* runInternal: parseFlags; error -> &flagParseError{err} (ExitCode 2), printed by run
ParseFlags ==
  /\ pc = "flags"
  /\ LET r == ParseArgs(sc.args) IN
     IF r.ok THEN /\ opts' = r.o
                  /\ pc' = "options"
                  /\ UNCHANGED <<stderr, exit>>
     ELSE /\ Terminate(2, <<FlagDiag(r.err)>>)
          /\ UNCHANGED opts
  /\ UNCHANGED <<sc, exp, inputs, events, stdout, outvals, lastStatus, err, halted>>

\* runInternal: the range check of --indent returns a plain error (no ExitCode: status 5) before the query is
\* looked at and before the --exit-status defer exists; then `if opts.ExitStatus { cli.exitCodeError = &exitCodeError{4} }`
CheckOptions ==
  /\ pc = "options"
  /\ IF opts.indset /\ (opts.ind > 9 \/ opts.ind < 0)
     THEN /\ Terminate(5, <<IndentDiag(opts.ind)>>)
          /\ UNCHANGED lastStatus
     ELSE /\ lastStatus' = IF opts.e THEN 4 ELSE -1
          /\ pc' = "parse"
          /\ UNCHANGED <<stderr, exit>>
  /\ UNCHANGED <<sc, exp, opts, inputs, events, stdout, outvals, err, halted>>

\* gojq.Parse fails -> &queryParseError (ExitCode 3); the deferred --exit-status function keeps it (it has an ExitCode)
ParseQuery ==
  /\ pc = "parse"
  /\ IF sc.query = "parse" THEN Terminate(3, <<QueryDiag("parse")>>)
     ELSE pc' = "compile" /\ UNCHANGED <<stderr, exit>>
  /\ UNCHANGED <<sc, exp, opts, inputs, events, stdout, outvals, lastStatus, err, halted>>

\* createInputIter, then gojq.Compile fails -> &compileError (ExitCode 3)
Compile ==
  /\ pc = "compile"
  /\ IF sc.query = "compile" THEN Terminate(3, <<QueryDiag("compile")>>) /\ UNCHANGED inputs
     ELSE /\ inputs' = InputItems(sc, opts)
          /\ pc' = "loop"
          /\ UNCHANGED <<stderr, exit>>
  /\ UNCHANGED <<sc, exp, opts, events, stdout, outvals, lastStatus, err, halted>>

\* process: v, ok := iter.Next(); a value: cli.printValues(code.Run(v, ...))
NextInput ==
  /\ pc = "loop" /\ inputs # <<>> /\ Head(inputs).k = "val"
  /\ events' = Head(inputs).ev
  /\ inputs' = Tail(inputs)
  /\ pc' = "values"
  /\ UNCHANGED <<sc, exp, opts, stdout, stderr, outvals, lastStatus, err, halted, exit>>

\* process: the input iterator returned an error: print it, remember it, continue
InputError ==
  /\ pc = "loop" /\ inputs # <<>> /\ Head(inputs).k = "err"
  /\ stderr' = Append(stderr, InputDiag)
  /\ err' = ErrWith(5)                          \* *jsonParseError has no ExitCode
  /\ inputs' = Tail(inputs)
  /\ UNCHANGED <<sc, exp, pc, opts, events, stdout, outvals, lastStatus, halted, exit>>

\* process: iter.Next() returned ok = false
EndOfInputs ==
  /\ pc = "loop" /\ inputs = <<>>
  /\ pc' = "finish"
  /\ UNCHANGED <<sc, exp, opts, inputs, events, stdout, stderr, outvals, lastStatus, err, halted, exit>>

\* printValues: a value: marshal it, update the --exit-status bookkeeping, write the terminator
PrintValue ==
  /\ pc = "values" /\ events # <<>> /\ Head(events).k = "val" /\ ~MarshalFails(Head(events).v, opts)
  /\ LET v == Head(events).v IN
     /\ stdout' = stdout \o OutText(v, opts)
     /\ outvals' = Append(outvals, v)
     /\ lastStatus' = IF lastStatus = -1 THEN -1 ELSE IF Truthy(v) THEN 0 ELSE 1
  /\ events' = Tail(events)
  /\ UNCHANGED <<sc, exp, pc, opts, inputs, stderr, err, halted, exit>>

\* inside iter.Next(): the query calls the command's debug / stderr function; nothing is yielded
SideMessage ==
  /\ pc = "values" /\ events # <<>> /\ IsSide(Head(events))
  /\ stderr' = Append(stderr, SideDiag(Head(events)))
  /\ events' = Tail(events)
  /\ UNCHANGED <<sc, exp, pc, opts, inputs, stdout, outvals, lastStatus, err, halted, exit>>

\* printValues: m.marshal fails (string with NUL under --raw-output0): nothing is written, no bookkeeping,
\* the error goes back to process, which treats it like a runtime error of this input
MarshalError ==
  /\ pc = "values" /\ events # <<>> /\ Head(events).k = "val" /\ MarshalFails(Head(events).v, opts)
  /\ stderr' = Append(stderr, NulDiag)
  /\ err' = ErrWith(5)
  /\ events' = <<>>
  /\ pc' = "loop"
  /\ UNCHANGED <<sc, exp, opts, inputs, stdout, outvals, lastStatus, halted, exit>>

\* printValues returns the error the iterator yielded; process prints it and goes on with the next input
RuntimeError ==
  /\ pc = "values" /\ events # <<>> /\ Head(events).k = "err"
  /\ stderr' = Append(stderr, ErrDiag(Head(events)))
  /\ err' = ErrWith(ErrCode(Head(events)))
  /\ events' = <<>>                              \* the rest of this run is never asked for
  /\ pc' = "loop"
  /\ UNCHANGED <<sc, exp, opts, inputs, stdout, outvals, lastStatus, halted, exit>>

\* process, *gojq.HaltError with a nil value (halt, or null|halt_error): no message, leave the loop
HaltNow ==
  /\ pc = "values" /\ events # <<>> /\ Head(events).k = "halt" /\ Head(events).v.t = "null"
  /\ err' = ErrWith(Head(events).c)
  /\ halted' = TRUE
  /\ events' = <<>>
  /\ pc' = "finish"
  /\ UNCHANGED <<sc, exp, opts, inputs, stdout, stderr, outvals, lastStatus, exit>>

\* process, *gojq.HaltError with a value: the message, then leave the loop
HaltErrorNow ==
  /\ pc = "values" /\ events # <<>> /\ Head(events).k = "halt" /\ Head(events).v.t # "null"
  /\ stderr' = stderr \o HaltDiag(Head(events))
  /\ err' = ErrWith(Head(events).c)
  /\ halted' = TRUE
  /\ events' = <<>>
  /\ pc' = "finish"
  /\ UNCHANGED <<sc, exp, opts, inputs, stdout, outvals, lastStatus, exit>>

\* printValues: the iterator is exhausted
EndOfOutputs ==
  /\ pc = "values" /\ events = <<>>
  /\ pc' = "loop"
  /\ UNCHANGED <<sc, exp, opts, inputs, events, stdout, stderr, outvals, lastStatus, err, halted, exit>>

\* process returns &emptyError{err} or nil; the deferred function replaces a result without ExitCode (nil) by
\* cli.exitCodeError under --exit-status; run maps the error to its ExitCode; os.Exit keeps the low 8 bits
Finish ==
  /\ pc = "finish"
  /\ exit' = IF err.k = "err" THEN err.c % 256
             ELSE IF lastStatus # -1 THEN lastStatus
             ELSE 0
  /\ pc' = "done"
  /\ UNCHANGED <<sc, exp, opts, inputs, events, stdout, stderr, outvals, lastStatus, err, halted>>

Done == pc = "done" /\ UNCHANGED vars

Next == \/ ParseFlags \/ CheckOptions \/ ParseQuery \/ Compile
        \/ NextInput \/ InputError \/ EndOfInputs
        \/ PrintValue \/ SideMessage \/ MarshalError \/ RuntimeError \/ HaltNow \/ HaltErrorNow \/ EndOfOutputs
        \/ Finish \/ Done

-----------------------------------------------------------------------------
(* 4. the property, as a function of the scenario                           *)
(***************************************************************************)
RECURSIVE StopIndex(_, _, _)
\* index of the event that ends a run: the first error / halt / unprintable string; Len + 1 if the run just ends
StopIndex(ev, o, i) ==
  IF i > Len(ev) THEN i
  ELSE IF IsSide(ev[i]) \/ (ev[i].k = "val" /\ ~MarshalFails(ev[i].v, o)) THEN StopIndex(ev, o, i + 1)
  ELSE i
RECURSIVE ValsOf(_)
ValsOf(es) == IF es = <<>> THEN <<>> ELSE (IF Head(es).k = "val" THEN <<Head(es).v>> ELSE <<>>) \o ValsOf(Tail(es))
RECURSIVE SideDiagsOf(_)
SideDiagsOf(es) == IF es = <<>> THEN <<>> ELSE (IF IsSide(Head(es)) THEN <<SideDiag(Head(es))>> ELSE <<>>) \o SideDiagsOf(Tail(es))

RECURSIVE Fold(_, _, _)
\* input by input, in order: printed values, diagnostics, the status carried by the last error, the halt
Fold(items, o, acc) ==
  IF items = <<>> THEN acc
  ELSE LET it == Head(items) IN
    IF it.k = "err" THEN Fold(Tail(items), o, [acc EXCEPT !.diag = Append(@, InputDiag), !.failed = TRUE, !.code = 5])
    ELSE LET stop == StopIndex(it.ev, o, 1)
             pre == SubSeq(it.ev, 1, stop - 1)                 \* what happens before the run is ended
             st == IF stop > Len(it.ev) THEN [k |-> "end"] ELSE it.ev[stop]
             a1 == [acc EXCEPT !.out = @ \o ValsOf(pre), !.diag = @ \o SideDiagsOf(pre)]
         IN CASE st.k = "end" -> Fold(Tail(items), o, a1)
              \* an error ends this input's outputs; later inputs are still processed
              [] st.k = "val" -> Fold(Tail(items), o, [a1 EXCEPT !.diag = Append(@, NulDiag), !.failed = TRUE, !.code = 5])
              [] st.k = "err" -> Fold(Tail(items), o, [a1 EXCEPT !.diag = Append(@, ErrDiag(st)), !.failed = TRUE, !.code = ErrCode(st)])
              \* halt and halt_error stop at once
              [] st.k = "halt" -> [a1 EXCEPT !.diag = @ \o HaltDiag(st), !.stopped = TRUE, !.code = st.c]

Expected(s) ==
  LET pa == ParseArgs(s.args) IN
  IF ~pa.ok THEN [out |-> <<>>, stdout |-> <<>>, diag |-> <<FlagDiag(pa.err)>>, exit |-> 2]                 \* usage error
  ELSE LET o == pa.o IN
  IF o.indset /\ (o.ind > 9 \/ o.ind < 0) THEN [out |-> <<>>, stdout |-> <<>>, diag |-> <<IndentDiag(o.ind)>>, exit |-> 5]   \* M7
  ELSE IF s.query # "ok" THEN [out |-> <<>>, stdout |-> <<>>, diag |-> <<QueryDiag(s.query)>>, exit |-> 3]
  ELSE LET f == Fold(InputItems(s, o), o, [out |-> <<>>, diag |-> <<>>, failed |-> FALSE, stopped |-> FALSE, code |-> 5])
       IN [out |-> f.out,
           stdout |-> RenderAll(f.out, o),
           diag |-> f.diag,
           exit |-> IF f.stopped THEN f.code % 256                     \* the requested status modulo 256 (also after earlier errors)
                    ELSE IF f.failed THEN f.code % 256                \* 5 after any runtime or input error (an error beats --exit-status)
                    ELSE IF o.e THEN (IF f.out = <<>> THEN 4 ELSE IF Truthy(f.out[Len(f.out)]) THEN 0 ELSE 1)
                    ELSE 0]

\* the initial state for scenario s; the configurations (CliMC, CliTrace) say which scenarios are explored
InitWith(s) ==
  /\ sc = s
  /\ exp = Expected(s)
  /\ pc = "flags"
  /\ opts = DefaultOpts
  /\ inputs = <<>> /\ events = <<>>
  /\ stdout = <<>> /\ stderr = <<>> /\ outvals = <<>>
  /\ lastStatus = -1
  /\ err = NoErr
  /\ halted = FALSE
  /\ exit = -1

\* ---- invariants ----------------------------------------------------------
PrefixOf(a, b) == Len(a) <= Len(b) /\ SubSeq(b, 1, Len(a)) = a

TypeOK ==
  /\ pc \in {"flags", "options", "parse", "compile", "loop", "values", "finish", "done"}
  /\ lastStatus \in {-1, 0, 1, 4}
  /\ halted \in BOOLEAN
  /\ exit \in -1..255
  /\ (exit = -1) <=> (pc # "done")
  /\ err.k \in {"none", "err"}

\* stdout is, at every moment, the rendering of the values printed so far and those are a prefix of what the
\* property prescribes: nothing but rendered outputs ever reaches stdout, in order
StdoutIsRenderedOutputs ==
  /\ PrefixOf(outvals, exp.out)
  /\ stdout = RenderAll(outvals, opts)
\* diagnostics go to stderr, in the prescribed order
StderrIsDiagnostics == PrefixOf(stderr, exp.diag)
\* at the end everything prescribed was printed (later inputs are processed after an error) and the status is right
EndState == pc = "done" => /\ outvals = exp.out
                           /\ stdout = exp.stdout
                           /\ stderr = exp.diag
                           /\ exit = exp.exit
\* the --exit-status bookkeeping equals its declarative reading at every moment
StatusBookkeeping ==
  pc \in {"parse", "compile", "loop", "values", "finish"} =>
    lastStatus = IF ~opts.e THEN -1 ELSE IF outvals = <<>> THEN 4 ELSE IF Truthy(outvals[Len(outvals)]) THEN 0 ELSE 1
\* halt leaves the loop: no further input is read, no run continues
HaltStops == halted => pc \in {"finish", "done"} /\ events = <<>>
\* an error never stops the loop by itself: while not halted, `finish` is reached only with all inputs consumed
AllInputsProcessed == (pc \in {"finish", "done"} /\ ~halted) => inputs = <<>>
\* the statuses the property lists
StatusTable ==
  pc = "done" =>
    \/ exit \in {0, 2, 3, 5}
    \/ exit \in {1, 4} /\ (opts.e \/ halted)
    \/ halted

\* action properties: nothing is written after a halt; stdout only grows; the status is set once
NothingAfterHalt == [][halted => (stdout' = stdout /\ stderr' = stderr)]_vars
StdoutOnlyGrows == [][PrefixOf(stdout, stdout') /\ PrefixOf(stderr, stderr')]_vars
ExitSetOnce == [][exit # -1 => exit' = exit]_vars
=============================================================================
