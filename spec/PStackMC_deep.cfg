CONSTANTS Vals = {1, 2} MaxOps = 11 MaxForks = 4 BugIgnoreLimit = FALSE
SPECIFICATION Spec
INVARIANTS Refines SavedIntact LimitCovers WF
PROPERTY RestoreExact
CHECK_DEADLOCK FALSE
