\* the bounds of CliMC.cfg (the generator samples / enumerates the universe that configuration model-checks)
CONSTANTS
  MaxDocs = 2
  MaxEv = 2
  MaxDocsA = 1
  MaxEvA = 1
  Rich = TRUE
  Side = TRUE
INIT GenInit
NEXT GenNext
CHECK_DEADLOCK FALSE
