INIT TraceInit
NEXT TraceNext
INVARIANTS TypeOK StdoutIsRenderedOutputs StderrIsDiagnostics EndState StatusBookkeeping HaltStops AllInputsProcessed StatusTable
CHECK_DEADLOCK TRUE
