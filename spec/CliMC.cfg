\* quick: family B with <= 2 documents x <= 2 events (full alphabet), family A with <= 1 document x <= 1 event
CONSTANTS
  MaxDocs = 2
  MaxEv = 2
  MaxDocsA = 1
  MaxEvA = 1
  Rich = TRUE
  Side = TRUE
INIT MCInit
NEXT Next
INVARIANTS TypeOK StdoutIsRenderedOutputs StderrIsDiagnostics EndState StatusBookkeeping HaltStops AllInputsProcessed StatusTable
PROPERTIES NothingAfterHalt StdoutOnlyGrows ExitSetOnce
CHECK_DEADLOCK TRUE
