\* quick: family B with <= 2 documents x <= 2 events, family A with <= 1 document x <= 2 events
CONSTANTS
  MaxDocs = 2
  MaxEv = 2
  MaxDocsA = 1
  MaxEvA = 2
  Scenarios <- MCScenarios
INIT Init
NEXT Next
INVARIANTS TypeOK StdoutIsRenderedOutputs StderrIsDiagnostics EndState StatusBookkeeping HaltStops AllInputsProcessed StatusTable
PROPERTIES NothingAfterHalt StdoutOnlyGrows ExitSetOnce
CHECK_DEADLOCK TRUE
