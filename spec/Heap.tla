-------------------------------- MODULE Heap --------------------------------
(***************************************************************************)
(* Implementation-level model of the allocator-backed update machinery of   *)
(* func.go (update / updateObject / updateArrayIndex / updateArraySlice as   *)
(* driven by compileModify: `paths |= f`), with an explicit heap:            *)
(*   heap objects  arrays with a backing sequence, maps                      *)
(*   values        scalars, nil, slice views (addr, off, len, cap), map refs *)
(*   allocator A   set of (addr, off) "pointers" the current update created  *)
(* against the value-semantics meaning of the same reduction (PSet/PGet on    *)
(* pure values = what JqUpdate / prelude_spec.jq `_modify` define).           *)
(* Each deviation of the code from the design its comments describe is a      *)
(* switch, so that TLC shows which deviation breaks which invariant:          *)
(*   SliceSharesCap  recursing on v[start:end] keeps pointer AND capacity     *)
(*   InPlaceSlice    an allocated v is reused when the slice length is kept   *)
(*   InPlaceEscaped  containers handed to f stay in the allocator             *)
(* Invariants: I1 Deref(root) = abstract result after every reduction step;   *)
(*             I2 the caller's input is never modified; I3 the heap is acyclic *)
(***************************************************************************)
EXTENDS Integers, Sequences, TLC, FiniteSets

CONSTANTS SliceSharesCap,   \* TRUE = what the code does: recursing on v[start:end] keeps pointer and capacity
          InPlaceSlice,     \* TRUE = code: reuse allocated v in updateArraySlice when lengths match
          InPlaceEscaped,   \* TRUE = code: containers handed to f stay in the allocator
          EscapeFix         \* TRUE = the repair: the value handed to f is cloned when it is a slice view, and every
                            \*        container reachable from it is removed from the allocator BY ITS OWN POINTER
                            \*        (what Go code can do; the idealised InPlaceEscaped = FALSE removes whole backing arrays)

\* ---- values: scalars [t|->"n", n], null [t|->"nil"], slice refs [t|->"sl", a, off, len, cap], map refs [t|->"mp", a]
Nil == [t |-> "nil"]
N(n) == [t |-> "n", n |-> n]
\* heap: sequence of objects: [k|->"arr", back|->Seq(val)] | [k|->"map", kv|->Seq(<<key,val>>)]
\* pure values: [t|->"n"], [t|->"nil"], [t|->"A", a|->Seq(pure)], [t|->"M", m|->Seq(<<key,pure>>)] keys sorted by insertion (compare as sets)

Min(a, b) == IF a < b THEN a ELSE b
Max(a, b) == IF a > b THEN a ELSE b

Elem(h, v, i) == h[v.a].back[v.off + i + 1]          \* 0-based i
RECURSIVE MGetI(_, _, _)
MGetI(kv, k, i) == IF i > Len(kv) THEN Nil ELSE IF kv[i][1] = k THEN kv[i][2] ELSE MGetI(kv, k, i + 1)
MGet(kv, k) == MGetI(kv, k, 1)
RECURSIVE MPutI(_, _, _, _)
MPutI(kv, k, v, i) == IF i > Len(kv) THEN Append(kv, <<k, v>>) ELSE IF kv[i][1] = k THEN [kv EXCEPT ![i] = <<k, v>>] ELSE MPutI(kv, k, v, i + 1)
MPut(kv, k, v) == MPutI(kv, k, v, 1)

Ptr(v) == IF v.t = "sl" THEN <<v.a, v.off>> ELSE <<v.a, -1>>
Allocated(A, v) == v.t \in {"sl", "mp"} /\ Ptr(v) \in A

\* ---- deref to pure (depth-bounded to detect cycles)
RECURSIVE Deref(_, _, _)
Deref(h, v, d) ==
  IF d = 0 THEN [t |-> "CYCLE"] ELSE
  CASE v.t = "sl" -> [t |-> "A", a |-> [i \in 1..v.len |-> Deref(h, Elem(h, v, i - 1), d - 1)]]
    [] v.t = "mp" -> [t |-> "M", m |-> {<<h[v.a].kv[i][1], Deref(h, h[v.a].kv[i][2], d - 1)>> : i \in 1..Len(h[v.a].kv)}]
    [] OTHER -> v
RECURSIVE HasCycle(_)
HasCycle(p) == CASE p.t = "CYCLE" -> TRUE
                 [] p.t = "A" -> \E i \in 1..Len(p.a): HasCycle(p.a[i])
                 [] p.t = "M" -> \E e \in p.m: HasCycle(e[2])
                 [] OTHER -> FALSE

\* ---- pure semantics
PGet(p, k) == \* k: [t|->"k",k] | [t|->"i",i] | [t|->"s",s,e]
  CASE p.t = "nil" -> Nil
    [] k.t = "k" /\ p.t = "M" -> IF \E e \in p.m: e[1] = k.k THEN (CHOOSE e \in p.m: e[1] = k.k)[2] ELSE Nil
    [] k.t = "i" /\ p.t = "A" -> IF k.i < Len(p.a) THEN p.a[k.i + 1] ELSE Nil
    [] k.t = "s" /\ p.t = "A" -> LET s == Min(k.s, Len(p.a)) e == Max(s, Min(k.e, Len(p.a))) IN [t |-> "A", a |-> SubSeq(p.a, s + 1, e)]
    [] OTHER -> [t |-> "ERR"]
RECURSIVE PGetPath(_, _)
PGetPath(p, path) == IF Len(path) = 0 \/ p.t = "ERR" THEN p ELSE PGetPath(PGet(p, path[1]), Tail(path))
RECURSIVE PSet(_, _, _)
PSet(p, path, n) ==
  IF Len(path) = 0 THEN n ELSE
  LET k == path[1] rest == Tail(path) IN
  CASE k.t = "k" /\ p.t \in {"M", "nil"} ->
         LET m == IF p.t = "nil" THEN {} ELSE p.m
             old == PGet(p, k)
             u == PSet(old, rest, n)
         IN IF u.t = "ERR" THEN u ELSE [t |-> "M", m |-> {e \in m: e[1] # k.k} \cup {<<k.k, u>>}]
    [] k.t = "i" /\ p.t \in {"A", "nil"} ->
         LET a == IF p.t = "nil" THEN <<>> ELSE p.a
             old == IF k.i < Len(a) THEN a[k.i + 1] ELSE Nil
             u == PSet(old, rest, n)
             l == Max(Len(a), k.i + 1)
         IN IF u.t = "ERR" THEN u ELSE [t |-> "A", a |-> [j \in 1..l |-> IF j = k.i + 1 THEN u ELSE IF j <= Len(a) THEN a[j] ELSE Nil]]
    [] k.t = "s" /\ p.t \in {"A", "nil"} ->
         LET a == IF p.t = "nil" THEN <<>> ELSE p.a
             s == Min(k.s, Len(a)) e == Max(s, Min(k.e, Len(a)))
             u == PSet([t |-> "A", a |-> SubSeq(a, s + 1, e)], rest, n)
         IN IF u.t # "A" THEN [t |-> "ERR"] ELSE [t |-> "A", a |-> SubSeq(a, 1, s) \o u.a \o SubSeq(a, e + 1, Len(a))]
    [] OTHER -> [t |-> "ERR"]

\* f on pure values
PF(f, p) == CASE f = "id" -> p
              [] f = "seven" -> N(7)
              [] f = "wrap" -> [t |-> "A", a |-> <<p>>]
              [] f = "dup" -> [t |-> "M", m |-> {<<"x", p>>, <<"y", p>>}]

\* ---- heap operations. State record S == [h, A]
New(S, obj, alloc, ptroff) ==
  LET a == Len(S.h) + 1 IN [h |-> Append(S.h, obj), A |-> IF alloc THEN S.A \cup {<<a, ptroff>>} ELSE S.A, a |-> a]

HGet(h, v, k) ==
  CASE v.t = "nil" -> Nil
    [] k.t = "k" /\ v.t = "mp" -> MGet(h[v.a].kv, k.k)
    [] k.t = "i" /\ v.t = "sl" -> IF k.i < v.len THEN Elem(h, v, k.i) ELSE Nil
    [] k.t = "s" /\ v.t = "sl" -> LET s == Min(k.s, v.len) e == Max(s, Min(k.e, v.len)) IN
                                   [t |-> "sl", a |-> v.a, off |-> v.off + s, len |-> e - s, cap |-> v.cap - s]
    [] OTHER -> [t |-> "ERR"]
RECURSIVE HGetPath(_, _, _)
HGetPath(h, v, path) == IF Len(path) = 0 \/ v.t = "ERR" THEN v ELSE HGetPath(h, HGet(h, v, path[1]), Tail(path))

\* f on heap values: creates non-allocated containers
HF(S, f, v) ==
  CASE f = "id" -> [S |-> S, v |-> v]
    [] f = "seven" -> [S |-> S, v |-> N(7)]
    [] f = "wrap" -> LET r == New(S, [k |-> "arr", back |-> <<v>>], FALSE, 0) IN
                     [S |-> [h |-> r.h, A |-> r.A], v |-> [t |-> "sl", a |-> r.a, off |-> 0, len |-> 1, cap |-> 1]]
    [] f = "dup" -> LET r == New(S, [k |-> "map", kv |-> << <<"x", v>>, <<"y", v>> >>], FALSE, -1) IN
                    [S |-> [h |-> r.h, A |-> r.A], v |-> [t |-> "mp", a |-> r.a]]

\* remove from the allocator everything reachable from v (idealised design when InPlaceEscaped = FALSE)
RECURSIVE Reach(_, _, _)
Reach(h, v, d) == IF d = 0 THEN {} ELSE
  CASE v.t = "sl" -> {a \in {<<v.a, o>> : o \in 0..Len(h[v.a].back)} : TRUE} \cup UNION {Reach(h, Elem(h, v, i - 1), d - 1) : i \in 1..v.len}
    [] v.t = "mp" -> {<<v.a, -1>>} \cup UNION {Reach(h, h[v.a].kv[i][2], d - 1) : i \in 1..Len(h[v.a].kv)}
    [] OTHER -> {}

\* the pointers (as the allocator keys them) of the containers reachable from v
RECURSIVE Ptrs(_, _, _)
Ptrs(h, v, d) == IF d = 0 THEN {} ELSE
  CASE v.t = "sl" -> {Ptr(v)} \cup UNION {Ptrs(h, Elem(h, v, i - 1), d - 1) : i \in 1..v.len}
    [] v.t = "mp" -> {Ptr(v)} \cup UNION {Ptrs(h, h[v.a].kv[i][2], d - 1) : i \in 1..Len(h[v.a].kv)}
    [] OTHER -> {}

RECURSIVE Upd(_, _, _, _)
\* returns [S, v] or v.t = "ERR"
Upd(S, v, path, n) ==
  IF Len(path) = 0 THEN [S |-> S, v |-> n] ELSE
  LET k == path[1] rest == Tail(path) IN
  CASE k.t = "k" /\ v.t \in {"mp", "nil"} ->
         LET x == IF v.t = "nil" THEN Nil ELSE MGet(S.h[v.a].kv, k.k)
             r == Upd(S, x, rest, n)
         IN IF r.v.t = "ERR" THEN r
            ELSE IF Allocated(r.S.A, v)
                 THEN [S |-> [r.S EXCEPT !.h[v.a].kv = MPut(r.S.h[v.a].kv, k.k, r.v)], v |-> v]
                 ELSE LET kv0 == IF v.t = "nil" THEN <<>> ELSE r.S.h[v.a].kv
                          nw == New(r.S, [k |-> "map", kv |-> MPut(kv0, k.k, r.v)], TRUE, -1)
                      IN [S |-> [h |-> nw.h, A |-> nw.A], v |-> [t |-> "mp", a |-> nw.a]]
    [] k.t = "i" /\ v.t \in {"sl", "nil"} ->
         LET vv == IF v.t = "nil" THEN [t |-> "sl", a |-> 0, off |-> 0, len |-> 0, cap |-> 0] ELSE v
             i == k.i
             x == IF i < vv.len THEN Elem(S.h, vv, i) ELSE Nil
             r == Upd(S, x, rest, n)
         IN IF r.v.t = "ERR" THEN r
            ELSE IF v.t # "nil" /\ Allocated(r.S.A, vv) /\ i < vv.cap
                 THEN [S |-> [r.S EXCEPT !.h[vv.a].back[vv.off + i + 1] = r.v],
                       v |-> [vv EXCEPT !.len = Max(vv.len, i + 1)]]
                 ELSE LET c == IF v.t # "nil" /\ Allocated(r.S.A, vv) THEN 2 * vv.cap ELSE vv.cap
                          l == Max(vv.len, i + 1)
                          cp == Max(l, c)
                          back == [j \in 1..cp |-> IF j = i + 1 THEN r.v ELSE IF j <= vv.len THEN Elem(r.S.h, vv, j - 1) ELSE Nil]
                          nw == New(r.S, [k |-> "arr", back |-> back], TRUE, 0)
                      IN [S |-> [h |-> nw.h, A |-> nw.A], v |-> [t |-> "sl", a |-> nw.a, off |-> 0, len |-> l, cap |-> cp]]
    [] k.t = "s" /\ v.t \in {"sl", "nil"} ->
         LET vv == IF v.t = "nil" THEN [t |-> "sl", a |-> 0, off |-> 0, len |-> 0, cap |-> 0] ELSE v
             s == Min(k.s, vv.len) e == Max(s, Min(k.e, vv.len))
             sub == [t |-> "sl", a |-> vv.a, off |-> vv.off + s, len |-> e - s, cap |-> IF SliceSharesCap THEN vv.cap - s ELSE e - s]
             r == Upd(S, IF vv.a = 0 THEN [sub EXCEPT !.t = "sl"] ELSE sub, rest, n)
         IN IF r.v.t = "ERR" THEN r
            ELSE IF r.v.t # "sl" THEN [S |-> S, v |-> [t |-> "ERR"]]
            ELSE LET u == r.v
                     h1 == r.S.h
                     us == [j \in 1..u.len |-> Elem(h1, u, j - 1)]     \* memmove: read source first
                 IN IF InPlaceSlice /\ u.len = e - s /\ v.t # "nil" /\ Allocated(r.S.A, vv)
                    THEN [S |-> [r.S EXCEPT !.h[vv.a].back = [j \in 1..Len(h1[vv.a].back) |->
                                   IF j > vv.off + s /\ j <= vv.off + s + u.len THEN us[j - vv.off - s] ELSE h1[vv.a].back[j]]],
                          v |-> vv]
                    ELSE LET l == vv.len - (e - s) + u.len
                             \* NOTE: reads v after the recursive update, as the Go code does
                             back == [j \in 1..l |-> IF j <= s THEN Elem(h1, vv, j - 1)
                                                     ELSE IF j <= s + u.len THEN us[j - s]
                                                     ELSE Elem(h1, vv, e + (j - s - u.len) - 1)]
                             nw == New(r.S, [k |-> "arr", back |-> back], TRUE, 0)
                         IN [S |-> [h |-> nw.h, A |-> nw.A], v |-> [t |-> "sl", a |-> nw.a, off |-> 0, len |-> l, cap |-> l]]
    [] OTHER -> [S |-> S, v |-> [t |-> "ERR"]]

\* ---- scenarios
K(k) == [t |-> "k", k |-> k]
I(i) == [t |-> "i", i |-> i]
Sl(s, e) == [t |-> "s", s |-> s, e |-> e]
Inputs == {
  \* [0,1,2,3]
  [h |-> << [k |-> "arr", back |-> <<N(0), N(1), N(2), N(3)>>] >>, root |-> [t |-> "sl", a |-> 1, off |-> 0, len |-> 4, cap |-> 4]],
  \* [0,1]
  [h |-> << [k |-> "arr", back |-> <<N(0), N(1)>>] >>, root |-> [t |-> "sl", a |-> 1, off |-> 0, len |-> 2, cap |-> 2]],
  \* {"a":{"b":1}}
  [h |-> << [k |-> "map", kv |-> << <<"a", [t |-> "mp", a |-> 2]>> >>], [k |-> "map", kv |-> << <<"b", N(1)>> >>] >>, root |-> [t |-> "mp", a |-> 1]]
}
PathElems == {K("a"), K("b"), K("x"), I(0), I(1), I(2), Sl(0, 1), Sl(1, 9), Sl(0, 2)}
Paths == {<<p>> : p \in PathElems} \cup {<<p, q>> : p \in PathElems, q \in PathElems}
         \cup {<<K("a"), K("x"), K("b")>>}
Fs == {"id", "seven", "wrap", "dup"}

VARIABLES S, root, abs, f, step, inputRoot, inputPure
Init == \E inp \in Inputs: \E ff \in Fs:
          /\ S = [h |-> inp.h, A |-> {}] /\ root = inp.root /\ abs = Deref(inp.h, inp.root, 8) /\ f = ff /\ step = 0
          /\ inputRoot = inp.root /\ inputPure = Deref(inp.h, inp.root, 8)
\* one reduction step of `paths |= f` for a nondeterministically chosen next path (valid on the original input in jq; here any path)
Next == /\ step < 3
        /\ \E p \in Paths:
             LET g == HGetPath(S.h, root, p)
                 pg == PGetPath(abs, p)
             IN /\ g.t # "ERR" /\ pg.t # "ERR"
                /\ LET lastIsSlice == p[Len(p)].t = "s"
                       \* the repair: clone a slice view (fresh, not allocated), then release by pointer
                       cl == IF EscapeFix /\ lastIsSlice /\ g.t = "sl"
                             THEN LET nw == New(S, [k |-> "arr", back |-> [j \in 1..g.len |-> Elem(S.h, g, j - 1)]], FALSE, 0)
                                  IN [S |-> [h |-> nw.h, A |-> nw.A], v |-> [t |-> "sl", a |-> nw.a, off |-> 0, len |-> g.len, cap |-> g.len]]
                             ELSE [S |-> S, v |-> g]
                       S0 == IF EscapeFix THEN [cl.S EXCEPT !.A = cl.S.A \ Ptrs(cl.S.h, cl.v, 6)]
                             ELSE IF InPlaceEscaped THEN S ELSE [S EXCEPT !.A = S.A \ Reach(S.h, g, 6)]
                       r == HF(S0, f, cl.v)
                       u == Upd(r.S, root, p, r.v)
                       pu == PSet(abs, p, PF(f, pg))
                   IN /\ u.v.t # "ERR" /\ pu.t # "ERR"
                      /\ S' = u.S /\ root' = u.v /\ abs' = pu /\ step' = step + 1
        /\ UNCHANGED <<f, inputRoot, inputPure>>
I1 == Deref(S.h, root, 8) = abs
I3 == ~HasCycle(Deref(S.h, root, 8))
I2 == Deref(S.h, inputRoot, 8) = inputPure      \* the caller's input is never modified
=============================================================================
