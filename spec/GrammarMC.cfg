SPECIFICATION Spec
CONSTANTS
  Profile = "terms"
  MaxLen = 3
INVARIANTS AllInvariants
CHECK_DEADLOCK FALSE
