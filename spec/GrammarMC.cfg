\* default configuration (bin/check C09 generates one per alphabet and length)
SPECIFICATION Spec
CONSTANTS
  Profile = "terms"
  MaxLen = 4
INVARIANTS AllInvariants
CHECK_DEADLOCK FALSE
