------------------------------- MODULE Stream -------------------------------
(***************************************************************************)
(* C16 - `gojq --stream`: cli/stream.go jsonStream.next transcribed, over   *)
(* the token interface of encoding/json it is written against.             *)
(*                                                                         *)
(* Part 1  the Decoder's token API (environment): dec.Token(), dec.More()   *)
(*         with the tokenState / tokenStack machine that validates commas, *)
(*         colons and delimiter nesting.  State d = [pos, ts, stk].         *)
(* Part 2  jsonStream: s = [d, states, path, bad]; Prologue (the two        *)
(*         switch statements before the loop), LoopStep (one iteration of   *)
(*         the `for` loop = one token), StreamNext (one call of next()).    *)
(*         `bad` records a Go run-time panic (slicing an empty path).       *)
(* Part 3  what the property demands, stated declaratively: ToStream (jq's  *)
(*         tostream with the members of an object in the order GIVEN),      *)
(*         FromStream (builtin.jq fromstream as a fold), EventEnds (the     *)
(*         byte at which each event of a text is complete).                 *)
(* StreamMC.tla model-checks Part 2 against Part 3.                         *)
(***************************************************************************)
EXTENDS Builtins, JsonScan

ButLast(q) == SubSeq(q, 1, Len(q) - 1)
LastOf(q) == q[Len(q)]

\* ---------------------------------------------------------------------------
\* Part 1: encoding/json Decoder, token API
DecInit == [pos |-> 1, ts |-> "TopValue", stk |-> <<>>]
ValueAllowed(ts) == ts \in {"TopValue", "ArrayStart", "ArrayValue", "ObjectValue"}
ValueEnd(ts) == CASE ts \in {"ArrayStart", "ArrayValue"} -> "ArrayComma"
                  [] ts = "ObjectValue" -> "ObjectComma"
                  [] OTHER -> ts

\* dec.More(): is there another element before the closing delimiter (or anything at all at top level)
More(t, d) == LET i == SkipWs(t, d.pos) IN i <= Len(t) /\ t[i] \notin {93, 125}

RECURSIVE Token(_, _)
\* dec.Token(): [k |-> "delim", c, d] | [k |-> "val", v, d] | [k |-> "eof"] (io.EOF from peek) | [k |-> "err"] | [k |-> "oom"]
Token(t, d) ==
  LET i == SkipWs(t, d.pos) IN
  IF i > Len(t) THEN [k |-> "eof"]
  ELSE LET c == t[i] IN
    CASE c = 91 \/ c = 123 ->
           IF ~ValueAllowed(d.ts) THEN [k |-> "err"]
           ELSE [k |-> "delim", c |-> c,
                 d |-> [pos |-> i + 1, ts |-> IF c = 91 THEN "ArrayStart" ELSE "ObjectStart", stk |-> Append(d.stk, d.ts)]]
      [] c = 93 ->
           IF d.ts \notin {"ArrayStart", "ArrayComma"} THEN [k |-> "err"]
           ELSE [k |-> "delim", c |-> c, d |-> [pos |-> i + 1, ts |-> ValueEnd(LastOf(d.stk)), stk |-> ButLast(d.stk)]]
      [] c = 125 ->
           IF d.ts \notin {"ObjectStart", "ObjectComma"} THEN [k |-> "err"]
           ELSE [k |-> "delim", c |-> c, d |-> [pos |-> i + 1, ts |-> ValueEnd(LastOf(d.stk)), stk |-> ButLast(d.stk)]]
      [] c = 58 ->
           IF d.ts # "ObjectColon" THEN [k |-> "err"] ELSE Token(t, [d EXCEPT !.pos = i + 1, !.ts = "ObjectValue"])
      [] c = 44 ->
           IF d.ts = "ArrayComma" THEN Token(t, [d EXCEPT !.pos = i + 1, !.ts = "ArrayValue"])
           ELSE IF d.ts = "ObjectComma" THEN Token(t, [d EXCEPT !.pos = i + 1, !.ts = "ObjectKey"])
           ELSE [k |-> "err"]
      [] c = 34 /\ d.ts \in {"ObjectStart", "ObjectKey"} ->       \* an object key: Decode(&string)
           (LET s == ScanString(t, i + 1, <<>>) IN
            IF s.k = "ok" THEN [k |-> "val", v |-> Str(s.s), d |-> [d EXCEPT !.pos = s.j, !.ts = "ObjectColon"]]
            ELSE IF s.k = "oom" THEN [k |-> "oom"] ELSE [k |-> "err"])
      [] OTHER ->                                                   \* a scalar: Decode(&any) scans it as a top-level value
           IF ~ValueAllowed(d.ts) THEN [k |-> "err"]
           ELSE LET r == ScanValue(t, i) IN
                IF r.k = "ok" THEN [k |-> "val", v |-> r.v, d |-> [d EXCEPT !.pos = r.j, !.ts = ValueEnd(d.ts)]]
                ELSE IF r.k = "oom" THEN [k |-> "oom"] ELSE [k |-> "err"]

\* ---------------------------------------------------------------------------
\* Part 2: cli/stream.go
StreamInit == [d |-> DecInit, states |-> <<"TopValue">>, path |-> <<>>, bad |-> FALSE]
Top(s) == s.states[Len(s.states)]
SetTop(s, x) == [s EXCEPT !.states[Len(s.states)] = x]
PopPath(s) == IF Len(s.path) = 0 THEN [s EXCEPT !.bad = TRUE] ELSE [s EXCEPT !.path = ButLast(@)]
PopState(s) == IF Len(s.states) <= 1 THEN [s EXCEPT !.bad = TRUE] ELSE [s EXCEPT !.states = ButLast(@)]
Event1(s) == Arr(<<Arr(s.path)>>)
Event2(s, v) == Arr(<<Arr(s.path), v>>)

\* the part of next() before the loop
Prologue(t, s) ==
  LET s1 == CASE Top(s) \in {"ArrayEnd", "ObjectEnd"} -> PopState(PopPath(s))
              [] Top(s) \in {"ArrayEmptyEnd", "ObjectEmptyEnd"} -> PopState(s)
              [] OTHER -> s
  IN IF s1.bad THEN s1
     ELSE IF More(t, s1.d) THEN
          (CASE Top(s1) = "ArrayValue" ->
                  (IF Len(s1.path) = 0 \/ ~IsInt(LastOf(s1.path)) THEN [s1 EXCEPT !.bad = TRUE]
                   ELSE [s1 EXCEPT !.path[Len(s1.path)] = Num(@.n + 1)])
             [] Top(s1) = "ObjectValue" -> PopPath(s1)
             [] OTHER -> s1)
     ELSE s1

\* one iteration of the loop: [r |-> "cont" | "event" | "err" | "end" | "oom" | "panic", s |-> state after, e |-> the event]
LoopStep(t, s) ==
  LET r == Token(t, s.d)
      top == Top(s)
  IN
  CASE r.k = "eof" -> [r |-> IF top # "TopValue" THEN "err" ELSE "end", s |-> s]      \* io.EOF inside a document = ErrUnexpectedEOF
    [] r.k = "err" -> [r |-> "err", s |-> s]
    [] r.k = "oom" -> [r |-> "oom", s |-> s]
    [] r.k = "delim" ->
         (LET s0 == [s EXCEPT !.d = r.d] IN
          CASE r.c = 91 \/ r.c = 123 ->
                 (LET s1 == CASE top = "ArrayStart" -> SetTop(s0, "ArrayValue")
                              [] top = "ObjectKey" -> SetTop(s0, "ObjectValue")
                              [] OTHER -> s0
                  IN IF r.c = 91 THEN [r |-> "cont", s |-> [s1 EXCEPT !.states = Append(@, "ArrayStart"), !.path = Append(@, Num(0))]]
                     ELSE [r |-> "cont", s |-> [s1 EXCEPT !.states = Append(@, "ObjectStart")]])
            [] r.c = 93 ->
                 (IF top = "ArrayStart" THEN
                     LET s1 == PopPath(SetTop(s0, "ArrayEmptyEnd")) IN
                     IF s1.bad THEN [r |-> "panic", s |-> s1] ELSE [r |-> "event", s |-> s1, e |-> Event2(s1, EmptyArr)]
                  ELSE LET s1 == SetTop(s0, "ArrayEnd") IN [r |-> "event", s |-> s1, e |-> Event1(s1)])
            [] r.c = 125 ->
                 (IF top = "ObjectStart" THEN
                     LET s1 == SetTop(s0, "ObjectEmptyEnd") IN [r |-> "event", s |-> s1, e |-> Event2(s1, EmptyObj)]
                  ELSE LET s1 == SetTop(s0, "ObjectEnd") IN [r |-> "event", s |-> s1, e |-> Event1(s1)]))
    [] r.k = "val" ->
         (LET s0 == [s EXCEPT !.d = r.d] IN
          CASE top \in {"ArrayStart", "ArrayValue"} ->
                 (LET s1 == SetTop(s0, "ArrayValue") IN [r |-> "event", s |-> s1, e |-> Event2(s1, r.v)])
            [] top \in {"ObjectStart", "ObjectValue"} ->
                 [r |-> "cont", s |-> [SetTop(s0, "ObjectKey") EXCEPT !.path = Append(@, r.v)]]
            [] top = "ObjectKey" ->
                 (LET s1 == SetTop(s0, "ObjectValue") IN [r |-> "event", s |-> s1, e |-> Event2(s1, r.v)])
            [] OTHER ->
                 (LET s1 == SetTop(s0, "TopValue") IN [r |-> "event", s |-> s1, e |-> Event2(s1, r.v)]))

RECURSIVE StreamLoop(_, _)
StreamLoop(t, s) == LET x == LoopStep(t, s) IN IF x.r = "cont" THEN StreamLoop(t, x.s) ELSE x
\* one call of jsonStream.next
StreamNext(t, s) == LET p == Prologue(t, s) IN IF p.bad THEN [r |-> "panic", s |-> p] ELSE StreamLoop(t, p)

\* all events of a text (newStreamInputIter wrapped in jsonInputIter: the first error ends the input)
RECURSIVE StreamAll(_, _, _)
StreamAll(t, s, acc) ==
  LET x == StreamNext(t, s) IN
  IF x.r = "event" THEN StreamAll(t, x.s, Append(acc, x.e)) ELSE [evs |-> acc, fin |-> x.r]

\* ---------------------------------------------------------------------------
\* Part 3: the requirement
\* Documents carry the members of an object in DOCUMENT order here: Obj(o) with o any duplicate-free member list.
RECURSIVE SortMembers(_, _, _)
SortMembers(o, i, acc) == IF i > Len(o) THEN acc ELSE SortMembers(o, i + 1, ObjPut(acc, o[i][1], o[i][2]))
RECURSIVE Canon(_)
\* the value a document denotes (members sorted by key)
Canon(v) == CASE v.t = "arr" -> Arr([i \in 1..Len(v.a) |-> Canon(v.a[i])])
              [] v.t = "obj" -> Obj(SortMembers([i \in 1..Len(v.o) |-> <<v.o[i][1], Canon(v.o[i][2])>>], 1, <<>>))
              [] OTHER -> v

RECURSIVE ConcatAll(_, _)
ConcatAll(seqs, i) == IF i > Len(seqs) THEN <<>> ELSE seqs[i] \o ConcatAll(seqs, i + 1)

RECURSIVE ToStreamAt(_, _)
\* jq: tostream, at path p, members in the order given
ToStreamAt(v, p) ==
  CASE v.t = "arr" /\ Len(v.a) > 0 ->
         ConcatAll([i \in 1..Len(v.a) |-> ToStreamAt(v.a[i], Append(p, Num(i - 1)))], 1)
           \o << Arr(<<Arr(Append(p, Num(Len(v.a) - 1)))>>) >>
    [] v.t = "obj" /\ Len(v.o) > 0 ->
         ConcatAll([i \in 1..Len(v.o) |-> ToStreamAt(v.o[i][2], Append(p, Str(v.o[i][1])))], 1)
           \o << Arr(<<Arr(Append(p, Str(v.o[Len(v.o)][1])))>>) >>
    [] OTHER -> << Arr(<<Arr(p), v>>) >>
ToStream(v) == ToStreamAt(v, <<>>)

RECURSIVE FromStreamI(_, _, _, _, _)
\* builtin.jq fromstream: foreach f as $pv (null; if .e then null end | ...; if .e then .v else empty end)
\* cur = .v, e = .e; -> [ok, vs]; ok = FALSE if setpath fails (not a stream of events)
FromStreamI(evs, i, cur, e, acc) ==
  IF i > Len(evs) THEN [ok |-> TRUE, vs |-> acc]
  ELSE IF ~(evs[i].t = "arr" /\ Len(evs[i].a) \in {1, 2} /\ evs[i].a[1].t = "arr") THEN [ok |-> FALSE, vs |-> acc]
  ELSE LET ev == evs[i]
           c0 == IF e THEN Null ELSE cur
           p == ev.a[1]
       IN IF Len(ev.a) = 2 THEN
             LET u == SetPath(c0, p, ev.a[2]) IN
             IF u.e # NoErr THEN [ok |-> FALSE, vs |-> acc]
             ELSE LET e1 == Len(p.a) = 0 IN FromStreamI(evs, i + 1, u.o[1], e1, IF e1 THEN Append(acc, u.o[1]) ELSE acc)
          ELSE LET e1 == Len(p.a) = 1 IN FromStreamI(evs, i + 1, c0, e1, IF e1 THEN Append(acc, c0) ELSE acc)
FromStream(evs) == FromStreamI(evs, 1, Null, FALSE, <<>>)

\* The compact text of a document (members in the order given) is JsonText(v).s.
\* EventEnds(v, p, off): the events of the document whose text starts at byte off, each with the index of
\* the byte that completes it (last byte of a scalar, the closing delimiter of a container).
RECURSIVE EventEnds(_, _, _)
EventEnds(v, p, off) ==
  CASE v.t = "arr" /\ Len(v.a) > 0 ->
         LET RECURSIVE F(_, _)
             F(i, o) == IF i > Len(v.a) THEN [evs |-> <<>>, next |-> o]
                        ELSE LET x == EventEnds(v.a[i], Append(p, Num(i - 1)), o)
                                 r == F(i + 1, x.next + 1)            \* one byte for `,` or `]`
                             IN [evs |-> x.evs \o r.evs, next |-> r.next]
             b == F(1, off + 1)
         IN [evs |-> Append(b.evs, [e |-> Arr(<<Arr(Append(p, Num(Len(v.a) - 1)))>>), end |-> b.next - 1]), next |-> b.next]
    [] v.t = "obj" /\ Len(v.o) > 0 ->
         LET RECURSIVE F(_, _)
             F(i, o) == IF i > Len(v.o) THEN [evs |-> <<>>, next |-> o]
                        ELSE LET klen == Len(QuoteStr(v.o[i][1])) + 1      \* "key":
                                 x == EventEnds(v.o[i][2], Append(p, Str(v.o[i][1])), o + klen)
                                 r == F(i + 1, x.next + 1)
                             IN [evs |-> x.evs \o r.evs, next |-> r.next]
             b == F(1, off + 1)
         IN [evs |-> Append(b.evs, [e |-> Arr(<<Arr(Append(p, Str(v.o[Len(v.o)][1])))>>), end |-> b.next - 1]), next |-> b.next]
    [] OTHER -> LET n == Len(JsonText(v).s) IN [evs |-> << [e |-> Arr(<<Arr(p), v>>), end |-> off + n - 1] >>, next |-> off + n]
=============================================================================
