------------------------------ MODULE ErrPosGen ------------------------------
(***************************************************************************)
(* C17 generator: TLC enumerates query texts whose fault position is known   *)
(* by construction (a string literal holding the enumerated symbols - raw    *)
(* line terminators are legal inside a jq string literal - followed by the   *)
(* token & that no grammar rule accepts).                                    *)
(*   family "lines": every sequence of <= MAXLEN symbols of                   *)
(*       {a, e-acute, hiragana a, e + combining acute, LF, CR, CRLF}          *)
(*   family "cut":  <= 2 multi-byte symbols, a^k (k around PRE), the fault,   *)
(*       a comment b^q and <= 2 multi-byte symbols around the CUT boundary:   *)
(*       every alignment of a multi-byte rune with the two excerpt cuts       *)
(* Written as ndjson [fam, b (bytes), p (offending byte)] to VERIF_OUT.       *)
(***************************************************************************)
EXTENDS Integers, Sequences, FiniteSets, TLC, Json, IOUtils, SequencesExt

MaxLen == atoi(IOEnv.VERIF_MAXLEN)
WithCut == IOEnv.VERIF_CUT = "1"

Sym == { <<97>>, <<195, 169>>, <<227, 129, 130>>, <<101, 204, 129>>, <<10>>, <<13>>, <<13, 10>> }
Wide == { <<195, 169>>, <<227, 129, 130>>, <<240, 159, 152, 128>> }

RECURSIVE Seqs(_, _)
Seqs(S, k) == IF k = 0 THEN { <<>> } ELSE LET R == Seqs(S, k - 1) IN R \cup { r \o s : r \in { x \in R : TRUE }, s \in S }
Rep(c, n) == [i \in 1..n |-> c]

Lines == { LET pre == <<34>> \o s \o <<34, 32>> IN [fam |-> "lines", b |-> pre \o <<38>> \o <<32, 46, 97>>, p |-> Len(pre)] : s \in Seqs(Sym, MaxLen) }
Cut == IF ~WithCut THEN {} ELSE
  { LET pre == <<34>> \o w1 \o Rep(97, k) \o <<34, 32>>
    IN [fam |-> "cut", b |-> pre \o <<38>> \o <<32, 35>> \o Rep(98, q) \o w2, p |-> Len(pre)]
    : w1 \in Seqs(Wide, 2), k \in 40..50, q \in 8..14, w2 \in Seqs(Wide, 2) }

VARIABLE done
Init == done = ndJsonSerialize(IOEnv.VERIF_OUT, SetToSeq(Lines \cup Cut))
Next == UNCHANGED done
=============================================================================
