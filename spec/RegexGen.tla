------------------------------ MODULE RegexGen ------------------------------
(***************************************************************************)
(* Case generator for C14 (model -> code).  Everything is a sequence of     *)
(* code points (TLC has no character access on strings).                    *)
(*                                                                         *)
(*   Subjects : EVERY string of at most VERIF_SUBJ_LEN code points over an   *)
(*              alphabet mixing a 1-byte letter, an upper-case letter, a    *)
(*              2-, a 3- and a 4-byte character, a combining mark and a     *)
(*              newline                                                     *)
(*   Regexes  : every regex of depth <= 1 of the grammar                    *)
(*                atom   ::= literal | class | anchor | empty-matching form  *)
(*                unary  ::= X* X+ X? X*? X{2} (X) (?<n>X) (?:X) (X)* (X)?   *)
(*                           (?<n>X)? (?i:X)                                 *)
(*                binary ::= XY X|Y (X)(Y) (?<n>X)(?<m>Y) (?<n>X)|(?<m>Y)    *)
(*                           (X)|Y X(Y)? (?<n>X)*Y                           *)
(*              (some are not accepted by the engine, e.g. `*`: the          *)
(*              property speaks of accepted regexes, the others must fail)   *)
(*   Flags    : the flag arguments, valid and invalid                       *)
(* The check forms the product (all of it or a seeded sample), adds deeper  *)
(* regexes composed from these and longer random subjects.                  *)
(***************************************************************************)
EXTENDS Integers, Sequences, FiniteSets, TLC, Json, IOUtils, SequencesExt

\* 'a' 'B' e-acute euro grinning-face combining-acute newline
Alphabet == {97, 66, 233, 8364, 128512, 769, 10}
MaxLen == atoi(IOEnv.VERIF_SUBJ_LEN)
Subjects == UNION {[1..n -> Alphabet] : n \in 0..MaxLen}

\* 'a'  'B'  'b'  e-acute  euro  grinning-face  combining-acute  '\n'(escape)  newline  '\x{301}'  E-acute
Lits == {<<97>>, <<66>>, <<98>>, <<233>>, <<8364>>, <<128512>>, <<769>>, <<92, 110>>, <<10>>,
         <<92, 120, 123, 51, 48, 49, 125>>, <<201>>}
\* '.'  '[a e-acute]'  '[^a]'  '[a-euro]'  '\w'  '\W'  '\s'  '\pL'  '\p{Mn}'  '[[:upper:]]'  '\d'
Classes == {<<46>>, <<91, 97, 233, 93>>, <<91, 94, 97, 93>>, <<91, 97, 45, 8364, 93>>, <<92, 119>>, <<92, 87>>,
            <<92, 115>>, <<92, 112, 76>>, <<92, 112, 123, 77, 110, 125>>,
            <<91, 91, 58, 117, 112, 112, 101, 114, 58, 93, 93>>, <<92, 100>>}
\* '^'  '$'  '\b'  '\B'  '\A'  '\z'  '(?m:^)'  '(?m:$)'
Anchors == {<<94>>, <<36>>, <<92, 98>>, <<92, 66>>, <<92, 65>>, <<92, 122>>,
            <<40, 63, 109, 58, 94, 41>>, <<40, 63, 109, 58, 36, 41>>}
\* ''  '(?:)'  '()'
Empties == {<<>>, <<40, 63, 58, 41>>, <<40, 41>>}

Atoms == Lits \cup Classes \cup Anchors \cup Empties
\* right operands of the binary forms
Atoms2 == {<<97>>, <<233>>, <<128512>>, <<769>>, <<10>>, <<46>>, <<91, 94, 97, 93>>, <<92, 119>>, <<36>>, <<92, 98>>, <<>>,
           <<40, 63, 109, 58, 94, 41>>}

LP == <<40>>
RP == <<41>>
GN == <<40, 63, 60, 110, 62>>      \* (?<n>
GM == <<40, 63, 60, 109, 62>>      \* (?<m>
NC == <<40, 63, 58>>               \* (?:
CI == <<40, 63, 105, 58>>          \* (?i:
BAR == <<124>>
STAR == <<42>>
PLUS == <<43>>
OPT == <<63>>

Un(x) == { x \o STAR, x \o PLUS, x \o OPT, x \o STAR \o OPT, x \o <<123, 50, 125>>,
           LP \o x \o RP, GN \o x \o RP, NC \o x \o RP,
           LP \o x \o RP \o STAR, LP \o x \o RP \o OPT, GN \o x \o RP \o OPT, CI \o x \o RP }
Bin(x, y) == { x \o y, x \o BAR \o y,
               LP \o x \o RP \o LP \o y \o RP,
               GN \o x \o RP \o GM \o y \o RP,
               GN \o x \o RP \o BAR \o GM \o y \o RP,
               LP \o x \o RP \o BAR \o y,
               x \o LP \o y \o RP \o OPT,
               GN \o x \o RP \o STAR \o y }

Depth0 == Atoms
Depth1 == (UNION {Un(x) : x \in Atoms} \cup UNION {Bin(x, y) : x \in Atoms, y \in Atoms2}) \ Atoms

\* flag arguments (code points); the check adds null and non-strings
Flags == { <<>>, <<103>>, <<105>>, <<109>>, <<103, 105>>, <<105, 103>>, <<103, 109>>, <<105, 109>>, <<103, 105, 109>>, <<103, 103>>,
           <<120>>, <<103, 120>>, <<115>>, <<110>>, <<71>> }

Out == LET ss == SetToSeq(Subjects)
           r0 == SetToSeq(Depth0)
           r1 == SetToSeq(Depth1)
           fs == SetToSeq(Flags)
       IN [i \in 1..Len(ss) |-> [t |-> "subj", s |-> ss[i]]]
          \o [i \in 1..Len(r0) |-> [t |-> "re", d |-> 0, r |-> r0[i]]]
          \o [i \in 1..Len(r1) |-> [t |-> "re", d |-> 1, r |-> r1[i]]]
          \o [i \in 1..Len(fs) |-> [t |-> "flags", s |-> fs[i]]]

VARIABLE done
Init == done = ndJsonSerialize(IOEnv.VERIF_OUT, Out)
Next == UNCHANGED done
=============================================================================
