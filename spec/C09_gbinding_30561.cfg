SPECIFICATION Spec
CONSTANTS
  Profile = "binding"
  MaxLen = 5
INVARIANTS AllInvariants
CHECK_DEADLOCK FALSE
