------------------------------ MODULE Grammar ------------------------------
(***************************************************************************)
(* The grammar of gojq (parser.go.y) and the printer (query.go writeTo      *)
(* methods, operator.go Operator.String, encoder.go encodeString).          *)
(*                                                                         *)
(* PARSER.  parser.go.y is an LALR(1) grammar whose ambiguities are decided  *)
(* by its precedence block:                                                 *)
(*     %nonassoc tokFuncDefQuery tokExpr tokTerm      (lowest)              *)
(*     %right '|'   %left ','   %right tokAltOp   %nonassoc tokUpdateOp     *)
(*     %left tokOrOp   %left tokAndOp   %nonassoc tokCompareOp              *)
(*     %left '+' '-'   %left '*' '/' '%'                                    *)
(*     %nonassoc tokAs tokIndex '.' '?' tokEmptyCatch                       *)
(*     %nonassoc '[' tokTry tokCatch                  (highest)             *)
(* The specification states what that block means, as a deterministic       *)
(* parser over the token sequence of Lexer.tla:                             *)
(*   - expr: precedence climbing over BinOp (level, associativity); a       *)
(*     second operator of a %nonassoc level at the same nesting is an error *)
(*   - query: `|` is the weakest operator and right associative, `,` is     *)
(*     left associative; `def ..; Q`, `label $x | Q` and `E as P | Q` take  *)
(*     the longest possible Q (their rules have the precedence of '|' or    *)
(*     lower, so every following `|` `,` `as` is shifted); the left side of *)
(*     `as` is the expr immediately before it                               *)
(*   - term: a primary followed by all suffixes that follow (the suffix     *)
(*     tokens are above every rule that could reduce first), so a unary     *)
(*     sign, `try` and `catch` take a term with its suffixes and nothing    *)
(*     more (tokEmptyCatch / tokCatch are above all binary operators)       *)
(* The result is the gojq.Query value in the encoding of `vh c09parse`:     *)
(* every struct is a record with field k = Go type name and ALL exported    *)
(* fields; nil pointer = Nil; slices = sequences; strings = code points.    *)
(*                                                                         *)
(* PRINTER.  W<Type>(d, s, e) is e.writeTo(s): s is the strings.Builder so  *)
(* far (Index.writeTo inspects its last byte), d a set of deviations        *)
(* switched on - negative controls, empty for the code (see the end).       *)
(* PrintQ(q) = q.String().                                                  *)
(***************************************************************************)
EXTENDS Lexer

Nil == [k |-> "nil"]
IsNil(n) == n.k = "nil"

QueryBase == [k |-> "Query", Meta |-> Nil, Imports |-> <<>>, FuncDefs |-> <<>>, Term |-> Nil,
              Left |-> Nil, Right |-> Nil, Patterns |-> <<>>, Op |-> ""]
QTerm(t) == [QueryBase EXCEPT !.Term = t]
QBin(l, op, r) == [QueryBase EXCEPT !.Left = l, !.Op = op, !.Right = r]
TermBase == [k |-> "Term", Type |-> "", Index |-> Nil, Func |-> Nil, Object |-> Nil, Array |-> Nil,
             Number |-> <<>>, Unary |-> Nil, Format |-> <<>>, Str |-> Nil, If |-> Nil, Try |-> Nil,
             Reduce |-> Nil, Foreach |-> Nil, Label |-> Nil, Break |-> <<>>, Query |-> Nil, SuffixList |-> <<>>]
TermOf(ty) == [TermBase EXCEPT !.Type = ty]
IndexBase == [k |-> "Index", Name |-> <<>>, Str |-> Nil, Start |-> Nil, End |-> Nil, IsSlice |-> FALSE]
SuffixBase == [k |-> "Suffix", Index |-> Nil, Iter |-> FALSE, Optional |-> FALSE]
PatternBase == [k |-> "Pattern", Name |-> <<>>, Array |-> <<>>, Object |-> <<>>]
PatObjBase == [k |-> "PatternObject", Key |-> <<>>, KeyString |-> Nil, KeyQuery |-> Nil, Val |-> Nil]
ObjKVBase == [k |-> "ObjectKeyVal", Key |-> <<>>, KeyString |-> Nil, KeyQuery |-> Nil, Val |-> Nil]
ConstTermBase == [k |-> "ConstTerm", Object |-> Nil, Array |-> Nil, Number |-> <<>>, Str |-> <<>>,
                  Null |-> FALSE, True |-> FALSE, False |-> FALSE]
MkString(str, qs) == [k |-> "String", Str |-> str, Queries |-> qs]
MkFunc(name, args) == [k |-> "Func", Name |-> name, Args |-> args]

OK(n, i) == [ok |-> TRUE, n |-> n, i |-> i]
Err(i) == [ok |-> FALSE, i |-> i]

EofTok == [t |-> "eof", x |-> "", s |-> <<>>, v |-> <<>>, b |-> 0, e |-> 0]
TK(T, i) == IF i <= Len(T) THEN T[i] ELSE EofTok
IsC(T, i, x) == TK(T, i).t = "c" /\ TK(T, i).x = x
IsKw(T, i, x) == TK(T, i).t = "kw" /\ TK(T, i).x = x
IsStr(T, i) == TK(T, i).t \in {"string", "strstart"}

\* the binary operators of `expr` with their %left/%right/%nonassoc level
BinOp(tk) ==
  CASE tk.t = "altop" -> [lv |-> 1, as |-> "R", op |-> "//"]
    [] tk.t = "updateop" -> [lv |-> 2, as |-> "N", op |-> tk.x]
    [] tk.t = "kw" /\ tk.x = "or" -> [lv |-> 3, as |-> "L", op |-> "or"]
    [] tk.t = "kw" /\ tk.x = "and" -> [lv |-> 4, as |-> "L", op |-> "and"]
    [] tk.t = "compareop" -> [lv |-> 5, as |-> "N", op |-> tk.x]
    [] tk.t = "c" /\ tk.x \in {"+", "-"} -> [lv |-> 6, as |-> "L", op |-> tk.x]
    [] tk.t = "c" /\ tk.x \in {"*", "/", "%"} -> [lv |-> 7, as |-> "L", op |-> tk.x]
    [] OTHER -> [lv |-> 0, as |-> "", op |-> ""]

RECURSIVE PQuery(_, _), PCommaLoop(_, _, _), POperand(_, _), PFuncDef(_, _), PFuncArgs(_, _, _),
          PExpr(_, _, _), PExprLoop(_, _, _, _, _), PTerm(_, _), PPrimary(_, _), PSuffixes(_, _, _),
          PSuffix(_, _), PString(_, _), PStringParts(_, _, _), PObject(_, _), PObjectLoop(_, _, _),
          PObjectKeyVal(_, _), PObjectVal(_, _), PArgs(_, _, _), PPatterns(_, _, _), PPattern(_, _),
          PArrayPatterns(_, _, _), PObjectPatterns(_, _, _), PObjectPattern(_, _), PIf(_, _),
          PElifs(_, _, _), PFold(_, _, _), PConstObject(_, _), PConstKVs(_, _, _), PConstTerm(_, _),
          PConstElems(_, _, _)

(* query : funcdef query | query '|' query | query as bindpatterns '|' query *)
(*       | label $v '|' query | query ',' query | expr                       *)
PQuery(T, i) ==
  LET l == PCommaLoop(T, i, Nil) IN
  IF ~l.ok THEN l
  ELSE IF IsC(T, l.i, "|") THEN
    LET r == PQuery(T, l.i + 1) IN
    IF ~r.ok THEN r ELSE OK(QBin(l.n, "|", r.n), r.i)
  ELSE l

\* left-associative chain of ','; left = Nil before the first operand
PCommaLoop(T, i, left) ==
  LET o == POperand(T, i) IN
  IF ~o.ok THEN o
  ELSE LET n == IF IsNil(left) THEN o.n ELSE QBin(left, ",", o.n) IN
       IF IsC(T, o.i, ",") THEN PCommaLoop(T, o.i + 1, n) ELSE OK(n, o.i)

POperand(T, i) ==
  IF IsKw(T, i, "def") THEN
    LET fd == PFuncDef(T, i) IN
    IF ~fd.ok THEN fd
    ELSE LET q == PQuery(T, fd.i) IN
         IF ~q.ok THEN q ELSE OK([q.n EXCEPT !.FuncDefs = <<fd.n>> \o @], q.i)
  ELSE IF IsKw(T, i, "label") THEN
    IF TK(T, i + 1).t # "variable" THEN Err(i + 1)
    ELSE IF ~IsC(T, i + 2, "|") THEN Err(i + 2)
    ELSE LET q == PQuery(T, i + 3) IN
         IF ~q.ok THEN q
         ELSE OK(QTerm([TermOf("TermTypeLabel") EXCEPT !.Label = [k |-> "Label", Ident |-> TK(T, i + 1).s, Body |-> q.n]]), q.i)
  ELSE
    LET e == PExpr(T, i, 0) IN
    IF ~e.ok THEN e
    ELSE IF IsKw(T, e.i, "as") THEN
      LET ps == PPatterns(T, e.i + 1, <<>>) IN
      IF ~ps.ok THEN ps
      ELSE IF ~IsC(T, ps.i, "|") THEN Err(ps.i)
      ELSE LET q == PQuery(T, ps.i + 1) IN
           IF ~q.ok THEN q ELSE OK([QBin(e.n, "|", q.n) EXCEPT !.Patterns = ps.n], q.i)
    ELSE e

(* funcdef : def tokIdent ':' query ';' | def tokIdent '(' funcargs ')' ':' query ';' *)
PFuncDef(T, i) ==
  IF TK(T, i + 1).t # "ident" THEN Err(i + 1)
  ELSE
    LET name == TK(T, i + 1).s
        args == IF IsC(T, i + 2, "(") THEN PFuncArgs(T, i + 3, <<>>) ELSE OK(<<>>, i + 2)
    IN IF ~args.ok THEN args
       ELSE IF ~IsC(T, args.i, ":") THEN Err(args.i)
       ELSE LET q == PQuery(T, args.i + 1) IN
            IF ~q.ok THEN q
            ELSE IF ~IsC(T, q.i, ";") THEN Err(q.i)
            ELSE OK([k |-> "FuncDef", Name |-> name, Args |-> args.n, Body |-> q.n], q.i + 1)

PFuncArgs(T, i, acc) ==
  IF TK(T, i).t \notin {"ident", "variable"} THEN Err(i)
  ELSE LET a == Append(acc, TK(T, i).s) IN
       IF IsC(T, i + 1, ";") THEN PFuncArgs(T, i + 2, a)
       ELSE IF IsC(T, i + 1, ")") THEN OK(a, i + 2)
       ELSE Err(i + 1)

(* expr : expr binop expr | term      -- precedence climbing *)
PExpr(T, i, min) ==
  LET t == PTerm(T, i) IN
  IF ~t.ok THEN t ELSE PExprLoop(T, QTerm(t.n), t.i, min, 0)

\* na = level of the %nonassoc operator that built `left` at this nesting (0: none)
PExprLoop(T, left, j, min, na) ==
  LET b == BinOp(TK(T, j)) IN
  IF b.lv = 0 \/ b.lv < min THEN OK(left, j)
  ELSE IF b.lv = na THEN Err(j)
  ELSE LET r == PExpr(T, j + 1, IF b.as = "R" THEN b.lv ELSE b.lv + 1) IN
       IF ~r.ok THEN r
       ELSE PExprLoop(T, QBin(left, b.op, r.n), r.i, min, IF b.as = "N" THEN b.lv ELSE 0)

PTerm(T, i) ==
  LET p == PPrimary(T, i) IN
  IF ~p.ok THEN p ELSE PSuffixes(T, p.n, p.i)

AddSuffix(term, sfx) == [term EXCEPT !.SuffixList = Append(@, sfx)]
SuffixIndex(ix) == [SuffixBase EXCEPT !.Index = ix]

(* term : term tokIndex | term suffix | term '?' | term '.' suffix | term '.' string *)
PSuffixes(T, term, j) ==
  LET tk == TK(T, j) IN
  IF tk.t = "index" THEN PSuffixes(T, AddSuffix(term, SuffixIndex([IndexBase EXCEPT !.Name = Tail(tk.s)])), j + 1)
  ELSE IF IsC(T, j, "[") THEN
    LET s == PSuffix(T, j) IN
    IF ~s.ok THEN s ELSE PSuffixes(T, AddSuffix(term, s.n), s.i)
  ELSE IF IsC(T, j, "?") THEN PSuffixes(T, AddSuffix(term, [SuffixBase EXCEPT !.Optional = TRUE]), j + 1)
  ELSE IF IsC(T, j, ".") THEN
    IF IsC(T, j + 1, "[") THEN
      LET s == PSuffix(T, j + 1) IN
      IF ~s.ok THEN s ELSE PSuffixes(T, AddSuffix(term, s.n), s.i)
    ELSE IF IsStr(T, j + 1) THEN
      LET s == PString(T, j + 1) IN
      IF ~s.ok THEN s ELSE PSuffixes(T, AddSuffix(term, SuffixIndex([IndexBase EXCEPT !.Str = s.n])), s.i)
    ELSE Err(j + 1)
  ELSE OK(term, j)

(* suffix : '[' ']' | '[' query ']' | '[' query ':' ']' | '[' ':' query ']' | '[' query ':' query ']' *)
PSuffix(T, i) ==
  IF IsC(T, i + 1, "]") THEN OK([SuffixBase EXCEPT !.Iter = TRUE], i + 2)
  ELSE IF IsC(T, i + 1, ":") THEN
    LET q == PQuery(T, i + 2) IN
    IF ~q.ok THEN q
    ELSE IF ~IsC(T, q.i, "]") THEN Err(q.i)
    ELSE OK(SuffixIndex([IndexBase EXCEPT !.End = q.n, !.IsSlice = TRUE]), q.i + 1)
  ELSE
    LET q == PQuery(T, i + 1) IN
    IF ~q.ok THEN q
    ELSE IF IsC(T, q.i, "]") THEN OK(SuffixIndex([IndexBase EXCEPT !.Start = q.n]), q.i + 1)
    ELSE IF ~IsC(T, q.i, ":") THEN Err(q.i)
    ELSE IF IsC(T, q.i + 1, "]") THEN OK(SuffixIndex([IndexBase EXCEPT !.Start = q.n, !.IsSlice = TRUE]), q.i + 2)
    ELSE LET q2 == PQuery(T, q.i + 1) IN
         IF ~q2.ok THEN q2
         ELSE IF ~IsC(T, q2.i, "]") THEN Err(q2.i)
         ELSE OK(SuffixIndex([IndexBase EXCEPT !.Start = q.n, !.End = q2.n, !.IsSlice = TRUE]), q2.i + 1)

(* string : tokString | tokStringStart stringparts tokStringEnd *)
PString(T, i) ==
  IF TK(T, i).t = "string" THEN OK(MkString(TK(T, i).v, <<>>), i + 1)
  ELSE PStringParts(T, i + 1, <<>>)

PStringParts(T, i, acc) ==
  LET tk == TK(T, i) IN
  IF tk.t = "strend" THEN OK(MkString(<<>>, acc), i + 1)
  ELSE IF tk.t = "string" THEN
    PStringParts(T, i + 1, Append(acc, QTerm([TermOf("TermTypeString") EXCEPT !.Str = MkString(tk.v, <<>>)])))
  ELSE IF tk.t = "strquery" THEN
    LET q == PQuery(T, i + 1) IN
    IF ~q.ok THEN q
    ELSE IF ~IsC(T, q.i, ")") THEN Err(q.i)
    ELSE PStringParts(T, q.i + 1, Append(acc, QTerm([TermOf("TermTypeQuery") EXCEPT !.Query = q.n])))
  ELSE Err(i)

PPrimary(T, i) ==
  LET tk == TK(T, i) IN
  CASE tk.t = "c" /\ tk.x = "." ->
         IF IsC(T, i + 1, "[") THEN
           LET s == PSuffix(T, i + 1) IN
           IF ~s.ok THEN s
           ELSE IF s.n.Iter THEN OK([TermOf("TermTypeIdentity") EXCEPT !.SuffixList = <<s.n>>], s.i)
           ELSE OK([TermOf("TermTypeIndex") EXCEPT !.Index = s.n.Index], s.i)
         ELSE IF IsStr(T, i + 1) THEN
           LET s == PString(T, i + 1) IN
           IF ~s.ok THEN s ELSE OK([TermOf("TermTypeIndex") EXCEPT !.Index = [IndexBase EXCEPT !.Str = s.n]], s.i)
         ELSE OK(TermOf("TermTypeIdentity"), i + 1)
    [] tk.t = "recurse" -> OK(TermOf("TermTypeRecurse"), i + 1)
    [] tk.t = "index" -> OK([TermOf("TermTypeIndex") EXCEPT !.Index = [IndexBase EXCEPT !.Name = Tail(tk.s)]], i + 1)
    [] tk.t = "kw" /\ tk.x = "null" -> OK(TermOf("TermTypeNull"), i + 1)
    [] tk.t = "kw" /\ tk.x = "true" -> OK(TermOf("TermTypeTrue"), i + 1)
    [] tk.t = "kw" /\ tk.x = "false" -> OK(TermOf("TermTypeFalse"), i + 1)
    [] tk.t \in {"ident", "modident"} ->
         IF IsC(T, i + 1, "(") THEN
           LET a == PArgs(T, i + 2, <<>>) IN
           IF ~a.ok THEN a ELSE OK([TermOf("TermTypeFunc") EXCEPT !.Func = MkFunc(tk.s, a.n)], a.i)
         ELSE OK([TermOf("TermTypeFunc") EXCEPT !.Func = MkFunc(tk.s, <<>>)], i + 1)
    [] tk.t \in {"variable", "modvariable"} -> OK([TermOf("TermTypeFunc") EXCEPT !.Func = MkFunc(tk.s, <<>>)], i + 1)
    [] tk.t = "c" /\ tk.x = "{" -> PObject(T, i)
    [] tk.t = "c" /\ tk.x = "[" ->
         IF IsC(T, i + 1, "]") THEN OK([TermOf("TermTypeArray") EXCEPT !.Array = [k |-> "Array", Query |-> Nil]], i + 2)
         ELSE LET q == PQuery(T, i + 1) IN
              IF ~q.ok THEN q
              ELSE IF ~IsC(T, q.i, "]") THEN Err(q.i)
              ELSE OK([TermOf("TermTypeArray") EXCEPT !.Array = [k |-> "Array", Query |-> q.n]], q.i + 1)
    [] tk.t = "number" -> OK([TermOf("TermTypeNumber") EXCEPT !.Number = tk.s], i + 1)
    [] tk.t = "c" /\ tk.x \in {"+", "-"} ->
         LET t == PTerm(T, i + 1) IN
         IF ~t.ok THEN t
         ELSE OK([TermOf("TermTypeUnary") EXCEPT !.Unary = [k |-> "Unary", Op |-> tk.x, Term |-> t.n]], t.i)
    [] tk.t = "format" ->
         IF IsStr(T, i + 1) THEN
           LET s == PString(T, i + 1) IN
           IF ~s.ok THEN s ELSE OK([TermOf("TermTypeFormat") EXCEPT !.Format = tk.s, !.Str = s.n], s.i)
         ELSE OK([TermOf("TermTypeFormat") EXCEPT !.Format = tk.s], i + 1)
    [] tk.t \in {"string", "strstart"} ->
         LET s == PString(T, i) IN
         IF ~s.ok THEN s ELSE OK([TermOf("TermTypeString") EXCEPT !.Str = s.n], s.i)
    [] tk.t = "kw" /\ tk.x = "if" -> PIf(T, i)
    [] tk.t = "kw" /\ tk.x = "try" ->
         \* tokTry expr trycatch: tokEmptyCatch and tokCatch are above every binary
         \* operator, so body and handler are terms (with their suffixes)
         LET b == PTerm(T, i + 1) IN
         IF ~b.ok THEN b
         ELSE IF IsKw(T, b.i, "catch") THEN
           LET c == PTerm(T, b.i + 1) IN
           IF ~c.ok THEN c
           ELSE OK([TermOf("TermTypeTry") EXCEPT !.Try = [k |-> "Try", Body |-> QTerm(b.n), Catch |-> QTerm(c.n)]], c.i)
         ELSE OK([TermOf("TermTypeTry") EXCEPT !.Try = [k |-> "Try", Body |-> QTerm(b.n), Catch |-> Nil]], b.i)
    [] tk.t = "kw" /\ tk.x \in {"reduce", "foreach"} -> PFold(T, i, tk.x)
    [] tk.t = "kw" /\ tk.x = "break" ->
         IF TK(T, i + 1).t = "variable" THEN OK([TermOf("TermTypeBreak") EXCEPT !.Break = TK(T, i + 1).s], i + 2)
         ELSE Err(i + 1)
    [] tk.t = "c" /\ tk.x = "(" ->
         LET q == PQuery(T, i + 1) IN
         IF ~q.ok THEN q
         ELSE IF ~IsC(T, q.i, ")") THEN Err(q.i)
         ELSE OK([TermOf("TermTypeQuery") EXCEPT !.Query = q.n], q.i + 1)
    [] OTHER -> Err(i)

(* args : query | args ';' query       (after the opening parenthesis) *)
PArgs(T, i, acc) ==
  LET q == PQuery(T, i) IN
  IF ~q.ok THEN q
  ELSE IF IsC(T, q.i, ";") THEN PArgs(T, q.i + 1, Append(acc, q.n))
  ELSE IF IsC(T, q.i, ")") THEN OK(Append(acc, q.n), q.i + 1)
  ELSE Err(q.i)

(* tokIf query tokThen query ifelifs ifelse tokEnd *)
PIf(T, i) ==
  LET c == PQuery(T, i + 1) IN
  IF ~c.ok THEN c
  ELSE IF ~IsKw(T, c.i, "then") THEN Err(c.i)
  ELSE LET t == PQuery(T, c.i + 1) IN
       IF ~t.ok THEN t
       ELSE LET es == PElifs(T, t.i, <<>>) IN
            IF ~es.ok THEN es
            ELSE LET el == IF IsKw(T, es.i, "else") THEN PQuery(T, es.i + 1) ELSE OK(Nil, es.i) IN
                 IF ~el.ok THEN el
                 ELSE IF ~IsKw(T, el.i, "end") THEN Err(el.i)
                 ELSE OK([TermOf("TermTypeIf") EXCEPT !.If = [k |-> "If", Cond |-> c.n, Then |-> t.n, Elif |-> es.n, Else |-> el.n]], el.i + 1)

PElifs(T, i, acc) ==
  IF ~IsKw(T, i, "elif") THEN OK(acc, i)
  ELSE LET c == PQuery(T, i + 1) IN
       IF ~c.ok THEN c
       ELSE IF ~IsKw(T, c.i, "then") THEN Err(c.i)
       ELSE LET t == PQuery(T, c.i + 1) IN
            IF ~t.ok THEN t ELSE PElifs(T, t.i, Append(acc, [k |-> "IfElif", Cond |-> c.n, Then |-> t.n]))

(* tokReduce expr tokAs pattern '(' query ';' query ')'   and the two foreach forms *)
PFold(T, i, kw) ==
  LET e == PExpr(T, i + 1, 0) IN
  IF ~e.ok THEN e
  ELSE IF ~IsKw(T, e.i, "as") THEN Err(e.i)
  ELSE LET p == PPattern(T, e.i + 1) IN
       IF ~p.ok THEN p
       ELSE IF ~IsC(T, p.i, "(") THEN Err(p.i)
       ELSE LET s == PQuery(T, p.i + 1) IN
            IF ~s.ok THEN s
            ELSE IF ~IsC(T, s.i, ";") THEN Err(s.i)
            ELSE LET u == PQuery(T, s.i + 1) IN
                 IF ~u.ok THEN u
                 ELSE IF kw = "reduce" THEN
                   (IF ~IsC(T, u.i, ")") THEN Err(u.i)
                    ELSE OK([TermOf("TermTypeReduce") EXCEPT !.Reduce =
                              [k |-> "Reduce", Query |-> e.n, Pattern |-> p.n, Start |-> s.n, Update |-> u.n]], u.i + 1))
                 ELSE IF IsC(T, u.i, ")") THEN
                   OK([TermOf("TermTypeForeach") EXCEPT !.Foreach =
                        [k |-> "Foreach", Query |-> e.n, Pattern |-> p.n, Start |-> s.n, Update |-> u.n, Extract |-> Nil]], u.i + 1)
                 ELSE IF ~IsC(T, u.i, ";") THEN Err(u.i)
                 ELSE LET x == PQuery(T, u.i + 1) IN
                      IF ~x.ok THEN x
                      ELSE IF ~IsC(T, x.i, ")") THEN Err(x.i)
                      ELSE OK([TermOf("TermTypeForeach") EXCEPT !.Foreach =
                                [k |-> "Foreach", Query |-> e.n, Pattern |-> p.n, Start |-> s.n, Update |-> u.n, Extract |-> x.n]], x.i + 1)

(* '{' '}' | '{' objectkeyvals '}' | '{' objectkeyvals ',' '}' *)
PObject(T, i) ==
  IF IsC(T, i + 1, "}") THEN OK([TermOf("TermTypeObject") EXCEPT !.Object = [k |-> "Object", KeyVals |-> <<>>]], i + 2)
  ELSE PObjectLoop(T, i + 1, <<>>)

PObjectLoop(T, j, acc) ==
  LET kv == PObjectKeyVal(T, j) IN
  IF ~kv.ok THEN kv
  ELSE LET a == Append(acc, kv.n)
           done(n) == OK([TermOf("TermTypeObject") EXCEPT !.Object = [k |-> "Object", KeyVals |-> a]], n)
       IN IF IsC(T, kv.i, "}") THEN done(kv.i + 1)
          ELSE IF ~IsC(T, kv.i, ",") THEN Err(kv.i)
          ELSE IF IsC(T, kv.i + 1, "}") THEN done(kv.i + 2)
          ELSE PObjectLoop(T, kv.i + 1, a)

(* objectkey ':' objectval | string ':' objectval | '(' query ')' ':' objectval | objectkey | string *)
(* objectkey : tokIdent | tokVariable | tokKeyword                                              *)
PObjectKeyVal(T, j) ==
  LET tk == TK(T, j) IN
  IF tk.t \in {"ident", "variable", "kw"} THEN
    IF IsC(T, j + 1, ":") THEN
      LET v == PObjectVal(T, j + 2) IN
      IF ~v.ok THEN v ELSE OK([ObjKVBase EXCEPT !.Key = tk.s, !.Val = v.n], v.i)
    ELSE OK([ObjKVBase EXCEPT !.Key = tk.s], j + 1)
  ELSE IF IsStr(T, j) THEN
    LET s == PString(T, j) IN
    IF ~s.ok THEN s
    ELSE IF IsC(T, s.i, ":") THEN
      LET v == PObjectVal(T, s.i + 1) IN
      IF ~v.ok THEN v ELSE OK([ObjKVBase EXCEPT !.KeyString = s.n, !.Val = v.n], v.i)
    ELSE OK([ObjKVBase EXCEPT !.KeyString = s.n], s.i)
  ELSE IF IsC(T, j, "(") THEN
    LET q == PQuery(T, j + 1) IN
    IF ~q.ok THEN q
    ELSE IF ~IsC(T, q.i, ")") THEN Err(q.i)
    ELSE IF ~IsC(T, q.i + 1, ":") THEN Err(q.i + 1)
    ELSE LET v == PObjectVal(T, q.i + 2) IN
         IF ~v.ok THEN v ELSE OK([ObjKVBase EXCEPT !.KeyQuery = q.n, !.Val = v.n], v.i)
  ELSE Err(j)

(* objectval : objectval '|' objectval | expr *)
PObjectVal(T, i) ==
  LET e == PExpr(T, i, 0) IN
  IF ~e.ok THEN e
  ELSE IF IsC(T, e.i, "|") THEN
    LET r == PObjectVal(T, e.i + 1) IN
    IF ~r.ok THEN r ELSE OK(QBin(e.n, "|", r.n), r.i)
  ELSE e

(* bindpatterns : pattern | bindpatterns tokDestAltOp pattern *)
PPatterns(T, i, acc) ==
  LET p == PPattern(T, i) IN
  IF ~p.ok THEN p
  ELSE IF TK(T, p.i).t = "destaltop" THEN PPatterns(T, p.i + 1, Append(acc, p.n))
  ELSE OK(Append(acc, p.n), p.i)

PPattern(T, i) ==
  LET tk == TK(T, i) IN
  IF tk.t = "variable" THEN OK([PatternBase EXCEPT !.Name = tk.s], i + 1)
  ELSE IF IsC(T, i, "[") THEN PArrayPatterns(T, i + 1, <<>>)
  ELSE IF IsC(T, i, "{") THEN PObjectPatterns(T, i + 1, <<>>)
  ELSE Err(i)

PArrayPatterns(T, i, acc) ==
  LET p == PPattern(T, i) IN
  IF ~p.ok THEN p
  ELSE IF IsC(T, p.i, ",") THEN PArrayPatterns(T, p.i + 1, Append(acc, p.n))
  ELSE IF IsC(T, p.i, "]") THEN OK([PatternBase EXCEPT !.Array = Append(acc, p.n)], p.i + 1)
  ELSE Err(p.i)

PObjectPatterns(T, i, acc) ==
  LET p == PObjectPattern(T, i) IN
  IF ~p.ok THEN p
  ELSE IF IsC(T, p.i, ",") THEN PObjectPatterns(T, p.i + 1, Append(acc, p.n))
  ELSE IF IsC(T, p.i, "}") THEN OK([PatternBase EXCEPT !.Object = Append(acc, p.n)], p.i + 1)
  ELSE Err(p.i)

(* objectkey ':' pattern | string ':' pattern | '(' query ')' ':' pattern | tokVariable *)
PObjectPattern(T, j) ==
  LET tk == TK(T, j)
      val(key, i) == LET p == PPattern(T, i) IN IF ~p.ok THEN p ELSE OK([key EXCEPT !.Val = p.n], p.i)
  IN
  IF tk.t = "variable" /\ ~IsC(T, j + 1, ":") THEN OK([PatObjBase EXCEPT !.Key = tk.s], j + 1)
  ELSE IF tk.t \in {"ident", "variable", "kw"} THEN
    (IF IsC(T, j + 1, ":") THEN val([PatObjBase EXCEPT !.Key = tk.s], j + 2) ELSE Err(j + 1))
  ELSE IF IsStr(T, j) THEN
    LET s == PString(T, j) IN
    IF ~s.ok THEN s
    ELSE IF ~IsC(T, s.i, ":") THEN Err(s.i)
    ELSE val([PatObjBase EXCEPT !.KeyString = s.n], s.i + 1)
  ELSE IF IsC(T, j, "(") THEN
    LET q == PQuery(T, j + 1) IN
    IF ~q.ok THEN q
    ELSE IF ~IsC(T, q.i, ")") THEN Err(q.i)
    ELSE IF ~IsC(T, q.i + 1, ":") THEN Err(q.i + 1)
    ELSE val([PatObjBase EXCEPT !.KeyQuery = q.n], q.i + 2)
  ELSE Err(j)

(* constobject : '{' '}' | '{' constobjectkeyvals '}' | '{' constobjectkeyvals ',' '}' *)
PConstObject(T, i) ==
  IF ~IsC(T, i, "{") THEN Err(i)
  ELSE IF IsC(T, i + 1, "}") THEN OK([k |-> "ConstObject", KeyVals |-> <<>>], i + 2)
  ELSE PConstKVs(T, i + 1, <<>>)

PConstKVs(T, j, acc) ==
  LET tk == TK(T, j) IN
  IF tk.t \notin {"ident", "kw", "string"} THEN Err(j)
  ELSE IF ~IsC(T, j + 1, ":") THEN Err(j + 1)
  ELSE LET v == PConstTerm(T, j + 2) IN
       IF ~v.ok THEN v
       ELSE LET kv == IF tk.t = "string"
                      THEN [k |-> "ConstObjectKeyVal", Key |-> <<>>, KeyString |-> tk.v, Val |-> v.n]
                      ELSE [k |-> "ConstObjectKeyVal", Key |-> tk.s, KeyString |-> <<>>, Val |-> v.n]
                a == Append(acc, kv)
            IN IF IsC(T, v.i, "}") THEN OK([k |-> "ConstObject", KeyVals |-> a], v.i + 1)
               ELSE IF ~IsC(T, v.i, ",") THEN Err(v.i)
               ELSE IF IsC(T, v.i + 1, "}") THEN OK([k |-> "ConstObject", KeyVals |-> a], v.i + 2)
               ELSE PConstKVs(T, v.i + 1, a)

PConstTerm(T, i) ==
  LET tk == TK(T, i) IN
  IF IsC(T, i, "{") THEN
    LET o == PConstObject(T, i) IN IF ~o.ok THEN o ELSE OK([ConstTermBase EXCEPT !.Object = o.n], o.i)
  ELSE IF IsC(T, i, "[") THEN
    IF IsC(T, i + 1, "]") THEN OK([ConstTermBase EXCEPT !.Array = [k |-> "ConstArray", Elems |-> <<>>]], i + 2)
    ELSE PConstElems(T, i + 1, <<>>)
  ELSE IF tk.t = "number" THEN OK([ConstTermBase EXCEPT !.Number = tk.s], i + 1)
  ELSE IF tk.t = "string" THEN OK([ConstTermBase EXCEPT !.Str = tk.v], i + 1)
  ELSE IF IsKw(T, i, "null") THEN OK([ConstTermBase EXCEPT !.Null = TRUE], i + 1)
  ELSE IF IsKw(T, i, "true") THEN OK([ConstTermBase EXCEPT !.True = TRUE], i + 1)
  ELSE IF IsKw(T, i, "false") THEN OK([ConstTermBase EXCEPT !.False = TRUE], i + 1)
  ELSE Err(i)

PConstElems(T, i, acc) ==
  LET v == PConstTerm(T, i) IN
  IF ~v.ok THEN v
  ELSE IF IsC(T, v.i, ",") THEN PConstElems(T, v.i + 1, Append(acc, v.n))
  ELSE IF IsC(T, v.i, "]") THEN OK([ConstTermBase EXCEPT !.Array = [k |-> "ConstArray", Elems |-> Append(acc, v.n)]], v.i + 1)
  ELSE Err(v.i)

(* program : header imports body *)
PHeader(T) ==
  IF ~IsKw(T, 1, "module") THEN OK(Nil, 1)
  ELSE LET o == PConstObject(T, 2) IN
       IF ~o.ok THEN o ELSE IF ~IsC(T, o.i, ";") THEN Err(o.i) ELSE OK(o.n, o.i + 1)

PMeta(T, i) == IF IsC(T, i, ";") THEN OK(Nil, i) ELSE PConstObject(T, i)

RECURSIVE PImports(_, _, _)
PImports(T, i, acc) ==
  IF IsKw(T, i, "import") THEN
    IF TK(T, i + 1).t # "string" THEN Err(i + 1)
    ELSE IF ~IsKw(T, i + 2, "as") THEN Err(i + 2)
    ELSE IF TK(T, i + 3).t \notin {"ident", "variable"} THEN Err(i + 3)
    ELSE LET m == PMeta(T, i + 4) IN
         IF ~m.ok THEN m
         ELSE IF ~IsC(T, m.i, ";") THEN Err(m.i)
         ELSE PImports(T, m.i + 1, Append(acc, [k |-> "Import", ImportPath |-> TK(T, i + 1).v,
                                                 ImportAlias |-> TK(T, i + 3).s, IncludePath |-> <<>>, Meta |-> m.n]))
  ELSE IF IsKw(T, i, "include") THEN
    IF TK(T, i + 1).t # "string" THEN Err(i + 1)
    ELSE LET m == PMeta(T, i + 2) IN
         IF ~m.ok THEN m
         ELSE IF ~IsC(T, m.i, ";") THEN Err(m.i)
         ELSE PImports(T, m.i + 1, Append(acc, [k |-> "Import", ImportPath |-> <<>>, ImportAlias |-> <<>>,
                                                 IncludePath |-> TK(T, i + 1).v, Meta |-> m.n]))
  ELSE OK(acc, i)

RECURSIVE PTopDefs(_, _, _)
\* body : funcdefs | query      (a text of definitions only has no query)
PTopDefs(T, i, acc) ==
  IF IsKw(T, i, "def") THEN
    LET fd == PFuncDef(T, i) IN IF ~fd.ok THEN fd ELSE PTopDefs(T, fd.i, Append(acc, fd.n))
  ELSE OK(acc, i)

ParseTokens(T) ==
  LET h == PHeader(T) IN
  IF ~h.ok THEN h
  ELSE LET im == PImports(T, h.i, <<>>) IN
       IF ~im.ok THEN im
       ELSE LET ds == PTopDefs(T, im.i, <<>>) IN
            IF ~ds.ok THEN ds
            ELSE IF TK(T, ds.i).t = "eof" THEN
              OK([QueryBase EXCEPT !.Meta = h.n, !.Imports = im.n, !.FuncDefs = ds.n], ds.i)
            ELSE LET q == PQuery(T, ds.i) IN
                 IF ~q.ok THEN q
                 ELSE IF TK(T, q.i).t # "eof" THEN Err(q.i)
                 ELSE OK([q.n EXCEPT !.Meta = h.n, !.Imports = im.n, !.FuncDefs = ds.n \o @], q.i)

Parse(src) == ParseTokens(Lex(src))

----------------------------------------------------------------------------
(* The printer.                                                             *)

S_module == <<109,111,100,117,108,101,32>>   \* 'module '
S_semnl == <<59,10>>   \* ';\n'
S_import == <<105,109,112,111,114,116,32>>   \* 'import '
S_as == <<32,97,115,32>>   \* ' as '
S_include == <<105,110,99,108,117,100,101,32>>   \* 'include '
S_def == <<100,101,102,32>>   \* 'def '
S_semsp == <<59,32>>   \* '; '
S_colsp == <<58,32>>   \* ': '
S_assp == <<97,115,32>>   \* 'as '
S_daltsp == <<63,47,47,32>>   \* '?// '
S_null == <<110,117,108,108>>   \* 'null'
S_true == <<116,114,117,101>>   \* 'true'
S_false == <<102,97,108,115,101>>   \* 'false'
S_dotdot == <<46,46>>   \* '..'
S_break == <<98,114,101,97,107,32>>   \* 'break '
S_if == <<105,102,32>>   \* 'if '
S_then == <<32,116,104,101,110,32>>   \* ' then '
S_else == <<32,101,108,115,101,32>>   \* ' else '
S_end == <<32,101,110,100>>   \* ' end'
S_elif == <<101,108,105,102,32>>   \* 'elif '
S_try == <<116,114,121,32>>   \* 'try '
S_catch == <<32,99,97,116,99,104,32>>   \* ' catch '
S_reduce == <<114,101,100,117,99,101,32>>   \* 'reduce '
S_foreach == <<102,111,114,101,97,99,104,32>>   \* 'foreach '
S_spparen == <<32,40>>   \* ' ('
S_label == <<108,97,98,101,108,32>>   \* 'label '
S_sppipesp == <<32,124,32>>   \* ' | '
S_braces == <<123,125>>   \* '{}'
S_lbracesp == <<123,32>>   \* '{ '
S_sprbrace == <<32,125>>   \* ' }'
S_commasp == <<44,32>>   \* ', '
S_brackets == <<91,93>>   \* '[]'
S_u00 == <<92,117,48,48>>   \* '\u00'

\* Operator.String
OpBytes(op) ==
  CASE op = "|" -> <<124>>
    [] op = "," -> <<44>>
    [] op = "+" -> <<43>>
    [] op = "-" -> <<45>>
    [] op = "*" -> <<42>>
    [] op = "/" -> <<47>>
    [] op = "%" -> <<37>>
    [] op = "==" -> <<61,61>>
    [] op = "!=" -> <<33,61>>
    [] op = ">" -> <<62>>
    [] op = "<" -> <<60>>
    [] op = ">=" -> <<62,61>>
    [] op = "<=" -> <<60,61>>
    [] op = "and" -> <<97,110,100>>
    [] op = "or" -> <<111,114>>
    [] op = "//" -> <<47,47>>
    [] op = "=" -> <<61>>
    [] op = "|=" -> <<124,61>>
    [] op = "+=" -> <<43,61>>
    [] op = "-=" -> <<45,61>>
    [] op = "*=" -> <<42,61>>
    [] op = "/=" -> <<47,61>>
    [] op = "%=" -> <<37,61>>
    [] op = "//=" -> <<47,47,61>>

\* encoder.encodeString on the code points of a (valid UTF-8) string, without the quotes
HexDigit(n) == IF n < 10 THEN 48 + n ELSE 87 + n
EncCp(c) ==
  IF c >= 128 THEN EncodeRune(c)
  ELSE IF c >= 32 /\ c <= 126 /\ c # 34 /\ c # 92 THEN <<c>>
  ELSE CASE c = 34 -> <<92, 34>> [] c = 92 -> <<92, 92>> [] c = 8 -> <<92, 98>> [] c = 12 -> <<92, 102>>
         [] c = 10 -> <<92, 110>> [] c = 13 -> <<92, 114>> [] c = 9 -> <<92, 116>>
         [] OTHER -> S_u00 \o <<HexDigit(c \div 16), HexDigit((c % 16))>>
RECURSIVE EncCps(_, _)
EncCps(cs, i) == IF i > Len(cs) THEN <<>> ELSE EncCp(cs[i]) \o EncCps(cs, i + 1)
JsonStr(cs) == <<34>> \o EncCps(cs, 1) \o <<34>>

RECURSIVE WQuery(_, _, _), WImports(_, _, _, _), WFuncDefs(_, _, _, _), WFuncDef(_, _, _), WTerm(_, _, _), WSuffixes(_, _, _, _),
          WSuffix(_, _, _), WIndex(_, _, _), WIndexSuffix(_, _, _), WString(_, _, _), WStringParts(_, _, _, _), WPattern(_, _, _),
          WPatterns(_, _, _, _), WPatObjs(_, _, _, _), WPatObj(_, _, _), WBindPatterns(_, _, _, _), WArgs(_, _, _, _),
          WObjKVs(_, _, _, _), WObjKV(_, _, _), WIf(_, _, _), WElifs(_, _, _, _), WConstTerm(_, _, _), WConstObject(_, _, _),
          WConstKVs(_, _, _, _), WConstElems(_, _, _, _)

WQuery(d, s, e) ==
  LET s1 == IF IsNil(e.Meta) THEN s ELSE WConstObject(d, s \o S_module, e.Meta) \o S_semnl
      s2 == WImports(d, s1, e.Imports, 1)
      s3 == WFuncDefs(d, s2, e.FuncDefs, 1)
  IN IF ~IsNil(e.Term) THEN WTerm(d, s3, e.Term)
     ELSE IF ~IsNil(e.Right) THEN
       LET a == WQuery(d, s3, e.Left)
           b == IF e.Op # "," THEN Append(a, 32) ELSE a
           c == WBindPatterns(d, b, e.Patterns, 1)
       IN WQuery(d, c \o OpBytes(e.Op) \o <<32>>, e.Right)
     ELSE s3

WBindPatterns(d, s, ps, i) ==
  IF i > Len(ps) THEN s
  ELSE WBindPatterns(d, Append(WPattern(d, s \o (IF i = 1 THEN S_assp ELSE S_daltsp), ps[i]), 32), ps, i + 1)

WImports(d, s, ims, i) ==
  IF i > Len(ims) THEN s
  ELSE LET im == ims[i]
           \* Import.writeTo tells an import from an include by its alias; negative control "emptyImport":
           \* telling them apart by the path prints `import "" as a;` as an include
           isImport == IF "emptyImport" \in d THEN im.ImportPath # <<>> ELSE im.ImportAlias # <<>>
           a == IF isImport
                THEN s \o S_import \o JsonStr(im.ImportPath) \o S_as \o im.ImportAlias
                ELSE s \o S_include \o JsonStr(im.IncludePath)
           b == IF IsNil(im.Meta) THEN a ELSE WConstObject(d, Append(a, 32), im.Meta)
       IN WImports(d, b \o S_semnl, ims, i + 1)

WFuncDefs(d, s, fds, i) == IF i > Len(fds) THEN s ELSE WFuncDefs(d, Append(WFuncDef(d, s, fds[i]), 32), fds, i + 1)

RECURSIVE JoinNames(_, _, _)
JoinNames(s, xs, i) == IF i > Len(xs) THEN s ELSE JoinNames((IF i > 1 THEN s \o S_semsp ELSE s) \o xs[i], xs, i + 1)

WFuncDef(d, s, e) ==
  LET a == s \o S_def \o e.Name
      b == IF Len(e.Args) > 0 THEN Append(JoinNames(Append(a, 40), e.Args, 1), 41) ELSE a
  IN Append(WQuery(d, b \o S_colsp, e.Body), 59)

WTerm(d, s, e) ==
  LET ty == e.Type
      a == CASE ty = "TermTypeIdentity" -> Append(s, 46)
             [] ty = "TermTypeRecurse" -> s \o S_dotdot
             [] ty = "TermTypeNull" -> s \o S_null
             [] ty = "TermTypeTrue" -> s \o S_true
             [] ty = "TermTypeFalse" -> s \o S_false
             [] ty = "TermTypeIndex" -> WIndex(d, s, e.Index)
             [] ty = "TermTypeFunc" ->
                  LET f == e.Func  n == s \o f.Name IN
                  IF Len(f.Args) > 0 THEN Append(WArgs(d, Append(n, 40), f.Args, 1), 41) ELSE n
             [] ty = "TermTypeObject" ->
                  IF Len(e.Object.KeyVals) = 0 THEN s \o S_braces
                  ELSE WObjKVs(d, s \o S_lbracesp, e.Object.KeyVals, 1) \o S_sprbrace
             [] ty = "TermTypeArray" ->
                  Append(IF IsNil(e.Array.Query) THEN Append(s, 91) ELSE WQuery(d, Append(s, 91), e.Array.Query), 93)
             [] ty = "TermTypeNumber" -> s \o e.Number
             [] ty = "TermTypeUnary" -> WTerm(d, s \o OpBytes(e.Unary.Op), e.Unary.Term)
             [] ty = "TermTypeFormat" ->
                  IF IsNil(e.Str) THEN s \o e.Format ELSE WString(d, Append(s \o e.Format, 32), e.Str)
             [] ty = "TermTypeString" -> WString(d, s, e.Str)
             [] ty = "TermTypeIf" -> WIf(d, s, e.If)
             [] ty = "TermTypeTry" ->
                  LET b == WQuery(d, s \o S_try, e.Try.Body) IN
                  IF IsNil(e.Try.Catch) THEN b ELSE WQuery(d, b \o S_catch, e.Try.Catch)
             [] ty = "TermTypeReduce" ->
                  LET r == e.Reduce
                      b == WPattern(d, WQuery(d, s \o S_reduce, r.Query) \o S_as, r.Pattern) \o S_spparen
                  IN Append(WQuery(d, WQuery(d, b, r.Start) \o S_semsp, r.Update), 41)
             [] ty = "TermTypeForeach" ->
                  LET r == e.Foreach
                      b == WPattern(d, WQuery(d, s \o S_foreach, r.Query) \o S_as, r.Pattern) \o S_spparen
                      c == WQuery(d, WQuery(d, b, r.Start) \o S_semsp, r.Update)
                  IN Append(IF IsNil(r.Extract) THEN c ELSE WQuery(d, c \o S_semsp, r.Extract), 41)
             [] ty = "TermTypeLabel" -> WQuery(d, s \o S_label \o e.Label.Ident \o S_sppipesp, e.Label.Body)
             [] ty = "TermTypeBreak" -> s \o S_break \o e.Break
             [] ty = "TermTypeQuery" -> Append(WQuery(d, Append(s, 40), e.Query), 41)
             [] OTHER -> s
      \* Term.writeTo: the first suffix of an identity term, when it is an index, is written through
      \* Index.writeTo (". .[0]" != ".[0]"); negative control "dotBracket": written as a plain suffix,
      \* `. .[0]` comes out as `.[0]`, which is an index TERM
      sl == e.SuffixList
      indexFirst == ty = "TermTypeIdentity" /\ Len(sl) > 0 /\ ~IsNil(sl[1].Index)
  IN IF indexFirst /\ "dotBracket" \notin d
     THEN WSuffixes(d, WIndex(d, a, sl[1].Index), sl, 2)
     ELSE WSuffixes(d, a, sl, 1)

WSuffixes(d, s, xs, i) == IF i > Len(xs) THEN s ELSE WSuffixes(d, WSuffix(d, s, xs[i]), xs, i + 1)

WSuffix(d, s, e) ==
  IF ~IsNil(e.Index) THEN
    (IF e.Index.Name # <<>> \/ ~IsNil(e.Index.Str) THEN WIndex(d, s, e.Index) ELSE WIndexSuffix(d, s, e.Index))
  ELSE IF e.Iter THEN s \o S_brackets
  ELSE IF e.Optional THEN Append(s, 63)
  ELSE s

\* Index.writeTo: ". .x" != "..x" and "0 .x" != "0.x"
WIndex(d, s, e) ==
  LET a == IF Len(s) > 0 /\ (s[Len(s)] = 46 \/ IsDigit(s[Len(s)])) THEN Append(s, 32) ELSE s
  IN WIndexSuffix(d, Append(a, 46), e)

WIndexSuffix(d, s, e) ==
  IF e.Name # <<>> THEN s \o e.Name
  ELSE IF ~IsNil(e.Str) THEN WString(d, s, e.Str)
  ELSE
    LET a == Append(s, 91)
        b == IF e.IsSlice THEN
               LET b1 == IF IsNil(e.Start) THEN a ELSE WQuery(d, a, e.Start)
                   b2 == Append(b1, 58)
               IN IF IsNil(e.End) THEN b2 ELSE WQuery(d, b2, e.End)
             ELSE WQuery(d, a, e.Start)
    IN Append(b, 93)

\* String.writeTo: Queries == nil is the plain literal
WString(d, s, e) ==
  IF Len(e.Queries) = 0 THEN s \o JsonStr(e.Str)
  ELSE Append(WStringParts(d, Append(s, 34), e.Queries, 1), 34)

WStringParts(d, s, qs, i) ==
  IF i > Len(qs) THEN s
  ELSE LET q == qs[i] IN
       IF IsNil(q.Term.Str) THEN WStringParts(d, WQuery(d, Append(s, 92), q), qs, i + 1)
       ELSE LET es == WQuery(d, <<>>, q) IN WStringParts(d, s \o SubSeq(es, 2, Len(es) - 1), qs, i + 1)

WArgs(d, s, qs, i) == IF i > Len(qs) THEN s ELSE WArgs(d, WQuery(d, IF i > 1 THEN s \o S_semsp ELSE s, qs[i]), qs, i + 1)

WPattern(d, s, e) ==
  IF e.Name # <<>> THEN s \o e.Name
  ELSE IF Len(e.Array) > 0 THEN Append(WPatterns(d, Append(s, 91), e.Array, 1), 93)
  ELSE IF Len(e.Object) > 0 THEN Append(WPatObjs(d, Append(s, 123), e.Object, 1), 125)
  ELSE s

WPatterns(d, s, ps, i) == IF i > Len(ps) THEN s ELSE WPatterns(d, WPattern(d, IF i > 1 THEN s \o S_commasp ELSE s, ps[i]), ps, i + 1)
WPatObjs(d, s, ps, i) == IF i > Len(ps) THEN s ELSE WPatObjs(d, WPatObj(d, IF i > 1 THEN s \o S_commasp ELSE s, ps[i]), ps, i + 1)

WPatObj(d, s, e) ==
  LET a == IF e.Key # <<>> THEN s \o e.Key
           ELSE IF ~IsNil(e.KeyString) THEN WString(d, s, e.KeyString)
           ELSE IF ~IsNil(e.KeyQuery) THEN Append(WQuery(d, Append(s, 40), e.KeyQuery), 41)
           ELSE s
  IN IF IsNil(e.Val) THEN a ELSE WPattern(d, a \o S_colsp, e.Val)

WObjKVs(d, s, kvs, i) == IF i > Len(kvs) THEN s ELSE WObjKVs(d, WObjKV(d, IF i > 1 THEN s \o S_commasp ELSE s, kvs[i]), kvs, i + 1)

WObjKV(d, s, e) ==
  LET a == IF e.Key # <<>> THEN s \o e.Key
           ELSE IF ~IsNil(e.KeyString) THEN WString(d, s, e.KeyString)
           ELSE IF ~IsNil(e.KeyQuery) THEN Append(WQuery(d, Append(s, 40), e.KeyQuery), 41)
           ELSE s
  IN IF IsNil(e.Val) THEN a ELSE WQuery(d, a \o S_colsp, e.Val)

WIf(d, s, e) ==
  LET a == WQuery(d, WQuery(d, s \o S_if, e.Cond) \o S_then, e.Then)
      b == WElifs(d, a, e.Elif, 1)
      c == IF IsNil(e.Else) THEN b ELSE WQuery(d, b \o S_else, e.Else)
  IN c \o S_end

WElifs(d, s, es, i) ==
  IF i > Len(es) THEN s
  ELSE WElifs(d, WQuery(d, WQuery(d, Append(s, 32) \o S_elif, es[i].Cond) \o S_then, es[i].Then), es, i + 1)

WConstTerm(d, s, e) ==
  IF ~IsNil(e.Object) THEN WConstObject(d, s, e.Object)
  ELSE IF ~IsNil(e.Array) THEN Append(WConstElems(d, Append(s, 91), e.Array.Elems, 1), 93)
  ELSE IF e.Number # <<>> THEN s \o e.Number
  ELSE IF e.Null THEN s \o S_null
  ELSE IF e.True THEN s \o S_true
  ELSE IF e.False THEN s \o S_false
  ELSE s \o JsonStr(e.Str)

WConstElems(d, s, es, i) == IF i > Len(es) THEN s ELSE WConstElems(d, WConstTerm(d, IF i > 1 THEN s \o S_commasp ELSE s, es[i]), es, i + 1)

WConstObject(d, s, e) ==
  IF Len(e.KeyVals) = 0 THEN s \o S_braces
  ELSE WConstKVs(d, s \o S_lbracesp, e.KeyVals, 1) \o S_sprbrace

WConstKVs(d, s, kvs, i) ==
  IF i > Len(kvs) THEN s
  ELSE LET kv == kvs[i]
           a == IF i > 1 THEN s \o S_commasp ELSE s
           b == IF kv.Key # <<>> THEN a \o kv.Key ELSE a \o JsonStr(kv.KeyString)
       IN WConstKVs(d, WConstTerm(d, b \o S_colsp, kv.Val), kvs, i + 1)

(* d is a set of DEVIATIONS switched on.  The printer of query.go is the one *)
(* with none (both were defects of query.go, repaired by commit "fix: print  *)
(* queries so that they parse back to the same tree"; witnesses kept as     *)
(* regression cases of the check).  The switches remain as negative         *)
(* controls of the model: with one on, TLC must find the counterexample     *)
(* (GrammarMC_neg*.cfg).                                                    *)
(*   emptyImport  `import "" as a;` printed as `include "";`                *)
(*   dotBracket   `. .[0]` printed as `.[0]`                                *)
CodeDeviations == {}
PrintDev(d, q) == WQuery(d, <<>>, q)
PrintQ(q) == PrintDev(CodeDeviations, q)           \* what query.go prints

----------------------------------------------------------------------------
(* The round-trip law of the property, stated on the specification.          *)
RoundTripsWith(d, q) == LET r == Parse(PrintDev(d, q)) IN r.ok /\ r.n = q
RoundTrips(q) == RoundTripsWith(CodeDeviations, q)
=============================================================================
