SPECIFICATION Spec
CONSTANTS
  W = 4
  MaxDepth = 4
  Bound = 256
VIEW View
INVARIANT Exactness
INVARIANT StepOK
CHECK_DEADLOCK FALSE
