SPECIFICATION Spec
CONSTANTS
  Profile = "modules"
  MaxLen = 4
INVARIANTS AllInvariants
CHECK_DEADLOCK FALSE
