------------------------------- MODULE Utf8 -------------------------------
(***************************************************************************)
(* Byte strings and UTF-8 as Go's unicode/utf8 sees them.  A Go string is   *)
(* a sequence of bytes (0..255); nothing guarantees it is valid UTF-8.      *)
(*                                                                          *)
(*   DecodeRune(s, i)   utf8.DecodeRuneInString(s[i:]) - the tables `first` *)
(*                      and `acceptRanges` of the standard library          *)
(*   EncodeRune(c)      utf8.AppendRune                                     *)
(*   Runes(s)           `for _, r := range s` : one U+FFFD per invalid byte *)
(*   ToValid(s)         the bytes a JSON reader returns for the text a      *)
(*                      gojq encoder writes for s (every invalid byte       *)
(*                      replaced by EF BF BD)                               *)
(*                                                                          *)
(* Used by Encoder.tla (C12).                                               *)
(***************************************************************************)
EXTENDS Integers, Sequences

RuneError == 65533            \* U+FFFD
RuneErrorBytes == <<239, 191, 189>>
MaxRune == 1114111
IsByte(b) == b \in 0..255
IsSurrogate(c) == c >= 55296 /\ c <= 57343
ValidRune(c) == c >= 0 /\ c <= MaxRune /\ ~IsSurrogate(c)

\* utf8.first[b]: "as" ASCII, "xx" invalid, otherwise size and accept range of the SECOND byte
\* (acceptRanges: 0 = 80..BF, 1 = A0..BF, 2 = 80..9F, 3 = 90..BF, 4 = 80..8F)
First(b) ==
  CASE b < 128               -> [k |-> "as", size |-> 1, lo |-> 0,   hi |-> 0]
    [] b >= 128 /\ b <= 193  -> [k |-> "xx", size |-> 1, lo |-> 0,   hi |-> 0]      \* 80..C1
    [] b >= 194 /\ b <= 223  -> [k |-> "s1", size |-> 2, lo |-> 128, hi |-> 191]    \* C2..DF
    [] b = 224               -> [k |-> "s2", size |-> 3, lo |-> 160, hi |-> 191]    \* E0
    [] b >= 225 /\ b <= 236  -> [k |-> "s3", size |-> 3, lo |-> 128, hi |-> 191]    \* E1..EC
    [] b = 237               -> [k |-> "s4", size |-> 3, lo |-> 128, hi |-> 159]    \* ED (no surrogates)
    [] b >= 238 /\ b <= 239  -> [k |-> "s3", size |-> 3, lo |-> 128, hi |-> 191]    \* EE..EF
    [] b = 240               -> [k |-> "s5", size |-> 4, lo |-> 144, hi |-> 191]    \* F0
    [] b >= 241 /\ b <= 243  -> [k |-> "s6", size |-> 4, lo |-> 128, hi |-> 191]    \* F1..F3
    [] b = 244               -> [k |-> "s7", size |-> 4, lo |-> 128, hi |-> 143]    \* F4 (<= U+10FFFF)
    [] OTHER                 -> [k |-> "xx", size |-> 1, lo |-> 0,   hi |-> 0]      \* F5..FF

IsCont(b) == b >= 128 /\ b <= 191
BadRune == [r |-> RuneError, size |-> 1]

\* utf8.DecodeRuneInString(s[i:]) for 1 <= i <= Len(s): [r |-> rune, size |-> bytes consumed].
\* An encoding error yields (RuneError, 1); a correctly encoded U+FFFD yields (RuneError, 3).
DecodeRune(s, i) ==
  LET n == Len(s) - i + 1
      p0 == s[i]
      x == First(p0)
  IN IF x.k = "as" THEN [r |-> p0, size |-> 1]
     ELSE IF x.k = "xx" THEN BadRune
     ELSE IF n < x.size THEN BadRune
     ELSE LET b1 == s[i + 1] IN
          IF b1 < x.lo \/ x.hi < b1 THEN BadRune
          ELSE IF x.size = 2 THEN [r |-> (p0 % 32) * 64 + (b1 % 64), size |-> 2]
          ELSE LET b2 == s[i + 2] IN
               IF ~IsCont(b2) THEN BadRune
               ELSE IF x.size = 3 THEN [r |-> (p0 % 16) * 4096 + (b1 % 64) * 64 + (b2 % 64), size |-> 3]
               ELSE LET b3 == s[i + 3] IN
                    IF ~IsCont(b3) THEN BadRune
                    ELSE [r |-> (p0 % 8) * 262144 + (b1 % 64) * 4096 + (b2 % 64) * 64 + (b3 % 64), size |-> 4]

IsEncodingError(d) == d.r = RuneError /\ d.size = 1

\* utf8.AppendRune: invalid code points are written as U+FFFD
EncodeRune(c) ==
  IF c < 0 \/ c > MaxRune \/ IsSurrogate(c) THEN RuneErrorBytes
  ELSE IF c < 128 THEN <<c>>
  ELSE IF c < 2048 THEN <<192 + (c \div 64), 128 + (c % 64)>>
  ELSE IF c < 65536 THEN <<224 + (c \div 4096), 128 + ((c \div 64) % 64), 128 + (c % 64)>>
  ELSE <<240 + (c \div 262144), 128 + ((c \div 4096) % 64), 128 + ((c \div 64) % 64), 128 + (c % 64)>>

RECURSIVE RunesFrom(_, _)
RunesFrom(s, i) == IF i > Len(s) THEN <<>> ELSE LET d == DecodeRune(s, i) IN <<d.r>> \o RunesFrom(s, i + d.size)
Runes(s) == RunesFrom(s, 1)

RECURSIVE BytesOf(_)
BytesOf(cps) == IF Len(cps) = 0 THEN <<>> ELSE EncodeRune(cps[1]) \o BytesOf(Tail(cps))

RECURSIVE ValidFrom(_, _)
ValidFrom(s, i) == IF i > Len(s) THEN TRUE ELSE LET d == DecodeRune(s, i) IN ~IsEncodingError(d) /\ ValidFrom(s, i + d.size)
ValidUtf8(s) == ValidFrom(s, 1)

\* what reading back gives: every invalid BYTE replaced by U+FFFD (byte by byte, not run by run)
ToValidScan(s) == BytesOf(Runes(s))

\* The same functions position by position, without a recursion as deep as the string is long.
\* UTF-8 is self-synchronising: position i is consumed as a non-first byte of a character of the
\* left-to-right scan iff a well-formed sequence starting at one of the three positions before it
\* reaches it (such a sequence starts with a lead byte, which is never inside another well-formed
\* sequence, so its start is itself a position of the scan).
Covered(s, i) == \E j \in (IF i > 3 THEN i - 3 ELSE 1)..(i - 1) :
                   s[j] >= 194 /\ LET d == DecodeRune(s, j) IN ~IsEncodingError(d) /\ d.size > i - j
RECURSIVE CatR(_, _, _)
CatR(f, lo, hi) == IF lo > hi THEN <<>> ELSE IF lo = hi THEN f[lo]
                   ELSE LET m == (lo + hi) \div 2 IN CatR(f, lo, m) \o CatR(f, m + 1, hi)
ToValidFast(s) ==
  CatR([i \in 1..Len(s) |->
          IF s[i] < 128 THEN <<s[i]>>
          ELSE IF Covered(s, i) THEN <<>>
          ELSE LET d == DecodeRune(s, i) IN IF IsEncodingError(d) THEN RuneErrorBytes ELSE SubSeq(s, i, i + d.size - 1)],
       1, Len(s))
ValidUtf8Fast(s) == \A i \in 1..Len(s) : s[i] < 128 \/ Covered(s, i) \/ ~IsEncodingError(DecodeRune(s, i))
ToValid(s) == IF Len(s) <= 48 THEN ToValidScan(s) ELSE ToValidFast(s)

\* bytewise order of Go strings (`<` on strings; sort.Slice in encodeObject)
RECURSIVE BytesLessFrom(_, _, _)
BytesLessFrom(a, b, i) ==
  IF i > Len(a) THEN i <= Len(b)
  ELSE IF i > Len(b) THEN FALSE
  ELSE IF a[i] # b[i] THEN a[i] < b[i]
  ELSE BytesLessFrom(a, b, i + 1)
BytesLess(a, b) == BytesLessFrom(a, b, 1)
=============================================================================
