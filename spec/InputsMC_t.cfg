CONSTANTS
  Deep = TRUE
  Wide = TRUE
INIT Init
NEXT Next
INVARIANTS NoOom ExactlyOnceInOrder AllConsumed NullOnce Laws SlurpLaw OracleAgrees
CHECK_DEADLOCK TRUE
