------------------------------- MODULE CliGen -------------------------------
(***************************************************************************)
(* Generator of C15 scenarios (model -> code).  Every scenario is one       *)
(* terminal behaviour of Cli.tla (the machine is deterministic once the     *)
(* scenario is fixed); the driver turns it into one invocation of the real  *)
(* binary whose inputs script the events.                                   *)
(*                                                                          *)
(*   VERIF_MODE = "all"    : the complete universe model-checked by         *)
(*                           CliMC.cfg (families A, B, F), one record per    *)
(*                           option set                                     *)
(*   VERIF_MODE = "sample" : family F, VERIF_NA / VERIF_NB seeded picks of   *)
(*                           families A / B, and VERIF_NR random longer      *)
(*                           scenarios (<= 5 documents x <= 4 events, wide   *)
(*                           values, flag spellings, clusters, orders)       *)
(***************************************************************************)
EXTENDS CliMC, Json, IOUtils, SequencesExt

Pick(S) == RandomElement(S)

\* ---- wide alphabets for the random scenarios -----------------------------
K(s) == s       \* key / string code points
WideVals == {
  Null, True, False, Num(0), Num(1), Num(-7), Num(1234567), MkFrac(3, 2), MkFrac(-1, 4),
  Str(<<>>), Str(<<97>>), Str(<<97, 34, 92, 98>>),                     \* "", a, a"\b
  Str(<<233, 9731, 128512>>),                                          \* non-ASCII: printed unescaped
  Str(<<108, 49, 10, 108, 50, 9, 127, 1>>),                            \* newline, tab, DEL, control
  Str(<<97, 0, 98>>), Str(<<0>>),                                      \* NUL
  Str(<<60, 62, 38, 8232>>),                                           \* < > & U+2028: not escaped by the command
  Arr(<<>>), Obj(<<>>),
  Arr(<<Num(1), Num(2)>>),
  Arr(<<Arr(<<>>), Obj(<<>>), Arr(<<Arr(<<Null>>)>>)>>),
  Obj(<< <<K(<<97>>), Num(1)>>, <<K(<<98>>), Arr(<<True, Str(<<120, 0>>)>>)>> >>),
  Obj(<< <<K(<<97, 32, 34>>), Obj(<< <<K(<<>>), Obj(<< <<K(<<122>>), Arr(<<Num(1), Obj(<<>>)>>)>> >>)>> >>)>> >>),
  Arr(<<Str(<<233>>), MkFrac(1, 2), False, Null>>) }

WideCodes == {0, 1, 2, 3, 4, 5, 42, 255, 256, 300, 511, 1000, -1, -255, -256}
WideStoppers ==
  {ErrEv(v) : v \in {Null, Str(<<98, 111, 111, 109>>), Str(<<108, 49, 10, 108, 50>>), Str(<<>>), Num(3), False,
                     Arr(<<Num(1), Str(<<97>>)>>), Obj(<< <<K(<<97>>), Null>> >>), Str(<<233, 0>>)}}
  \cup {HaltEv(Null, 0), HaltEv(Null, 5), HaltEv(Null, 7)}
  \cup {HaltEv(v, 5) : v \in {Str(<<98, 121, 101, 10>>), Str(<<98, 121, 101>>), Num(1), False, Arr(<<Num(1), Obj(<<>>)>>), Str(<<>>), MkFrac(3, 2)}}
  \cup {HaltEv(v, c) : v \in {Str(<<109>>), Obj(<< <<K(<<97>>), Arr(<<Num(1)>>)>> >>)}, c \in WideCodes}

RandRun(maxlen) ==
  LET n == Pick(0..maxlen)
      vals == [i \in 1..n |-> IF Pick(1..10) = 1 THEN (IF Pick(1..2) = 1 THEN DbgEv(Pick(WideVals)) ELSE SerrEv(Pick(WideVals)))
                               ELSE ValEv(Pick(WideVals))]
  IN IF n < maxlen /\ Pick(1..5) <= 2 THEN Append(vals, Pick(WideStoppers)) ELSE vals

\* ---- random command lines --------------------------------------------------
ShortOf(name) == CASE name = "raw-output" -> "r" [] name = "join-output" -> "j" [] name = "compact-output" -> "c"
                   [] name = "exit-status" -> "e" [] name = "null-input" -> "n" [] name = "slurp" -> "s" [] OTHER -> "none"

RECURSIVE Shuffle(_, _)
\* random interleaving: insert the tokens of `toks` one by one at random positions of acc
Shuffle(toks, acc) == IF toks = <<>> THEN acc ELSE Shuffle(Tail(toks), InsertAt(acc, Pick(1..(Len(acc) + 1)), Head(toks)))

IndentToks(u) == LET n == Pick({0, 1, 2, 3, 4, 7, 9, 9, 10, 12, -1}) IN
              IF Pick(1..2) = 1 THEN <<[k |-> "longeq", name |-> "indent", int |-> TRUE, n |-> n]>>
              ELSE <<[k |-> "pair", a |-> Tok("indent"), b |-> [k |-> "int", n |-> n]]>>     \* kept adjacent by Shuffle
BadToks(u) == Pick({ <<Tok("nosuch")>>, <<[k |-> "short", fl |-> <<"x">>]>>, <<[k |-> "short", fl |-> <<"c", "z", "r">>]>>,
                  <<[k |-> "longeq", name |-> "slurp", int |-> TRUE, n |-> 1]>>, <<[k |-> "longeq", name |-> "indent", int |-> FALSE, n |-> 0]>>,
                  <<[k |-> "longeq", name |-> "nosuch", int |-> FALSE, n |-> 0]>> })

RECURSIVE Unpair(_)
Unpair(toks) == IF toks = <<>> THEN <<>>
                ELSE IF Head(toks).k = "pair" THEN <<Head(toks).a, Head(toks).b>> \o Unpair(Tail(toks))
                ELSE <<Head(toks)>> \o Unpair(Tail(toks))

RandArgs(u) ==
  LET chosen == {f \in BoolLong : Pick(1..10) <= 3}
      shortable == {f \in chosen : ShortOf(f) # "none"}
      cluster == Pick(1..3) = 1 /\ Cardinality(shortable) >= 2
      clusterTok == [k |-> "short", fl |-> Shuffle([i \in 1..Cardinality(shortable) |-> ShortOf(SetToSeq(shortable)[i])], <<>>)]
      single(f) == IF ShortOf(f) # "none" /\ Pick(1..2) = 1 THEN [k |-> "short", fl |-> <<ShortOf(f)>>] ELSE Tok(f)
      rest == IF cluster THEN chosen \ shortable ELSE chosen
      flagToks == [i \in 1..Cardinality(rest) |-> single(SetToSeq(rest)[i])] \o (IF cluster THEN <<clusterTok>> ELSE <<>>)
      dup == IF flagToks # <<>> /\ Pick(1..6) = 1 THEN <<flagToks[1]>> ELSE <<>>            \* a repeated flag is harmless
      ind == IF Pick(1..10) <= 4 THEN IndentToks(u) \o (IF Pick(1..4) = 1 THEN IndentToks(u) ELSE <<>>) ELSE <<>>   \* repeated: the last one wins
      bad == IF Pick(1..25) = 1 THEN BadToks(u) ELSE <<>>
      ddlast == Pick(1..8) = 1                                                              \* flags, `--`, query
      all == flagToks \o dup \o ind \o bad
  IN IF ddlast THEN Unpair(Shuffle(all, <<>>)) \o <<[k |-> "dd"], Pos>>
     ELSE Unpair(Shuffle(all \o <<Pos>>, <<>>))

\* (the argument only defeats TLC's caching of constant definitions)
RandScenario(u) ==
  LET nd == Pick(0..5) IN
  [args |-> RandArgs(u),
   query |-> (LET q == Pick(1..14) IN IF q = 1 THEN "parse" ELSE IF q = 2 THEN "compile" ELSE "ok"),
   docs |-> [i \in 1..nd |-> RandRun(4)],
   bad |-> Pick(1..4) = 1,
   onull |-> RandRun(6),
   oslurp |-> RandRun(6)]

\* ---- samples of the model-checked universe ---------------------------------
SampleA(u) == LET fl == Pick(FlagSeqs)  ind == Pick(IndentChoices) IN
           Pick(ScenariosFor(ArgsOf(fl, ind), ValsA, StoppersA, MaxDocsA, MaxEvA))
SampleB(u) == LET fl == Pick(ControlFlags) IN
           Pick(ScenariosFor(ArgsOf(fl, <<>>), ValsB, StoppersB, MaxDocs, MaxEv))

NA == atoi(IOEnv.VERIF_NA)
NB == atoi(IOEnv.VERIF_NB)
NR == atoi(IOEnv.VERIF_NR)

Rec(fam, s) == [fam |-> fam, scs |-> <<s>>]
OutSample == [i \in 1..1 |-> [fam |-> "F", scs |-> SetToSeq(FamilyF)]]
             \o [i \in 1..NA |-> Rec("A", SampleA(i))]
             \o [i \in 1..NB |-> Rec("B", SampleB(i))]
             \o [i \in 1..NR |-> Rec("R", RandScenario(i))]

OptA == SetToSeq({ArgsOf(fl, ind) : fl \in FlagSeqs, ind \in IndentChoices})
OptB == SetToSeq({ArgsOf(fl, <<>>) : fl \in ControlFlags})
OutAll == [i \in 1..1 |-> [fam |-> "F", scs |-> SetToSeq(FamilyF)]]
          \o [i \in 1..Len(OptA) |-> [fam |-> "A", scs |-> SetToSeq(ScenariosFor(OptA[i], ValsA, StoppersA, MaxDocsA, MaxEvA))]]
          \o [i \in 1..Len(OptB) |-> [fam |-> "B", scs |-> SetToSeq(ScenariosFor(OptB[i], ValsB, StoppersB, MaxDocs, MaxEv))]]

\* the work is done while TLC computes the single initial state (the machine's variables are parked)
VARIABLE done
Parked == [args |-> <<Pos>>, query |-> "ok", docs |-> <<>>, bad |-> FALSE, onull |-> <<>>, oslurp |-> <<>>]
GenInit == /\ done = ndJsonSerialize(IOEnv.VERIF_OUT, IF IOEnv.VERIF_MODE = "all" THEN OutAll ELSE OutSample)
           /\ InitWith(Parked)
GenNext == UNCHANGED <<done, vars>>
=============================================================================
