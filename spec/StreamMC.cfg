CONSTANTS
  MaxNodes = 4
  MaxDocs = 3
INIT Init
NEXT Next
INVARIANTS NoPanic StackSync PathShape OutIsPrefix Final DecodeFinal
CHECK_DEADLOCK TRUE
