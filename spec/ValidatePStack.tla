--------------------------- MODULE ValidatePStack ---------------------------
(***************************************************************************)
(* Trace specification binding PStack.tla to stack.go / scope_stack.go:    *)
(* every record is a sequence of operations executed on the REAL stack      *)
(* (through the verif wrapper VerifStack / VerifScopeStack) with the         *)
(* observed (index+1, limit+1, physical length, logical contents) after      *)
(* each operation.  TLC replays the operations on the model and compares.    *)
(***************************************************************************)
EXTENDS PStack, TLC, Json, IOUtils

Trace == ndJsonDeserialize(IOEnv.VERIF_TRACE)

RECURSIVE Replay(_, _, _, _)
\* returns 0 if every step matches, else the 1-based index of the first mismatch
Replay(ops, i, s, forks) ==
  IF i > Len(ops) THEN 0
  ELSE LET o == ops[i]
           s1 == CASE o.op = "push" -> PSPush(s, o.arg)
                   [] o.op = "pop" -> PSPop(s)
                   [] o.op = "save" -> PSSave(s)
                   [] o.op = "restore" -> PSRestore(s, forks[Len(forks)].index, forks[Len(forks)].limit)
                   [] OTHER -> s
           f1 == CASE o.op = "save" -> Append(forks, [index |-> s.index, limit |-> s.limit])
                   [] o.op = "restore" -> SubSeq(forks, 1, Len(forks) - 1)
                   [] OTHER -> forks
           ok == /\ o.index = s1.index /\ o.limit = s1.limit /\ o.len = Len(s1.data)
                 /\ o.contents = PSContents(s1)
                 /\ (o.op = "pop" => o.popped = PSTop(s))
       IN IF ~ok THEN i ELSE Replay(ops, i + 1, s1, f1)

VARIABLE done
Init == done = ndJsonSerialize(IOEnv.VERIF_OUT, [k \in 1..Len(Trace) |-> [id |-> Trace[k].id, bad |-> Replay(Trace[k].ops, 1, PSEmpty, <<>>)]])
Next == UNCHANGED done
=============================================================================
