INIT GenInit
NEXT GenNext
CHECK_DEADLOCK FALSE
