---- MODULE Heap_TTrace_1790394301 ----
EXTENDS Sequences, TLCExt, Toolbox, Naturals, TLC, Heap

_expression ==
    LET Heap_TEExpression == INSTANCE Heap_TEExpression
    IN Heap_TEExpression!expression
----

_trace ==
    LET Heap_TETrace == INSTANCE Heap_TETrace
    IN Heap_TETrace!trace
----

_inv ==
    ~(
        TLCGet("level") = Len(_TETrace)
        /\
        inputRoot = ([t |-> "sl", a |-> 1, off |-> 0, len |-> 2, cap |-> 2])
        /\
        S = ([h |-> <<[back |-> <<[t |-> "n", n |-> 0], [t |-> "n", n |-> 1]>>, k |-> "arr"], [back |-> <<[t |-> "n", n |-> 7], [t |-> "n", n |-> 7]>>, k |-> "arr"], [back |-> <<[t |-> "n", n |-> 7], [t |-> "n", n |-> 7], [t |-> "n", n |-> 7]>>, k |-> "arr"]>>, A |-> {<<2, 0>>, <<3, 0>>}])
        /\
        abs = ([t |-> "A", a |-> <<[t |-> "n", n |-> 7], [t |-> "n", n |-> 7], [t |-> "n", n |-> 1]>>])
        /\
        f = ("seven")
        /\
        root = ([t |-> "sl", a |-> 3, off |-> 0, len |-> 3, cap |-> 3])
        /\
        step = (2)
        /\
        inputPure = ([t |-> "A", a |-> <<[t |-> "n", n |-> 0], [t |-> "n", n |-> 1]>>])
    )
----

_init ==
    /\ root = _TETrace[1].root
    /\ S = _TETrace[1].S
    /\ f = _TETrace[1].f
    /\ inputPure = _TETrace[1].inputPure
    /\ step = _TETrace[1].step
    /\ abs = _TETrace[1].abs
    /\ inputRoot = _TETrace[1].inputRoot
----

_next ==
    /\ \E i,j \in DOMAIN _TETrace:
        /\ \/ /\ j = i + 1
              /\ i = TLCGet("level")
        /\ root  = _TETrace[i].root
        /\ root' = _TETrace[j].root
        /\ S  = _TETrace[i].S
        /\ S' = _TETrace[j].S
        /\ f  = _TETrace[i].f
        /\ f' = _TETrace[j].f
        /\ inputPure  = _TETrace[i].inputPure
        /\ inputPure' = _TETrace[j].inputPure
        /\ step  = _TETrace[i].step
        /\ step' = _TETrace[j].step
        /\ abs  = _TETrace[i].abs
        /\ abs' = _TETrace[j].abs
        /\ inputRoot  = _TETrace[i].inputRoot
        /\ inputRoot' = _TETrace[j].inputRoot

\* Uncomment the ASSUME below to write the states of the error trace
\* to the given file in Json format. Note that you can pass any tuple
\* to `JsonSerialize`. For example, a sub-sequence of _TETrace.
    \* ASSUME
    \*     LET J == INSTANCE Json
    \*         IN J!JsonSerialize("Heap_TTrace_1790394301.json", _TETrace)

=============================================================================

 Note that you can extract this module `Heap_TEExpression`
  to a dedicated file to reuse `expression` (the module in the 
  dedicated `Heap_TEExpression.tla` file takes precedence 
  over the module `Heap_TEExpression` below).

---- MODULE Heap_TEExpression ----
EXTENDS Sequences, TLCExt, Toolbox, Naturals, TLC, Heap

expression == 
    [
        \* To hide variables of the `Heap` spec from the error trace,
        \* remove the variables below.  The trace will be written in the order
        \* of the fields of this record.
        root |-> root
        ,S |-> S
        ,f |-> f
        ,inputPure |-> inputPure
        ,step |-> step
        ,abs |-> abs
        ,inputRoot |-> inputRoot
        
        \* Put additional constant-, state-, and action-level expressions here:
        \* ,_stateNumber |-> _TEPosition
        \* ,_rootUnchanged |-> root = root'
        
        \* Format the `root` variable as Json value.
        \* ,_rootJson |->
        \*     LET J == INSTANCE Json
        \*     IN J!ToJson(root)
        
        \* Lastly, you may build expressions over arbitrary sets of states by
        \* leveraging the _TETrace operator.  For example, this is how to
        \* count the number of times a spec variable changed up to the current
        \* state in the trace.
        \* ,_rootModCount |->
        \*     LET F[s \in DOMAIN _TETrace] ==
        \*         IF s = 1 THEN 0
        \*         ELSE IF _TETrace[s].root # _TETrace[s-1].root
        \*             THEN 1 + F[s-1] ELSE F[s-1]
        \*     IN F[_TEPosition - 1]
    ]

=============================================================================



Parsing and semantic processing can take forever if the trace below is long.
 In this case, it is advised to uncomment the module below to deserialize the
 trace from a generated binary file.

\*
\*---- MODULE Heap_TETrace ----
\*EXTENDS IOUtils, TLC, Heap
\*
\*trace == IODeserialize("Heap_TTrace_1790394301.bin", TRUE)
\*
\*=============================================================================
\*

---- MODULE Heap_TETrace ----
EXTENDS TLC, Heap

trace == 
    <<
    ([inputRoot |-> [t |-> "sl", a |-> 1, off |-> 0, len |-> 2, cap |-> 2],S |-> [h |-> <<[back |-> <<[t |-> "n", n |-> 0], [t |-> "n", n |-> 1]>>, k |-> "arr"]>>, A |-> {}],abs |-> [t |-> "A", a |-> <<[t |-> "n", n |-> 0], [t |-> "n", n |-> 1]>>],f |-> "seven",root |-> [t |-> "sl", a |-> 1, off |-> 0, len |-> 2, cap |-> 2],step |-> 0,inputPure |-> [t |-> "A", a |-> <<[t |-> "n", n |-> 0], [t |-> "n", n |-> 1]>>]]),
    ([inputRoot |-> [t |-> "sl", a |-> 1, off |-> 0, len |-> 2, cap |-> 2],S |-> [h |-> <<[back |-> <<[t |-> "n", n |-> 0], [t |-> "n", n |-> 1]>>, k |-> "arr"], [back |-> <<[t |-> "n", n |-> 7], [t |-> "n", n |-> 1]>>, k |-> "arr"]>>, A |-> {<<2, 0>>}],abs |-> [t |-> "A", a |-> <<[t |-> "n", n |-> 7], [t |-> "n", n |-> 1]>>],f |-> "seven",root |-> [t |-> "sl", a |-> 2, off |-> 0, len |-> 2, cap |-> 2],step |-> 1,inputPure |-> [t |-> "A", a |-> <<[t |-> "n", n |-> 0], [t |-> "n", n |-> 1]>>]]),
    ([inputRoot |-> [t |-> "sl", a |-> 1, off |-> 0, len |-> 2, cap |-> 2],S |-> [h |-> <<[back |-> <<[t |-> "n", n |-> 0], [t |-> "n", n |-> 1]>>, k |-> "arr"], [back |-> <<[t |-> "n", n |-> 7], [t |-> "n", n |-> 7]>>, k |-> "arr"], [back |-> <<[t |-> "n", n |-> 7], [t |-> "n", n |-> 7], [t |-> "n", n |-> 7]>>, k |-> "arr"]>>, A |-> {<<2, 0>>, <<3, 0>>}],abs |-> [t |-> "A", a |-> <<[t |-> "n", n |-> 7], [t |-> "n", n |-> 7], [t |-> "n", n |-> 1]>>],f |-> "seven",root |-> [t |-> "sl", a |-> 3, off |-> 0, len |-> 3, cap |-> 3],step |-> 2,inputPure |-> [t |-> "A", a |-> <<[t |-> "n", n |-> 0], [t |-> "n", n |-> 1]>>]])
    >>
----


=============================================================================

---- CONFIG Heap_TTrace_1790394301 ----
CONSTANTS
    SliceSharesCap = TRUE
    InPlaceSlice = TRUE
    InPlaceEscaped = TRUE
    EscapeFix = FALSE

INVARIANT
    _inv

CHECK_DEADLOCK
    \* CHECK_DEADLOCK off because of PROPERTY or INVARIANT above.
    FALSE

INIT
    _init

NEXT
    _next

CONSTANT
    _TETrace <- _trace

ALIAS
    _expression
=============================================================================
\* Generated on Sat Sep 26 03:45:05 UTC 2026