SPECIFICATION Spec
CONSTANTS
  Profile = "objects"
  MaxLen = 4
INVARIANTS AllInvariants
CHECK_DEADLOCK FALSE
