------------------------------- MODULE Modules -------------------------------
(***************************************************************************)
(* C18 - modules behave as textual inclusion with namespacing.              *)
(*                                                                         *)
(* Three layers, all over one explicit model of a sandboxed file system:    *)
(*                                                                         *)
(*  1. PATHS / FILE SYSTEM / RESOLUTION  (module_loader.go)                 *)
(*     resolvePath, NewModuleLoader, LoadInitModules, lookupModule and      *)
(*     parseModule's rewriting of `search`, cli.go's default search list.   *)
(*     `Resolve` is the declarative rule of the property (first hit in      *)
(*     the documented order), `LookupStep/LookupLoop` the loop of the code. *)
(*                                                                         *)
(*  2. THE PROPERTY: `Link(c)`  - include = textual insertion, import as a  *)
(*     = exactly the module's top-level definitions as a::name, data import *)
(*     = $d and $d::d.  An environment is an ordered list of bindings, a    *)
(*     module imported with an alias is linked in ISOLATION (it starts from *)
(*     the base environment only) - written as a recursive function.        *)
(*                                                                         *)
(*  3. THE IMPLEMENTATION: `MInit/MStep/MRun` - the compiler's scope        *)
(*     surgery as a state machine with one step per code-level step         *)
(*     (compileImport: data / module, compileFuncDef, end of compileModule, *)
(*     the main body): ONE function list and ONE variable list of the main  *)
(*     scope shared by every module, the depth counter, post-hoc renaming   *)
(*     `alias::name` of scope.funcs[l:], truncation of scope.variables[:l], *)
(*     pushVariable's same-name-same-depth slot reuse, runtime stores.      *)
(*     Every place where this machine deviates from the property is a named *)
(*     switch (record `sw`); SwCode = what compiler.go does today, SwFixed  *)
(*     = the minimal repair.  ModulesMC.tla model-checks that the machine   *)
(*     under SwFixed computes exactly Link on every tree of a bounded       *)
(*     universe, and that under SwCode it does not (D10, D13, ...).         *)
(*                                                                         *)
(*  4. modulemeta (funcModulemeta, listModuleDefs, listModuleDeps).         *)
(*                                                                         *)
(* Strings are opaque for TLC (no character access), therefore paths are    *)
(* sequences of segments, `a::x` is built by concatenation and never taken  *)
(* apart, and definition names carry their code points (field cp) where an  *)
(* order on strings is needed (modulemeta's sorted list).                   *)
(*                                                                         *)
(* The shape of a case `c` (JSON, written by checks/c18.py or by            *)
(* ModulesGen.tla):                                                         *)
(*   root  : absolute path string of the sandbox directory (the model's /) *)
(*   fs    : <<entry>>,  entry = [p |-> segs, k |-> "jq", mod |-> Module]    *)
(*                             | [p |-> segs, k |-> "json", vals |-> <<str>>]*)
(*                               (+ tvals |-> <<tagged JSON values>>)       *)
(*                             | [p |-> segs, k |-> "dir"]                   *)
(*   cwd, home, exe : segs (working directory, $HOME, directory of the      *)
(*           executable = $ORIGIN)                                          *)
(*   lib   : <<PathSpec>>  the -L list / the paths given to NewModuleLoader *)
(*   defaults : BOOLEAN    the command's default list applies when lib=<<>> *)
(*   main  : [imports, defs, refs] (+ file |-> PathSpec when given by -f)   *)
(*           or [meta |-> segs] for the query  "name" | modulemeta          *)
(*   univ  : <<[n, ar, var]>>  names to tabulate at every site (MC/Gen only) *)
(*   Module  = [imports |-> <<Import>>, defs |-> <<Def>>] (+ meta |-> object)*)
(*   Import  = [k |-> "include"|"import"|"data", name |-> segs,             *)
(*              alias |-> str] (+ search |-> PathSpec) (+ extra |-> object) *)
(*   Def     = [name, cp, ar, tag, refs |-> <<Ref>>]                         *)
(*             text:  def name(p0_;..): ["tag", ref, (ref|.[0]), ...];      *)
(*   Ref     = [n |-> "a::x" | "$d" | "$d::d", ar, var, head]               *)
(*   PathSpec= [b |-> "abs"|"rel"|"home"|"origin", s |-> segs]  as WRITTEN  *)
(*             ("." and ".." allowed): root/.., .., ~/.., $ORIGIN/..        *)
(***************************************************************************)
EXTENDS Integers, Sequences, FiniteSets, TLC

LastOf(s) == s[Len(s)]
FrontOf(s) == SubSeq(s, 1, Len(s) - 1)

RECURSIVE JoinStr(_, _)
JoinStr(s, sep) == IF s = <<>> THEN ""
                   ELSE IF Len(s) = 1 THEN s[1]
                   ELSE s[1] \o sep \o JoinStr(Tail(s), sep)

SegPrefix(a, b) == Len(a) <= Len(b) /\ SubSeq(b, 1, Len(a)) = a

\* values of the little result language: strings and arrays (tagged like vlib)
S(x) == [t |-> "s", s |-> x]
A(xs) == [t |-> "a", a |-> xs]
N(i) == [t |-> "n", n |-> i]
B(b) == [t |-> "b", b |-> b]
O(f) == [t |-> "o", o |-> f]        \* f: a function from key strings to values

Ok(v) == [k |-> "ok", v |-> v]
Err(e) == [k |-> "err", e |-> e]
Oom(why) == [k |-> "oom", why |-> why]

-----------------------------------------------------------------------------
(***************************************************************************)
(* 1a. Paths.  A (clean) path is [abs |-> BOOLEAN, s |-> segs]; an absolute *)
(* one is relative to the sandbox root; a relative one may start with ".."  *)
(* segments; the relative path with no segment is ".".  NoDir is Go's ""     *)
(* (the directory of a query given on the command line).                    *)
(***************************************************************************)
NoDir == [abs |-> FALSE, s |-> <<>>, none |-> TRUE]
IsNoDir(p) == "none" \in DOMAIN p
P(abs, s) == [abs |-> abs, s |-> s]

RECURSIVE CleanAcc(_, _)
\* filepath.Clean on segments; ".." at the front is kept (for an absolute path
\* it means: outside the sandbox, see Escapes)
CleanAcc(acc, rest) ==
  IF rest = <<>> THEN acc
  ELSE LET h == Head(rest) IN
       IF h = "." \/ h = "" THEN CleanAcc(acc, Tail(rest))
       ELSE IF h = ".." /\ acc # <<>> /\ LastOf(acc) # ".." THEN CleanAcc(FrontOf(acc), Tail(rest))
       ELSE CleanAcc(Append(acc, h), Tail(rest))

Clean(abs, segs) == P(abs, CleanAcc(<<>>, segs))
Escapes(p) == p.abs /\ p.s # <<>> /\ p.s[1] = ".."

\* filepath.Join(dir, segs...) for a clean dir
Join(dir, segs) == Clean(dir.abs, dir.s \o segs)
\* filepath.Dir of a path that names a file
Dir(p) == P(p.abs, FrontOf(p.s))

\* the string the code holds / prints for a clean path
Render(c, p) == IF p.abs THEN (IF p.s = <<>> THEN c.root ELSE c.root \o "/" \o JoinStr(p.s, "/"))
                ELSE IF p.s = <<>> THEN "." ELSE JoinStr(p.s, "/")
\* the string of a path as written in the query text / on the command line
RenderSpec(c, ps) ==
  CASE ps.b = "abs" -> c.root \o "/" \o JoinStr(ps.s, "/")
    [] ps.b = "home" -> "~/" \o JoinStr(ps.s, "/")
    [] ps.b = "origin" -> "$ORIGIN/" \o JoinStr(ps.s, "/")
    [] OTHER -> JoinStr(ps.s, "/")

Ignored == [abs |-> FALSE, s |-> <<>>, ignored |-> TRUE]
IsIgnored(p) == "ignored" \in DOMAIN p

(***************************************************************************)
(* module_loader.go: resolvePath(path, dir).  `dir` is a clean path or      *)
(* NoDir.  The empty result of the code ("" = ignore this entry) is         *)
(* Ignored: it arises only for the empty relative path against NoDir.       *)
(***************************************************************************)
ResolvePath(c, ps, dir) ==
  CASE ps.b = "abs" -> Clean(TRUE, ps.s)
    [] ps.b = "home" -> Clean(TRUE, c.home \o ps.s)
    [] ps.b = "origin" -> Clean(TRUE, c.exe \o ps.s)
    [] OTHER -> IF IsNoDir(dir) THEN (IF ps.s = <<>> THEN Ignored ELSE Clean(FALSE, ps.s))
                ELSE Join(dir, ps.s)

\* what the operating system does with a relative path
AbsOf(c, p) == IF p.abs THEN p ELSE Clean(TRUE, c.cwd \o p.s)

(***************************************************************************)
(* 1b. File system.  os.Stat: "file", "dir", "none" (ENOENT or ENOTDIR), or  *)
(* "oom" when the path leaves the sandbox (the model does not know what is   *)
(* there).                                                                  *)
(***************************************************************************)
FsIndex(c, segs) == IF \E i \in 1..Len(c.fs) : c.fs[i].p = segs
                    THEN CHOOSE i \in 1..Len(c.fs) : c.fs[i].p = segs ELSE 0

Stat(c, p) ==
  LET a == AbsOf(c, p)
      i == FsIndex(c, a.s)
  IN IF Escapes(a) THEN "oom"
     ELSE IF i # 0 THEN (IF c.fs[i].k = "dir" THEN "dir" ELSE "file")
     ELSE IF a.s = <<>> \/ \E j \in 1..Len(c.fs) : Len(c.fs[j].p) > Len(a.s) /\ SegPrefix(a.s, c.fs[j].p) THEN "dir"
     ELSE "none"

\* os.ReadFile / os.Open+decode of a path that Stat accepted
Load(c, p, kind) ==
  LET a == AbsOf(c, p)
      i == FsIndex(c, a.s)
  IN IF Escapes(a) THEN Oom("outside the sandbox")
     ELSE IF i = 0 \/ c.fs[i].k = "dir" THEN Err([k |-> "isdir", p |-> Render(c, p)])
     ELSE IF c.fs[i].k # kind THEN Oom("file of the other kind")
     ELSE [k |-> "ok", e |-> c.fs[i], i |-> i]

(***************************************************************************)
(* 1c. The search list.  cli.go: without -L the list is ~/.jq,              *)
(* $ORIGIN/../lib/gojq, $ORIGIN/../lib.  NewModuleLoader resolves every      *)
(* entry against "" and drops the ignored ones.                             *)
(***************************************************************************)
DefaultSpecs == << [b |-> "home", s |-> <<".jq">>],
                   [b |-> "origin", s |-> <<"..", "lib", "gojq">>],
                   [b |-> "origin", s |-> <<"..", "lib">>] >>

SearchSpecs(c) == IF c.lib = <<>> /\ c.defaults THEN DefaultSpecs ELSE c.lib

LoaderPaths(c) ==
  LET specs == SearchSpecs(c)
      all == [i \in 1..Len(specs) |-> ResolvePath(c, specs[i], NoDir)]
  IN SelectSeq(all, LAMBDA p : ~IsIgnored(p))

(***************************************************************************)
(* lookupModule: the candidates of one base directory, in order:            *)
(* base/name.ext and base/name/<basename>.ext                               *)
(***************************************************************************)
Candidates(base, name, ext) ==
  << Join(base, FrontOf(name) \o <<LastOf(name) \o ext>>),
     Join(base, name \o <<LastOf(name) \o ext>>) >>

\* bases: the `search` entry of the import metadata (if any) first, then the list
Bases(c, sp) == IF IsIgnored(sp) \/ IsNoDir(sp) THEN LoaderPaths(c) ELSE <<sp>> \o LoaderPaths(c)

NotFound(name) == Err([k |-> "mnf", name |-> JoinStr(name, "/")])
Found(p) == [k |-> "found", p |-> p]

(***************************************************************************)
(* The rule of the property: the found file is the candidate with the        *)
(* smallest (directory index, candidate index) that exists.                 *)
(***************************************************************************)
Resolve(c, name, ext, sp) ==
  LET bases == Bases(c, sp)
      cand(i) == Candidates(bases[i], name, ext)
      hits == {<<i, j>> \in (1..Len(bases)) \X {1, 2} : Stat(c, cand(i)[j]) \in {"file", "dir"}}
      unknown == {<<i, j>> \in (1..Len(bases)) \X {1, 2} : Stat(c, cand(i)[j]) = "oom"}
      Before(x, y) == x[1] < y[1] \/ (x[1] = y[1] /\ x[2] <= y[2])
  IN IF LastOf(name) \in {".", ".."} THEN Oom("module name ends in a dot segment")
     ELSE IF hits = {} THEN (IF unknown = {} THEN NotFound(name) ELSE Oom("candidate outside the sandbox"))
     ELSE LET h == CHOOSE x \in hits : \A y \in hits : Before(x, y)
          IN IF \E u \in unknown : Before(u, h) THEN Oom("candidate outside the sandbox")
             ELSE Found(cand(h[1])[h[2]])

(***************************************************************************)
(* The loop of the code: state [i, j, res]; one step = one os.Stat.          *)
(***************************************************************************)
LookupInit == [i |-> 1, j |-> 1, res |-> [k |-> "run"]]
LookupStep(c, name, ext, bases, ls) ==
  IF ls.i > Len(bases) THEN [ls EXCEPT !.res = NotFound(name)]
  ELSE LET p == Candidates(bases[ls.i], name, ext)[ls.j]
           st == Stat(c, p)
       IN IF st = "oom" THEN [ls EXCEPT !.res = Oom("candidate outside the sandbox")]
          ELSE IF st \in {"file", "dir"} THEN [ls EXCEPT !.res = Found(p)]
          ELSE IF ls.j = 1 THEN [ls EXCEPT !.j = 2]
          ELSE [ls EXCEPT !.i = ls.i + 1, !.j = 1]

RECURSIVE LookupRun(_, _, _, _, _)
LookupRun(c, name, ext, bases, ls) ==
  IF ls.res.k # "run" THEN ls.res ELSE LookupRun(c, name, ext, bases, LookupStep(c, name, ext, bases, ls))

LookupLoop(c, name, ext, sp) ==
  IF LastOf(name) \in {".", ".."} THEN Oom("module name ends in a dot segment")
  ELSE LookupRun(c, name, ext, Bases(c, sp), LookupInit)

(***************************************************************************)
(* LoadInitModules: every entry of the list whose base name is ".jq" and     *)
(* that is a regular file is parsed and included before the main query.     *)
(***************************************************************************)
InitModules(c) ==
  LET ps == LoaderPaths(c)
      ok(p) == p.s # <<>> /\ LastOf(p.s) = ".jq" /\ Stat(c, p) = "file"
      sel == SelectSeq(ps, ok)
  IN [i \in 1..Len(sel) |-> [p |-> sel[i], ld |-> Load(c, sel[i], "jq")]]

InitOom(c) == \E i \in 1..Len(LoaderPaths(c)) :
                 LET p == LoaderPaths(c)[i] IN p.s # <<>> /\ LastOf(p.s) = ".jq" /\ Stat(c, p) = "oom"

\* LoadJSONWithMeta: the array of all JSON values of the file (the first ones are
\* strings naming the file; tvals = further values of any JSON type)
DataValue(e) == A([x \in 1..Len(e.vals) |-> S(e.vals[x])] \o (IF "tvals" \in DOMAIN e THEN e.tvals ELSE <<>>))

ExtOf(imp) == IF imp.k = "data" THEN ".json" ELSE ".jq"
KindOf(imp) == IF imp.k = "data" THEN "json" ELSE "jq"
SearchOf(c, imp, dir) == IF "search" \in DOMAIN imp THEN ResolvePath(c, imp.search, dir) ELSE NoDir

\* the directory of the main program: of the -f file, "" for a command line query
MainFileDir(c) == IF "file" \in DOMAIN c.main
                  THEN Dir(ResolvePath(c, c.main.file, NoDir)) ELSE NoDir

-----------------------------------------------------------------------------
(***************************************************************************)
(* 2. THE PROPERTY.  Environment = sequence of bindings, looked up from the  *)
(* end.  Function binding: name, arity, value, q = "was brought in by an      *)
(* import (is alias-qualified)".  A definition sees what precedes it and      *)
(* itself (marker Loop: a reference to itself does not terminate: oom).      *)
(***************************************************************************)
FB(n, ar, v, q) == [n |-> n, ar |-> ar, var |-> FALSE, v |-> v, q |-> q]
VB(n, v) == [n |-> n, ar |-> 0, var |-> TRUE, v |-> v, q |-> FALSE]
Loop == [t |-> "loop"]

RECURSIVE EnvFind(_, _, _, _)
EnvFind(env, i, n, ar) == IF i = 0 THEN 0
                          ELSE IF env[i].n = n /\ env[i].ar = ar THEN i
                          ELSE EnvFind(env, i - 1, n, ar)

Undefined(r) == IF r.var THEN Err([k |-> "vnf", n |-> r.n]) ELSE Err([k |-> "fnf", n |-> r.n, ar |-> r.ar])

HeadOf(v) == IF v.t = "a" /\ Len(v.a) > 0 THEN Ok(v.a[1]) ELSE Oom("head of an empty value")

RefVal(env, r) ==
  LET i == EnvFind(env, Len(env), r.n, r.ar) IN
  IF i = 0 THEN Undefined(r)
  ELSE IF env[i].v.t = "loop" THEN Oom("self reference")
  ELSE IF r.head THEN HeadOf(env[i].v) ELSE Ok(env[i].v)

RECURSIVE BodyVal(_, _, _, _)
BodyVal(env, refs, i, acc) ==
  IF i > Len(refs) THEN Ok(A(acc))
  ELSE LET r == RefVal(env, refs[i]) IN
       IF r.k # "ok" THEN r ELSE BodyVal(env, refs, i + 1, Append(acc, r.v))

\* tabulation of a universe of names at a site (MC and generator only)
Univ(c) == IF "univ" \in DOMAIN c THEN c.univ ELSE <<>>
Hidden == [k |-> "-"]
PEntry(env, u) ==
  LET i == EnvFind(env, Len(env), u.n, u.ar) IN
  IF i = 0 THEN Hidden
  ELSE IF env[i].v.t = "loop" THEN [k |-> "self"]
  ELSE IF u.var THEN [k |-> "v", t |-> env[i].v.a[1].s]
  ELSE [k |-> "f", t |-> env[i].v.a[1].s]
PSnap(c, env, fi, j) == [f |-> fi, j |-> j, vis |-> [x \in 1..Len(Univ(c)) |-> PEntry(env, Univ(c)[x])]]
AddSnap(c, tab, env, fi, j) == IF Univ(c) = <<>> THEN tab ELSE Append(tab, PSnap(c, env, fi, j))

\* link state: [env, tab];  results: [k |-> "ok", ps] | Err | Oom
POk(env, tab) == [k |-> "ok", env |-> env, tab |-> tab]

RECURSIVE PDefs(_, _, _, _, _, _)
PDefs(c, defs, j, fi, env, tab) ==
  IF j > Len(defs) THEN POk(env, tab)
  ELSE LET d == defs[j]
           self == Append(env, FB(d.name, d.ar, Loop, FALSE))
           v == BodyVal(self, d.refs, 1, <<S(d.tag)>>)
       IN IF v.k # "ok" THEN v
          ELSE PDefs(c, defs, j + 1, fi, Append(env, FB(d.name, d.ar, v.v, FALSE)), AddSnap(c, tab, self, fi, j))

\* exactly the module's top-level definitions, renamed alias::name
Exports(bs, alias) ==
  LET own == SelectSeq(bs, LAMBDA b : ~b.var /\ ~b.q)
  IN [i \in 1..Len(own) |-> FB(alias \o "::" \o own[i].n, own[i].ar, own[i].v, TRUE)]

RECURSIVE PFile(_, _, _, _, _, _, _, _), PImports(_, _, _, _, _, _, _, _)

\* the imports and definitions of one file, textually at this point
PFile(c, mod, dir, fi, env, tab, base, fuel) ==
  LET r == PImports(c, mod.imports, 1, dir, env, tab, base, fuel)
  IN IF r.k # "ok" THEN r ELSE PDefs(c, mod.defs, 1, fi, r.env, r.tab)

PImports(c, imps, i, dir, env, tab, base, fuel) ==
  IF i > Len(imps) THEN POk(env, tab)
  ELSE IF fuel = 0 THEN Oom("module nesting")
  ELSE
  LET imp == imps[i]
      f == Resolve(c, imp.name, ExtOf(imp), SearchOf(c, imp, dir))
  IN IF f.k # "found" THEN f
     ELSE LET ld == Load(c, f.p, KindOf(imp)) IN
     IF ld.k # "ok" THEN ld
     ELSE
     LET next ==
       CASE imp.k = "data" ->
              LET v == DataValue(ld.e)
              IN POk(env \o << VB("$" \o imp.alias, v), VB("$" \o imp.alias \o "::" \o imp.alias, v) >>, tab)
         [] imp.k = "include" ->
              PFile(c, ld.e.mod, Dir(f.p), ld.i, env, tab, base, fuel - 1)
         [] OTHER ->  \* import "m" as alias: linked in isolation, over the base environment only
              LET sub == PFile(c, ld.e.mod, Dir(f.p), ld.i, base, tab, base, fuel - 1)
              IN IF sub.k # "ok" THEN sub
                 ELSE POk(env \o Exports(SubSeq(sub.env, Len(base) + 1, Len(sub.env)), imp.alias), sub.tab)
     IN IF next.k # "ok" THEN next ELSE PImports(c, imps, i + 1, dir, next.env, next.tab, base, fuel)

MaxNesting == 8

\* the ~/.jq style files: included one after the other; what they define is the
\* base environment of every module (as in jq, where they behave like builtins)
RECURSIVE PInit(_, _, _, _, _)
PInit(c, ims, i, env, tab) ==
  IF i > Len(ims) THEN POk(env, tab)
  ELSE IF ims[i].ld.k # "ok" THEN ims[i].ld
  ELSE LET r == PFile(c, ims[i].ld.e.mod, Dir(ims[i].p), ims[i].ld.i, env, tab, <<>>, MaxNesting)
       IN IF r.k # "ok" THEN r ELSE PInit(c, ims, i + 1, r.env, r.tab)

MainModule(c) == [imports |-> c.main.imports, defs |-> c.main.defs]

\* [k |-> "ok", v, tab] | Err | Oom
Link(c) ==
  IF InitOom(c) THEN Oom("init module outside the sandbox")
  ELSE
  LET h == PInit(c, InitModules(c), 1, <<>>, <<>>) IN
  IF h.k # "ok" THEN h
  ELSE LET m == PFile(c, MainModule(c), MainFileDir(c), 0, h.env, h.tab, h.env, MaxNesting) IN
       IF m.k # "ok" THEN m
       ELSE LET v == BodyVal(m.env, c.main.refs, 1, <<>>) IN
            IF v.k # "ok" THEN v
            ELSE [k |-> "ok", v |-> v.v, tab |-> AddSnap(c, m.tab, m.env, 0, Len(c.main.defs) + 1)]

-----------------------------------------------------------------------------
(***************************************************************************)
(* 3. THE IMPLEMENTATION as a state machine (compiler.go).                  *)
(*                                                                         *)
(* Switches (TRUE = what the code does today):                              *)
(*  leakFuncs    compileModule compiles an imported module with the whole    *)
(*               scope.funcs of the importer visible (D10)                  *)
(*  leakVars     ... and with the whole scope.variables visible (D10)       *)
(*  slotReuse    pushVariable re-uses the slot of a variable of the same     *)
(*               name and depth: closures compiled in between see the later  *)
(*               store (D13)                                                *)
(*  hideInclVars the deferred truncation scope.variables[:l] also runs for   *)
(*               `include` (alias ""), so data variables of an included file *)
(*               are not visible after it                                   *)
(*  mainSearchCwd a relative `search` of the main program is resolved        *)
(*               against the working directory also when the program comes   *)
(*               from a file (-f)                                           *)
(***************************************************************************)
SwCode == [leakFuncs |-> TRUE, leakVars |-> TRUE, slotReuse |-> TRUE, hideInclVars |-> TRUE, mainSearchCwd |-> TRUE]
SwFixed == [leakFuncs |-> FALSE, leakVars |-> FALSE, slotReuse |-> FALSE, hideInclVars |-> FALSE, mainSearchCwd |-> FALSE]
SwNames == {"leakFuncs", "leakVars", "slotReuse", "hideInclVars", "mainSearchCwd"}

NoErr == [k |-> "none"]

(***************************************************************************)
(* State:                                                                  *)
(*  ph      "run" | "done" | "err"                                         *)
(*  queue   compilation units still to start: the init modules, then main   *)
(*  frames  the Go call stack of compileModule / compile: one frame per      *)
(*          file being compiled: [mod, dir, alias, main, fi, ii, di, lf, lv] *)
(*          ii/di = imports/definitions done, lf/lv = len(scope.funcs) /     *)
(*          len(scope.variables) when the frame was entered (the deferred    *)
(*          closures' captured lengths)                                     *)
(*  funcs   scope.funcs of the main scope: [n, ar, id]  (id = instance)      *)
(*  vars    scope.variables of the main scope: [n, depth, slot]             *)
(*  depth   scope.depth;  nslots = scope.variablecnt                        *)
(*  stores  the opstore instructions emitted, in code order: [slot, v]       *)
(*  insts   compiled definition instances: [tag, res] with res the resolved  *)
(*          references [k |-> "f", i |-> id] | [k |-> "v", i |-> slot]       *)
(*  hf, hv  lengths of funcs / vars when the main program starts             *)
(*  body    resolved references of the main body;  tab: snapshots            *)
(***************************************************************************)
MInit(c) ==
  LET ims == InitModules(c)
      units == [i \in 1..Len(ims) |-> [main |-> FALSE, p |-> ims[i].p, ld |-> ims[i].ld]]
  IN [ph |-> IF InitOom(c) THEN "oom" ELSE "run", err |-> NoErr,
      queue |-> Append(units, [main |-> TRUE]),
      frames |-> <<>>, funcs |-> <<>>, vars |-> <<>>, depth |-> 0, nslots |-> 0,
      stores |-> <<>>, insts |-> <<>>, hf |-> 0, hv |-> 0, body |-> <<>>, tab |-> <<>>]

Frame(mod, dir, alias, main, fi, st) ==
  [mod |-> mod, dir |-> dir, alias |-> alias, main |-> main, fi |-> fi, ii |-> 0, di |-> 0,
   lf |-> Len(st.funcs), lv |-> Len(st.vars)]

Top(st) == st.frames[Len(st.frames)]
SetTop(st, fr) == [st.frames EXCEPT ![Len(st.frames)] = fr]

Fail(st, r) == IF r.k = "oom" THEN [st EXCEPT !.ph = "oom", !.err = r] ELSE [st EXCEPT !.ph = "err", !.err = r.e]

\* which step is next (the name of the action)
StepKind(st) ==
  IF st.ph # "run" THEN "stop"
  ELSE IF st.frames = <<>> THEN "start"
  ELSE LET fr == Top(st) IN
       IF fr.ii < Len(fr.mod.imports)
       THEN (IF fr.mod.imports[fr.ii + 1].k = "data" THEN "importData" ELSE "importModule")
       ELSE IF fr.di < Len(fr.mod.defs) THEN "funcDef"
       ELSE IF fr.main THEN "mainBody" ELSE "endModule"

(***************************************************************************)
(* Lookups (compileFunc / lookupFuncOrVariable / lookupVariable): from the   *)
(* last entry to the first.  The code searches the whole list.  The repair   *)
(* (switch off) stops at the entry point of the innermost module that is     *)
(* being compiled for an `import ... as alias`, except for the base          *)
(* environment (the first hf / hv entries).                                 *)
(***************************************************************************)
RECURSIVE IsoFrame(_, _)
IsoFrame(frames, i) == IF i = 0 THEN 0 ELSE IF frames[i].alias # "" THEN i ELSE IsoFrame(frames, i - 1)

FuncBound(st, sw) == IF sw.leakFuncs THEN 0
                     ELSE LET i == IsoFrame(st.frames, Len(st.frames)) IN IF i = 0 THEN 0 ELSE st.frames[i].lf
VarBound(st, sw) == IF sw.leakVars THEN 0
                    ELSE LET i == IsoFrame(st.frames, Len(st.frames)) IN IF i = 0 THEN 0 ELSE st.frames[i].lv

RECURSIVE FindFunc(_, _, _, _, _, _), FindVar(_, _, _, _, _)
FindFunc(funcs, i, n, ar, bound, base) ==
  IF i = 0 THEN 0
  ELSE IF (i > bound \/ i <= base) /\ funcs[i].n = n /\ funcs[i].ar = ar THEN i
  ELSE FindFunc(funcs, i - 1, n, ar, bound, base)
FindVar(vars, i, n, bound, base) ==
  IF i = 0 THEN 0
  ELSE IF (i > bound \/ i <= base) /\ vars[i].n = n THEN i
  ELSE FindVar(vars, i - 1, n, bound, base)

MLookup(st, sw, r) ==
  IF r.var
  THEN LET i == FindVar(st.vars, Len(st.vars), r.n, VarBound(st, sw), st.hv)
       IN IF i = 0 THEN Undefined(r) ELSE Ok([k |-> "v", i |-> st.vars[i].slot, head |-> r.head])
  ELSE LET i == FindFunc(st.funcs, Len(st.funcs), r.n, r.ar, FuncBound(st, sw), st.hf)
       IN IF i = 0 THEN Undefined(r) ELSE Ok([k |-> "f", i |-> st.funcs[i].id, head |-> r.head])

RECURSIVE MResolve(_, _, _, _, _)
MResolve(st, sw, refs, i, acc) ==
  IF i > Len(refs) THEN Ok(acc)
  ELSE LET r == MLookup(st, sw, refs[i]) IN
       IF r.k # "ok" THEN r ELSE MResolve(st, sw, refs, i + 1, Append(acc, r.v))

MEntry(st, sw, u, selfid) ==
  LET r == MLookup(st, sw, [n |-> u.n, ar |-> u.ar, var |-> u.var, head |-> FALSE]) IN
  IF r.k # "ok" THEN Hidden
  ELSE IF r.v.k = "v" THEN [k |-> "v", slot |-> r.v.i]
  ELSE IF r.v.i = selfid THEN [k |-> "self"]
  ELSE [k |-> "f", t |-> st.insts[r.v.i].tag]
MSnap(c, st, sw, fi, j, selfid) ==
  IF Univ(c) = <<>> THEN st.tab
  ELSE Append(st.tab, [f |-> fi, j |-> j, vis |-> [x \in 1..Len(Univ(c)) |-> MEntry(st, sw, Univ(c)[x], selfid)]])

(***************************************************************************)
(* pushVariable(name): re-use the slot of a variable of the same name at the *)
(* current depth, else createVariable.  Returns [vars, nslots, slot].        *)
(***************************************************************************)
PushVariable(st, sw, name) ==
  LET same == {i \in 1..Len(st.vars) : st.vars[i].n = name /\ st.vars[i].depth = st.depth}
  IN IF sw.slotReuse /\ same # {}
     THEN [vars |-> st.vars, nslots |-> st.nslots, slot |-> st.vars[CHOOSE i \in same : \A j \in same : i <= j].slot]
     ELSE [vars |-> Append(st.vars, [n |-> name, depth |-> st.depth, slot |-> st.nslots + 1]),
           nslots |-> st.nslots + 1, slot |-> st.nslots + 1]

\* --- the steps -------------------------------------------------------------

\* Compile(): LoadInitModules' queries are compiled with compileModule(q, ""),
\* then c.compile(main query)
StepStart(c, st) ==
  LET u == Head(st.queue)
      rest == [st EXCEPT !.queue = Tail(st.queue)]
  IN IF u.main
     THEN [rest EXCEPT !.frames = <<Frame(MainModule(c), NoDir, "", TRUE, 0, st)>>,
                       !.hf = Len(st.funcs), !.hv = Len(st.vars)]
     ELSE IF u.ld.k # "ok" THEN Fail(st, u.ld)
     ELSE [rest EXCEPT !.frames = <<Frame(u.ld.e.mod, Dir(u.p), "", FALSE, u.ld.i, st)>>, !.depth = st.depth + 1]

\* the directory a relative `search` of the current file is resolved against:
\* parseModule rewrote it with the file's directory for a module file; the main
\* query is not rewritten and lookupModule resolves against ""
SearchDir(c, sw, fr) == IF fr.main THEN (IF sw.mainSearchCwd THEN NoDir ELSE MainFileDir(c)) ELSE fr.dir

StepImport(c, sw, st) ==
  LET fr == Top(st)
      imp == fr.mod.imports[fr.ii + 1]
      f == LookupLoop(c, imp.name, ExtOf(imp), SearchOf(c, imp, SearchDir(c, sw, fr)))
      adv == [st EXCEPT !.frames = SetTop(st, [fr EXCEPT !.ii = fr.ii + 1])]
  IN IF Len(st.frames) > MaxNesting THEN Fail(st, Oom("module nesting"))
     ELSE IF f.k # "found" THEN Fail(st, f)
     ELSE LET ld == Load(c, f.p, KindOf(imp)) IN
     IF ld.k # "ok" THEN Fail(st, ld)
     ELSE IF imp.k = "data"
     THEN \* oppush vals; opstore pushVariable($alias); oppush vals; opstore pushVariable($alias::alias)
          LET v == DataValue(ld.e)
              p1 == PushVariable(adv, sw, "$" \o imp.alias)
              s1 == [adv EXCEPT !.vars = p1.vars, !.nslots = p1.nslots, !.stores = Append(adv.stores, [slot |-> p1.slot, v |-> v])]
              p2 == PushVariable(s1, sw, "$" \o imp.alias \o "::" \o imp.alias)
          IN [s1 EXCEPT !.vars = p2.vars, !.nslots = p2.nslots, !.stores = Append(s1.stores, [slot |-> p2.slot, v |-> v])]
     ELSE \* compileModule(q, alias): scope.depth++ and the two deferred closures
          [adv EXCEPT !.frames = Append(adv.frames, Frame(ld.e.mod, Dir(f.p), IF imp.k = "import" THEN imp.alias ELSE "", FALSE, ld.i, st)),
                      !.depth = st.depth + 1]

\* compileFuncDef: the funcinfo is appended first (recursion), then the body is compiled
StepFuncDef(c, sw, st) ==
  LET fr == Top(st)
      d == fr.mod.defs[fr.di + 1]
      id == Len(st.insts) + 1
      s1 == [st EXCEPT !.funcs = Append(st.funcs, [n |-> d.name, ar |-> d.ar, id |-> id]),
                       !.frames = SetTop(st, [fr EXCEPT !.di = fr.di + 1])]
      r == MResolve(s1, sw, d.refs, 1, <<>>)
  IN IF r.k # "ok" THEN Fail(st, r)
     ELSE [s1 EXCEPT !.insts = Append(st.insts, [tag |-> d.tag, res |-> r.v]),
                     !.tab = MSnap(c, [s1 EXCEPT !.insts = Append(st.insts, [tag |-> d.tag, res |-> r.v])], sw, fr.fi, fr.di + 1, id)]

\* the deferred closures of compileModule, in LIFO order: rename scope.funcs[l:]
\* to alias::name (when there is an alias), then depth-- and scope.variables[:l]
StepEndModule(c, sw, st) ==
  LET fr == Top(st)
      renamed == [i \in 1..Len(st.funcs) |->
                    IF fr.alias # "" /\ i > fr.lf THEN [st.funcs[i] EXCEPT !.n = fr.alias \o "::" \o st.funcs[i].n]
                    ELSE st.funcs[i]]
      truncate == sw.hideInclVars \/ fr.alias # ""
  IN [st EXCEPT !.funcs = renamed,
                !.vars = IF truncate THEN SubSeq(st.vars, 1, fr.lv) ELSE st.vars,
                !.depth = st.depth - 1,
                !.frames = FrontOf(st.frames)]

StepMainBody(c, sw, st) ==
  LET r == MResolve(st, sw, c.main.refs, 1, <<>>) IN
  IF r.k # "ok" THEN Fail(st, r)
  ELSE [st EXCEPT !.ph = "done", !.body = r.v,
                  !.tab = MSnap(c, st, sw, 0, Len(c.main.defs) + 1, 0)]

MStep(c, sw, st) ==
  LET kind == StepKind(st) IN
  CASE kind = "start" -> StepStart(c, st)
    [] kind \in {"importData", "importModule"} -> StepImport(c, sw, st)
    [] kind = "funcDef" -> StepFuncDef(c, sw, st)
    [] kind = "endModule" -> StepEndModule(c, sw, st)
    [] kind = "mainBody" -> StepMainBody(c, sw, st)
    [] OTHER -> st

RECURSIVE MRunFrom(_, _, _)
MRunFrom(c, sw, st) == IF st.ph # "run" THEN st ELSE MRunFrom(c, sw, MStep(c, sw, st))
MRun(c, sw) == MRunFrom(c, sw, MInit(c))

(***************************************************************************)
(* Execution of the compiled program: all stores run first (they precede     *)
(* the body in the code; definitions are jumped over), so a variable slot    *)
(* holds the value of its LAST store when any function body runs.           *)
(***************************************************************************)
RECURSIVE LastStore(_, _, _)
LastStore(stores, i, slot) == IF i = 0 THEN Loop ELSE IF stores[i].slot = slot THEN stores[i].v ELSE LastStore(stores, i - 1, slot)
SlotVal(st, slot) == LastStore(st.stores, Len(st.stores), slot)

RECURSIVE IVal(_, _), IRefs(_, _, _, _, _)
IRefs(st, self, res, i, acc) ==
  IF i > Len(res) THEN Ok(A(acc))
  ELSE LET x == res[i]
           v == IF x.k = "v" THEN Ok(SlotVal(st, x.i))
                ELSE IF x.i >= self /\ self # 0 THEN Oom("self reference")
                ELSE IVal(st, x.i)
       IN IF v.k # "ok" THEN v
          ELSE LET w == IF x.head THEN HeadOf(v.v) ELSE v IN
               IF w.k # "ok" THEN w ELSE IRefs(st, self, res, i + 1, Append(acc, w.v))
IVal(st, id) == IRefs(st, id, st.insts[id].res, 1, <<S(st.insts[id].tag)>>)

\* the snapshots with variable slots replaced by what they hold at run time
FinalTab(st) ==
  [x \in 1..Len(st.tab) |->
     [st.tab[x] EXCEPT !.vis = [y \in 1..Len(st.tab[x].vis) |->
        LET e == st.tab[x].vis[y] IN IF e.k = "v" THEN [k |-> "v", t |-> SlotVal(st, e.slot).a[1].s] ELSE e]]]

\* [k |-> "ok", v, tab] | Err | Oom : same shape as Link
MResult(st) ==
  IF st.ph = "oom" THEN st.err
  ELSE IF st.ph = "err" THEN Err(st.err)
  ELSE LET v == IRefs(st, 0, st.body, 1, <<>>) IN
       IF v.k # "ok" THEN v ELSE [k |-> "ok", v |-> v.v, tab |-> FinalTab(st)]

Impl(c, sw) == MResult(MRun(c, sw))

-----------------------------------------------------------------------------
(***************************************************************************)
(* 4. modulemeta:  "name" | modulemeta  loads the module through the search  *)
(* list (no import metadata), and returns its metadata object plus            *)
(*   defs: the name/arity strings of its definitions not starting with "_",   *)
(*         sorted by (name, arity)                                           *)
(*   deps: for every import, in order: its metadata (with `search` as         *)
(*         rewritten by parseModule: resolved against the module's directory) *)
(*         plus relpath, as (without $), is_data.                            *)
(***************************************************************************)
RECURSIVE CpLess(_, _)
CpLess(a, b) == IF b = <<>> THEN FALSE ELSE IF a = <<>> THEN TRUE
                ELSE IF a[1] # b[1] THEN a[1] < b[1] ELSE CpLess(Tail(a), Tail(b))
DefLess(x, y) == CpLess(x.cp, y.cp) \/ (x.cp = y.cp /\ x.ar < y.ar)

RECURSIVE Insert(_, _), SortDefs(_)
Insert(sorted, d) == IF sorted = <<>> THEN <<d>>
                     ELSE IF DefLess(d, sorted[1]) THEN <<d>> \o sorted
                     ELSE <<sorted[1]>> \o Insert(Tail(sorted), d)
SortDefs(ds) == IF ds = <<>> THEN <<>> ELSE Insert(SortDefs(FrontOf(ds)), LastOf(ds))

ObjOf(rec, field) == IF field \in DOMAIN rec THEN rec[field].o ELSE <<>>   \* <<>> is the empty function

DepOf(c, imp, dir) ==
  LET extra == ObjOf(imp, "extra")
      withSearch == IF "search" \in DOMAIN imp
                    THEN LET p == ResolvePath(c, imp.search, dir) IN ("search" :> S(Render(c, p))) @@ extra
                    ELSE extra
      withAs == IF imp.k = "include" THEN withSearch ELSE ("as" :> S(imp.alias)) @@ withSearch
  IN O(("relpath" :> S(JoinStr(imp.name, "/"))) @@ ("is_data" :> B(imp.k = "data")) @@ withAs)

ModuleMeta(c, name) ==
  LET f == LookupLoop(c, name, ".jq", NoDir) IN
  IF f.k # "found" THEN f
  ELSE LET ld == Load(c, f.p, "jq") IN
  IF ld.k # "ok" THEN ld
  ELSE LET mod == ld.e.mod
           pub == SelectSeq(mod.defs, LAMBDA d : d.cp[1] # 95)
           sorted == SortDefs(pub)
           defs == A([i \in 1..Len(sorted) |-> S(sorted[i].name \o "/" \o ToString(sorted[i].ar))])
           deps == A([i \in 1..Len(mod.imports) |-> DepOf(c, mod.imports[i], Dir(f.p))])
       IN Ok(O(("defs" :> defs) @@ ("deps" :> deps) @@ ObjOf(mod, "meta")))

-----------------------------------------------------------------------------
(***************************************************************************)
(* The whole case: what the property prescribes, what the code-level         *)
(* machine computes.  Results without the tables.                           *)
(***************************************************************************)
IsMetaCase(c) == "meta" \in DOMAIN c.main
Strip(r) == IF r.k = "ok" THEN Ok(r.v) ELSE r

Spec(c) == IF IsMetaCase(c) THEN ModuleMeta(c, c.main.meta) ELSE Strip(Link(c))
Code(c, sw) == IF IsMetaCase(c) THEN ModuleMeta(c, c.main.meta) ELSE Strip(Impl(c, sw))
=============================================================================
