------------------------------- MODULE Dates -------------------------------
(***************************************************************************)
(* Civil-calendar arithmetic of the proleptic Gregorian calendar on whole   *)
(* seconds (gmtime / mktime / todate / fromdate of func.go, which delegate  *)
(* to Go's time package): days <-> (year, month, day), weekday, day of year,*)
(* the broken-down array of gmtime and the ISO-8601 text of todate.          *)
(* Epoch seconds reach +-2.5*10^11 (years 1..9999): beyond TLC's integers,   *)
(* so an epoch is (days, second of day) with days = floor(epoch / 86400).    *)
(***************************************************************************)
EXTENDS Integers, Sequences

FDiv(a, b) == IF a >= 0 THEN a \div b ELSE 0 - ((0 - a + b - 1) \div b)     \* floor division, b > 0

\* days since 1970-01-01 -> [y, m (1..12), d]
CivilFromDays(days) ==
  LET z == days + 719468
      era == FDiv(z, 146097)
      doe == z - era * 146097
      yoe == (doe - doe \div 1460 + doe \div 36524 - doe \div 146096) \div 365
      y0 == yoe + era * 400
      doy == doe - (365 * yoe + yoe \div 4 - yoe \div 100)
      mp == (5 * doy + 2) \div 153
      d == doy - (153 * mp + 2) \div 5 + 1
      m == IF mp < 10 THEN mp + 3 ELSE mp - 9
  IN [y |-> IF m <= 2 THEN y0 + 1 ELSE y0, m |-> m, d |-> d]

DaysFromCivil(y, m, d) ==
  LET y1 == IF m <= 2 THEN y - 1 ELSE y
      era == FDiv(y1, 400)
      yoe == y1 - era * 400
      mp == IF m > 2 THEN m - 3 ELSE m + 9
      doy == (153 * mp + 2) \div 5 + d - 1
      doe == yoe * 365 + yoe \div 4 - yoe \div 100 + doy
  IN era * 146097 + doe - 719468

Weekday(days) == (((days + 4) % 7) + 7) % 7            \* 0 = Sunday; 1970-01-01 was a Thursday
YearDay(days) == LET c == CivilFromDays(days) IN days - DaysFromCivil(c.y, 1, 1)

\* gmtime: [year, month - 1, day, hour, minute, second, weekday, yearday]
Gmtime(days, sod) ==
  LET c == CivilFromDays(days) IN
  <<c.y, c.m - 1, c.d, sod \div 3600, (sod % 3600) \div 60, sod % 60, Weekday(days), YearDay(days)>>
\* mktime of such an array: [days, sod]
Mktime(a) == [days |-> DaysFromCivil(a[1], a[2] + 1, a[3]), sod |-> a[4] * 3600 + a[5] * 60 + a[6]]

Pad(n, w) == LET RECURSIVE P(_, _) P(x, k) == IF k = 0 THEN <<>> ELSE Append(P(x \div 10, k - 1), 48 + (x % 10)) IN P(n, w)
\* todate: "YYYY-MM-DDTHH:MM:SSZ" as code points (years 0..9999)
DateText(days, sod) ==
  LET g == Gmtime(days, sod) IN
  Pad(g[1], 4) \o <<45>> \o Pad(g[2] + 1, 2) \o <<45>> \o Pad(g[3], 2) \o <<84>> \o Pad(g[4], 2) \o <<58>> \o Pad(g[5], 2) \o <<58>> \o Pad(g[6], 2) \o <<90>>
\* fromdate of that text
Num2(s, i) == (s[i] - 48) * 10 + (s[i + 1] - 48)
ParseDate(s) == Mktime(<<Num2(s, 1) * 100 + Num2(s, 3), Num2(s, 6) - 1, Num2(s, 9), Num2(s, 12), Num2(s, 15), Num2(s, 18), 0, 0>>)

MinDay == DaysFromCivil(1, 1, 1)          \* -719162
MaxDay == DaysFromCivil(9999, 12, 31)     \* 2932896
=============================================================================
