CONSTANTS
  MaxNodes = 5
  MaxDocs = 3
INIT Init
NEXT Next
INVARIANTS NoPanic StackSync PathShape OutIsPrefix Final
CHECK_DEADLOCK TRUE
