SPECIFICATION Spec
CONSTANTS
  MaxLen = 5
INVARIANTS DfaIsScanner ScannerIsRegex TonumberIsRegex PrefixToken
CHECK_DEADLOCK FALSE
