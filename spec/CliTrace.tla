------------------------------ MODULE CliTrace ------------------------------
(***************************************************************************)
(* Trace specification of C15.  Every record of the trace is one execution  *)
(* of the REAL cmd/gojq binary:                                             *)
(*   [id, sc |-> scenario, obs |-> [stdout, stderr, exit]]                  *)
(* where the scenario's events are either scripted (model -> code: the      *)
(* inputs and a fixed interpreter query make the library yield them) or     *)
(* recorded from the library run on the same parsed inputs (code -> model). *)
(* TLC runs the machine of Cli.tla from the scenario of every record, with  *)
(* all invariants of the property on, and at the terminal state compares    *)
(* what the machine wrote with what the binary wrote; one verdict line per  *)
(* record is appended to VERIF_OUT:                                         *)
(*    agree | mismatch (with the machine's stdout/stderr/exit) | oom        *)
(***************************************************************************)
EXTENDS Cli, Json, IOUtils, CSV

Trace == ndJsonDeserialize(IOEnv.VERIF_TRACE)

VARIABLES tid,       \* index of the record this behaviour replays
          emitted    \* its verdict has been written

\* ---- out of model: records the specification does not decide ---------------
EventOK(ev) == CASE ev.k = "val" -> Renderable(ev.v)
                 [] ev.k = "halt" -> Renderable(ev.v) /\ ev.c > -1000000 /\ ev.c < 1000000
                 [] ev.k \in {"dbg", "stderr"} -> Renderable(ev.v)
                 [] ev.k = "err" -> ("c" \in DOMAIN ev => (ev.c > -1000000 /\ ev.c < 1000000))
                 [] OTHER -> FALSE
RunOK(run) == \A i \in 1..Len(run) : EventOK(run[i])
InModel(rec) == /\ "oom" \notin DOMAIN rec
                /\ \A i \in 1..Len(rec.sc.docs) : RunOK(rec.sc.docs[i])
                /\ RunOK(rec.sc.onull) /\ RunOK(rec.sc.oslurp)

\* ---- matching the recorded stderr text against the diagnostics -------------
HasAt(text, pos, s) == pos + Len(s) - 1 <= Len(text) /\ SubSeq(text, pos, pos + Len(s) - 1) = s
RECURSIVE MatchFrom(_, _, _, _)
MatchFrom(items, i, text, pos) ==
  IF i > Len(items) THEN pos = Len(text) + 1
  ELSE LET it == items[i] IN
    CASE it.k = "exact" -> HasAt(text, pos, it.s) /\ MatchFrom(items, i + 1, text, pos + Len(it.s))
      [] it.k = "line" -> /\ HasAt(text, pos, it.p)
                          /\ LET nl == FindCp(text, <<10>>, pos + Len(it.p)) IN
                             nl # 0 /\ MatchFrom(items, i + 1, text, nl + 1)
      [] it.k = "rest" -> /\ HasAt(text, pos, it.p)
                          /\ i = Len(items)
                          /\ text[Len(text)] = 10
MatchDiag(items, text) == MatchFrom(items, 1, text, 1)

Parked == [args |-> <<[k |-> "pos"]>>, query |-> "ok", docs |-> <<>>, bad |-> FALSE, onull |-> <<>>, oslurp |-> <<>>]

TraceInit ==
  \E i \in 1..Len(Trace) :
    /\ tid = i
    /\ emitted = FALSE
    /\ IF InModel(Trace[i]) THEN InitWith(Trace[i].sc)
       ELSE \* parked in the final state of the empty scenario; the verdict is "oom"
            /\ sc = Parked /\ exp = Expected(Parked)
            /\ pc = "done" /\ exit = 0 /\ opts = DefaultOpts
            /\ inputs = <<>> /\ events = <<>> /\ stdout = <<>> /\ stderr = <<>> /\ outvals = <<>>
            /\ lastStatus = -1 /\ err = NoErr /\ halted = FALSE

Verdict ==
  LET rec == Trace[tid] IN
  IF ~InModel(rec) THEN [id |-> rec.id, v |-> "oom"]
  ELSE LET okOut == rec.obs.stdout = stdout
           okErr == MatchDiag(stderr, rec.obs.stderr)
           okExit == rec.obs.exit = exit
       IN IF okOut /\ okErr /\ okExit
          THEN [id |-> rec.id, v |-> "agree", n |-> Len(outvals), exit |-> exit]
          ELSE [id |-> rec.id, v |-> "mismatch", okOut |-> okOut, okErr |-> okErr, okExit |-> okExit,
                exp |-> [stdout |-> stdout, stderr |-> stderr, exit |-> exit]]

\* the terminal step of every behaviour: write the verdict (once)
Emit ==
  /\ pc = "done" /\ ~emitted
  /\ emitted' = TRUE
  /\ CSVWrite("%1$s", <<ToJson(Verdict)>>, IOEnv.VERIF_OUT)
  /\ UNCHANGED <<vars, tid>>

TraceNext == \/ (pc # "done" /\ Next /\ UNCHANGED <<tid, emitted>>)
             \/ Emit
             \/ (pc = "done" /\ emitted /\ UNCHANGED <<vars, tid, emitted>>)
=============================================================================
