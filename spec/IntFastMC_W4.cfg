SPECIFICATION Spec
CONSTANTS
  W = 4
  MaxDepth = 3
  Bound = 256
  Dense = TRUE
VIEW View
INVARIANT Exactness
INVARIANT StepOK
CHECK_DEADLOCK FALSE
