---------------------------- MODULE JsonValue ----------------------------
(***************************************************************************)
(* The JSON value universe of the specification.                           *)
(*                                                                         *)
(*   Null        [t |-> "null"]                                            *)
(*   Bool(b)     [t |-> "bool", b |-> b]                                   *)
(*   Num(n)      [t |-> "num", n |-> n]         integers with |n| < 2^30   *)
(*   Big(z)      [t |-> "big", neg, d]          all other integers, exact  *)
(*   Frac(n, d)  [t |-> "frac", n, d]           n/d, d a power of two > 1, *)
(*                                              n odd: exactly representable*)
(*                                              doubles                    *)
(*   Flt(f)      [t |-> "float", f |-> text]    "nan", "inf", "-inf", or an*)
(*                                              opaque double the model    *)
(*                                              does not compute with      *)
(*   Str(s)      [t |-> "str", s |-> <<code points>>]                      *)
(*   Arr(a)      [t |-> "arr", a |-> <<values>>]                           *)
(*   Obj(o)      [t |-> "obj", o |-> << <<key, value>>, ... >>]  keys are  *)
(*               code-point sequences, strictly increasing                 *)
(*                                                                         *)
(* A number is ONE mathematical value, whatever Go representation carries  *)
(* it (int, *big.Int, json.Number, float64): the harness normalises.       *)
(***************************************************************************)
EXTENDS Integers, Sequences, FiniteSets, ExactInt

Null == [t |-> "null"]
Bool(b) == [t |-> "bool", b |-> b]
True == Bool(TRUE)
False == Bool(FALSE)
Num(n) == [t |-> "num", n |-> n]
BigZ(z) == [t |-> "big", neg |-> z.neg, d |-> z.d]
Flt(f) == [t |-> "float", f |-> f]
NaN == Flt("nan")
PosInf == Flt("inf")
NegInf == Flt("-inf")
Str(s) == [t |-> "str", s |-> s]
Arr(a) == [t |-> "arr", a |-> a]
Obj(o) == [t |-> "obj", o |-> o]
EmptyArr == Arr(<<>>)
EmptyObj == Obj(<<>>)

IsNumber(v) == v.t \in {"num", "big", "frac", "float"}
IsInt(v) == v.t \in {"num", "big"}
IsContainer(v) == v.t \in {"arr", "obj"}
Truthy(v) == ~(v.t = "null" \/ (v.t = "bool" /\ ~v.b))

\* integers ---------------------------------------------------------------
ToZ(v) == IF v.t = "num" THEN ZFromInt(v.n) ELSE [neg |-> v.neg, d |-> v.d]
FromZ(z) == IF ZIsSmall(z) THEN Num(ZToInt(z)) ELSE BigZ(z)
IntSign(v) == IF v.t = "num" THEN (IF v.n < 0 THEN -1 ELSE IF v.n = 0 THEN 0 ELSE 1) ELSE (IF v.neg THEN -1 ELSE 1)

\* dyadic fractions ---------------------------------------------------------
Abs(n) == IF n < 0 THEN 0 - n ELSE n
RECURSIVE ReduceFrac(_, _)
ReduceFrac(n, d) == IF d > 1 /\ n % 2 = 0 THEN ReduceFrac(n \div 2, d \div 2) ELSE [n |-> n, d |-> d]
\* n/d with d a power of two; caller guarantees |n| < 2^30
MkFrac(n, d) == LET r == ReduceFrac(n, d) IN IF r.d = 1 THEN Num(r.n) ELSE [t |-> "frac", n |-> r.n, d |-> r.d]
\* view of a small number as a fraction
NumerOf(v) == IF v.t = "num" THEN v.n ELSE v.n
DenomOf(v) == IF v.t = "num" THEN 1 ELSE v.d
IsSmallRat(v) == v.t = "frac" \/ (v.t = "num" /\ Abs(v.n) < 1048576)
\* floor and truncation of a fraction
FloorDiv(n, d) == IF n >= 0 THEN n \div d ELSE 0 - ((0 - n + d - 1) \div d)
TruncDiv(n, d) == IF n >= 0 THEN n \div d ELSE 0 - ((0 - n) \div d)

\* the total order ----------------------------------------------------------
TypeIdx(v) == CASE v.t = "null" -> 0
                [] v.t = "bool" -> (IF v.b THEN 2 ELSE 1)
                [] v.t \in {"num", "big", "frac", "float"} -> 3
                [] v.t = "str" -> 4
                [] v.t = "arr" -> 5
                [] v.t = "obj" -> 6

CmpInt(a, b) == IF a < b THEN -1 ELSE IF a = b THEN 0 ELSE 1

RECURSIVE CmpSeqInt(_, _, _)
CmpSeqInt(a, b, i) ==
  IF i > Len(a) \/ i > Len(b) THEN CmpInt(Len(a), Len(b))
  ELSE IF a[i] # b[i] THEN CmpInt(a[i], b[i]) ELSE CmpSeqInt(a, b, i + 1)
CmpCp(a, b) == CmpSeqInt(a, b, 1)

\* Comparison of numbers.  99 = the model does not know (opaque double).
\* gojq: NaN is less than every number, including itself.
CmpNum(a, b) ==
  IF a.t = "float" \/ b.t = "float" THEN
     (CASE a.t = "float" /\ a.f = "nan" -> -1
        [] b.t = "float" /\ b.f = "nan" -> 1
        [] a.t = "float" /\ a.f = "inf" -> (IF b.t = "float" /\ b.f = "inf" THEN 0 ELSE 1)
        [] a.t = "float" /\ a.f = "-inf" -> (IF b.t = "float" /\ b.f = "-inf" THEN 0 ELSE -1)
        [] b.t = "float" /\ b.f = "inf" -> -1
        [] b.t = "float" /\ b.f = "-inf" -> 1
        [] OTHER -> 99)
  ELSE IF a.t = "big" \/ b.t = "big" THEN
     (IF a.t = "frac" THEN (IF b.neg THEN 1 ELSE -1)
      ELSE IF b.t = "frac" THEN (IF a.neg THEN -1 ELSE 1)
      ELSE ZCmp(ToZ(a), ToZ(b)))
  ELSE IF a.t = "num" /\ b.t = "num" THEN CmpInt(a.n, b.n)
  ELSE \* at least one fraction, the other a fraction or a small integer: compare floors then remainders
       LET fa == FloorDiv(NumerOf(a), DenomOf(a))
           fb == FloorDiv(NumerOf(b), DenomOf(b))
       IN IF fa # fb THEN CmpInt(fa, fb)
          ELSE LET ra == NumerOf(a) - fa * DenomOf(a)      \* 0 <= ra < da
                   rb == NumerOf(b) - fb * DenomOf(b)
               IN CmpInt(ra * DenomOf(b), rb * DenomOf(a))

RECURSIVE Cmp(_, _)
Cmp(a, b) ==
  IF TypeIdx(a) # TypeIdx(b) THEN CmpInt(TypeIdx(a), TypeIdx(b))
  ELSE CASE IsNumber(a) -> CmpNum(a, b)
         [] a.t = "str" -> CmpCp(a.s, b.s)
         [] a.t = "arr" ->
              LET RECURSIVE G(_)
                  G(i) == IF i > Len(a.a) \/ i > Len(b.a) THEN CmpInt(Len(a.a), Len(b.a))
                          ELSE LET c == Cmp(a.a[i], b.a[i]) IN IF c # 0 THEN c ELSE G(i + 1)
              IN G(1)
         [] a.t = "obj" ->
              LET RECURSIVE K(_)
                  K(i) == IF i > Len(a.o) \/ i > Len(b.o) THEN CmpInt(Len(a.o), Len(b.o))
                          ELSE LET c == CmpCp(a.o[i][1], b.o[i][1]) IN IF c # 0 THEN c ELSE K(i + 1)
                  RECURSIVE V(_)
                  V(i) == IF i > Len(a.o) THEN 0
                          ELSE LET c == Cmp(a.o[i][2], b.o[i][2]) IN IF c # 0 THEN c ELSE V(i + 1)
              IN LET kc == K(1) IN IF kc # 0 THEN kc ELSE V(1)
         [] OTHER -> 0
\* Cmp returns 99 somewhere inside when an opaque double is met: callers that
\* may see opaque doubles use Known(a) /\ Known(b) first.
RECURSIVE Known(_)
Known(v) == CASE v.t = "float" -> v.f \in {"nan", "inf", "-inf"}
              [] v.t = "arr" -> \A i \in 1..Len(v.a) : Known(v.a[i])
              [] v.t = "obj" -> \A i \in 1..Len(v.o) : Known(v.o[i][2])
              [] OTHER -> TRUE
RECURSIVE HasNaN(_)
HasNaN(v) == CASE v.t = "float" -> v.f = "nan"
               [] v.t = "arr" -> \E i \in 1..Len(v.a) : HasNaN(v.a[i])
               [] v.t = "obj" -> \E i \in 1..Len(v.o) : HasNaN(v.o[i][2])
               [] OTHER -> FALSE
Eq(a, b) == Cmp(a, b) = 0

\* objects: association lists sorted by key -------------------------------
RECURSIVE ObjFindI(_, _, _)
ObjFindI(o, k, i) == IF i > Len(o) THEN 0 ELSE IF o[i][1] = k THEN i ELSE ObjFindI(o, k, i + 1)
ObjFind(o, k) == ObjFindI(o, k, 1)
ObjHas(o, k) == ObjFind(o, k) # 0
ObjGet(o, k) == LET i == ObjFind(o, k) IN IF i = 0 THEN Null ELSE o[i][2]
RECURSIVE ObjPutI(_, _, _, _)
ObjPutI(o, k, v, i) ==
  IF i > Len(o) THEN Append(o, <<k, v>>)
  ELSE LET c == CmpCp(o[i][1], k) IN
       IF c = 0 THEN [o EXCEPT ![i] = <<k, v>>]
       ELSE IF c > 0 THEN SubSeq(o, 1, i - 1) \o << <<k, v>> >> \o SubSeq(o, i, Len(o))
       ELSE ObjPutI(o, k, v, i + 1)
ObjPut(o, k, v) == ObjPutI(o, k, v, 1)
ObjDel(o, k) == LET i == ObjFind(o, k) IN IF i = 0 THEN o ELSE SubSeq(o, 1, i - 1) \o SubSeq(o, i + 1, Len(o))
ObjKeys(o) == [i \in 1..Len(o) |-> Str(o[i][1])]
ObjVals(o) == [i \in 1..Len(o) |-> o[i][2]]
ObjSorted(o) == \A i \in 1..(Len(o) - 1) : CmpCp(o[i][1], o[i + 1][1]) < 0

\* well-formedness of a model value
RECURSIVE WF(_)
WF(v) == CASE v.t = "num" -> v.n > -1073741824 /\ v.n < 1073741824
           [] v.t = "big" -> ~ZIsSmall([neg |-> v.neg, d |-> v.d]) /\ v.d[1] # 0
           [] v.t = "frac" -> v.d > 1 /\ v.n % 2 # 0
           [] v.t = "arr" -> \A i \in 1..Len(v.a) : WF(v.a[i])
           [] v.t = "obj" -> ObjSorted(v.o) /\ \A i \in 1..Len(v.o) : WF(v.o[i][2])
           [] OTHER -> TRUE

\* ASCII helpers for code-point strings -------------------------------------
\* Cp("abc") is not expressible in TLC (no character access): string constants
\* the specification needs are written as code-point tuples through this table.
Ascii == [c \in {"a","b","c","d","e","f","g","h","i","j","k","l","m","n","o","p","q","r","s","t","u","v","w","x","y","z"} |->
            CASE c = "a" -> 97 [] c = "b" -> 98 [] c = "c" -> 99 [] c = "d" -> 100 [] c = "e" -> 101
              [] c = "f" -> 102 [] c = "g" -> 103 [] c = "h" -> 104 [] c = "i" -> 105 [] c = "j" -> 106
              [] c = "k" -> 107 [] c = "l" -> 108 [] c = "m" -> 109 [] c = "n" -> 110 [] c = "o" -> 111
              [] c = "p" -> 112 [] c = "q" -> 113 [] c = "r" -> 114 [] c = "s" -> 115 [] c = "t" -> 116
              [] c = "u" -> 117 [] c = "v" -> 118 [] c = "w" -> 119 [] c = "x" -> 120 [] c = "y" -> 121
              [] c = "z" -> 122]
CpOf(letters) == [i \in 1..Len(letters) |-> Ascii[letters[i]]]
SL(letters) == Str(CpOf(letters))

TypeNameCp(v) == CASE v.t = "null" -> CpOf(<<"n","u","l","l">>)
                   [] v.t = "bool" -> CpOf(<<"b","o","o","l","e","a","n">>)
                   [] IsNumber(v) -> CpOf(<<"n","u","m","b","e","r">>)
                   [] v.t = "str" -> CpOf(<<"s","t","r","i","n","g">>)
                   [] v.t = "arr" -> CpOf(<<"a","r","r","a","y">>)
                   [] v.t = "obj" -> CpOf(<<"o","b","j","e","c","t">>)
=============================================================================
